import sys, random, cProfile, pstats
sys.path.insert(0, "/verif")
from harness import core
from harness.props import C13
cassis = core.load_impl()
scs = list(C13.generate(random.Random(0), "quick"))[::6]
def go():
    for sc in scs:
        obs = C13.run_impl(cassis, sc); C13.oracle(cassis, sc, obs)
cProfile.run("go()", "/tmp/c13.prof")
pstats.Stats("/tmp/c13.prof").sort_stats("cumulative").print_stats(22)
