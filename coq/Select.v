(* Select.v — model of Cas.select / Cas.select_all over histories (cassis/cas.py: View._indices,
   View.add_annotation_to_index / remove_annotation_from_index / get_all_annotations, Cas.add, add_all, remove,
   create_view, get_view, select, select_all, _get_feature_structures, _sort_func; cassis/typesystem.py:
   TypeSystem.create_type, get_type, Type.descendants).  Definitions only; proofs are in SelectProofs.v.

   One control skeleton (handles, views, type tree, name resolution, error kinds) is instantiated twice:
   with the per-type sorted index of Index.v (the mechanism, `cpl`) and with a plain bag of feature structures
   per view (the specification, `apl`).  SelectProofs.v shows that the first refines the second. *)
From Cassis Require Import Base Index.
From Coq Require Import Ascii.
Open Scope Z_scope.

(* ------------------------------------------------------------------ feature structures as the index sees them *)

Definition maxsize : Z := 9223372036854775807.                 (* sys.maxsize *)
(* f_lab stands for id(fs); f_span is (begin, end) when both are ints, None otherwise (no such attributes, unset) *)
Record fs := mkFs { f_lab : Z; f_type : tname; f_span : option (Z * Z) }.
(* _sort_func *)
Definition fs_key (f : fs) : key :=
  match f_span f with
  | Some (b, e) => mkKey b e (f_lab f)
  | None => mkKey maxsize maxsize (f_lab f)
  end.
Definition ent : Type := (tname * key)%type.                    (* what a query returns: concrete type name, key *)
Definition fs_ent (f : fs) : ent := (f_type f, fs_key f).
Definition key_eqb (a b : key) : bool := (kb a =? kb b) && (ke a =? ke b) && (ko a =? ko b).
(* identity of a feature structure: its label (part of the key); type and offsets are compared too so that no
   theorem needs a "one record per label" premise on histories *)
Definition same_fs (f g : fs) : bool := String.eqb (f_type f) (f_type g) && key_eqb (fs_key f) (fs_key g).
Definition is_type (t : tname) (f : fs) : bool := String.eqb (f_type f) t.
Definition keys_of (t : tname) (bag : list fs) : list key := map fs_key (filter (is_type t) bag).

(* ------------------------------------------------------------------ type tree: parent map, newest type first *)

Definition tree := list (tname * option tname).
Definition names (tr : tree) : list tname := map fst tr.
Definition has_type (tr : tree) (n : tname) : bool := memb n (names tr).
Definition parent (tr : tree) (n : tname) : option tname :=
  match alookup n tr with Some p => p | None => None end.
Definition opt_is (p : option tname) (t : tname) : bool :=
  match p with Some q => String.eqb q t | None => false end.
(* Type._children of t: insertion (= creation) order *)
Fixpoint children (tr : tree) (t : tname) : list tname :=
  match tr with
  | [] => []
  | (n, p) :: r => children r t ++ (if opt_is p t then [n] else [])
  end.
Fixpoint concat_opt {A} (l : list (option (list A))) : option (list A) :=
  match l with
  | [] => Some []
  | None :: _ => None
  | Some x :: r => match concat_opt r with Some y => Some (x ++ y) | None => None end
  end.
(* Type.descendants: yield self, then for each child yield from child.descendants.  None = out of fuel *)
Fixpoint desc (fuel : nat) (tr : tree) (t : tname) : option (list tname) :=
  match fuel with
  | O => None
  | S k => option_map (cons t) (concat_opt (map (desc k tr) (children tr t)))
  end.
Definition descendants (tr : tree) (t : tname) : option (list tname) := desc (S (List.length tr)) tr t.

(* the subtype relation, independent of the descendants walk: reflexive-transitive closure of the parent map *)
Inductive sub (tr : tree) : tname -> tname -> Prop :=
| sub_refl a : sub tr a a
| sub_up a p T : parent tr a = Some p -> sub tr p T -> sub tr a T.
(* its decision procedure: walk the supertype chain upwards *)
Fixpoint subb_fuel (fuel : nat) (tr : tree) (a T : tname) : bool :=
  match fuel with
  | O => false
  | S k => String.eqb a T || match parent tr a with Some p => subb_fuel k tr p T | None => false end
  end.
Definition subb (tr : tree) (a T : tname) : bool := subb_fuel (S (List.length tr)) tr a T.

(* well-formed trees: names unique, every supertype declared before its subtype *)
Fixpoint wf_tree (tr : tree) : Prop :=
  match tr with
  | [] => True
  | (n, p) :: r => ~ In n (names r) /\ match p with Some q => In q (names r) | None => True end /\ wf_tree r
  end.
(* ghost rank (proof state only): position counted from the root end *)
Fixpoint rank (tr : tree) (x : tname) : nat :=
  match tr with
  | [] => O
  | (n, _) :: r => if String.eqb n x then S (List.length r) else rank r x
  end.

(* ---- names: Type.short_name, TypeSystem.get_type ---- *)
Fixpoint has_dot (s : string) : bool :=
  match s with EmptyString => false | String c r => Ascii.eqb c "."%char || has_dot r end.
Fixpoint short_name (s : string) : string :=                    (* name.split(".")[-1] *)
  match s with
  | EmptyString => EmptyString
  | String c r => if has_dot r then short_name r else if Ascii.eqb c "."%char then r else s
  end.
Definition resolve (tr : tree) (s : string) : res tname :=
  if has_type tr s then Ok s
  else if has_dot s then Err ETypeNotFound
  else match filter (fun n => String.eqb (short_name n) s) (names tr) with
       | [n] => Ok n
       | _ => Err ETypeNotFound            (* none, or "Multiple types with short name" *)
       end.

(* _INHERITANCE_FINAL_TYPES *)
Definition final_types : list tname :=
  ["uima.cas.BooleanArray"; "uima.cas.ByteArray"; "uima.cas.DoubleArray"; "uima.cas.FloatArray";
   "uima.cas.IntegerArray"; "uima.cas.LongArray"; "uima.cas.ShortArray"; "uima.cas.StringArray"].
(* TypeSystem.create_type: duplicate check (predefined names included), supertype lookup (get_type: short names
   allowed), final check on the resolved supertype, leaf added *)
Definition create_type (tr : tree) (n sup : tname) : res tree :=
  if has_type tr n then Err EValue
  else do p <- resolve tr sup ;; if memb p final_types then Err EValue else Ok ((n, Some p) :: tr).

(* another TypeSystem object, given by the create_type calls made on it so far (name, supertype argument), the
   predefined ones included; a call that raises leaves it as it was *)
Definition root_tree : tree := [("uima.cas.TOP", None)].
Definition foreign_step (tr : tree) (c : tname * tname) : tree :=
  match create_type tr (fst c) (snd c) with Ok tr' => tr' | _ => tr end.
Definition foreign_tree (cts : list (tname * tname)) : tree := fold_left foreign_step cts root_tree.

(* select(type_): a Type object of this type system, a string, or a Type object of another type system.
   Cas.select uses a Type object as it is: no lookup in the type system of the CAS *)
Inductive tsel := ByType (t : tname) | ByName (s : string) | ByForeign (cts : list (tname * tname)) (t : tname).
Definition resolve_sel (tr : tree) (q : tsel) : res tname :=
  match q with
  | ByType t => if has_type tr t then Ok t else Err ETypeNotFound     (* objects come from the type system *)
  | ByName s => resolve tr s
  | ByForeign cts t => if has_type (foreign_tree cts) t then Ok t else Err EIndex   (* an object of that type system:
                                                                     anything else is not a situation Python can be in *)
  end.
(* the tree whose _children the descendants walk follows: that of the type system the Type object belongs to *)
Definition sel_tree (tr : tree) (q : tsel) : tree :=
  match q with ByForeign cts _ => foreign_tree cts | _ => tr end.

(* ------------------------------------------------------------------ the index of one view (mechanism) *)

(* SortedKeyList.remove: bisect_left to the first key >= k; that key must be k (the key contains id(), so the
   following == test succeeds on the first candidate); otherwise ValueError *)
Fixpoint remove_key (k : key) (l : list key) : option (list key) :=
  match l with
  | [] => None
  | x :: r => if key_ltb x k then option_map (cons x) (remove_key k r)
              else if key_eqb x k then Some r else None
  end.
(* View.remove_annotation_from_index: self._indices[type name].remove(fs); the defaultdict creates the empty list *)
Definition idx_remove (f : fs) (idx : index) : index * bool :=
  match alookup (f_type f) idx with
  | None => (aset (f_type f) [] idx, false)
  | Some l => match remove_key (fs_key f) l with
              | Some l' => (aset (f_type f) l' idx, true)
              | None => (idx, false)
              end
  end.
(* reading type_index[name] on a defaultdict creates a missing entry *)
Definition touch (t : tname) (idx : index) : index :=
  match alookup t idx with Some _ => idx | None => aset t [] idx end.
Definition select_in (types : list tname) (idx : index) : list ent :=
  flat_map (fun t => map (pair t) (idx_get t idx)) types.
(* View.get_all_annotations: the per-type lists in dict order *)
Definition flatten (idx : index) : list ent := flat_map (fun p => map (pair (fst p)) (snd p)) idx.

Fixpoint snodupb (l : list string) : bool :=
  match l with [] => true | x :: r => negb (memb x r) && snodupb r end.
Definition same_set (a b : list tname) : bool :=
  snodupb a && forallb (fun x => memb x b) a && forallb (fun x => memb x a) b.
(* iteration order of the set {c.name for c in type_.descendants}: any arrangement `order` of the descendant names
   is used as given; anything else falls back to the order of the walk *)
Definition iter_order (order D : list tname) : list tname := if same_set order D then order else D.
(* Cas._get_feature_structures *)
Definition idx_select (tr : tree) (T : tname) (order : list tname) (idx : index) : option (index * list ent) :=
  match descendants tr T with
  | None => None
  | Some D => let o := iter_order order D in
              Some (fold_left (fun i t => touch t i) o idx, select_in o idx)
  end.

(* ------------------------------------------------------------------ the bag of one view (specification) *)

Fixpoint remove_first (p : fs -> bool) (l : list fs) : list fs :=
  match l with [] => [] | x :: r => if p x then r else x :: remove_first p r end.

(* ------------------------------------------------------------------ histories *)

Inductive op :=
| OAdd (h : nat) (f : fs)                                  (* add, add_annotation *)
| OAddAll (h : nat) (l : list fs)                          (* add_all, add_annotations *)
| ORemove (h : nat) (f : fs)                               (* remove, remove_annotation *)
| OCreateView (n : string)
| OGetView (n : string)
| OCreateType (n sup : tname)
| OSelect (h : nat) (q : tsel) (order : list tname)
| OSelectAll (h : nat).
Inductive obs := ODone | OErr (e : err) | OHandle (h : nat) | OList (l : list ent) | OFuel.

(* what a view holds and how it is updated and queried *)
Record payload (P : Type) := mkPayload {
  p_empty : P;
  p_add : fs -> P -> P;
  p_remove : fs -> P -> P * bool;
  p_select : tree -> tname -> list tname -> P -> option (P * list ent);
  p_select_all : P -> list ent }.
Arguments p_empty {P}. Arguments p_add {P}. Arguments p_remove {P}. Arguments p_select {P}. Arguments p_select_all {P}.

Definition cpl : payload index :=
  mkPayload index [] (fun f idx => idx_add (f_type f) (fs_key f) idx) idx_remove idx_select flatten.
Definition apl : payload (list fs) :=
  mkPayload (list fs) []
    (fun f b => b ++ [f])
    (fun f b => (remove_first (same_fs f) b, existsb (same_fs f) b))
    (fun tr T _ b => Some (b, map fs_ent (filter (fun f => subb tr (f_type f) T) b)))
    (map fs_ent).

(* s_views: Cas._views (dict, insertion order); s_handles: the Cas objects handed out so far, each one is its
   _current_view name (Cas._copy shares everything else); s_lenient: Cas._lenient *)
Record state (P : Type) := mkSt {
  s_lenient : bool; s_tree : tree; s_views : list (string * P); s_handles : list string }.
Arguments mkSt {P}. Arguments s_lenient {P}. Arguments s_tree {P}. Arguments s_views {P}. Arguments s_handles {P}.

Section Machine.
Context {P : Type} (pl : payload P).

Definition init (lenient : bool) : state P :=
  mkSt lenient [("uima.cas.TOP", None)] [("_InitialView", p_empty pl)] ["_InitialView"].

Definition cur_view (st : state P) (h : nat) : option (string * P) :=
  match nth_error (s_handles st) h with
  | None => None
  | Some v => match alookup v (s_views st) with Some p => Some (v, p) | None => None end
  end.
Definition put_view (st : state P) (v : string) (p : P) : state P :=
  mkSt (s_lenient st) (s_tree st) (aset v p (s_views st)) (s_handles st).
(* Cas.add: the lenient check; then (id handling and sofa assignment, which no query here looks at) insertion *)
Definition addable (st : state P) (f : fs) : bool := s_lenient st || has_type (s_tree st) (f_type f).
(* Cas.add_all: a loop over add; a failing add ends it, the earlier ones stay *)
Fixpoint add_loop (ok : fs -> bool) (l : list fs) (p : P) : P * obs :=
  match l with
  | [] => (p, ODone)
  | f :: r => if ok f then add_loop ok r (p_add pl f p) else (p, OErr ERuntime)
  end.

Definition step (st : state P) (o : op) : state P * obs :=
  match o with
  | OAdd h f =>
      match cur_view st h with
      | None => (st, OErr EIndex)                     (* no such handle: not a situation Python code can be in *)
      | Some (v, p) => let (p', ob) := add_loop (addable st) [f] p in (put_view st v p', ob)
      end
  | OAddAll h l =>
      match cur_view st h with
      | None => (st, OErr EIndex)
      | Some (v, p) => let (p', ob) := add_loop (addable st) l p in (put_view st v p', ob)
      end
  | ORemove h f =>
      match cur_view st h with
      | None => (st, OErr EIndex)
      | Some (v, p) => let (p', ok) := p_remove pl f p in (put_view st v p', if ok then ODone else OErr EValue)
      end
  | OCreateView n =>
      if memb n (akeys (s_views st)) then (st, OErr EValue)
      else (mkSt (s_lenient st) (s_tree st) (s_views st ++ [(n, p_empty pl)]) (s_handles st ++ [n]),
            OHandle (List.length (s_handles st)))
  | OGetView n =>
      if memb n (akeys (s_views st))
      then (mkSt (s_lenient st) (s_tree st) (s_views st) (s_handles st ++ [n]), OHandle (List.length (s_handles st)))
      else (st, OErr EKey)
  | OCreateType n sup =>
      match create_type (s_tree st) n sup with
      | Ok tr' => (mkSt (s_lenient st) tr' (s_views st) (s_handles st), ODone)
      | Err e => (st, OErr e)
      | OutOfFuel => (st, OFuel)
      end
  | OSelect h q order =>
      match cur_view st h with
      | None => (st, OErr EIndex)
      | Some (v, p) =>
          match resolve_sel (s_tree st) q with
          | Err e => (st, OErr e)
          | OutOfFuel => (st, OFuel)
          | Ok T => match p_select pl (sel_tree (s_tree st) q) T order p with
                    | None => (st, OFuel)
                    | Some (p', l) => (put_view st v p', OList l)
                    end
          end
      end
  | OSelectAll h =>
      match cur_view st h with
      | None => (st, OErr EIndex)
      | Some (v, p) => (st, OList (p_select_all pl p))
      end
  end.

Fixpoint run (st : state P) (ops : list op) : state P * list obs :=
  match ops with
  | [] => (st, [])
  | o :: r => let (st1, ob) := step st o in let (st2, obs) := run st1 r in (st2, ob :: obs)
  end.
End Machine.

(* the mechanism and the specification, from a fresh CAS *)
Definition crun (lenient : bool) (ops : list op) : state index * list obs := run cpl (init cpl lenient) ops.
Definition arun (lenient : bool) (ops : list op) : state (list fs) * list obs := run apl (init apl lenient) ops.
Definition bag_of (a : state (list fs)) (v : string) : list fs :=
  match alookup v (s_views a) with Some b => b | None => [] end.

(* query results agree up to the order in which the type names were iterated and ties were broken *)
Definition obs_equiv (x y : obs) : Prop :=
  match x, y with OList l, OList l' => Permutation l l' | _, _ => x = y end.

(* the handle an operation goes through, if any *)
Definition op_handle (o : op) : option nat :=
  match o with
  | OAdd h _ | OAddAll h _ | ORemove h _ | OSelect h _ _ | OSelectAll h => Some h
  | OCreateView _ | OGetView _ | OCreateType _ _ => None
  end.
