(* TypecheckProofs.v — theorems about the model of typecheck in Typecheck.v, for all schemas and CASes:
   typecheck_spec (exactly one error per violating element of a reachable owner, carrying the owner's id),
   typecheck_total (no exception on well-formed CASes), typecheck_clean_iff (empty result iff no violating element). *)
From Cassis Require Import Base Heap Schema Reach ReachProofs Typecheck.
From Coq Require Import ZifyBool.
Open Scope Z_scope.

(* ------------------------------------------------------------------------------------------------ one feature structure *)

Lemma elem_violates_spec s h et v b : elem_violates s h et v = Ok b -> b = violating s h et v.
Proof.
  unfold elem_violates, violating. destruct v; try discriminate; [intros H; inversion H; reflexivity|].
  destruct (hget h o) as [ef|]; [|discriminate]. unfold subsumes.
  destruct (sch_find s (o_type ef)); cbn [bind]; [|discriminate]. intros H. inversion H. reflexivity.
Qed.

Lemma elements_of_arr s h v l : elements_of s h v = Ok l -> arr_elems h v = l.
Proof.
  unfold elements_of, arr_elems. destruct v; try discriminate. destruct (hget h o) as [af|]; [|discriminate].
  unfold own_elements. destruct (has_feat s (o_type af) "elements"); [|discriminate].
  destruct (slot af "elements") eqn:E; cbn [falsy]; intros H;
    try (inversion H; reflexivity);
    try (match type of H with (if ?c then _ else _) = _ => destruct c end; inversion H; reflexivity).
Qed.

Definition elem_step (s : schema) (h : heap) (et : tname) (x : option xid) (acc : res (list (option xid))) (e : val) :=
  do a <- acc ;; do b <- elem_violates s h et e ;; Ok (if b then a ++ [x] else a).
Lemma elem_fold_err s h et x l e : fold_left (elem_step s h et x) l (Err e) = Err e.
Proof. apply fold_res_err. reflexivity. Qed.
Lemma elem_fold_oof s h et x l : fold_left (elem_step s h et x) l OutOfFuel = OutOfFuel.
Proof. apply fold_res_oof. reflexivity. Qed.

Lemma elem_fold_spec s h et x l : forall acc r,
  fold_left (elem_step s h et x) l (Ok acc) = Ok r -> r = acc ++ map (fun _ => x) (filter (violating s h et) l).
Proof.
  induction l as [|e l IH]; intros acc r H; cbn [fold_left] in H.
  - inversion H. cbn [filter map]. rewrite app_nil_r. reflexivity.
  - unfold elem_step at 2 in H. cbn [bind] in H.
    destruct (elem_violates s h et e) as [b| |] eqn:E; cbn [bind] in H;
      [|rewrite elem_fold_err in H; discriminate|rewrite elem_fold_oof in H; discriminate].
    apply elem_violates_spec in E. cbn [filter]. rewrite <- E. destruct b.
    + rewrite (IH _ _ H). cbn [map]. rewrite <- app_assoc. reflexivity.
    + exact (IH _ _ H).
Qed.

Definition feat_viol (s : schema) (h : heap) (f : fsobj) (fd : fdecl) : list val :=
  if String.eqb (fd_range fd) T_FS_ARRAY then filter (violating s h (elem_type fd)) (arr_elems h (slot f (fd_name fd))) else [].

Lemma check_feature_spec s h f fd r : check_feature s h f fd = Ok r -> r = map (fun _ => o_id f) (feat_viol s h f fd).
Proof.
  unfold check_feature, feat_viol. destruct (String.eqb (fd_range fd) T_FS_ARRAY); [|intros H; inversion H; reflexivity].
  assert (Hgen : forall v, (do l <- elements_of s h v ;; fold_left (elem_step s h (elem_type fd) (o_id f)) l (Ok [])) = Ok r ->
                           r = map (fun _ => o_id f) (filter (violating s h (elem_type fd)) (arr_elems h v))).
  { intros v H. destruct (elements_of s h v) as [l| |] eqn:E; cbn [bind] in H; try discriminate.
    rewrite (elements_of_arr _ _ _ _ E). apply elem_fold_spec in H. exact H. }
  destruct (slot f (fd_name fd)) eqn:Ev; try (apply Hgen).
  intros H. inversion H. reflexivity.
Qed.

Definition feat_step (s : schema) (h : heap) (f : fsobj) (acc : res (list (option xid))) (fd : fdecl) :=
  do a <- acc ;; do b <- check_feature s h f fd ;; Ok (a ++ b).
Lemma feat_fold_err s h f l e : fold_left (feat_step s h f) l (Err e) = Err e.
Proof. apply fold_res_err. reflexivity. Qed.
Lemma feat_fold_oof s h f l : fold_left (feat_step s h f) l OutOfFuel = OutOfFuel.
Proof. apply fold_res_oof. reflexivity. Qed.
Lemma feat_fold_spec s h f feats : forall acc r,
  fold_left (feat_step s h f) feats (Ok acc) = Ok r -> r = acc ++ map (fun _ => o_id f) (flat_map (feat_viol s h f) feats).
Proof.
  induction feats as [|fd feats IH]; intros acc r H; cbn [fold_left] in H.
  - inversion H. cbn [flat_map map]. rewrite app_nil_r. reflexivity.
  - unfold feat_step at 2 in H. cbn [bind] in H.
    destruct (check_feature s h f fd) as [b| |] eqn:E; cbn [bind] in H;
      [|rewrite feat_fold_err in H; discriminate|rewrite feat_fold_oof in H; discriminate].
    apply check_feature_spec in E. rewrite (IH _ _ H), E. cbn [flat_map]. rewrite map_app, app_assoc. reflexivity.
Qed.

Lemma viol_feat s h f : viol s h f = flat_map (feat_viol s h f) (sch_feats s (o_type f)).
Proof. reflexivity. Qed.

Theorem typecheck_fs_spec : forall s h f r, typecheck_fs s h f = Ok r -> r = map (fun _ => o_id f) (viol s h f).
Proof.
  intros s h f r H. unfold typecheck_fs in H. rewrite viol_feat. unfold sch_feats.
  destruct (sch_find s (o_type f)) as [t|]; [|discriminate].
  apply (feat_fold_spec s h f (ti_feats t) [] r) in H. exact H.
Qed.

(* totality of the per-structure check under the premises *)
Lemma elem_violates_total s h et v : tc_elem_okb s h v = true -> exists b, elem_violates s h et v = Ok b.
Proof.
  unfold tc_elem_okb, elem_violates. destruct v; try discriminate; [intros _; eexists; reflexivity|].
  destruct (hget h o) as [ef|]; [|discriminate]. unfold subsumes.
  destruct (sch_find s (o_type ef)); [|discriminate]. intros _. cbn [bind]. eexists; reflexivity.
Qed.
Lemma elem_fold_total s h et x l : forallb (tc_elem_okb s h) l = true -> forall acc, exists r, fold_left (elem_step s h et x) l (Ok acc) = Ok r.
Proof.
  induction l as [|e l IH]; intros H acc; cbn [fold_left]; [eexists; reflexivity|].
  cbn [forallb] in H. apply andb_true_iff in H. destruct H as [He Hl].
  destruct (elem_violates_total s h et e He) as (b & Eb). unfold elem_step at 2. cbn [bind]. rewrite Eb. cbn [bind]. apply IH. exact Hl.
Qed.
Lemma check_feature_total s h f fd : tc_feat_okb s h f fd = true -> exists r, check_feature s h f fd = Ok r.
Proof.
  unfold tc_feat_okb, check_feature. destruct (String.eqb (fd_range fd) T_FS_ARRAY); [|intros _; eexists; reflexivity].
  assert (Hgen : forall v, match elements_of s h v with Ok l => forallb (tc_elem_okb s h) l | _ => false end = true ->
                 exists r, (do l <- elements_of s h v ;; fold_left (elem_step s h (elem_type fd) (o_id f)) l (Ok [])) = Ok r).
  { intros v H. destruct (elements_of s h v) as [l| |]; try discriminate. cbn [bind]. apply elem_fold_total. exact H. }
  destruct (slot f (fd_name fd)); try (apply Hgen). intros _. eexists; reflexivity.
Qed.
Lemma feat_fold_total s h f feats : forallb (tc_feat_okb s h f) feats = true -> forall acc, exists r, fold_left (feat_step s h f) feats (Ok acc) = Ok r.
Proof.
  induction feats as [|fd feats IH]; intros H acc; cbn [fold_left]; [eexists; reflexivity|].
  cbn [forallb] in H. apply andb_true_iff in H. destruct H as [Hf Hl].
  destruct (check_feature_total s h f fd Hf) as (b & Eb). unfold feat_step at 2. cbn [bind]. rewrite Eb. cbn [bind]. apply IH. exact Hl.
Qed.
Lemma typecheck_fs_total s h f : tc_objb s h f = true -> exists r, typecheck_fs s h f = Ok r.
Proof.
  unfold tc_objb, typecheck_fs. destruct (sch_find s (o_type f)) as [t|]; [|discriminate]. intros H.
  exact (feat_fold_total s h f (ti_feats t) H []).
Qed.

(* ------------------------------------------------------------------------------------------------ ids do not matter *)

Lemma violating_shape s h h' et v : shape_of h = shape_of h' -> violating s h et v = violating s h' et v.
Proof.
  intros Hs. unfold violating. destruct v; try reflexivity. destruct (hget h o) as [ef|] eqn:E.
  - destruct (shape_some _ _ _ _ Hs E) as (ef' & E' & Hf). rewrite E'. apply shape_eq_parts in Hf. destruct Hf as [-> _]. reflexivity.
  - rewrite (shape_none _ _ _ Hs E). reflexivity.
Qed.
Lemma arr_elems_shape h h' v : shape_of h = shape_of h' -> arr_elems h v = arr_elems h' v.
Proof.
  intros Hs. unfold arr_elems. destruct v; try reflexivity. destruct (hget h o) as [af|] eqn:E.
  - destruct (shape_some _ _ _ _ Hs E) as (af' & E' & Hf). rewrite E', (shape_slot _ _ "elements" Hf). reflexivity.
  - rewrite (shape_none _ _ _ Hs E). reflexivity.
Qed.
Lemma viol_shape s h h' f f' : shape_of h = shape_of h' -> shape f' = shape f -> viol s h f = viol s h' f'.
Proof.
  intros Hs Hf. unfold viol. pose proof (shape_eq_parts _ _ Hf) as [Ht _]. rewrite Ht.
  apply flat_map_ext. intros fd. destruct (String.eqb (fd_range fd) T_FS_ARRAY); [|reflexivity].
  rewrite (shape_slot _ _ (fd_name fd) Hf), (arr_elems_shape _ _ _ Hs).
  apply filter_ext. intros v. apply violating_shape. exact Hs.
Qed.
Lemma tc_elem_okb_shape s h h' v : shape_of h = shape_of h' -> tc_elem_okb s h v = tc_elem_okb s h' v.
Proof.
  intros Hs. unfold tc_elem_okb. destruct v; try reflexivity. destruct (hget h o) as [ef|] eqn:E.
  - destruct (shape_some _ _ _ _ Hs E) as (ef' & E' & Hf). rewrite E'. apply shape_eq_parts in Hf. destruct Hf as [-> _]. reflexivity.
  - rewrite (shape_none _ _ _ Hs E). reflexivity.
Qed.
Lemma forallb_ext' {A} (f g : A -> bool) l : (forall x, f x = g x) -> forallb f l = forallb g l.
Proof. intros H. induction l as [|x l IH]; cbn [forallb]; [reflexivity|]. rewrite H, IH. reflexivity. Qed.
Lemma tc_objb_shape s h h' f f' : shape_of h = shape_of h' -> shape f' = shape f -> tc_objb s h f = tc_objb s h' f'.
Proof.
  intros Hs Hf. unfold tc_objb. pose proof (shape_eq_parts _ _ Hf) as [Ht _]. rewrite Ht.
  destruct (sch_find s (o_type f)) as [t|]; [|reflexivity].
  apply forallb_ext'. intros fd. unfold tc_feat_okb. destruct (String.eqb (fd_range fd) T_FS_ARRAY); [|reflexivity].
  rewrite (shape_slot _ _ (fd_name fd) Hf).
  destruct (slot f (fd_name fd)); try reflexivity;
    rewrite (elements_of_shape s h h' _ Hs); destruct (elements_of s h' _); try reflexivity;
    apply forallb_ext'; intros v; apply tc_elem_okb_shape; exact Hs.
Qed.

(* ------------------------------------------------------------------------------------------------ the whole CAS *)

Definition all_step (s : schema) (h : heap) (acc : res (list (option xid))) (p : xid * oid) :=
  do a <- acc ;; match hget h (snd p) with Some f => do b <- typecheck_fs s h f ;; Ok (a ++ b) | None => Err EAttribute end.
Lemma all_fold_err s h l e : fold_left (all_step s h) l (Err e) = Err e.
Proof. apply fold_res_err. reflexivity. Qed.
Lemma all_fold_oof s h l : fold_left (all_step s h) l OutOfFuel = OutOfFuel.
Proof. apply fold_res_oof. reflexivity. Qed.

Definition errors_at (s : schema) (h : heap) (p : xid * oid) : list (option xid) :=
  match hget h (snd p) with Some f => map (fun _ => o_id f) (viol s h f) | None => [] end.
Lemma typecheck_all_spec s h l : forall acc r, fold_left (all_step s h) l (Ok acc) = Ok r -> r = acc ++ flat_map (errors_at s h) l.
Proof.
  induction l as [|p l IH]; intros acc r H; cbn [fold_left] in H.
  - inversion H. cbn [flat_map]. rewrite app_nil_r. reflexivity.
  - unfold all_step at 2 in H. cbn [bind] in H. cbn [flat_map]. unfold errors_at at 1.
    destruct (hget h (snd p)) as [f|]; [|rewrite all_fold_err in H; discriminate].
    destruct (typecheck_fs s h f) as [b| |] eqn:E; cbn [bind] in H;
      [|rewrite all_fold_err in H; discriminate|rewrite all_fold_oof in H; discriminate].
    apply typecheck_fs_spec in E. rewrite (IH _ _ H), E, app_assoc. reflexivity.
Qed.
Lemma typecheck_all_total s h l : (forall p, In p l -> exists f, hget h (snd p) = Some f /\ tc_objb s h f = true) ->
  forall acc, exists r, fold_left (all_step s h) l (Ok acc) = Ok r.
Proof.
  induction l as [|p l IH]; intros H acc; cbn [fold_left]; [eexists; reflexivity|].
  destruct (H p (or_introl eq_refl)) as (f & Ef & Hf). destruct (typecheck_fs_total s h f Hf) as (b & Eb).
  unfold all_step at 2. cbn [bind]. rewrite Ef, Eb. cbn [bind]. apply IH. intros q Hq. apply H. right. exact Hq.
Qed.

Lemma flat_map_ext_in {A B} (f g : A -> list B) l : (forall x, In x l -> f x = g x) -> flat_map f l = flat_map g l.
Proof.
  induction l as [|x l IH]; intros H; cbn [flat_map]; [reflexivity|].
  rewrite (H x (or_introl eq_refl)), IH; [reflexivity|]. intros y Hy. apply H. right. exact Hy.
Qed.

(* C19: the errors are exactly one per violating element of every structure the traversal returns, each carrying the id
   under which its owner was returned; violations are read on the CAS as given (viol_of ... (c_heap c)) *)
Theorem typecheck_spec : forall s c r, typecheck_cas s c = Ok r ->
  exists w, find_all_fs false s c = Ok w /\ r = expected_errors s (c_heap c) (w_all w).
Proof.
  intros s c r H. unfold typecheck_cas in H. destruct (find_all_fs false s c) as [w| |] eqn:E; cbn [bind] in H; try discriminate.
  exists w. split; [reflexivity|]. unfold typecheck_all in H. apply (typecheck_all_spec s (w_heap w) (w_all w) [] r) in H.
  cbn [app] in H. rewrite H. unfold expected_errors. apply flat_map_ext_in. intros [i o] Hin.
  rewrite find_all_fs_from in E. destruct (ids_assigned _ _ _ _ _ E) as (Ha & _). destruct (find_all_shape _ _ _ _ _ E) as [Hs _].
  destruct (Ha _ _ Hin) as (f & Ef & Hi). unfold errors_at. cbn [fst snd]. rewrite Ef, Hi.
  destruct (shape_some _ _ _ _ Hs Ef) as (f0 & Ef0 & Hf0). unfold viol_of. rewrite Ef0.
  rewrite (viol_shape s (w_heap w) (c_heap c) f f0 Hs Hf0). reflexivity.
Qed.

(* ... and the structures returned are exactly the reachable ones, once each, under pairwise distinct ids *)
Theorem typecheck_owners : forall s c w, find_all_fs false s c = Ok w ->
  (forall o, In o (returned w) <-> (reach false s (c_heap c) (member_seeds c) o /\ ~ null_in (c_heap c) o)) /\
  NoDup (map fst (w_all w)) /\ NoDup (returned w).
Proof.
  intros s c w H. rewrite find_all_fs_from in H. split; [exact (find_all_exact _ _ _ _ _ H)|exact (find_all_each_once _ _ _ _ _ H)].
Qed.

(* the same multiset, listed in id order as the writers list the structures *)
Lemma insert_id_perm x l : Permutation (insert_id x l) (x :: l).
Proof.
  induction l as [|y l IH]; cbn [insert_id]; [apply Permutation_refl|].
  destruct (fst x <=? fst y); [apply Permutation_refl|].
  eapply Permutation_trans; [apply perm_skip; exact IH|apply perm_swap].
Qed.
Lemma sort_ids_perm l : Permutation (sort_ids l) l.
Proof.
  induction l as [|x l IH]; cbn [sort_ids fold_right]; [apply Permutation_refl|].
  eapply Permutation_trans; [apply insert_id_perm|apply perm_skip; exact IH].
Qed.
Theorem typecheck_spec_sorted : forall s c r, typecheck_cas s c = Ok r ->
  exists w, find_all_fs false s c = Ok w /\ Permutation r (expected_errors s (c_heap c) (sort_ids (w_all w))).
Proof.
  intros s c r H. destruct (typecheck_spec s c r H) as (w & Hw & ->). exists w. split; [exact Hw|].
  unfold expected_errors. apply Permutation_flat_map. apply Permutation_sym. apply sort_ids_perm.
Qed.

(* C19: typecheck does not raise on well-formed CASes — features unset, `elements` None or empty, null elements and
   owners that are only referenced are all inside the premises *)
Theorem typecheck_total : forall s c,
  wf_heapb false s (c_heap c) = true -> seeds_liveb (c_heap c) (member_seeds c) = true ->
  ids_okb (c_heap c) (c_next_id c) = true -> tc_heapb s (c_heap c) = true ->
  exists r, typecheck_cas s c = Ok r.
Proof.
  intros s c Hwf Hsl Hids Htc. unfold typecheck_cas. rewrite find_all_fs_from.
  destruct (find_all_ok false s c (member_seeds c) Hwf Hsl Hids) as (w & E). rewrite E. cbn [bind].
  unfold typecheck_all. apply typecheck_all_total. intros [i o] Hin.
  destruct (ids_assigned _ _ _ _ _ E) as (Ha & _). destruct (find_all_shape _ _ _ _ _ E) as [Hs _].
  destruct (Ha _ _ Hin) as (f & Ef & _). exists f. split; [exact Ef|].
  destruct (shape_some _ _ _ _ Hs Ef) as (f0 & Ef0 & Hf0).
  rewrite (tc_objb_shape s (w_heap w) (c_heap c) f f0 Hs Hf0).
  unfold tc_heapb in Htc. rewrite forallb_forall in Htc. exact (Htc _ (hget_In _ _ _ Ef0)).
Qed.

(* C19: the result is empty exactly when no returned (= reachable) structure has a violating element *)
Lemma flat_map_nil {A B} (f : A -> list B) l : flat_map f l = [] <-> forall x, In x l -> f x = [].
Proof.
  induction l as [|x l IH]; cbn [flat_map]; [split; [intros _ y []|reflexivity]|]. split.
  - intros H. apply app_eq_nil in H. destruct H as [H1 H2]. intros y [<-|Hy]; [exact H1|]. apply IH; assumption.
  - intros H. rewrite (H x (or_introl eq_refl)). apply IH. intros y Hy. apply H. right. exact Hy.
Qed.
Theorem typecheck_clean_iff : forall s c r, typecheck_cas s c = Ok r ->
  exists w, find_all_fs false s c = Ok w /\ (r = [] <-> forall o, In o (returned w) -> viol_of s (c_heap c) o = []).
Proof.
  intros s c r H. destruct (typecheck_spec s c r H) as (w & Hw & ->). exists w. split; [exact Hw|].
  unfold expected_errors. rewrite flat_map_nil. split.
  - intros Hall o Ho. apply returned_In in Ho. destruct Ho as (i & Hi). pose proof (Hall _ Hi) as Hm. cbn [fst snd] in Hm.
    destruct (viol_of s (c_heap c) o); [reflexivity|discriminate].
  - intros Hall [i o] Hi. cbn [fst snd]. rewrite (Hall o); [reflexivity|]. apply returned_In. exists i. exact Hi.
Qed.
