(* JsonDocOk.v — C02 json_doc_ok: the document the writer produces is a well-formed JSON-CAS document
   (`doc_ok_json L s (save c) = true`) for every CAS whose state after the save satisfies the boolean premises wf_jsonb,
   ids_distinctb, refs_wfb (Json.v) and typed_jsonb (JsonWf.v); and the totality of canon_json under wf_jsonb + typed_jsonb.
   Builds on JsonProofs (save_json_parts, views_facts / found_facts) and JsonProofs2 (save_json_entries, Section Resolve). *)
From Coq Require Import Ascii ZifyBool Permutation.
From Cassis Require Import Base Heap Schema Canon Reach ReachProofs ReachSpec JsonDoc Json JsonProofs JsonProofs2 JsonWf.
Open Scope Z_scope.

(* ================================================================================================================ *)
(* canon_json is total on well-formed, typed CASes                                                                   *)
(* ================================================================================================================ *)

Lemma mapM_total {A B} (f : A -> res B) l : (forall a, In a l -> exists b, f a = Ok b) -> exists r, mapM f l = Ok r.
Proof.
  induction l as [|a t IH]; intros H; [exists []; reflexivity|].
  destruct (H a (or_introl eq_refl)) as (b & Eb). destruct (IH (fun x Hx => H x (or_intror Hx))) as (r & Er).
  exists (b :: r). cbn [mapM]. rewrite Eb, Er. reflexivity.
Qed.

Lemma cv_atom_kind c p v : val_kind_okb p v = true -> exists x, cv_atom c v = Ok x.
Proof. destruct v; cbn [val_kind_okb cv_atom]; try discriminate; intros _; eexists; reflexivity. Qed.
Lemma cv_atom_live c v : ref_live_okb c v = true -> exists x, cv_atom c v = Ok x.
Proof.
  destruct v; cbn [ref_live_okb cv_atom ref_id]; try discriminate; [intros _; eexists; reflexivity|].
  unfold live. destruct (hget (c_heap c) o); [|discriminate]. intros _. cbn [bind]. eexists. reflexivity.
Qed.
Lemma find_sofa_named c n : view_named c n = true -> exists sf, find_sofa c n = Some sf.
Proof.
  unfold view_named, find_sofa. intros H. apply existsb_exists in H. destruct H as (v & Hv & E).
  destruct (find (fun v0 => String.eqb (s_name (v_sofa v0)) n) (c_views c)) as [v'|] eqn:Ef; [eexists; reflexivity|].
  exfalso. pose proof (find_none _ _ Ef v Hv) as Hn. cbv beta in Hn. rewrite E in Hn. discriminate.
Qed.
Lemma cv_json_typed s c fd v : slot_typed_okb s c fd v = true -> exists x, cv_json c v = Ok x.
Proof.
  unfold slot_typed_okb. destruct (is_primitive s (fd_range fd)).
  - destruct (prim_of s (fd_range fd)) as [p|]; [|discriminate]. intros H. destruct (cv_atom_kind c p v H) as (x & E).
    exists x. apply cv_json_atom. exact E.
  - destruct (String.eqb (fd_range fd) T_SOFA).
    + destruct v; try discriminate; [intros _; eexists; reflexivity|]. intros H. destruct (find_sofa_named c n H) as (sf & E).
      cbn [cv_json cv_atom ref_id]. rewrite E. cbn [bind]. eexists. reflexivity.
    + intros H. destruct (cv_atom_live c v H) as (x & E). exists x. apply cv_json_atom. exact E.
Qed.

Lemma canon_fs_total s c f : obj_okb s c f = true -> obj_typed_okb s c f = true -> exists cf, canon_fs s c f = Ok cf.
Proof.
  unfold obj_okb, obj_typed_okb, canon_fs. intros Hok Hty. destruct (sch_find s (o_type f)) as [ti|]; [|discriminate].
  destruct (is_array_name (o_type f)).
  - destruct (slot f "elements") as [| | | | | |l|]; try discriminate. cbn [cv_json].
    assert (E : exists els, mapM (cv_atom c) l = Ok els).
    { apply mapM_total. intros v Hv. destruct (String.eqb (o_type f) T_FS_ARRAY); rewrite forallb_forall in Hty.
      - apply cv_atom_live. apply Hty. exact Hv.
      - eapply cv_atom_kind. apply Hty. exact Hv. }
    destruct E as (els & ->). cbn [bind]. eexists. reflexivity.
  - rewrite forallb_forall in Hty.
    assert (E : exists fv, mapM (fun fd => do v <- cv_json c (slot f (fd_name fd)) ;; Ok (fd_xname fd, v)) (ti_feats ti) = Ok fv).
    { apply mapM_total. intros fd Hfd. destruct (cv_json_typed s c fd _ (Hty fd Hfd)) as (x & ->). cbn [bind]. eexists. reflexivity. }
    destruct E as (fv & ->). cbn [bind]. eexists. reflexivity.
Qed.

(* the canonical content of a CAS is defined whenever the CAS is well-formed (wf_jsonb: the traversal succeeds, every structure
   found and every sofa byte array carries its id and is typed by the schema) and typed (typed_jsonb: slots hold atoms of the
   kind of their range, live references, sofas of this CAS; arrays hold lists of such) *)
Theorem canon_json_total s c : wf_jsonb s c = true -> typed_jsonb s c = true -> exists cc, canon_json s c = Ok cc.
Proof.
  unfold wf_jsonb, typed_jsonb, canon_json. intros Hwf Hty.
  destruct (find_all_fs true s c) as [w| |] eqn:Ew; try discriminate. cbn [bind].
  rewrite !andb_true_iff in Hwf. destruct Hwf as ((((_ & _) & _) & Hf) & Ha).
  rewrite !andb_true_iff in Hty. destruct Hty as ((((_ & _) & _) & Tf) & Ta).
  rewrite forallb_forall in Hf, Ha, Tf, Ta.
  assert (Hfound : forall i o, In (i, o) (w_all w) -> exists f, hget (c_heap c) o = Some f /\ o_id f = Some i /\ obj_okb s c f = true /\ obj_typed_okb s c f = true).
  { intros i o Hin. specialize (Hf _ Hin). specialize (Tf _ Hin). unfold heap_typedb in Tf. cbn [snd fst] in Hf, Tf.
    destruct (hget (c_heap c) o) as [f|]; [|discriminate]. apply andb_true_iff in Hf. destruct Hf as [A B].
    exists f. split; [reflexivity|]. split; [apply opt_eqb_some; exact B|]. split; assumption. }
  unfold canon_of.
  assert (E1 : exists fss, mapM (fun o => match hget (c_heap c) o with
                           | Some f => match o_id f with Some i => do cf <- canon_fs s c f ;; Ok (i, cf) | None => Err EValue end
                           | None => Err EAttribute end) (listed c w) = Ok fss).
  { apply mapM_total. intros o Ho. unfold listed in Ho. apply in_app_or in Ho. destruct Ho as [Ho|Ho].
    - apply omem_In in Ho. rewrite sofa_arrays_once_mem in Ho. apply omem_In in Ho. specialize (Ha o Ho). specialize (Ta o Ho). unfold heap_typedb in Ta. destruct (hget (c_heap c) o) as [f|]; [|discriminate].
      rewrite !andb_true_iff in Ha. destruct Ha as [[_ A] B]. destruct (o_id f) as [i|]; [|discriminate].
      destruct (canon_fs_total s c f A Ta) as (cf & ->). cbn [bind]. eexists. reflexivity.
    - apply in_map_iff in Ho. destruct Ho as ([i o'] & <- & Hio). unfold unwritten in Hio. apply filter_In in Hio. destruct Hio as [Hio _].
      apply (proj1 (sort_ids_In _ _)) in Hio. cbn [snd].
      destruct (Hfound i o' Hio) as (f & -> & -> & A & B). destruct (canon_fs_total s c f A B) as (cf & ->). cbn [bind]. eexists. reflexivity. }
  destruct E1 as (fss & ->). cbn [bind].
  assert (E2 : exists sofas, mapM (canon_sofa c) (c_views c) = Ok sofas).
  { apply mapM_total. intros v Hv. unfold canon_sofa.
    assert (A1 : exists arr, (match s_arr (v_sofa v) with None => Ok None | Some o => ref_id c (VRef o) end) = Ok arr).
    { destruct (s_arr (v_sofa v)) as [o|] eqn:Eo; [|eexists; reflexivity].
      assert (Ho : In o (sofa_arrays c)) by (unfold sofa_arrays; apply in_flat_map; exists v; split; [exact Hv|rewrite Eo; left; reflexivity]).
      specialize (Ha o Ho). cbn [ref_id]. destruct (hget (c_heap c) o); [eexists; reflexivity|discriminate]. }
    destruct A1 as (arr & ->). cbn [bind].
    assert (A2 : exists ms, member_ids (c_heap c) (v_members v) = Ok ms).
    { apply mapM_total. intros o Ho.
      assert (Hs : In o (member_seeds c)) by (unfold member_seeds; apply in_flat_map; exists v; split; assumption).
      change (find_all_fs true s c) with (find_all_from true s c (member_seeds c)) in Ew.
      destruct (find_all_contains_seeds _ _ _ _ _ Ew o Hs) as [Hr|(f & Hg & Hn)].
      - apply returned_In in Hr. destruct Hr as (i & Hi). destruct (Hfound i o Hi) as (f & -> & -> & _). eexists. reflexivity.
      - rewrite Hg. unfold is_null_id in Hn. destruct (o_id f); [eexists; reflexivity|discriminate]. }
    destruct A2 as (ms & ->). cbn [bind]. eexists. reflexivity. }
  destruct E2 as (sofas & ->). cbn [bind]. eexists. reflexivity.
Qed.

(* the same without any new premise, for the CAS a successful save leaves behind *)
Theorem canon_json_after_save L s mode c d c2 :
  lex_ok L -> save_json L s mode c = Ok (d, c2) -> wf_jsonb s c2 = true -> 0 < c_next_id c ->
  exists cc, canon_json s c2 = Ok cc /\ denote_json L s d = Ok cc.
Proof.
  intros HL Hsave Hwf Hpos. pose proof (denote_save_json L s mode c d c2 HL Hsave Hwf Hpos) as Hden.
  destruct (save_json_parts L s mode c d c2 HL Hsave Hwf Hpos)
    as (w & types & outs & fss & Ev & Ef & sofas & Ew' & Hheap & Hviews & Hty & -> & Houts & Efss & HV & HF & Hfound & Harrs & Hn & Hi).
  destruct HV as (V0 & V1 & V2 & V3 & V4 & V5 & V6 & V7). destruct HF as (F0 & F1 & F2 & F3 & F4 & F5).
  unfold tviews in V3, V4. rewrite tag_views_snd in V3, V4.
  assert (Hstabok : stab_ok c2 (map (fun cs => (cs_id cs, cs_text cs)) sofas)).
  { rewrite V4. intros n sf Hfs'. unfold find_sofa in Hfs'. rewrite Hviews in Hfs'.
    destruct (find _ (c_views c)) as [v|] eqn:Efi; [|discriminate]. cbn [option_map] in Hfs'. inversion Hfs'; subst sf.
    apply find_some in Efi. destruct Efi as [Hv _]. apply zlookup_nodup.
    - rewrite map_map. cbn [fst]. apply znodup_NoDup. rewrite <- Hviews. rewrite map_map in Hi. exact Hi.
    - apply (in_map (fun v => (s_xid (v_sofa v), s_text (v_sofa v)))) in Hv. exact Hv. }
  destruct (V7 _ Hstabok) as (rs1 & _ & R2). destruct (F5 _ Hstabok) as (rs2 & _ & R4).
  assert (E : canon_json s c2 = Ok (mkCcas (sort_by cs_id sofas) (sort_by fst (rs1 ++ rs2)))).
  { unfold canon_json. rewrite Ew'. cbn [bind]. unfold canon_of, listed.
    change (fun o : oid => match hget (c_heap c2) o with
                           | Some f => match o_id f with Some i => do cf <- canon_fs s c2 f ;; Ok (i, cf) | None => Err EValue end
                           | None => Err EAttribute end) with (canon_item s c2).
    assert (Hsa : sofa_arrays_once c2 = flat_map arr_of (tviews c)).
    { rewrite tviews_arrays. unfold sofa_arrays_once, sofa_arrays. rewrite Hviews. reflexivity. }
    fold (found_list c2 w). rewrite Hsa, mapM_app, R2, R4. cbn [bind]. rewrite Hviews, V3. reflexivity. }
  eexists. split; [exact E|]. rewrite Hden. exact E.
Qed.

(* ================================================================================================================ *)
(* keys                                                                                                              *)
(* ================================================================================================================ *)

Lemma classify_plain x : name_okb x = true -> classify x = KPlain x.
Proof.
  unfold classify, name_okb. destruct x as [|a r]; [reflexivity|].
  destruct a as [[] [] [] [] [] [] [] []]; try reflexivity; discriminate.
Qed.
Lemma kname_plain x : name_okb x = true -> kname x = Some x.
Proof. intros H. unfold kname. rewrite (classify_plain x H). reflexivity. Qed.
Lemma kname_ref x : kname (refkey x) = Some x.
Proof. reflexivity. Qed.
Lemma kname_num x : kname (numkey x) = Some x.
Proof. reflexivity. Qed.

Lemma knames_app a b : knames (a ++ b) = knames a ++ knames b.
Proof. unfold knames. apply flat_map_app. Qed.

(* keys that all name a feature are distinct when the features they name are *)
Lemma keys_nodup m : (forall k, In k (map fst m) -> kname k <> None) -> NoDup (knames m) -> NoDup (map fst m).
Proof.
  induction m as [|[k j] r IH]; intros Hk Hn; [constructor|]. cbn [map fst].
  assert (Hk0 : kname k <> None) by (apply Hk; left; reflexivity).
  unfold knames in Hn. cbn [flat_map fst] in Hn. fold (knames r) in Hn.
  destruct (kname k) as [n|] eqn:En; [|congruence]. cbn [app] in Hn. inversion Hn as [|? ? Hni Hn']; subst.
  constructor; [|apply IH; [intros k' Hk'; apply Hk; right; exact Hk'|exact Hn']].
  intros Hin. apply Hni. apply in_map_iff in Hin. destruct Hin as ([k' j'] & Ek & Hin'). cbn [fst] in Ek. subst k'.
  unfold knames. apply in_flat_map. exists (k, j'). split; [exact Hin'|]. cbn [fst]. rewrite En. left. reflexivity.
Qed.

(* ================================================================================================================ *)
(* values of the kind of their range                                                                                 *)
(* ================================================================================================================ *)

Lemma prim_of_prim s p : is_prim_name p = true -> prim_of s p = Some p.
Proof. unfold prim_of. intros ->. reflexivity. Qed.
Lemma prim_of_some s r : is_primitive s r = true -> exists p, prim_of s r = Some p.
Proof.
  unfold is_primitive, prim_of. destruct (is_prim_name r); [eexists; reflexivity|]. cbn [orb]. intros H.
  apply existsb_exists in H. destruct H as (x & Hx & Px).
  destruct (find is_prim_name (sch_anc s r)) as [p|] eqn:E; [eexists; reflexivity|].
  pose proof (find_none _ _ E x Hx) as Hn. rewrite Px in Hn. discriminate.
Qed.
Lemma not_prim_not_float s r : is_primitive s r = false -> String.eqb r T_FLOAT || String.eqb r T_DOUBLE = false.
Proof.
  unfold is_primitive. intros H. apply orb_false_iff in H. destruct H as [H _].
  destruct (String.eqb r T_FLOAT) eqn:E1; [apply String.eqb_eq in E1; subst r; discriminate|].
  destruct (String.eqb r T_DOUBLE) eqn:E2; [apply String.eqb_eq in E2; subst r; discriminate|]. reflexivity.
Qed.
Lemma float_is_prim r : String.eqb r T_FLOAT || String.eqb r T_DOUBLE = true -> is_prim_name r = true.
Proof. intros H. apply orb_true_iff in H. destruct H as [H|H]; apply String.eqb_eq in H; subst r; reflexivity. Qed.

(* a value of the kind p, handed to json.dump, is a JSON value of the kind p *)
Lemma plain_kind_ok s r p v j : prim_of s r = Some p -> val_kind_okb p v = true -> plain_json v = Ok j -> prim_val_ok s r j = true.
Proof.
  intros Hp Hk Hj. unfold prim_val_ok. rewrite Hp. destruct v; cbn [plain_json val_kind_okb] in *; try discriminate.
  - inversion Hj. reflexivity.
  - inversion Hj. exact Hk.
  - destruct (special_flt x); [discriminate|]. inversion Hj. exact Hk.
  - inversion Hj. exact Hk.
  - inversion Hj. exact Hk.
Qed.
Lemma float_special_ok x j : float_json (VFlt x) = Ok j -> special_ok j = true.
Proof.
  cbn [float_json]. intros [= <-]. unfold special_ok. destruct (special_flt x) as [sp|] eqn:E; [|reflexivity].
  rewrite (special_flt_spec x sp E). reflexivity.
Qed.

(* the value in document units is of the kind of the value in the slot *)
Lemma doc_val_kind c s t f fd v v1 : doc_val c s t f fd v = Ok v1 -> v1 = v \/ exists i j, v = VInt i /\ v1 = VInt j.
Proof.
  unfold doc_val. destruct (isa s t T_ANNOTATION && is_offset_name (fd_xname fd)); [|intros [= <-]; left; reflexivity].
  destruct (slot f "sofa"); try discriminate. destruct (find_sofa c n); [|discriminate]. intros [= <-].
  destruct v; try (left; reflexivity). right. eauto.
Qed.
Lemma val_kind_int p i j : val_kind_okb p (VInt i) = val_kind_okb p (VInt j).
Proof. reflexivity. Qed.

(* element types of the primitive arrays are primitive names *)
Lemma elem_of_prim_array t : is_array_name t = true -> String.eqb t T_FS_ARRAY = false -> is_prim_name (element_type_name_for t) = true.
Proof.
  unfold is_array_name. intros H Hf. rewrite Hf, orb_false_r in H. unfold is_prim_array_name in H. apply memb_In in H. cbn in H.
  repeat (destruct H as [<-|H]; [reflexivity|]). destruct H.
Qed.

(* ================================================================================================================ *)
(* the entry of a sofa                                                                                               *)
(* ================================================================================================================ *)

Lemma enc_sofa_keys L c sf ms : enc_sofa L c sf = Ok ms ->
  snodup (map fst ms) = true /\ forallb (fun kv : string * json => memb (fst kv) sofa_keys) ms = true.
Proof.
  unfold enc_sofa. intros H. apply bind_Ok in H as (arr & Earr & H). inversion H; subst ms. clear H.
  assert (Ha : arr = [] \/ exists j, arr = [(refkey "sofaArray", j)]).
  { destruct (s_arr sf); [|inversion Earr; left; reflexivity]. apply bind_Ok in Earr as (j & _ & Earr). inversion Earr. right. eauto. }
  destruct Ha as [->|(j & ->)]; destruct (s_mime sf), (s_text sf), (s_uri sf); split; reflexivity.
Qed.

(* ================================================================================================================ *)
(* the entry of an array structure                                                                                   *)
(* ================================================================================================================ *)

Lemma forallb_mapM {A B} (f : A -> res B) (P : A -> bool) (Q : B -> bool) l :
  (forall a b, In a l -> P a = true -> f a = Ok b -> Q b = true) -> forallb P l = true ->
  forall r, mapM f l = Ok r -> forallb Q r = true.
Proof.
  induction l as [|a t IH]; intros H HP r Hm; cbn [mapM] in Hm; [inversion Hm; reflexivity|].
  apply bind_Ok in Hm as (b & Eb & Hm). apply bind_Ok in Hm as (bs & Ebs & Hm). inversion Hm; subst r.
  cbn [forallb] in HP |- *. apply andb_true_iff in HP. destruct HP as [Pa Pt].
  rewrite (H a b (or_introl eq_refl) Pa Eb). cbn [andb]. apply IH; [|exact Pt|exact Ebs].
  intros a' b' Hin. apply H. right. exact Hin.
Qed.

Lemma tname_ok_norm t : tname_okb t = true -> norm_tname t = t.
Proof. unfold tname_okb. intros H. apply andb_true_iff in H. destruct H as [_ H]. apply strip_none_norm. exact H. Qed.

Lemma e_type_written i (j : json) t rest : e_type (i, (K_ID, j) :: (K_TYPE, JStr t) :: rest) = Some t.
Proof. reflexivity. Qed.

Lemma enc_fs_array_ok L s c f i m ids sofa_ids :
  lex_ok L -> o_id f = Some i -> obj_okb s c f = true -> is_array_name (o_type f) = true -> enc_fs L s c f = Ok m ->
  (String.eqb (o_type f) T_FS_ARRAY = true -> forall l js, slot f "elements" = VList l -> mapM (ref_json c) l = Ok js ->
     forallb (ref_ok ids) js = true) ->
  (String.eqb (o_type f) T_FS_ARRAY = false -> forall l, slot f "elements" = VList l ->
     forallb (val_kind_okb (element_type_name_for (o_type f))) l = true) ->
  entry_ok L s ids sofa_ids (i, m) = true.
Proof.
  intros (_ & Hb64 & _) Hid Hok Harr Henc Hfs Hprim. unfold obj_okb in Hok. apply andb_true_iff in Hok. destruct Hok as [Htn Hok].
  pose proof (tname_ok_norm _ Htn) as Hnorm. unfold enc_fs in Henc. set (t := o_type f) in *. rewrite Harr in Henc, Hok.
  destruct (sch_find s t) as [ti|] eqn:Eti; [|discriminate].
  destruct (slot f "elements") as [| | | | | |l|] eqn:Esl; try discriminate.
  unfold entry_ok. cbn [snd].
  destruct (nonempty_list (VList l)) as [l'|] eqn:Enl.
  - destruct l as [|x r]; [discriminate|]. inversion Enl; subst l'. apply bind_Ok in Henc as (j & Ej & Henc). inversion Henc; subst m. clear Henc.
    cbn [app]. rewrite e_type_written, Hnorm, Eti, Harr.
    change (snodup (map fst [(K_ID, id_json f); (K_TYPE, JStr t); (K_ELEMENTS, j)])) with true.
    change (forallb (fun kv : string * json => String.eqb (fst kv) K_ID || String.eqb (fst kv) K_TYPE || String.eqb (fst kv) K_ELEMENTS)
                    [(K_ID, id_json f); (K_TYPE, JStr t); (K_ELEMENTS, j)]) with true.
    change (alookup K_ELEMENTS [(K_ID, id_json f); (K_TYPE, JStr t); (K_ELEMENTS, j)]) with (Some j). cbn [andb].
    unfold elements_ok, enc_elements in *. destruct (String.eqb t T_BYTE_ARRAY) eqn:Eb.
    + apply bind_Ok in Ej as (bs & Ebs & Ej). inversion Ej; subst j. destruct (byte_of_cv c _ _ Ebs) as [_ Hbs]. rewrite (Hb64 bs Hbs). reflexivity.
    + replace (String.eqb t T_DOUBLE_ARRAY || String.eqb t T_FLOAT_ARRAY) with (String.eqb t T_FLOAT_ARRAY || String.eqb t T_DOUBLE_ARRAY) in Ej
        by apply orb_comm.
      destruct (String.eqb t T_FLOAT_ARRAY || String.eqb t T_DOUBLE_ARRAY) eqn:Ef.
      * apply bind_Ok in Ej as (js & Ejs & Ej). inversion Ej; subst j.
        apply (forallb_mapM float_json (fun v => match v with VFlt _ => true | _ => false end) special_ok (x :: r)); [|exact Hok|exact Ejs].
        intros a b _ Pa Eb'. destruct a; try discriminate. exact (float_special_ok _ _ Eb').
      * destruct (String.eqb t T_FS_ARRAY) eqn:Ea.
        -- apply bind_Ok in Ej as (js & Ejs & Ej). inversion Ej; subst j. exact (Hfs eq_refl (x :: r) js eq_refl Ejs).
        -- apply bind_Ok in Ej as (js & Ejs & Ej). inversion Ej; subst j.
           pose proof (elem_of_prim_array t Harr Ea) as Hpn.
           apply (forallb_mapM plain_json (val_kind_okb (element_type_name_for t)) (prim_val_ok s (element_type_name_for t)) (x :: r));
             [|exact (Hprim eq_refl (x :: r) eq_refl)|exact Ejs].
           intros a b _ Pa Eb'. exact (plain_kind_ok s _ _ a b (prim_of_prim s _ Hpn) Pa Eb').
  - inversion Henc; subst m. rewrite e_type_written, Hnorm, Eti, Harr. reflexivity.
Qed.

(* ================================================================================================================ *)
(* one feature of a non-array structure                                                                              *)
(* ================================================================================================================ *)

Lemma enc_feature_ok c s t f ti fd ms ids sofa_ids :
  enc_feature c s t f fd = Ok ms -> In fd (ti_feats ti) -> NoDup (map fd_xname (ti_feats ti)) -> name_okb (fd_xname fd) = true ->
  slot_typed_okb s c fd (slot f (fd_name fd)) = true ->
  (is_primitive s (fd_range fd) = false -> forall x, slot f (fd_name fd) = VRef x ->
     exists i', ref_json c (VRef x) = Ok (JInt i') /\ In i' ids) ->
  (forall n sf, find_sofa c n = Some sf -> In (s_xid sf) sofa_ids) ->
  forallb (member_ok s ti ids sofa_ids) ms = true /\ (ms = [] \/ exists k j, ms = [(k, j)] /\ kname k = Some (fd_xname fd)).
Proof.
  intros Henc Hin Hnd Hname Hty Href Hsofa. unfold enc_feature in Henc.
  destruct (is_vnone (slot f (fd_name fd))) eqn:Evn; [inversion Henc; split; [reflexivity|left; reflexivity]|].
  apply bind_Ok in Henc as (v1 & Edoc & Henc). pose proof (doc_val_kind _ _ _ _ _ _ _ Edoc) as Hkind.
  pose proof (xfind_unique _ _ Hnd Hin) as Hxf. pose proof (classify_plain _ Hname) as Hcp.
  set (v := slot f (fd_name fd)) in *. set (x := fd_xname fd) in *.
  assert (Hone : forall k j, kname k = Some x -> member_ok s ti ids sofa_ids (k, j) = true ->
            forallb (member_ok s ti ids sofa_ids) [(k, j)] = true /\ ([(k, j)] = [] \/ exists k' j', [(k, j)] = [(k', j')] /\ kname k' = Some x)).
  { intros k j Hk Hm. split; [cbn [forallb]; rewrite Hm; reflexivity|right; exists k, j; split; [reflexivity|exact Hk]]. }
  unfold slot_typed_okb in Hty. unfold enc_value in Henc. fold x in Henc.
  destruct (String.eqb (fd_range fd) T_FLOAT || String.eqb (fd_range fd) T_DOUBLE) eqn:Efl.
  - (* Float / Double *)
    pose proof (float_is_prim _ Efl) as Hpn. assert (Hprim : is_primitive s (fd_range fd) = true) by (unfold is_primitive; rewrite Hpn; reflexivity).
    rewrite Hprim, (prim_of_prim s _ Hpn) in Hty.
    assert (Hfr : is_float_range s (fd_range fd) = true) by (unfold is_float_range; rewrite (prim_of_prim s _ Hpn); exact Efl).
    destruct v1 as [|z|xx| | | | |]; try discriminate.
    + (* an int in a float feature is outside the typing premise *)
      exfalso. assert (Hv : exists i, v = VInt i) by (destruct Hkind as [E|(i & j & E & _)]; [exists z; symmetry; exact E|exists i; exact E]).
      destruct Hv as (i & Hv). rewrite Hv in Hty. cbn [val_kind_okb] in Hty.
      apply orb_true_iff in Efl; destruct Efl as [E'|E']; apply String.eqb_eq in E'; rewrite E' in Hty; discriminate.
    + destruct (special_flt xx) as [sp|] eqn:Esp; inversion Henc; subst ms.
      * apply Hone; [reflexivity|]. unfold member_ok. cbn [fst snd classify numkey]. fold x. rewrite Hxf, Hfr. cbn [andb].
        unfold special_ok. rewrite (special_flt_spec xx sp Esp). reflexivity.
      * apply Hone; [apply kname_plain; exact Hname|]. unfold member_ok. cbn [fst snd]. rewrite Hcp, Hxf.
        unfold prim_val_ok. rewrite (prim_of_prim s _ Hpn). exact Efl.
  - destruct (is_primitive s (fd_range fd)) eqn:Eprim.
    + (* other primitives *)
      apply bind_Ok in Henc as (j & Ej & Henc). inversion Henc; subst ms.
      apply Hone; [apply kname_plain; exact Hname|]. unfold member_ok. cbn [fst snd]. rewrite Hcp, Hxf.
      destruct (prim_of s (fd_range fd)) as [p|] eqn:Ep; [|discriminate].
      apply (plain_kind_ok s _ p v1 j Ep); [|exact Ej].
      destruct Hkind as [->|(i & j' & E1 & ->)]; [exact Hty|]. rewrite E1 in Hty. exact Hty.
    + (* references *)
      apply bind_Ok in Henc as (j & Ej & Henc). inversion Henc; subst ms.
      apply Hone; [reflexivity|]. unfold member_ok. cbn [fst snd classify refkey]. fold x. rewrite Hxf, Eprim. cbn [negb andb].
      destruct (String.eqb (fd_range fd) T_SOFA) eqn:Eso.
      * destruct v as [| | | | | | |n] eqn:Ev; try discriminate.
        destruct Hkind as [->|(i & j' & E1 & _)]; [|discriminate]. unfold ref_json, ref_id in Ej.
        destruct (find_sofa c n) as [sf|] eqn:Efs; [|discriminate]. cbn [bind] in Ej. inversion Ej; subst j. cbn [ref_ok].
        apply zmem_In. exact (Hsofa n sf Efs).
      * destruct v as [| | | | |o| |] eqn:Ev; try discriminate.
        destruct Hkind as [->|(i & j' & E1 & _)]; [|discriminate].
        destruct (Href eq_refl o eq_refl) as (i' & Er & Hi'). rewrite Er in Ej. inversion Ej; subst j. cbn [ref_ok]. apply zmem_In. exact Hi'.
Qed.

(* ================================================================================================================ *)
(* the entry of a non-array structure                                                                                *)
(* ================================================================================================================ *)

Definition one_key (fd : fdecl) (ms : list (string * json)) : Prop :=
  ms = [] \/ exists k j, ms = [(k, j)] /\ kname k = Some (fd_xname fd).

Lemma knames_concat feats mss : Forall2 one_key feats mss -> NoDup (map fd_xname feats) ->
  NoDup (knames (List.concat mss)) /\ (forall n, In n (knames (List.concat mss)) -> In n (map fd_xname feats)) /\
  (forall k, In k (map fst (List.concat mss)) -> kname k <> None).
Proof.
  induction 1 as [|fd ms feats mss H1 _ IH]; intros Hnd; [cbn; repeat split; [constructor|intros n []|intros k []]|].
  cbn [map] in Hnd. inversion Hnd as [|? ? Hni Hnd']; subst. destruct (IH Hnd') as (A & B & C).
  cbn [List.concat map]. rewrite knames_app, map_app. destruct H1 as [->|(k & j & -> & Hk)].
  - cbn [app map]. split; [exact A|]. split; [intros n Hn; right; apply B; exact Hn|exact C].
  - unfold knames at 1 3. cbn [flat_map fst]. rewrite Hk. cbn [app map fst]. split; [|split].
    + constructor; [|exact A]. intros Hin. apply Hni. apply B. exact Hin.
    + intros n [<-|Hn]; [left; reflexivity|right; apply B; exact Hn].
    + intros k' [<-|Hk']; [congruence|apply C; exact Hk'].
Qed.

Lemma enc_fs_struct_ok L s c f i m ids sofa_ids ti :
  o_id f = Some i -> obj_okb s c f = true -> is_array_name (o_type f) = false -> sch_find s (o_type f) = Some ti ->
  enc_fs L s c f = Ok m ->
  (forall fd, In fd (ti_feats ti) -> slot_typed_okb s c fd (slot f (fd_name fd)) = true) ->
  (forall fd, In fd (ti_feats ti) -> is_primitive s (fd_range fd) = false -> forall x, slot f (fd_name fd) = VRef x ->
     exists i', ref_json c (VRef x) = Ok (JInt i') /\ In i' ids) ->
  (forall n sf, find_sofa c n = Some sf -> In (s_xid sf) sofa_ids) ->
  entry_ok L s ids sofa_ids (i, m) = true.
Proof.
  intros Hid Hok Harr Eti Henc Hty Href Hsofa. unfold obj_okb in Hok. apply andb_true_iff in Hok. destruct Hok as [Htn Hok].
  pose proof (tname_ok_norm _ Htn) as Hnorm. unfold enc_fs in Henc. set (t := o_type f) in *. rewrite Harr, Eti in Henc, Hok.
  apply bind_Ok in Henc as (mss & Ems & Henc). inversion Henc; subst m. clear Henc.
  apply andb_true_iff in Hok. destruct Hok as [Hok Hann]. apply andb_true_iff in Hok. destruct Hok as [Hnames Hnd].
  rewrite forallb_forall in Hnames. apply snodup_NoDup in Hnd.
  pose proof (mapM_Forall2 _ _ _ Ems) as F2.
  assert (Hper : forall fd ms, In fd (ti_feats ti) -> enc_feature c s t f fd = Ok ms ->
            forallb (member_ok s ti ids sofa_ids) ms = true /\ one_key fd ms).
  { intros fd ms Hin E. exact (enc_feature_ok c s t f ti fd ms ids sofa_ids E Hin Hnd (Hnames fd Hin) (Hty fd Hin) (Href fd Hin) Hsofa). }
  assert (F1 : Forall2 one_key (ti_feats ti) mss).
  { clear - F2 Hper. induction F2 as [|fd ms feats mss E _ IH]; constructor.
    - exact (proj2 (Hper fd ms (or_introl eq_refl) E)).
    - apply IH. intros fd' ms' Hin. apply Hper. right. exact Hin. }
  destruct (knames_concat _ _ F1 Hnd) as (K1 & K2 & K3).
  unfold entry_ok. cbn [snd app]. rewrite e_type_written, Hnorm, Eti, Harr.
  (* keys *)
  assert (Hkeys : snodup (map fst ((K_ID, id_json f) :: (K_TYPE, JStr t) :: List.concat mss)) = true).
  { apply snodup_iff. cbn [map fst]. constructor; [|constructor].
    - intros [E|Hin]; [discriminate|]. exact (K3 _ Hin eq_refl).
    - intros Hin. exact (K3 _ Hin eq_refl).
    - apply keys_nodup; assumption. }
  rewrite Hkeys. cbn [andb].
  assert (Hmem : forallb (member_ok s ti ids sofa_ids) ((K_ID, id_json f) :: (K_TYPE, JStr t) :: List.concat mss) = true).
  { cbn [forallb]. change (member_ok s ti ids sofa_ids (K_ID, id_json f)) with true. change (member_ok s ti ids sofa_ids (K_TYPE, JStr t)) with true.
    cbn [andb]. apply forallb_forall. intros kv Hkv. apply in_concat in Hkv. destruct Hkv as (ms & Hms & Hkv).
    destruct (mapM_In _ _ _ Ems ms Hms) as (fd & Hfd & Efd). destruct (Hper fd ms Hfd Efd) as [Hall _].
    rewrite forallb_forall in Hall. exact (Hall kv Hkv). }
  rewrite Hmem. cbn [andb].
  assert (Hkn : snodup (knames ((K_ID, id_json f) :: (K_TYPE, JStr t) :: List.concat mss)) = true).
  { apply snodup_iff. change ((K_ID, id_json f) :: (K_TYPE, JStr t) :: List.concat mss) with ([(K_ID, id_json f); (K_TYPE, JStr t)] ++ List.concat mss).
    rewrite knames_app. exact K1. }
  rewrite Hkn. cbn [andb].
  (* an annotation names its sofa *)
  destruct (isa s t T_ANNOTATION) eqn:Eann; [|reflexivity].
  destruct (slot f "sofa") as [| | | | | | |n] eqn:Eso; try discriminate.
  destruct (find_sofa c n) as [sf|] eqn:Efs; [|discriminate].
  apply andb_true_iff in Hann. destruct Hann as [_ Hx].
  destruct (xfind (ti_feats ti) "begin"); [|discriminate]. destruct (xfind (ti_feats ti) "end"); [|discriminate].
  destruct (xfind (ti_feats ti) "sofa") as [fso|] eqn:Es; [|discriminate].
  rewrite !andb_true_iff in Hx. destruct Hx as (((_ & _) & Hns) & Hnp). apply String.eqb_eq in Hns. apply negb_true_iff in Hnp.
  destruct (xfind_in _ _ _ Es) as [Hsin Hsx].
  destruct (Forall2_In_l _ _ _ fso F2 Hsin) as (ms & _ & Hms).
  assert (Ems' : ms = [(refkey "sofa", JInt (s_xid sf))]).
  { unfold enc_feature in Hms. rewrite Hns, Eso in Hms. cbn [is_vnone] in Hms. unfold doc_val in Hms. rewrite Hsx in Hms.
    change (is_offset_name "sofa") with false in Hms. rewrite andb_false_r in Hms. cbn [bind] in Hms.
    unfold enc_value in Hms. rewrite (not_prim_not_float s _ Hnp), Hnp, Hsx in Hms. unfold ref_json, ref_id in Hms. rewrite Efs in Hms.
    cbn [bind] in Hms. inversion Hms. reflexivity. }
  assert (Hlk : alookup (refkey "sofa") ((K_ID, id_json f) :: (K_TYPE, JStr t) :: List.concat mss) = Some (JInt (s_xid sf))).
  { cbn [alookup]. change (String.eqb (refkey "sofa") K_ID) with false. change (String.eqb (refkey "sofa") K_TYPE) with false. cbv iota.
    assert (Hk : refkey "sofa" = fd_xname fso \/ refkey "sofa" = refkey (fd_xname fso) \/ refkey "sofa" = numkey (fd_xname fso))
      by (right; left; rewrite Hsx; reflexivity).
    rewrite (proj2 (concat_lookup c s t f (ti_feats ti) mss F2 Hnd Hnames fso (refkey "sofa") (Hnames fso Hsin) Hk) ms Hsin Hms).
    rewrite Ems'. cbn [alookup]. rewrite String.eqb_refl. reflexivity. }
  rewrite Hlk. apply zmem_In. exact (Hsofa n sf Efs).
Qed.

(* ================================================================================================================ *)
(* small facts about what the views loop and the canonical content say                                               *)
(* ================================================================================================================ *)

Lemma view_out_inv L s c (p : list oid * cview) out : view_out L s c p = Ok out ->
  exists mids arrs ms, member_ids (c_heap c) (v_members (snd p)) = Ok mids /\ arr_out L s c p = Ok arrs /\
    enc_sofa L c (v_sofa (snd p)) = Ok ms /\ out = (arrs ++ [JObj ms], vjson (snd p) mids).
Proof.
  unfold view_out, enc_view. intros H. apply bind_Ok in H as (jv & Ejv & H). apply bind_Ok in H as (arrs & Ea & H).
  apply bind_Ok in H as (ms & Es & H). apply bind_Ok in Ejv as (mids & Em & Ejv). inversion Ejv; subst jv. inversion H; subst out.
  exists mids, arrs, ms. repeat split; assumption.
Qed.
Lemma arr_out_inv L s c (p : list oid * cview) arrs : arr_out L s c p = Ok arrs ->
  (arr_of p = [] /\ arrs = []) \/
  (exists o f m, s_arr (v_sofa (snd p)) = Some o /\ arr_of p = [o] /\ hget (c_heap c) o = Some f /\ enc_fs L s c f = Ok m /\ arrs = [JObj m]).
Proof.
  unfold arr_out, arr_of. destruct (s_arr (v_sofa (snd p))) as [o|]; [|intros [= <-]; left; split; reflexivity].
  destruct (omem o (fst p)); [intros [= <-]; left; split; reflexivity|].
  destruct (hget (c_heap c) o) as [f|] eqn:Eg; [|discriminate]. intros H. apply bind_Ok in H as (m & Em & H). inversion H; subst arrs.
  right. exists o, f, m. split; [reflexivity|]. split; [reflexivity|]. split; [exact Eg|]. split; [exact Em|reflexivity].
Qed.

Lemma canon_sofa_fields c v cs : canon_sofa c v = Ok cs ->
  cs_id cs = s_xid (v_sofa v) /\ cs_num cs = s_num (v_sofa v) /\ cs_name cs = s_name (v_sofa v) /\
  (forall a, cs_arr cs = Some a -> exists o f, s_arr (v_sofa v) = Some o /\ hget (c_heap c) o = Some f /\ o_id f = Some a).
Proof.
  unfold canon_sofa. intros H. apply bind_Ok in H as (arr & Ea & H). apply bind_Ok in H as (ms & _ & H). inversion H; subst cs. cbn.
  repeat split. intros a ->. destruct (s_arr (v_sofa v)) as [o|]; [|discriminate]. cbn [ref_id] in Ea.
  destruct (hget (c_heap c) o) as [f|] eqn:Eg; [|discriminate]. inversion Ea. exists o, f. split; [reflexivity|]. split; [exact Eg|reflexivity].
Qed.

Lemma find_by_id (l : list entry) e i : NoDup (map fst l) -> In e l -> fst e = i -> find (fun e' : entry => Z.eqb (fst e') i) l = Some e.
Proof.
  intros ND Hi <-. induction l as [|y r IH]; [destruct Hi|]. cbn [map] in ND. inversion ND as [|? ? Hn ND']; subst.
  cbn [find]. destruct Hi as [->|Hi]; [rewrite Z.eqb_refl; reflexivity|].
  match goal with |- context [if ?b then _ else _] => destruct b eqn:E end; [|apply IH; assumption].
  apply Z.eqb_eq in E. exfalso. apply Hn. apply in_map_iff. exists e. split; [symmetry; exact E|exact Hi].
Qed.
Lemma zsort_is_perm l : Permutation (zsort l) l.
Proof.
  unfold zsort. induction l as [|y r IH]; cbn [fold_right]; [constructor|].
  eapply Permutation_trans; [|constructor; exact IH]. generalize (fold_right zinsert [] r). intros m.
  induction m as [|z m' IHm]; cbn [zinsert]; [apply Permutation_refl|].
  destruct (y <=? z); [apply Permutation_refl|]. eapply Permutation_trans; [apply perm_skip; exact IHm|apply perm_swap].
Qed.

Lemma find_sofa_unique c v : NoDup (map (fun v => s_name (v_sofa v)) (c_views c)) -> In v (c_views c) ->
  find_sofa c (s_name (v_sofa v)) = Some (v_sofa v).
Proof.
  unfold find_sofa. generalize (c_views c). induction l as [|y r IH]; intros ND Hi; [destruct Hi|]. cbn [map] in ND.
  inversion ND as [|? ? Hn ND']; subst. cbn [find]. destruct Hi as [->|Hi]; [rewrite String.eqb_refl; reflexivity|].
  destruct (String.eqb (s_name (v_sofa y)) (s_name (v_sofa v))) eqn:E; [|apply IH; assumption].
  apply String.eqb_eq in E. exfalso. apply Hn. rewrite E. apply (in_map (fun v => s_name (v_sofa v))). exact Hi.
Qed.
Lemma find_sofa_in c n sf : find_sofa c n = Some sf -> exists v, In v (c_views c) /\ sf = v_sofa v /\ s_name sf = n.
Proof.
  unfold find_sofa. destruct (find _ (c_views c)) as [v|] eqn:E; [|discriminate]. intros [= <-]. apply find_some in E.
  destruct E as [Hv Hn]. apply String.eqb_eq in Hn. exists v. repeat split; assumption.
Qed.

Lemma nodupN_NoDup l : nodupN l = true -> NoDup l.
Proof.
  induction l as [|x r IH]; cbn [nodupN]; intros H; [constructor|]. apply andb_true_iff in H. destruct H as [A B].
  constructor; [|apply IH; exact B]. intros Hin. apply negb_true_iff in A.
  assert (memN x r = true) by (clear - Hin; induction r as [|y r IH]; [destruct Hin|]; cbn [memN]; destruct Hin as [->|Hin];
                               [rewrite N.eqb_refl; reflexivity|rewrite (IH Hin); apply orb_true_r]).
  congruence.
Qed.
Lemma mapM_inj_nodup {A B} (g : A -> res B) l : NoDup l ->
  (forall a a' b, In a l -> In a' l -> g a = Ok b -> g a' = Ok b -> a = a') -> forall r, mapM g l = Ok r -> NoDup r.
Proof.
  induction 1 as [|a t Hni _ IH]; intros Hinj r Hm; cbn [mapM] in Hm; [inversion Hm; constructor|].
  apply bind_Ok in Hm as (b & Eb & Hm). apply bind_Ok in Hm as (bs & Ebs & Hm). inversion Hm; subst r.
  constructor; [|apply IH; [intros x x' y Hx Hx'; apply Hinj; right; assumption|exact Ebs]].
  intros Hin. destruct (mapM_In _ _ _ Ebs b Hin) as (a' & Ha' & Ea'). apply Hni.
  rewrite (Hinj a a' b (or_introl eq_refl) (or_intror Ha') Eb Ea'). exact Ha'.
Qed.
Lemma jints_map_JInt l : jints (map JInt l) = l.
Proof. induction l as [|x r IH]; [reflexivity|]. unfold jints in *. cbn [map flat_map app]. rewrite IH. reflexivity. Qed.
Lemma alookup_in_keys {V} k (l : list (string * V)) : In k (map fst l) -> exists v, alookup k l = Some v.
Proof.
  induction l as [|[k' v'] r IH]; [intros []|]. cbn [map fst alookup]. destruct (String.eqb k k') eqn:E; [eexists; reflexivity|].
  intros [->|H]; [rewrite String.eqb_refl in E; discriminate|apply IH; exact H].
Qed.

(* the `sofa` member of a structure whose `sofa` feature holds a Sofa *)
Lemma sofa_member_written L s c f m ti fd n sf :
  obj_okb s c f = true -> is_array_name (o_type f) = false -> sch_find s (o_type f) = Some ti -> enc_fs L s c f = Ok m ->
  xfind (ti_feats ti) "sofa" = Some fd -> slot f (fd_name fd) = VSofa n -> find_sofa c n = Some sf ->
  is_primitive s (fd_range fd) = false -> alookup (refkey "sofa") m = Some (JInt (s_xid sf)).
Proof.
  intros Hok Harr Eti Henc Es Eso Efs Hnp. unfold obj_okb in Hok. apply andb_true_iff in Hok. destruct Hok as [_ Hok].
  unfold enc_fs in Henc. set (t := o_type f) in *. rewrite Harr, Eti in Henc, Hok.
  apply bind_Ok in Henc as (mss & Ems & Henc). inversion Henc; subst m. clear Henc.
  apply andb_true_iff in Hok. destruct Hok as [Hok _]. apply andb_true_iff in Hok. destruct Hok as [Hnames Hnd].
  rewrite forallb_forall in Hnames. apply snodup_NoDup in Hnd. pose proof (mapM_Forall2 _ _ _ Ems) as F2.
  destruct (xfind_in _ _ _ Es) as [Hsin Hsx]. destruct (Forall2_In_l _ _ _ fd F2 Hsin) as (ms & _ & Hms).
  assert (Ems' : ms = [(refkey "sofa", JInt (s_xid sf))]).
  { unfold enc_feature in Hms. rewrite Eso in Hms. cbn [is_vnone] in Hms. unfold doc_val in Hms. rewrite Hsx in Hms.
    change (is_offset_name "sofa") with false in Hms. rewrite andb_false_r in Hms. cbn [bind] in Hms.
    unfold enc_value in Hms. rewrite (not_prim_not_float s _ Hnp), Hnp, Hsx in Hms. unfold ref_json, ref_id in Hms. rewrite Efs in Hms.
    cbn [bind] in Hms. inversion Hms. reflexivity. }
  cbn [app alookup]. change (String.eqb (refkey "sofa") K_ID) with false. change (String.eqb (refkey "sofa") K_TYPE) with false. cbv iota.
  assert (Hk : refkey "sofa" = fd_xname fd \/ refkey "sofa" = refkey (fd_xname fd) \/ refkey "sofa" = numkey (fd_xname fd))
    by (right; left; rewrite Hsx; reflexivity).
  rewrite (proj2 (concat_lookup c s t f (ti_feats ti) mss F2 Hnd Hnames fd (refkey "sofa") (Hnames fd Hsin) Hk) ms Hsin Hms).
  rewrite Ems'. cbn [alookup]. rewrite String.eqb_refl. reflexivity.
Qed.

(* ================================================================================================================ *)
(* the document                                                                                                      *)
(* ================================================================================================================ *)

Section DocOk.
  Variable L : lex.
  Variable s : schema.
  Variable c2 : cas.
  Variable w : wstate.
  Variable outs : list (list json * (string * json)).
  Variable fss : list json.
  Variables Ev Ef : list entry.
  Variable sofas : list csofa.
  Hypothesis HL : lex_ok L.
  Hypothesis Ew : find_all_fs true s c2 = Ok w.
  Hypothesis Hheap : w_heap w = c_heap c2.
  Hypothesis Houts : mapM (view_out L s c2) (tviews c2) = Ok outs.
  Hypothesis Efss : mapM (fun io => do f <- fs_at c2 io ;; do m <- enc_fs L s c2 f ;; Ok (JObj m)) (found_list c2 w) = Ok fss.
  Hypothesis HV : views_facts L s c2 (tviews c2) outs Ev sofas.
  Hypothesis HF : found_facts L s c2 (found_list c2 w) fss Ef.
  Hypothesis Hfound : forall io, In io (w_all w) -> found_okP s c2 io.
  Hypothesis Harrs : arrs_okP s c2 (c_views c2).
  Hypothesis Hn : snodup (map s_name (map v_sofa (c_views c2))) = true.
  Hypothesis Hi : znodup (map s_xid (map v_sofa (c_views c2))) = true.
  Hypothesis Hnonull : forallb (fun p => negb (is_null_id (snd p))) (c_heap c2) = true.
  Hypothesis Harrsch : forallb (fun ti => Bool.eqb (is_array_name (ti_name ti)) (match is_array_type ti with Ok b => b | _ => false end)) s = true.
  Hypothesis Hsofaslot : forallb (fun io => match hget (c_heap c2) (snd io) with
                                            | Some f => match slot f "sofa" with VRef _ => false | _ => true end
                                            | None => false end) (w_all w) = true.
  Hypothesis Hnd_es : NoDup (map fst (Ev ++ Ef)).
  Hypothesis Tpos : forallb (fun i => 0 <? i) (doc_ids c2 w) = true.
  Hypothesis Tnum : znodup (map s_num (map v_sofa (c_views c2))) = true.
  Hypothesis Tmem : forallb (fun v => nodupN (v_members v) && forallb (member_sofa_inb s c2 v) (v_members v)) (c_views c2) = true.
  Hypothesis Tfound : forallb (fun io => heap_typedb s c2 (snd io)) (w_all w) = true.
  Hypothesis Tarr : forallb (heap_typedb s c2) (sofa_arrays c2) = true.

  Local Notation es := (Ev ++ Ef).
  Local Notation views := (map snd outs).
  Local Notation fes := (filter not_sofa (Ev ++ Ef)).
  Local Notation ses := (filter is_sofa_entry (Ev ++ Ef)).

  Lemma names_nodup : NoDup (map (fun v => s_name (v_sofa v)) (c_views c2)).
  Proof. apply snodup_NoDup. rewrite map_map in Hn. exact Hn. Qed.
  (* the views, each with the arrays written before it *)
  Lemma tv_snd : map snd (tviews c2) = c_views c2.
  Proof. apply tag_views_snd. Qed.
  Lemma tv_in p : In p (tviews c2) -> In (snd p) (c_views c2).
  Proof. intros H. rewrite <- tv_snd. apply in_map. exact H. Qed.
  Lemma tv_of v : In v (c_views c2) -> exists p, In p (tviews c2) /\ snd p = v.
  Proof. intros H. rewrite <- tv_snd in H. apply in_map_iff in H. destruct H as (p & E & Hp). exists p. split; assumption. Qed.
  (* the view in front of whose sofa a byte array is written *)
  Lemma tv_array o : In o (sofa_arrays c2) -> exists p, In p (tviews c2) /\ arr_of p = [o].
  Proof.
    intros Ho. apply omem_In in Ho. rewrite <- sofa_arrays_once_mem in Ho. apply omem_In in Ho. rewrite <- tviews_arrays in Ho.
    apply in_flat_map in Ho. destruct Ho as (p & Hp & Hop). exists p. split; [exact Hp|].
    unfold arr_of in *. destruct (s_arr (v_sofa (snd p))) as [o'|]; [|destruct Hop]. destruct (omem o' (fst p)); [destruct Hop|].
    destruct Hop as [<-|[]]. reflexivity.
  Qed.
  Lemma in_found_list io : In io (found_list c2 w) -> In io (w_all w).
  Proof. unfold found_list, unwritten. intros H. apply filter_In in H. apply (proj1 (sort_ids_In _ _)). exact (proj1 H). Qed.

  (* ---- where the entries come from ---- *)
  Lemma Ef_char e : In e Ef -> exists i o f m, In (i, o) (w_all w) /\ hget (c_heap c2) o = Some f /\ o_id f = Some i /\
    obj_okb s c2 f = true /\ enc_fs L s c2 f = Ok m /\ e = (i, m).
  Proof.
    intros He. destruct HF as (F0 & F1 & _). pose proof Efss as Efss'. rewrite F1 in Efss'. pose proof (found_entries _ _ _ Efss' F0) as F.
    destruct (Forall2_In_r _ _ _ _ F He) as (io & Hio & Hfst & Hg). apply in_found_list in Hio.
    apply bind_Ok in Hg as (f & Ef' & Hg). apply bind_Ok in Hg as (m & Em & Hg). inversion Hg as [Hm].
    unfold fs_at in Ef'. destruct (hget (c_heap c2) (snd io)) as [f'|] eqn:Eg; [|discriminate]. inversion Ef'; subst f'.
    destruct (Hfound io Hio) as (f'' & Eg' & Hok & Hid). rewrite Eg in Eg'. inversion Eg'; subst f''.
    destruct io as [i0 o]. destruct e as [ie me]. cbn [fst snd] in *. subst ie me. exists i0, o, f, m. repeat split; assumption.
  Qed.
  Lemma Ef_has i o : In (i, o) (w_all w) -> omem o (sofa_arrays c2) = false ->
    exists f m, hget (c_heap c2) o = Some f /\ o_id f = Some i /\ obj_okb s c2 f = true /\
    enc_fs L s c2 f = Ok m /\ In (i, m) Ef.
  Proof.
    intros Hio Hno. destruct HF as (F0 & F1 & _). pose proof Efss as Efss'. rewrite F1 in Efss'. pose proof (found_entries _ _ _ Efss' F0) as F.
    assert (Hfl : In (i, o) (found_list c2 w)).
    { unfold found_list, unwritten. apply filter_In. split; [exact (proj2 (sort_ids_In _ _) Hio)|]. cbn [snd]. rewrite Hno. reflexivity. }
    destruct (Forall2_In_l _ _ _ (i, o) F Hfl) as (e & He & Hfst & Hg).
    apply bind_Ok in Hg as (f & Ef' & Hg). apply bind_Ok in Hg as (m & Em & Hg). inversion Hg as [Hm].
    unfold fs_at in Ef'. cbn [snd] in Ef'. destruct (hget (c_heap c2) o) as [f'|] eqn:Eg; [|discriminate]. inversion Ef'; subst f'.
    destruct (Hfound (i, o) Hio) as (f'' & Eg' & Hok & Hid). cbn [fst snd] in *. rewrite Eg in Eg'. inversion Eg'; subst f''.
    destruct e as [ie me]. cbn [fst snd] in *. subst ie me. exists f, m. repeat split; assumption.
  Qed.

  Lemma Ev_char e : In e Ev -> exists v, In v (c_views c2) /\
    ((exists ms, enc_sofa L c2 (v_sofa v) = Ok ms /\ e = (s_xid (v_sofa v), ms)) \/
     (exists o f i m, s_arr (v_sofa v) = Some o /\ hget (c_heap c2) o = Some f /\ o_id f = Some i /\
        String.eqb (o_type f) T_BYTE_ARRAY = true /\ obj_okb s c2 f = true /\ enc_fs L s c2 f = Ok m /\ e = (i, m))).
  Proof.
    intros He. destruct HV as (_ & V1 & V2 & _).
    assert (Hj : In (entry_json e) (List.concat (map fst outs))) by (rewrite V1; apply in_map; exact He).
    apply in_concat in Hj. destruct Hj as (js & Hjs & Hj). apply in_map_iff in Hjs. destruct Hjs as (out & <- & Hout).
    destruct (mapM_In _ _ _ Houts out Hout) as (p & Hp & Eo). pose proof (tv_in p Hp) as Hv. exists (snd p). split; [exact Hv|].
    destruct (view_out_inv _ _ _ _ _ Eo) as (mids & arrs & ms & _ & Ea & Es & ->). cbn [fst] in Hj.
    rewrite Forall_forall in V2. specialize (V2 _ He). unfold id_first in V2. destruct e as [ie me]. cbn [fst snd entry_json] in *.
    apply in_app_or in Hj. destruct Hj as [Hj|[Hj|[]]].
    - right. destruct (arr_out_inv _ _ _ _ _ Ea) as [[_ ->]|(o & f & m & Eo' & _ & Eg & Em & ->)]; [destruct Hj|].
      destruct Hj as [Hj|[]]. inversion Hj; subst me. destruct (Harrs (snd p) o Hv Eo') as (f' & i & Eg' & [Ht Hok] & Hid).
      rewrite Eg in Eg'. inversion Eg'; subst f'. destruct (enc_fs_head _ _ _ _ _ Em) as (rest & ->). cbn [alookup] in V2.
      rewrite String.eqb_refl in V2. unfold id_json in V2. rewrite Hid in V2. inversion V2; subst ie.
      exists o, f, i, ((K_ID, id_json f) :: (K_TYPE, JStr (o_type f)) :: rest). repeat split; assumption.
    - left. inversion Hj; subst me. destruct (enc_sofa_head _ _ _ _ Es) as [Hid _]. unfold id_first in Hid. cbn [fst snd] in Hid.
      rewrite Hid in V2. inversion V2; subst ie. exists ms. split; [exact Es|reflexivity].
  Qed.
  (* what the loop writes for the tagged view p is among the entries *)
  Lemma Ev_sub p out : In p (tviews c2) -> In out outs -> view_out L s c2 p = Ok out ->
    forall j, In j (fst out) -> exists e, In e Ev /\ entry_json e = j.
  Proof.
    intros Hp Hout Eo j Hj. destruct HV as (_ & V1 & _). assert (Hc : In j (List.concat (map fst outs))).
    { apply in_concat. exists (fst out). split; [apply in_map; exact Hout|exact Hj]. }
    rewrite V1 in Hc. apply in_map_iff in Hc. destruct Hc as (e & Ee & He). exists e. split; assumption.
  Qed.
  Lemma Ev_has v : In v (c_views c2) ->
    (exists ms, enc_sofa L c2 (v_sofa v) = Ok ms /\ In (s_xid (v_sofa v), ms) Ev) /\
    (forall o, s_arr (v_sofa v) = Some o -> exists f i m, hget (c_heap c2) o = Some f /\ o_id f = Some i /\
       String.eqb (o_type f) T_BYTE_ARRAY = true /\ obj_okb s c2 f = true /\ enc_fs L s c2 f = Ok m /\ In (i, m) Ev).
  Proof.
    intros Hv. pose proof HV as (_ & _ & V2 & _). rewrite Forall_forall in V2. split.
    - destruct (tv_of v Hv) as (p & Hp & <-). destruct (mapM_In_l _ _ _ Houts p Hp) as (out & Hout & Eo).
      destruct (view_out_inv _ _ _ _ _ Eo) as (mids & arrs & ms & _ & Ea & Es & Eout).
      exists ms. split; [exact Es|]. destruct (Ev_sub p out Hp Hout Eo (JObj ms)) as ([ie me] & He & Ee); [rewrite Eout; apply in_or_app; right; left; reflexivity|].
      cbn [entry_json snd] in Ee. inversion Ee; subst me. specialize (V2 _ He). unfold id_first in V2. cbn [fst snd] in V2.
      destruct (enc_sofa_head _ _ _ _ Es) as [Hid _]. unfold id_first in Hid. cbn [fst snd] in Hid. rewrite Hid in V2. inversion V2; subst ie. exact He.
    - intros o Eo'. destruct (Harrs v o Hv Eo') as (f & i & Eg & [Ht Hok] & Hid).
      (* the array is written in front of the first sofa that refers to it *)
      assert (Ho : In o (sofa_arrays c2)) by (unfold sofa_arrays; apply in_flat_map; exists v; split; [exact Hv|rewrite Eo'; left; reflexivity]).
      destruct (tv_array o Ho) as (p & Hp & Hao). destruct (mapM_In_l _ _ _ Houts p Hp) as (out & Hout & Eo).
      destruct (view_out_inv _ _ _ _ _ Eo) as (mids & arrs & ms & _ & Ea & Es & Eout).
      destruct (arr_out_inv _ _ _ _ _ Ea) as [[E _]|(o' & f' & m & _ & Hao' & Eg' & Em & Earrs)]; [congruence|].
      rewrite Hao in Hao'. inversion Hao'; subst o'. rewrite Eg in Eg'. inversion Eg'; subst f'.
      exists f, i, m. repeat split; try assumption.
      destruct (Ev_sub p out Hp Hout Eo (JObj m)) as ([ie me] & He & Ee); [rewrite Eout, Earrs; left; reflexivity|].
      cbn [entry_json snd] in Ee. inversion Ee; subst me. specialize (V2 _ He). unfold id_first in V2. cbn [fst snd] in V2.
      destruct (enc_fs_head _ _ _ _ _ Em) as (rest & Em'). rewrite Em' in V2. cbn [alookup] in V2. rewrite String.eqb_refl in V2.
      unfold id_json in V2. rewrite Hid in V2. inversion V2; subst ie. exact He.
  Qed.

  (* ---- which entries are sofa entries ---- *)
  Lemma written_not_sofa f i m : obj_okb s c2 f = true -> enc_fs L s c2 f = Ok m -> is_sofa_entry (i, m) = false.
  Proof.
    intros Hok Em. destruct (enc_fs_head _ _ _ _ _ Em) as (rest & ->). unfold is_sofa_entry. rewrite e_type_written.
    unfold obj_okb in Hok. apply andb_true_iff in Hok. destruct Hok as [Ht _]. unfold tname_okb in Ht.
    apply andb_true_iff in Ht. destruct Ht as [Ht _]. apply negb_true_iff in Ht. exact Ht.
  Qed.
  Lemma In_fes_Ef e : In e Ef -> In e fes.
  Proof.
    intros He. apply filter_In. split; [apply in_or_app; right; exact He|].
    destruct (Ef_char e He) as (i & o & f & m & _ & _ & _ & Hok & Em & ->). unfold not_sofa. rewrite (written_not_sofa f i m Hok Em). reflexivity.
  Qed.
  (* every structure found has its entry: written by the traversal loop, or -- a sofa byte array -- by the views loop *)
  Lemma found_has i o : In (i, o) (w_all w) -> exists f m, hget (c_heap c2) o = Some f /\ o_id f = Some i /\ obj_okb s c2 f = true /\
    enc_fs L s c2 f = Ok m /\ In (i, m) fes.
  Proof.
    intros Hio. destruct (omem o (sofa_arrays c2)) eqn:Eo.
    - apply omem_In in Eo. unfold sofa_arrays in Eo. apply in_flat_map in Eo. destruct Eo as (v & Hv & Hov).
      destruct (s_arr (v_sofa v)) as [o'|] eqn:Ea; [|destruct Hov]. destruct Hov as [->|[]].
      destruct (proj2 (Ev_has v Hv) o Ea) as (f & i' & m & Eg & Hid & _ & Hok & Em & He).
      destruct (Hfound (i, o) Hio) as (f' & Eg' & _ & Hid'). cbn [fst snd] in Eg', Hid'. rewrite Eg in Eg'. inversion Eg'; subst f'.
      rewrite Hid in Hid'. inversion Hid'; subst i'. exists f, m. repeat split; try assumption.
      apply filter_In. split; [apply in_or_app; left; exact He|]. unfold not_sofa.
      destruct (enc_fs_head _ _ _ _ _ Em) as (rest & ->). unfold is_sofa_entry. rewrite e_type_written.
      unfold obj_okb in Hok. apply andb_true_iff in Hok. destruct Hok as [Ht _]. unfold tname_okb in Ht.
      apply andb_true_iff in Ht. destruct Ht as [Ht _]. exact Ht.
    - destruct (Ef_has i o Hio Eo) as (f & m & A & B & C & D & He). exists f, m. repeat split; try assumption. apply In_fes_Ef. exact He.
  Qed.
  Lemma found_in_fes i : In i (map fst (w_all w)) -> In i (map fst fes).
  Proof.
    intros Hin. apply in_map_iff in Hin. destruct Hin as ([i' o] & <- & Hio). destruct (found_has i' o Hio) as (f & m & _ & _ & _ & _ & He).
    cbn [fst]. change i' with (fst (i', m)). apply in_map. exact He.
  Qed.
  Lemma sofa_in_ses v : In v (c_views c2) -> In (s_xid (v_sofa v)) (map fst ses).
  Proof.
    intros Hv. destruct (proj1 (Ev_has v Hv)) as (ms & Es & He). change (s_xid (v_sofa v)) with (fst (s_xid (v_sofa v), ms)).
    apply in_map. apply filter_In. split; [apply in_or_app; left; exact He|]. exact (proj2 (enc_sofa_head _ _ _ _ Es)).
  Qed.
  Lemma find_sofa_in_ses n sf : find_sofa c2 n = Some sf -> In (s_xid sf) (map fst ses).
  Proof. intros H. destruct (find_sofa_in _ _ _ H) as (v & Hv & -> & _). apply sofa_in_ses. exact Hv. Qed.
  Lemma fes_nodup : NoDup (map fst fes).
  Proof. apply NoDup_filter_map. exact Hnd_es. Qed.

  (* ---- a reference held by a structure found is written as the id of a structure found ---- *)
  Lemma ref_resolves_feature i0 o f ti fd x : In (i0, o) (w_all w) -> hget (c_heap c2) o = Some f -> sch_find s (o_type f) = Some ti ->
    is_array_name (o_type f) = false -> In fd (ti_feats ti) -> is_primitive s (fd_range fd) = false -> slot f (fd_name fd) = VRef x ->
    exists i', ref_json c2 (VRef x) = Ok (JInt i') /\ In i' (map fst (w_all w)).
  Proof.
    intros Hin Hg Hti Harr Hfd Hprim Esl. destruct (String.eqb (fd_name fd) "sofa") eqn:Esofa.
    - apply String.eqb_eq in Esofa. rewrite Esofa in Esl. pose proof Hsofaslot as Hss. rewrite forallb_forall in Hss. specialize (Hss (i0, o) Hin).
      cbn [snd] in Hss. rewrite Hg, Esl in Hss. discriminate.
    - destruct (find_all_scanned true s c2 w Ew i0 o Hin) as (f0 & l & Hg0 & Hc). rewrite Hheap in Hg0, Hc.
      rewrite Hg in Hg0. inversion Hg0; subst f0. clear Hg0.
      assert (Hsucc : succ_rel true s (c_heap c2) o x).
      { apply (sr_feature true s (c_heap c2) o x f ti fd); try assumption.
        - rewrite (array_type_agree s Harrsch _ ti Hti), Harr. reflexivity.
        - intros E. rewrite E in Esofa. discriminate.
        - apply fs_ref; [reflexivity|exact Esl]. }
      apply (succs_declarative true s (c_heap c2) o f l Hg Hc x) in Hsucc. apply refs_of_In in Hsucc.
      destruct (target_resolves s c2 w Ew Hheap Hnonull i0 o f l x Hin Hg Hc Hsucc) as (i & fx & Hgx & Hix & Hinx).
      exists i. split; [|exact Hinx]. unfold ref_json, ref_id. rewrite Hgx, Hix. reflexivity.
  Qed.
  Lemma ref_resolves_element i0 o f l' x : In (i0, o) (w_all w) -> hget (c_heap c2) o = Some f -> o_type f = T_FS_ARRAY ->
    slot f "elements" = VList l' -> In (VRef x) l' -> exists i', ref_json c2 (VRef x) = Ok (JInt i') /\ In i' (map fst (w_all w)).
  Proof.
    intros Hin Hg Ht Hsl Hx. destruct (find_all_scanned true s c2 w Ew i0 o Hin) as (f0 & l & Hg0 & Hc). rewrite Hheap in Hg0, Hc.
    rewrite Hg in Hg0. inversion Hg0; subst f0. clear Hg0.
    assert (Hl : l = l').
    { unfold obj_cands in Hc. rewrite Ht in Hc. destruct (sch_find s T_FS_ARRAY) as [ti|] eqn:Eti; [|discriminate].
      rewrite (array_type_agree s Harrsch _ _ Eti) in Hc. change (is_array_name T_FS_ARRAY) with true in Hc. cbn [bind] in Hc.
      destruct (sch_find_name s _ ti Eti) as [Hn' _]. rewrite Hn', String.eqb_refl in Hc. unfold own_elements in Hc.
      destruct (has_feat s (o_type f) "elements"); [|discriminate]. rewrite Hsl in Hc. inversion Hc. reflexivity. }
    subst l'. destruct (target_resolves s c2 w Ew Hheap Hnonull i0 o f l x Hin Hg Hc Hx) as (i & fx & Hgx & Hix & Hinx).
    exists i. split; [|exact Hinx]. unfold ref_json, ref_id. rewrite Hgx, Hix. reflexivity.
  Qed.

  Lemma typed_found i o f : In (i, o) (w_all w) -> hget (c_heap c2) o = Some f -> obj_typed_okb s c2 f = true.
  Proof.
    intros Hin Hg. pose proof Tfound as T. rewrite forallb_forall in T. specialize (T (i, o) Hin). unfold heap_typedb in T. cbn [snd] in T.
    rewrite Hg in T. exact T.
  Qed.

  (* ---- every entry that is not a sofa is a well-formed entry ---- *)
  Lemma fes_entries_ok : forallb (entry_ok L s (map fst fes) (map fst ses)) fes = true.
  Proof.
    apply forallb_forall. intros e He. apply filter_In in He. destruct He as [He Hns]. apply in_app_or in He. destruct He as [He|He].
    - destruct (Ev_char e He) as (v & Hv & [(ms & Es & ->)|(o & f & i & m & Eo & Eg & Hid & Ht & Hok & Em & ->)]).
      + exfalso. unfold not_sofa in Hns. rewrite (proj2 (enc_sofa_head _ _ _ _ Es)) in Hns. discriminate.
      + apply String.eqb_eq in Ht. apply (enc_fs_array_ok L s c2 f i m _ _ HL Hid Hok); [rewrite Ht; reflexivity|exact Em| |].
        * rewrite Ht. intros H. vm_compute in H. discriminate.
        * intros _ l Esl. assert (Ho : In o (sofa_arrays c2)) by (unfold sofa_arrays; apply in_flat_map; exists v; split; [exact Hv|rewrite Eo; left; reflexivity]).
          pose proof Tarr as T. rewrite forallb_forall in T. specialize (T o Ho). unfold heap_typedb in T. rewrite Eg in T.
          unfold obj_typed_okb in T. rewrite Ht in T |- *. destruct (sch_find s T_BYTE_ARRAY); [|discriminate].
          change (is_array_name T_BYTE_ARRAY) with true in T. cbv iota in T. rewrite Esl in T.
          change (String.eqb T_BYTE_ARRAY T_FS_ARRAY) with false in T. exact T.
    - destruct (Ef_char e He) as (i & o & f & m & Hin & Eg & Hid & Hok & Em & ->).
      pose proof (typed_found i o f Hin Eg) as T. unfold obj_typed_okb in T.
      destruct (sch_find s (o_type f)) as [ti|] eqn:Eti; [|discriminate]. destruct (is_array_name (o_type f)) eqn:Earr.
      + destruct (slot f "elements") as [| | | | | |l|] eqn:Esl; try discriminate.
        apply (enc_fs_array_ok L s c2 f i m _ _ HL Hid Hok Earr Em).
        * intros Efs l0 js E0 Ejs. rewrite Esl in E0. inversion E0; subst l0. rewrite Efs in T. apply String.eqb_eq in Efs.
          apply (forallb_mapM (ref_json c2) (ref_live_okb c2) (ref_ok (map fst fes)) l); [|exact T|exact Ejs].
          intros a b Ha Pa Eb. destruct a; try discriminate.
          -- cbn in Eb. inversion Eb. reflexivity.
          -- destruct (ref_resolves_element i o f l o0 Hin Eg Efs Esl Ha) as (i' & Er & Hi'). rewrite Er in Eb. inversion Eb.
             cbn [ref_ok]. apply zmem_In. apply found_in_fes. exact Hi'.
        * intros Efs l0 E0. rewrite Esl in E0. inversion E0; subst l0. rewrite Efs in T. exact T.
      + rewrite forallb_forall in T. apply (enc_fs_struct_ok L s c2 f i m _ _ ti Hid Hok Earr Eti Em T).
        * intros fd Hfd Hprim x Esl. destruct (ref_resolves_feature i o f ti fd x Hin Eg Eti Earr Hfd Hprim Esl) as (i' & Er & Hi').
          exists i'. split; [exact Er|]. apply found_in_fes. exact Hi'.
        * exact find_sofa_in_ses.
  Qed.

  (* ---- the sofas ---- *)
  Lemma views_lookup : Forall2 (fun v out => alookup (s_name (v_sofa v)) views = Some (snd (snd out))) (c_views c2) outs.
  Proof.
    destruct HV as (_ & _ & _ & _ & _ & V5 & _). rewrite tv_snd in V5.
    assert (Hnames : NoDup (map fst views)) by (rewrite V5; exact names_nodup).
    assert (G : forall vs os, map fst (map snd os) = map (fun v => s_name (v_sofa v)) vs -> (forall o, In o os -> In o outs) ->
                Forall2 (fun v out => alookup (s_name (v_sofa v)) views = Some (snd (snd out))) vs os).
    { induction vs as [|v r IHr]; intros [|o os] Hm Hsub; cbn [map] in Hm; try discriminate; constructor.
      - injection Hm as Hk _. rewrite <- Hk. apply alookup_nodup; [exact Hnames|].
        rewrite <- surjective_pairing. apply in_map. apply Hsub. left. reflexivity.
      - apply IHr; [injection Hm as _ Hm; exact Hm|]. intros x Hx. apply Hsub. right. exact Hx. }
    apply G; [exact V5|auto].
  Qed.
  Lemma sofas_read : mapM (den_sofa L views) ses = Ok sofas.
  Proof.
    destruct HV as (_ & _ & _ & _ & _ & _ & V6 & _). destruct HF as (_ & _ & _ & F3 & _). rewrite tv_snd in V6.
    rewrite filter_app, F3, app_nil_r. exact (V6 views views_lookup).
  Qed.
  Lemma sofas_of_views cs : In cs sofas -> exists v, In v (c_views c2) /\ canon_sofa c2 v = Ok cs.
  Proof. destruct HV as (_ & _ & _ & V3 & _). rewrite tv_snd in V3. intros H. exact (mapM_In _ _ _ V3 cs H). Qed.

  Lemma ids_positive : forallb (fun i => 0 <? i) (map fst es) = true.
  Proof.
    destruct HV as (V0 & _). destruct HF as (F0 & _). pose proof Tpos as T. rewrite forallb_forall in T. apply forallb_forall. intros i Hi'.
    apply T. unfold doc_ids. rewrite map_app in Hi'. apply in_app_or in Hi'. destruct Hi' as [Hi'|Hi'].
    - assert (Hi'' : In i (flat_map (fun p => arr_ids c2 p ++ [s_xid (v_sofa (snd p))]) (tviews c2))) by (rewrite <- V0; exact Hi').
      clear Hi'. rename Hi'' into Hi'. apply in_flat_map in Hi'. destruct Hi' as (p & Hp & Hi'). pose proof (tv_in p Hp) as Hv.
      apply in_app_or in Hi'. destruct Hi' as [Hi'|[<-|[]]].
      + apply in_or_app. right. apply in_or_app. right. unfold arr_ids in Hi'. apply in_flat_map in Hi'. destruct Hi' as (o & Ho & Hio).
        apply in_flat_map. exists o. split; [|exact Hio]. unfold sofa_arrays. apply in_flat_map. exists (snd p). split; [exact Hv|].
        unfold arr_of in Ho. destruct (s_arr (v_sofa (snd p))) as [o'|]; [|destruct Ho]. destruct (omem o' (fst p)); [destruct Ho|exact Ho].
      + apply in_or_app. left. rewrite map_map. apply (in_map (fun v => s_xid (v_sofa v))). exact Hv.
    - assert (Hi'' : In i (map fst (found_list c2 w))) by (rewrite <- F0; exact Hi'). clear Hi'. rename Hi'' into Hi'.
      apply in_or_app. right. apply in_or_app. left. apply in_map_iff in Hi'. destruct Hi' as (io & <- & Hio). apply in_map. exact (in_found_list io Hio).
  Qed.
  Lemma view_names_distinct : snodup (map fst views) = true.
  Proof. destruct HV as (_ & _ & _ & _ & _ & V5 & _). rewrite V5, tv_snd. pose proof Hn as H. rewrite map_map in H. exact H. Qed.
  Lemma sofa_names_distinct : snodup (map cs_name sofas) = true.
  Proof.
    destruct HV as (_ & _ & _ & V3 & _). rewrite tv_snd in V3.
    rewrite (mapM_keys (canon_sofa c2) (fun v => s_name (v_sofa v)) cs_name _
               (fun a b H => proj1 (proj2 (proj2 (canon_sofa_fields c2 a b H)))) sofas V3).
    pose proof Hn as H. rewrite map_map in H. exact H.
  Qed.
  Lemma sofa_nums_distinct : znodup (map cs_num sofas) = true.
  Proof.
    destruct HV as (_ & _ & _ & V3 & _). rewrite tv_snd in V3.
    rewrite (mapM_keys (canon_sofa c2) (fun v => s_num (v_sofa v)) cs_num _
               (fun a b H => proj1 (proj2 (canon_sofa_fields c2 a b H))) sofas V3).
    pose proof Tnum as H. rewrite map_map in H. exact H.
  Qed.
  Lemma ses_keys_ok : forallb (fun e : entry => snodup (map fst (snd e)) && forallb (fun kv : string * json => memb (fst kv) sofa_keys) (snd e)) ses = true.
  Proof.
    apply forallb_forall. intros e He. apply filter_In in He. destruct He as [He Hs]. apply in_app_or in He. destruct He as [He|He].
    - destruct (Ev_char e He) as (v & Hv & [(ms & Es & ->)|(o & f & i & m & _ & _ & _ & _ & Hok & Em & ->)]).
      + destruct (enc_sofa_keys _ _ _ _ Es) as [A B]. cbn [snd]. rewrite A, B. reflexivity.
      + rewrite (written_not_sofa f i m Hok Em) in Hs. discriminate.
    - destruct (Ef_char e He) as (i & o & f & m & _ & _ & _ & Hok & Em & ->). rewrite (written_not_sofa f i m Hok Em) in Hs. discriminate.
  Qed.
  Lemma sofa_arrays_present :
    forallb (fun cs => match cs_arr cs with
                       | Some a => existsb (fun e : entry => Z.eqb (fst e) a &&
                                                             match e_type e with Some t => String.eqb t T_BYTE_ARRAY | None => false end) fes
                       | None => true end) sofas = true.
  Proof.
    apply forallb_forall. intros cs Hcs. destruct (sofas_of_views cs Hcs) as (v & Hv & Ec).
    destruct (cs_arr cs) as [a|] eqn:Ea; [|reflexivity]. destruct (canon_sofa_fields _ _ _ Ec) as (_ & _ & _ & Harr).
    destruct (Harr a Ea) as (o & f & Eo & Eg & Hid).
    destruct (proj2 (Ev_has v Hv) o Eo) as (f' & i & m & Eg' & Hid' & Ht & Hok & Em & He). rewrite Eg in Eg'. inversion Eg'; subst f'.
    rewrite Hid in Hid'. inversion Hid'; subst i. apply existsb_exists. exists (a, m). split.
    - apply filter_In. split; [apply in_or_app; left; exact He|]. unfold not_sofa. rewrite (written_not_sofa f a m Hok Em). reflexivity.
    - cbn [fst]. rewrite Z.eqb_refl. destruct (enc_fs_head _ _ _ _ _ Em) as (rest & ->). rewrite e_type_written. exact Ht.
  Qed.
  Lemma sofas_have_views : forallb (fun cs => match alookup (cs_name cs) views with Some _ => true | None => false end) sofas = true.
  Proof.
    destruct HV as (_ & _ & _ & _ & _ & V5 & _). rewrite tv_snd in V5. apply forallb_forall. intros cs Hcs. destruct (sofas_of_views cs Hcs) as (v & Hv & Ec).
    destruct (canon_sofa_fields _ _ _ Ec) as (_ & _ & En & _). destruct (alookup_in_keys (cs_name cs) views) as (x & ->); [|reflexivity].
    rewrite V5, En. apply (in_map (fun v => s_name (v_sofa v))). exact Hv.
  Qed.

  (* ---- the views ---- *)
  Lemma member_found v o f i : In v (c_views c2) -> In o (v_members v) -> hget (c_heap c2) o = Some f -> o_id f = Some i -> In (i, o) (w_all w).
  Proof.
    intros Hv Ho Hg Hid. assert (Hs : In o (member_seeds c2)) by (unfold member_seeds; apply in_flat_map; exists v; split; assumption).
    pose proof Ew as Ew'. change (find_all_fs true s c2) with (find_all_from true s c2 (member_seeds c2)) in Ew'.
    destruct (find_all_contains_seeds _ _ _ _ _ Ew' o Hs) as [Hr|Hnull]; [|destruct (not_null c2 Hnonull o Hnull)].
    apply returned_In in Hr. destruct Hr as (i' & Hi'). destruct (found_ids s c2 w Ew Hheap i' o Hi') as (f' & Hg' & Hid').
    rewrite Hg in Hg'. inversion Hg'; subst f'. rewrite Hid in Hid'. inversion Hid'; subst i'. exact Hi'.
  Qed.
  Lemma views_ok : forallb (view_ok s fes sofas) views = true.
  Proof.
    apply forallb_forall. intros kv Hkv. apply in_map_iff in Hkv. destruct Hkv as (out & <- & Hout).
    destruct (mapM_In _ _ _ Houts out Hout) as (p & Hp & Eo). destruct (view_out_inv _ _ _ _ _ Eo) as (mids & arrs & ms & Emids & _ & _ & ->).
    pose proof (tv_in p Hp) as Hv. set (v := snd p) in *.
    cbn [snd]. unfold view_ok, vjson. cbn [snd fst jget alookup].
    change (String.eqb K_SOFA K_SOFA) with true. change (String.eqb K_MEMBERS K_SOFA) with false.
    change (String.eqb K_MEMBERS K_MEMBERS) with true. cbv iota. rewrite jints_map_JInt.
    assert (Hmem : forall i, In i (zsort mids) -> exists o f, In o (v_members v) /\ hget (c_heap c2) o = Some f /\ o_id f = Some i /\ In (i, o) (w_all w)).
    { intros i Hi'. apply (proj1 (zsort_In _ _)) in Hi'. destruct (member_ids_In _ _ _ i Emids Hi') as (o & f & Ho & Hg & Hio). exists o, f.
      repeat split; try assumption. exact (member_found v o f i Hv Ho Hg Hio). }
    pose proof Tmem as T. rewrite forallb_forall in T. specialize (T v Hv). apply andb_true_iff in T. destruct T as [Tnd Tso].
    repeat (apply andb_true_iff; split).
    - destruct HV as (_ & _ & _ & V3 & _). rewrite tv_snd in V3. destruct (mapM_In_l _ _ _ V3 v Hv) as (cs & Hcs & Ec).
      destruct (canon_sofa_fields _ _ _ Ec) as (Ei & _ & En & _). apply existsb_exists. exists cs. split; [exact Hcs|].
      rewrite Ei, En, Z.eqb_refl, String.eqb_refl. reflexivity.
    - apply forallb_forall. intros j Hj. apply in_map_iff in Hj. destruct Hj as (i & <- & Hi'). destruct (Hmem i Hi') as (o & f & _ & _ & _ & Hin).
      cbn [ref_ok]. apply zmem_In. apply found_in_fes. change i with (fst (i, o)). apply in_map. exact Hin.
    - apply forallb_forall. intros j Hj. apply in_map_iff in Hj. destruct Hj as (i & <- & _). reflexivity.
    - apply znodup_iff. eapply Permutation_NoDup; [apply Permutation_sym, zsort_is_perm|].
      unfold member_ids in Emids. refine (mapM_inj_nodup _ (v_members v) (nodupN_NoDup _ Tnd) _ mids Emids).
      intros a a' b Ha Ha' Ea Ea'.
      destruct (hget (c_heap c2) a) as [fa|] eqn:Ega; [|discriminate]. destruct (o_id fa) as [ia|] eqn:Eia; [|discriminate]. inversion Ea; subst ia.
      destruct (hget (c_heap c2) a') as [fa'|] eqn:Ega'; [|discriminate]. destruct (o_id fa') as [ia'|] eqn:Eia'; [|discriminate]. inversion Ea'; subst ia'.
      pose proof Ew as Ew'. change (find_all_fs true s c2) with (find_all_from true s c2 (member_seeds c2)) in Ew'.
      destruct (find_all_each_once _ _ _ _ _ Ew') as [Nid _].
      exact (NoDup_fst_inj (w_all w) b a a' Nid (member_found v a fa b Hv Ha Ega Eia) (member_found v a' fa' b Hv Ha' Ega' Eia')).
    - apply forallb_forall. intros i Hi'. destruct (Hmem i Hi') as (o & f & Ho & Hg & Hid & Hin).
      destruct (found_has i o Hin) as (f' & m & Hg' & _ & Hok & Em & He). rewrite Hg in Hg'. inversion Hg'; subst f'.
      pose proof (find_by_id fes (i, m) i fes_nodup He eq_refl) as Hfind. unfold member_sofa_ok.
      match goal with |- context [find ?g ?l] => replace (find g l) with (Some ((i, m) : entry)) by (symmetry; exact Hfind) end.
      destruct (enc_fs_head _ _ _ _ _ Em) as (rest & Em'). rewrite Em' at 1. rewrite e_type_written.
      assert (Htn : norm_tname (o_type f) = o_type f).
      { apply tname_ok_norm. unfold obj_okb in Hok. apply andb_true_iff in Hok. exact (proj1 Hok). }
      rewrite Htn. destruct (is_array_name (o_type f)) eqn:Earr; [reflexivity|].
      rewrite forallb_forall in Tso. specialize (Tso o Ho). unfold member_sofa_inb in Tso. rewrite Hg, Earr in Tso.
      destruct (sch_find s (o_type f)) as [ti|] eqn:Eti; [|discriminate].
      destruct (xfind (ti_feats ti) "sofa") as [fd|] eqn:Es; [|reflexivity].
      destruct (slot f (fd_name fd)) as [| | | | | | |n] eqn:Eso; try discriminate. apply String.eqb_eq in Tso. subst n.
      pose proof (find_sofa_unique c2 v names_nodup Hv) as Efs.
      assert (Hnp : is_primitive s (fd_range fd) = false).
      { pose proof (typed_found i o f Hin Hg) as Tf. unfold obj_typed_okb in Tf. rewrite Eti, Earr in Tf. rewrite forallb_forall in Tf.
        destruct (xfind_in _ _ _ Es) as [Hfd _]. specialize (Tf fd Hfd). rewrite Eso in Tf. unfold slot_typed_okb in Tf.
        destruct (is_primitive s (fd_range fd)); [|reflexivity]. destruct (prim_of s (fd_range fd)); discriminate. }
      cbn [snd]. rewrite (sofa_member_written L s c2 f m ti fd _ _ Hok Earr Eti Em Es Eso Efs Hnp). apply Z.eqb_refl.
  Qed.

  (* ---- the document ---- *)
  Lemma doc_ok_assembled d : fs_entries d = Ok (Ev ++ Ef) -> doc_views d = Ok (map snd outs) -> doc_ok_json L s d = true.
  Proof.
    intros E1 E2. unfold doc_ok_json. rewrite E1, E2. change (fun e : entry => negb (is_sofa_entry e)) with not_sofa.
    rewrite sofas_read. repeat (apply andb_true_iff; split).
    - apply znodup_iff. exact Hnd_es.
    - exact ids_positive.
    - exact view_names_distinct.
    - exact sofa_names_distinct.
    - exact sofa_nums_distinct.
    - exact ses_keys_ok.
    - exact sofa_arrays_present.
    - exact sofas_have_views.
    - exact views_ok.
    - exact fes_entries_ok.
  Qed.
End DocOk.

(* C02 / C04 json_doc_ok: for every CAS and every mode, the document the writer produces is a well-formed JSON-CAS document —
   ids distinct and positive, view names / sofa names / sofaNums distinct, sofa entries carry only sofa keys, every sofa byte
   array is an entry of type ByteArray, every sofa has its view, every view names its sofa and lists each member once (members
   resolve, a member's `sofa` names that view's sofa), and every other entry is typed: its keys are %ID, %TYPE, %ELEMENTS or
   feature names with the right sigil, no key and no feature twice, values of the kind of the range, references resolve to
   feature structures ('@' of a Sofa-ranged feature: to a sofa), %ELEMENTS of the kind of the array type.
   Premises (booleans on the CAS the save leaves behind): wf_jsonb, ids_distinctb, refs_wfb (Json.v), typed_jsonb (JsonWf.v). *)
Theorem doc_ok_save_json L s mode c d c2 :
  lex_ok L -> save_json L s mode c = Ok (d, c2) -> wf_jsonb s c2 = true -> 0 < c_next_id c ->
  ids_distinctb s c2 = true -> refs_wfb s c2 = true -> typed_jsonb s c2 = true -> doc_ok_json L s d = true.
Proof.
  intros HL Hsave Hwf Hpos Hid Hrw Hty.
  pose proof (json_ids_distinct L s mode c d c2 HL Hsave Hwf Hpos Hid) as Hdd.
  destruct (save_json_entries L s mode c d c2 HL Hsave Hwf Hpos)
    as (w & outs & fss & Ev & Ef & sofas & Efs & Evs & Ew & Hheap & Hviews & Houts & Efss & HV & HF & Hfound & Harrs).
  assert (Htv : tviews c = tviews c2) by (unfold tviews; rewrite Hviews; reflexivity).
  rewrite Htv in Houts, HV. rewrite <- Hviews in Harrs.
  unfold wf_jsonb in Hwf. rewrite Ew in Hwf. rewrite !andb_true_iff in Hwf. destruct Hwf as ((((Hn & Hi) & _) & _) & _).
  unfold refs_wfb in Hrw. rewrite Ew in Hrw. rewrite !andb_true_iff in Hrw. destruct Hrw as [[Hnonull Harrsch] Hsofaslot].
  unfold typed_jsonb in Hty. rewrite Ew in Hty. rewrite !andb_true_iff in Hty. destruct Hty as ((((Tpos & Tnum) & Tmem) & Tfound) & Tarr).
  unfold doc_ids_distinctb in Hdd. rewrite Efs in Hdd. apply znodup_iff in Hdd.
  apply (doc_ok_assembled L s c2 w outs fss Ev Ef sofas); assumption.
Qed.
