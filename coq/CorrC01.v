(* CorrC01.v — correspondence harness for C01 (XMI save / load is lossless).  A case carries the scenario as the model's
   input (schema, CAS with the ids the structures have after the first save), the float literal table, the abstract
   document of the first to_xmi(), the canonical content scen.canon observed from the CAS that load_cas_from_xmi
   returned for those bytes, and the abstract document of the second to_xmi() (of the loaded CAS).
   check_case: (1) the first document is the model writer's document up to element / attribute order; (2) the loaded
   CAS has the content the document denotes (independent reader) and (3) the content the model assigns to the original
   CAS, both up to ""/null in string collections — same ids, values, references, sofas, members; (4) the second document
   is the first one at the infoset level (same elements in the same order, attributes as a set, children in order). *)
From Cassis Require Import Base Offsets.
From Cassis Require Import Heap Schema Canon Lex Reach XmiDoc Xmi XmiLoad XmiRt XmiRtTotal XmiLoadCas CorrC04.
Open Scope Z_scope.

Record case := mkCase {
  k_schema : schema;
  k_cas : cas;
  k_ftab : list (string * flt);
  k_doc : xdoc;              (* first save *)
  k_loaded : ccas;           (* scen.canon (load_cas_from_xmi (first save)) *)
  k_doc2 : xdoc }.           (* save of the loaded CAS *)

Definition check_save (c : case) : bool :=
  match save_xmi (tab_fmt (k_ftab c)) (k_schema c) (k_cas c) with
  | Ok (d, _) => xdoc_perm_eqb d (k_doc c)
  | _ => false
  end.
Definition check_load_is_denotation (c : case) : bool :=
  match denote_xmi (tab_parse (k_ftab c)) (k_schema c) (k_doc c) with
  | Ok x => ccas_eqb x (norm_xmi (k_schema c) (k_loaded c))
  | _ => false
  end.
Definition check_roundtrip (c : case) : bool :=
  match canon_xmi (k_schema c) (k_cas c) with
  | Ok x => ccas_eqb (norm_xmi (k_schema c) x) (norm_xmi (k_schema c) (k_loaded c))
  | _ => false
  end.
Definition check_resave (c : case) : bool := list_eqb xelem_eqb (k_doc c) (k_doc2 c).
(* (5) the model of the reader (XmiLoad.load_xmi, owned by C05) loads the first document and the loaded CAS has the content
   the implementation's loaded CAS has; (6) the first document satisfies the premise of the reader's theorem *)
Definition check_model_load (c : case) : bool :=
  match load_xmi (tab_parse (k_ftab c)) (k_schema c) false (k_doc c) with
  | Ok c2 => match canon_loaded (k_schema c) c2 with
             | Ok x => ccas_eqb (norm_xmi (k_schema c) x) (norm_xmi (k_schema c) (k_loaded c))
             | _ => false end
  | _ => false
  end.
Definition check_reader_ok (c : case) : bool :=
  (negb (wf_rtb (k_schema c) (k_cas c)) || reader_okb (tab_parse (k_ftab c)) (k_schema c) (k_doc c))
  (* (7) C01_saved_document_is_total: wf_rt_totalb => the implementation's document satisfies total_okb *)
  && (negb (wf_rt_totalb (k_schema c) (k_cas c)) || total_okb (k_schema c) (k_doc c)).
(* (8) [S] load_produces_wf, evaluated: the CAS the model reader builds from the first document, as a CAS of the writer model
   (XmiLoadCas.cas_of_lcas), satisfies the premise wf_rt_totalb of the round-trip theorems, has the canonical content of the
   loaded CAS, and the model writer saves it to the implementation's SECOND document (up to element / attribute order) *)
Definition check_loaded_cas (c : case) : bool :=
  match load_xmi (tab_parse (k_ftab c)) (k_schema c) false (k_doc c) with
  | Ok lc =>
    match cas_of_lcas lc with
    | Ok c2 =>
      wf_rt_totalb (k_schema c) c2
      && match canon_xmi (k_schema c) c2, canon_loaded (k_schema c) lc with
         | Ok x, Ok y => ccas_eqb (norm_xmi (k_schema c) x) (norm_xmi (k_schema c) y)
         | _, _ => false end
      && match save_xmi (tab_fmt (k_ftab c)) (k_schema c) c2 with
         | Ok (d, _) => xdoc_perm_eqb d (k_doc2 c)
         | _ => false end
    | _ => false end
  | _ => false end.
Definition check_case (c : case) : bool :=
  check_save c && check_load_is_denotation c && check_roundtrip c && check_resave c && check_model_load c && check_reader_ok c
  && check_loaded_cas c.
(* premises of the round-trip theorems of Props/C01.v: conditions on the schema and on the input CAS only *)
Definition premises (c : case) : bool := wf_rt_totalb (k_schema c) (k_cas c).
