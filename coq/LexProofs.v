(* LexProofs.v — round-trip lemmas of the lexical layer (Lex.v). *)
From Coq Require Import List String Ascii ZArith NArith Bool Lia DecimalString DecimalZ DecimalPos Decimal.
From Cassis Require Import Lex.
Import ListNotations.
Open Scope list_scope.
Open Scope string_scope.

Lemma append_assoc_s a b c : (a ++ b) ++ c = a ++ (b ++ c).
Proof. induction a as [|x a IH]; simpl; [reflexivity|]. rewrite IH. reflexivity. Qed.
Lemma append_nil_r s : s ++ "" = s.
Proof. induction s as [|x s IH]; simpl; [reflexivity|]. rewrite IH. reflexivity. Qed.

Lemma tok_okb_spec s : tok_okb s = true <-> tok_ok s.
Proof.
  unfold tok_okb, tok_ok. rewrite andb_true_iff, negb_true_iff, String.eqb_neq. reflexivity.
Qed.

(* scanning a whitespace-free token t followed by rest: the accumulator grows by t *)
Lemma split_aux_token t : no_ws t = true -> forall cur rest,
  split_ws_aux cur (t ++ rest) = split_ws_aux (cur ++ t) rest.
Proof.
  induction t as [|c t IH]; simpl; intros Hn cur rest.
  - rewrite append_nil_r. reflexivity.
  - apply andb_prop in Hn. destruct Hn as [Hc Ht]. apply negb_true_iff in Hc. rewrite Hc.
    rewrite IH by exact Ht. rewrite append_assoc_s. reflexivity.
Qed.
Lemma eqb_nonempty s : s <> "" -> String.eqb s "" = false.
Proof. intros H. apply String.eqb_neq. exact H. Qed.

Theorem split_join l : Forall tok_ok l -> split_ws (join l) = l.
Proof.
  unfold split_ws. induction l as [|x r IH]; intros H; [reflexivity|].
  inversion H as [|? ? [Hne Hnw] Hr]; subst.
  destruct r as [|y r'].
  - simpl. rewrite <- (append_nil_r x) at 1. rewrite split_aux_token by exact Hnw. simpl.
    rewrite eqb_nonempty by exact Hne. reflexivity.
  - change (join (x :: y :: r')) with (x ++ " " ++ join (y :: r')).
    rewrite split_aux_token by exact Hnw. cbn [append split_ws_aux is_ws].
    rewrite eqb_nonempty by exact Hne. f_equal. apply IH. exact Hr.
Qed.

(* ---- decimal integers ---- *)
Theorem s2z_z2s z : s2z (z2s z) = Some z.
Proof.
  unfold s2z, z2s. rewrite NilZero.isi.
  - simpl. rewrite DecimalZ.of_to. reflexivity.
  - destruct z as [|p|p]; simpl; try discriminate.
    intros H. injection H as H. exact (DecimalPos.Unsigned.to_uint_nonnil p H).
  - destruct z as [|p|p]; simpl; try discriminate.
    intros H. injection H as H. exact (DecimalPos.Unsigned.to_uint_nonnil p H).
Qed.

(* ---- booleans ---- *)
Lemma s2b_b2s b : s2b (b2s b) = Some b.
Proof. destruct b; reflexivity. Qed.
Lemma b2s_tok b : tok_ok (b2s b).
Proof. destruct b; split; try discriminate; reflexivity. Qed.

(* ---- integers are tokens; hex bytes ---- *)

Lemma no_ws_uint_e u : no_ws (NilEmpty.string_of_uint u) = true.
Proof. induction u; simpl; auto. Qed.
Lemma no_ws_uint u : no_ws (NilZero.string_of_uint u) = true.
Proof. destruct u; try apply no_ws_uint_e. reflexivity. Qed.
Lemma uint_nonempty u : NilZero.string_of_uint u <> "".
Proof. destruct u; simpl; discriminate. Qed.
Lemma z2s_tok z : tok_ok (z2s z).
Proof.
  unfold z2s, tok_ok. destruct z as [|p|p]; simpl.
  - split; [discriminate|reflexivity].
  - split; [apply uint_nonempty | apply no_ws_uint].
  - split; [discriminate | apply no_ws_uint].
Qed.

(* hex *)
Lemma hex_val_digit n : (0 <= n < 16)%Z -> hex_val (hex_digit n) = Some n.
Proof.
  intros H. assert (n = 0 \/ n = 1 \/ n = 2 \/ n = 3 \/ n = 4 \/ n = 5 \/ n = 6 \/ n = 7 \/ n = 8 \/ n = 9 \/ n = 10
                    \/ n = 11 \/ n = 12 \/ n = 13 \/ n = 14 \/ n = 15)%Z as C by lia.
  repeat (destruct C as [C|C]; [subst; reflexivity|]). subst. reflexivity.
Qed.
Lemma parse_hex_app x l : (0 <= x < 256)%Z -> parse_hex (hex_byte x ++ l) = option_map (cons x) (parse_hex l).
Proof.
  intros H. unfold hex_byte. cbn [append parse_hex].
  rewrite !hex_val_digit.
  - destruct (parse_hex l); cbn [option_map]; [|reflexivity]. f_equal. f_equal.
    pose proof (Z.div_mod x 16). lia.
  - apply Z.mod_pos_bound. lia.
  - split; [apply Z.div_pos; lia | apply Z.div_lt_upper_bound; lia].
Qed.
Theorem hex_rt l : Forall (fun x => 0 <= x < 256)%Z l -> parse_hex (hex_of_bytes l) = Some l.
Proof.
  unfold hex_of_bytes. induction 1 as [|x r Hx Hr IH]; [reflexivity|].
  cbn [map concat_s]. rewrite parse_hex_app by exact Hx. rewrite IH. reflexivity.
Qed.

(* ---- UTF-8 ---- *)
Ltac Zify.zify_post_hook ::= Z.to_euclidean_division_equations.

Lemma nb x : (x < 256)%N -> N_of_ascii (byte x) = x.
Proof. intros. unfold byte. apply N_ascii_embedding. assumption. Qed.
Lemma cont_byte y : (y < 64)%N -> cont (byte (128 + y)) = Some y.
Proof.
  intros H. unfold cont. rewrite nb by lia.
  replace ((128 <=? 128 + y)%N) with true by (symmetry; apply N.leb_le; lia).
  replace ((128 + y <? 192)%N) with true by (symmetry; apply N.ltb_lt; lia).
  cbn [andb]. f_equal. lia.
Qed.
Ltac ltb_t := (symmetry; apply N.ltb_lt; lia).
Ltac ltb_f := (symmetry; apply N.ltb_ge; lia).

Lemma utf8_dec_enc1 c rest : (c < 1114112)%N ->
  utf8_decode (utf8_enc1 c ++ rest) = option_map (cons c) (utf8_decode rest).
Proof.
  intros Hc. unfold utf8_enc1.
  destruct (c <? 128)%N eqn:E1; [apply N.ltb_lt in E1|apply N.ltb_ge in E1].
  { cbn [append utf8_decode]. rewrite nb by lia. replace (c <? 128)%N with true by ltb_t. reflexivity. }
  destruct (c <? 2048)%N eqn:E2; [apply N.ltb_lt in E2|apply N.ltb_ge in E2].
  { cbn [append utf8_decode]. rewrite nb by lia.
    replace (192 + c / 64 <? 128)%N with false by ltb_f.
    replace (192 + c / 64 <? 192)%N with false by ltb_f.
    replace (192 + c / 64 <? 224)%N with true by ltb_t.
    rewrite cont_byte by lia.
    destruct (utf8_decode rest); cbn [option_map]; [|reflexivity]. f_equal. f_equal. lia. }
  destruct (c <? 65536)%N eqn:E3; [apply N.ltb_lt in E3|apply N.ltb_ge in E3].
  { cbn [append utf8_decode]. rewrite nb by lia.
    replace (224 + c / 4096 <? 128)%N with false by ltb_f.
    replace (224 + c / 4096 <? 192)%N with false by ltb_f.
    replace (224 + c / 4096 <? 224)%N with false by ltb_f.
    replace (224 + c / 4096 <? 240)%N with true by ltb_t.
    rewrite !cont_byte by lia.
    destruct (utf8_decode rest); cbn [option_map]; [|reflexivity]. f_equal. f_equal. lia. }
  cbn [append utf8_decode]. rewrite nb by lia.
  replace (240 + c / 262144 <? 128)%N with false by ltb_f.
  replace (240 + c / 262144 <? 192)%N with false by ltb_f.
  replace (240 + c / 262144 <? 224)%N with false by ltb_f.
  replace (240 + c / 262144 <? 240)%N with false by ltb_f.
  rewrite !cont_byte by lia.
  destruct (utf8_decode rest); cbn [option_map]; [|reflexivity]. f_equal. f_equal. lia.
Qed.

Theorem utf8_rt t : Forall (fun c => (c < 1114112)%N) t -> utf8_decode (utf8_encode t) = Some t.
Proof.
  induction 1 as [|c r Hc Hr IH]; [reflexivity|].
  cbn [utf8_encode]. rewrite utf8_dec_enc1 by exact Hc. rewrite IH. reflexivity.
Qed.
