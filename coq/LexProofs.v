(* LexProofs.v — round-trip lemmas of the lexical layer (Lex.v). *)
From Coq Require Import List String Ascii ZArith NArith Bool Lia DecimalString DecimalZ DecimalPos Decimal.
From Cassis Require Import Lex.
Import ListNotations.
Open Scope list_scope.
Open Scope string_scope.

Lemma append_assoc_s a b c : (a ++ b) ++ c = a ++ (b ++ c).
Proof. induction a as [|x a IH]; simpl; [reflexivity|]. rewrite IH. reflexivity. Qed.
Lemma append_nil_r s : s ++ "" = s.
Proof. induction s as [|x s IH]; simpl; [reflexivity|]. rewrite IH. reflexivity. Qed.

Lemma tok_okb_spec s : tok_okb s = true <-> tok_ok s.
Proof.
  unfold tok_okb, tok_ok. rewrite andb_true_iff, negb_true_iff, String.eqb_neq. reflexivity.
Qed.

(* scanning a whitespace-free token t followed by rest: the accumulator grows by t *)
Lemma split_aux_token t : no_ws t = true -> forall cur rest,
  split_ws_aux cur (t ++ rest) = split_ws_aux (cur ++ t) rest.
Proof.
  induction t as [|c t IH]; simpl; intros Hn cur rest.
  - rewrite append_nil_r. reflexivity.
  - apply andb_prop in Hn. destruct Hn as [Hc Ht]. apply negb_true_iff in Hc. rewrite Hc.
    rewrite IH by exact Ht. rewrite append_assoc_s. reflexivity.
Qed.
Lemma eqb_nonempty s : s <> "" -> String.eqb s "" = false.
Proof. intros H. apply String.eqb_neq. exact H. Qed.

Theorem split_join l : Forall tok_ok l -> split_ws (join l) = l.
Proof.
  unfold split_ws. induction l as [|x r IH]; intros H; [reflexivity|].
  inversion H as [|? ? [Hne Hnw] Hr]; subst.
  destruct r as [|y r'].
  - simpl. rewrite <- (append_nil_r x) at 1. rewrite split_aux_token by exact Hnw. simpl.
    rewrite eqb_nonempty by exact Hne. reflexivity.
  - change (join (x :: y :: r')) with (x ++ " " ++ join (y :: r')).
    rewrite split_aux_token by exact Hnw. cbn [append split_ws_aux is_ws].
    rewrite eqb_nonempty by exact Hne. f_equal. apply IH. exact Hr.
Qed.

(* ---- decimal integers ---- *)
Theorem s2z_z2s z : s2z (z2s z) = Some z.
Proof.
  unfold s2z, z2s. rewrite NilZero.isi.
  - simpl. rewrite DecimalZ.of_to. reflexivity.
  - destruct z as [|p|p]; simpl; try discriminate.
    intros H. injection H as H. exact (DecimalPos.Unsigned.to_uint_nonnil p H).
  - destruct z as [|p|p]; simpl; try discriminate.
    intros H. injection H as H. exact (DecimalPos.Unsigned.to_uint_nonnil p H).
Qed.

(* ---- booleans ---- *)
Lemma s2b_b2s b : s2b (b2s b) = Some b.
Proof. destruct b; reflexivity. Qed.
Lemma b2s_tok b : tok_ok (b2s b).
Proof. destruct b; split; try discriminate; reflexivity. Qed.
