(* Props/C07.v — property C07: select_covered / select_covering implement the containment definitions.
   This file holds only the property theorems (closed by `exact`), non-vacuity examples and
   Print Assumptions. *)
From Cassis Require Import Base Index IndexProofs Refuted.
Open Scope Z_scope.

(* For every history of adds to a view, every duplicate-free set of type names (the names of
   T.descendants), every query span b <= e: the result is, as a multiset, exactly the added
   annotations of those types with b <= begin and end <= e.  Zero-width annotations at either
   boundary, annotations equal to the span and duplicates of a span are ordinary instances. *)
Theorem C07_select_covered_exact : forall adds types b e,
  NoDup types -> Forall (fun a => wf (a_key a)) adds -> b <= e ->
  Permutation (select_covered_view types (build adds) b e)
              (map a_key (filter (fun a => memb (a_type a) types && covered b e (a_key a)) adds)).
Proof. exact select_covered_view_spec. Qed.
Print Assumptions C07_select_covered_exact.

Theorem C07_select_covering_exact : forall adds types b e,
  NoDup types ->
  Permutation (select_covering_view types (build adds) b e)
              (map a_key (filter (fun a => memb (a_type a) types && covering b e (a_key a)) adds)).
Proof. exact select_covering_view_spec. Qed.
Print Assumptions C07_select_covering_exact.

(* the bisect window loses nothing: on a sorted well-formed list it equals the plain filter *)
Theorem C07_window_is_filter : forall l b e,
  sorted l -> Forall wf l -> b <= e -> select_covered l b e = filter (covered b e) l.
Proof. exact select_covered_spec. Qed.
Print Assumptions C07_window_is_filter.

(* the index that the window is applied to is sorted after every history of adds *)
Theorem C07_index_sorted : forall adds t, sorted (idx_get t (build adds)).
Proof. exact build_sorted. Qed.
Print Assumptions C07_index_sorted.

(* regression: the pre-fix right edge is refuted *)
Theorem C07_old_window_refuted :
  exists l b e, sorted l /\ Forall wf l /\ b <= e /\ filter (covered b e) (window_old l b e) <> filter (covered b e) l.
Proof. exact select_covered_old_refuted. Qed.
Print Assumptions C07_old_window_refuted.

(* non-vacuity: a history with a zero-width annotation at each boundary, one equal to the span, a duplicate span *)
Example C07_premises_hold :
  let adds := [mkAnn "T" (mkKey 2 2 1); mkAnn "T" (mkKey 2 5 2); mkAnn "S" (mkKey 5 5 3); mkAnn "T" (mkKey 2 5 4)] in
  NoDup ["T"; "S"] /\ Forall (fun a => wf (a_key a)) adds /\ 2 <= 5 /\
  map ko (select_covered_view ["T"; "S"] (build adds) 2 5) = [1; 2; 4; 3].
Proof.
  cbv zeta. repeat split.
  - repeat constructor; cbn; intuition discriminate.
  - repeat constructor; unfold wf; cbn; lia.
  - lia.
Qed.
