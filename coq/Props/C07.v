(* Props/C07.v — property C07: select_covered / select_covering implement the containment definitions.
   This file holds only the property theorems (closed by `exact`), non-vacuity examples and
   Print Assumptions. *)
From Cassis Require Import Base Index IndexProofs Refuted.
Open Scope Z_scope.

(* For every history of adds to a view, every duplicate-free set of type names (the names of
   T.descendants), every query span b <= e: the result is, as a multiset, exactly the added
   annotations of those types with b <= begin and end <= e.  Zero-width annotations at either
   boundary, annotations equal to the span and duplicates of a span are ordinary instances. *)
Theorem C07_select_covered_exact : forall adds types b e,
  NoDup types -> Forall (fun a => wf (a_key a)) adds -> b <= e ->
  Permutation (select_covered_view types (build adds) b e)
              (map a_key (filter (fun a => memb (a_type a) types && covered b e (a_key a)) adds)).
Proof. exact select_covered_view_spec. Qed.
Print Assumptions C07_select_covered_exact.

Theorem C07_select_covering_exact : forall adds types b e,
  NoDup types ->
  Permutation (select_covering_view types (build adds) b e)
              (map a_key (filter (fun a => memb (a_type a) types && covering b e (a_key a)) adds)).
Proof. exact select_covering_view_spec. Qed.
Print Assumptions C07_select_covering_exact.

(* the bisect window loses nothing: on a sorted well-formed list it equals the plain filter *)
Theorem C07_window_is_filter : forall l b e,
  sorted l -> Forall wf l -> b <= e -> select_covered l b e = filter (covered b e) l.
Proof. exact select_covered_spec. Qed.
Print Assumptions C07_window_is_filter.

(* the index that the window is applied to is sorted after every history of adds *)
Theorem C07_index_sorted : forall adds t, sorted (idx_get t (build adds)).
Proof. exact build_sorted. Qed.
Print Assumptions C07_index_sorted.

(* regression: the pre-fix right edge is refuted *)
Theorem C07_old_window_refuted :
  exists l b e, sorted l /\ Forall wf l /\ b <= e /\ filter (covered b e) (window_old l b e) <> filter (covered b e) l.
Proof. exact select_covered_old_refuted. Qed.
Print Assumptions C07_old_window_refuted.

(* non-vacuity: a history with a zero-width annotation at each boundary, one equal to the span, a duplicate span *)
Example C07_premises_hold :
  let adds := [mkAnn "T" (mkKey 2 2 1); mkAnn "T" (mkKey 2 5 2); mkAnn "S" (mkKey 5 5 3); mkAnn "T" (mkKey 2 5 4)] in
  NoDup ["T"; "S"] /\ Forall (fun a => wf (a_key a)) adds /\ 2 <= 5 /\
  map ko (select_covered_view ["T"; "S"] (build adds) 2 5) = [1; 2; 4; 3].
Proof.
  cbv zeta. repeat split.
  - repeat constructor; cbn; intuition discriminate.
  - repeat constructor; unfold wf; cbn; lia.
  - lia.
Qed.

(* ================================================================================================================
   Bridge (coq/Bridge.v, BridgeProofs.v): the `types` argument above is, in the code, the set of names of
   type_.descendants.  With the type-system model of C10 (TS.v) in place of the bare list: for every well-formed type
   system (every one a history of create_type / create_feature can reach), every registered T, every duplicate-free
   arrangement `types` of the names T.descendants yields (set iteration order), select_covered / select_covering return,
   as a multiset, exactly the added annotations whose type is T or a transitive subtype of T (isa on the flattened
   schema, which is `below` = the reflexive-transitive closure of the declared supertype relation) with the span
   condition. *)
From Cassis Require Import TS TSProofs Schema Bridge BridgeProofs.

Theorem C07_select_covered_subtree_exact : forall ts T tT adds types b e, WFh ts -> find_ty ts T = Some tT ->
  NoDup types -> (forall d, In d types <-> In d (desc_names ts T)) ->
  Forall (fun a => Index.wf (a_key a)) adds -> b <= e ->
  Permutation (select_covered_view types (build adds) b e)
              (map a_key (filter (fun a => isa (flatten ts) (a_type a) T && covered b e (a_key a)) adds))
  /\ forall n, isa (flatten ts) n T = true <-> below ts T n.
Proof. exact select_covered_subtree_exact. Qed.
Print Assumptions C07_select_covered_subtree_exact.

Theorem C07_select_covering_subtree_exact : forall ts T tT adds types b e, WFh ts -> find_ty ts T = Some tT ->
  NoDup types -> (forall d, In d types <-> In d (desc_names ts T)) ->
  Permutation (select_covering_view types (build adds) b e)
              (map a_key (filter (fun a => isa (flatten ts) (a_type a) T && covering b e (a_key a)) adds))
  /\ forall n, isa (flatten ts) n T = true <-> below ts T n.
Proof. exact select_covering_subtree_exact. Qed.
Print Assumptions C07_select_covering_subtree_exact.

(* the same for the type system after any history from TypeSystem(): no well-formedness premise left *)
Theorem C07_select_covered_subtree_reachable : forall ops T tT adds types b e, let ts := final_ts ops init_ts in
  find_ty ts T = Some tT -> NoDup types -> (forall d, In d types <-> In d (desc_names ts T)) ->
  Forall (fun a => Index.wf (a_key a)) adds -> b <= e ->
  Permutation (select_covered_view types (build adds) b e)
              (map a_key (filter (fun a => isa (flatten ts) (a_type a) T && covered b e (a_key a)) adds))
  /\ forall n, isa (flatten ts) n T = true <-> below ts T n.
Proof. exact select_covered_subtree_reachable. Qed.
Print Assumptions C07_select_covered_subtree_reachable.

Theorem C07_select_covering_subtree_reachable : forall ops T tT adds types b e, let ts := final_ts ops init_ts in
  find_ty ts T = Some tT -> NoDup types -> (forall d, In d types <-> In d (desc_names ts T)) ->
  Permutation (select_covering_view types (build adds) b e)
              (map a_key (filter (fun a => isa (flatten ts) (a_type a) T && covering b e (a_key a)) adds))
  /\ forall n, isa (flatten ts) n T = true <-> below ts T n.
Proof. exact select_covering_subtree_reachable. Qed.
Print Assumptions C07_select_covering_subtree_reachable.

(* non-vacuity: a two-level subtree, an annotation of an unrelated type with a covered span stays out *)
Example C07_subtree_premises_hold :
  let ops := [OCreateType "a.A" "uima.tcas.Annotation" None; OCreateType "a.B" "a.A" None; OCreateType "a.X" "uima.tcas.Annotation" None] in
  let ts := final_ts ops init_ts in
  let adds := [mkAnn "a.B" (mkKey 2 5 1); mkAnn "a.X" (mkKey 3 4 2); mkAnn "a.A" (mkKey 2 2 3)] in
  desc_names ts "a.A" = ["a.A"; "a.B"] /\ (exists t, find_ty ts "a.A" = Some t) /\
  map ko (select_covered_view (desc_names ts "a.A") (build adds) 2 5) = [3; 1].
Proof. vm_compute. repeat split. eexists. reflexivity. Qed.
