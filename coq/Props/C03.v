(* Props/C03.v — property C03: offsets are code points in memory and UTF-16 code units in every document.
   This file holds only the property theorems (closed by `exact`), non-vacuity examples and
   Print Assumptions.  All statements are for every text t : list N of code points and every offset. *)
From Cassis Require Import Base Offsets OffsetsProofs.
Open Scope Z_scope.

(* The table built by create_offset_mapping maps a code-point offset to the UTF-16 length of the prefix,
   against an independent definition of UTF-16 length. *)
Theorem C03_py2ext_is_utf16_prefix_len : forall t i, 0 <= i <= Z.of_nat (List.length t) ->
  py2ext (mk_conv t) i = utf16_len (firstn (Z.to_nat i) t).
Proof. exact py2ext_is_utf16_prefix_len. Qed.
Print Assumptions C03_py2ext_is_utf16_prefix_len.

(* ... and that length is the number of code units the UTF-16 encoder of the model emits *)
Theorem C03_utf16_len_is_encoding_length : forall t, Z.of_nat (List.length (utf16 t)) = utf16_len t.
Proof. exact utf16_length. Qed.
Print Assumptions C03_utf16_len_is_encoding_length.

(* the encoder writes astral scalar values as a well-formed surrogate pair that decodes to the same value *)
Theorem C03_utf16_units_astral : forall c, (65536 <= c < 1114112)%N ->
  exists hi lo, utf16_units c = [hi; lo] /\ (55296 <= hi < 56320)%N /\ (56320 <= lo < 57344)%N /\
                (c = 65536 + (hi - 55296) * 1024 + (lo - 56320))%N.
Proof. exact utf16_units_astral. Qed.
Print Assumptions C03_utf16_units_astral.

(* the two directions are mutually inverse on valid offsets ... *)
Theorem C03_ext2py_py2ext : forall t i, 0 <= i <= Z.of_nat (List.length t) ->
  ext2py (mk_conv t) (py2ext (mk_conv t) i) = i.
Proof. exact ext2py_py2ext. Qed.
Print Assumptions C03_ext2py_py2ext.

(* ... and on the image of the valid offsets *)
Theorem C03_py2ext_ext2py : forall t j,
  (exists i, 0 <= i <= Z.of_nat (List.length t) /\ py2ext (mk_conv t) i = j) ->
  py2ext (mk_conv t) (ext2py (mk_conv t) j) = j.
Proof. exact py2ext_ext2py. Qed.
Print Assumptions C03_py2ext_ext2py.

Theorem C03_py2ext_strict_mono : forall t i j, 0 <= i < j -> j <= Z.of_nat (List.length t) ->
  py2ext (mk_conv t) i < py2ext (mk_conv t) j.
Proof. exact py2ext_strict_mono. Qed.
Print Assumptions C03_py2ext_strict_mono.

Theorem C03_py2ext_injective : forall t i j,
  0 <= i <= Z.of_nat (List.length t) -> 0 <= j <= Z.of_nat (List.length t) ->
  py2ext (mk_conv t) i = py2ext (mk_conv t) j -> i = j.
Proof. exact py2ext_injective. Qed.
Print Assumptions C03_py2ext_injective.

(* identity (both directions) on text without astral code points *)
Theorem C03_bmp_identity : forall t, bmpb t = true ->
  (forall i, valid_offb t i = true -> py2ext (mk_conv t) i = i) /\ (forall j, ext2py (mk_conv t) j = j).
Proof. exact bmp_identity. Qed.
Print Assumptions C03_bmp_identity.

(* an external offset that is not a code-point boundary is passed through unchanged *)
Theorem C03_non_boundary_passthrough : forall t j,
  (forall i, 0 <= i <= Z.of_nat (List.length t) -> py2ext (mk_conv t) i <> j) -> ext2py (mk_conv t) j = j.
Proof. exact ext2py_non_boundary_passthrough. Qed.
Print Assumptions C03_non_boundary_passthrough.

(* in particular the offset between the two units of a surrogate pair *)
Theorem C03_inside_pair_passthrough : forall t i j, 0 <= i < Z.of_nat (List.length t) ->
  py2ext (mk_conv t) i < j < py2ext (mk_conv t) (i + 1) -> ext2py (mk_conv t) j = j.
Proof. exact ext2py_inside_pair_passthrough. Qed.
Print Assumptions C03_inside_pair_passthrough.

(* and every out-of-range offset, in either direction *)
Theorem C03_out_of_range_passthrough : forall t,
  (forall i, valid_offb t i = false -> py2ext (mk_conv t) i = i) /\
  (forall j, j < 0 \/ utf16_len t < j -> ext2py (mk_conv t) j = j).
Proof. exact out_of_range_passthrough. Qed.
Print Assumptions C03_out_of_range_passthrough.

(* covered text commutes with encoding: the UTF-16 encoding of t[b:e] is the slice of the UTF-16 encoding of t
   at the converted offsets *)
Theorem C03_covered_text_commutes : forall t b e, 0 <= b <= e -> e <= Z.of_nat (List.length t) ->
  utf16 (zslice t b e) = zslice (utf16 t) (py2ext (mk_conv t) b) (py2ext (mk_conv t) e).
Proof. exact covered_text_commutes. Qed.
Print Assumptions C03_covered_text_commutes.

(* invariant over sofa histories: after the constructor (any argument, None and the empty text included) and any
   sequence of sofaString-setter calls (None included), if the sofa has a text then the converter in use is
   mk_conv of that text — or no table exists and the text is empty (constructor with the empty text) — and both
   conversion methods behave as the table of the current text.  Nothing is claimed while the text is None:
   the setter keeps the previous table then (OffsetsProofs.stale_table_after_none). *)
Theorem C03_conv_tracks_text : forall init sets,
  match s_text (sofa_run init sets) with
  | None => True
  | Some t =>
      (s_tbl (sofa_run init sets) = Some (mk_conv t) \/ (t = [] /\ s_tbl (sofa_run init sets) = None)) /\
      forall i, p2e (s_tbl (sofa_run init sets)) (Some i) = Some (py2ext (mk_conv t) i) /\
                e2p (s_tbl (sofa_run init sets)) (Some i) = Some (ext2py (mk_conv t) i)
  end.
Proof. exact conv_tracks_text_full. Qed.
Print Assumptions C03_conv_tracks_text.

Theorem C03_conv_tracks_nonempty_text : forall init sets c r,
  s_text (sofa_run init sets) = Some (c :: r) -> s_tbl (sofa_run init sets) = Some (mk_conv (c :: r)).
Proof. exact conv_tracks_nonempty_text. Qed.
Print Assumptions C03_conv_tracks_nonempty_text.

(* conversion sites: every written annotation (member of a view or only referenced), in every view, after every
   history of text replacements, carries the UTF-16 prefix lengths of its offsets in the text of its own sofa *)
Theorem C03_doc_offsets_are_utf16 : forall (hist : list (option text * list (option text))) a,
  let ss := map (fun h => sofa_run (fst h) (snd h)) hist in
  ann_okb ss a = true ->
  exists t b e, s_text (sofa_of ss (da_view a)) = Some t /\ da_b a = Some b /\ da_e a = Some e /\
    write_ann ss a = mkDann (da_view a) (Some (utf16_len (firstn (Z.to_nat b) t)))
                                        (Some (utf16_len (firstn (Z.to_nat e) t))).
Proof. exact doc_offsets_are_utf16. Qed.
Print Assumptions C03_doc_offsets_are_utf16.

(* loading what was written (XMI reader: Sofa constructor; JSON reader: setter) gives back the code-point
   offsets and the same covered text *)
Theorem C03_loaded_offsets_are_codepoints : forall (hist : list (option text * list (option text))) a,
  let ss := map (fun h => sofa_run (fst h) (snd h)) hist in
  ann_okb ss a = true ->
  (let ss' := map (fun s => load_sofa_xmi (s_text s)) ss in
   read_ann ss' (write_ann ss a) = a /\ covered_text ss' (read_ann ss' (write_ann ss a)) = covered_text ss a) /\
  (let ss' := map (fun s => load_sofa_json (s_text s)) ss in
   read_ann ss' (write_ann ss a) = a /\ covered_text ss' (read_ann ss' (write_ann ss a)) = covered_text ss a).
Proof. exact doc_roundtrip_hist. Qed.
Print Assumptions C03_loaded_offsets_are_codepoints.

(* an annotation that is removed from one view and added to another one (Cas.add assigns the sofa of the view
   unconditionally), or whose sofa is re-assigned, belongs to the view it was given to LAST: after every sequence of
   add / remove / sofa and offset assignments it is written with the UTF-16 offsets in the text of that view *)
Theorem C03_moved_annotation_offsets_are_utf16 : forall (hist : list (option text * list (option text))) a ops,
  let ss := map (fun h => sofa_run (fst h) (snd h)) hist in
  let v := last_view ops (da_view a) in
  ann_okb ss (ann_run a ops) = true ->
  exists t b e, s_text (sofa_of ss v) = Some t /\ last_off ops (da_b a, da_e a) = (Some b, Some e) /\
    0 <= b <= e /\ e <= Z.of_nat (List.length t) /\
    write_ann ss (ann_run a ops) = mkDann v (Some (utf16_len (firstn (Z.to_nat b) t)))
                                            (Some (utf16_len (firstn (Z.to_nat e) t))).
Proof. exact moved_offsets_are_utf16. Qed.
Print Assumptions C03_moved_annotation_offsets_are_utf16.

(* ---- non-vacuity: a text with U+1F600, U+10000 and U+10FFFF; "a😀b𐀀c" and the largest code point ---- *)
Example C03_astral_table :
  let t := [97; 128512; 98; 65536; 99; 1114111]%N in
  map (py2ext (mk_conv t)) [0; 1; 2; 3; 4; 5; 6; 7; -1] = [0; 1; 3; 4; 6; 7; 9; 7; -1] /\
  map (ext2py (mk_conv t)) [0; 1; 2; 3; 4; 5; 6; 7; 8; 9; 10] = [0; 1; 2; 2; 3; 5; 4; 5; 8; 6; 10] /\
  utf16_len t = 9 /\
  utf16 t = [97; 55357; 56832; 98; 55296; 56320; 99; 56319; 57343]%N.
Proof. cbv zeta. repeat match goal with |- _ /\ _ => split end; vm_compute; reflexivity. Qed.

(* the premises of the commutation theorem hold for a span that starts after one astral character and contains
   another; both sides are the five code units of "b𐀀c" *)
Example C03_covered_text_astral :
  let t := [97; 128512; 98; 65536; 99; 1114111]%N in
  0 <= 2 <= 5 /\ 5 <= Z.of_nat (List.length t) /\
  utf16 (zslice t 2 5) = [98; 55296; 56320; 99]%N /\
  zslice (utf16 t) (py2ext (mk_conv t) 2) (py2ext (mk_conv t) 5) = [98; 55296; 56320; 99]%N.
Proof. cbv zeta. split; [lia|]. split; [cbn; lia|]. repeat match goal with |- _ /\ _ => split end; vm_compute; reflexivity. Qed.

(* a BMP-only text with 2- and 3-byte characters satisfies bmpb; an astral one does not *)
Example C03_bmp_premise : bmpb [97; 233; 65533; 8364]%N = true /\ bmpb [97; 65536]%N = false.
Proof. split; reflexivity. Qed.

(* a sofa history: constructor with the empty text (no table), a text with an astral character, None (stale
   table, no text), then a different astral text: the table in use is that of the last text *)
Example C03_history :
  let s := sofa_run (Some []) [Some [128512; 97]%N; None; Some [98; 1114111; 99]%N] in
  s_text s = Some [98; 1114111; 99]%N /\ s_tbl s = Some (mk_conv [98; 1114111; 99]%N) /\
  p2e (s_tbl s) (Some 3) = Some 4 /\
  s_tbl (sofa_new (Some [])) = None /\ s_tbl (sofa_new None) = None /\
  s_tbl (sofa_set (sofa_new None) (Some [])) = Some (mk_conv []).
Proof. cbv zeta. repeat match goal with |- _ /\ _ => split end; vm_compute; reflexivity. Qed.

(* a document with two views with different texts; an annotation of the second view strictly after an astral
   character satisfies ann_okb, is written with UTF-16 offsets and comes back with code-point offsets *)
Example C03_document :
  let hist := [(None, [Some [97; 128512; 98]%N]); (None, [Some [120]%N; Some [1114111; 120; 65536; 121]%N])] in
  let ss := map (fun h => sofa_run (fst h) (snd h)) hist in
  let a := mkDann 1 (Some 1) (Some 4) in
  ann_okb ss a = true /\ write_ann ss a = mkDann 1 (Some 2) (Some 6) /\
  covered_text ss a = Some [120; 65536; 121]%N /\
  write_ann ss (mkDann 0 (Some 2) (Some 3)) = mkDann 0 (Some 3) (Some 4).
Proof. cbv zeta. repeat match goal with |- _ /\ _ => split end; vm_compute; reflexivity. Qed.

(* an annotation first indexed in view 0 (text "😀😀ab"), removed, given new offsets and added to view 1 (text "a😀b"):
   it satisfies ann_okb in its new view and is written with that view's UTF-16 offsets, not with those of view 0 *)
Example C03_moved_annotation :
  let hist := [(None, [Some [128512; 128512; 97; 98]%N]); (None, [Some [97; 128512; 98]%N])] in
  let ss := map (fun h => sofa_run (fst h) (snd h)) hist in
  let ops := [ARemove; AOff (Some 2) (Some 3); AAdd 1%nat] in
  let a := ann_run (mkDann 0 (Some 2) (Some 4)) ops in
  last_view ops 0%nat = 1%nat /\ ann_okb ss a = true /\ write_ann ss a = mkDann 1 (Some 3) (Some 4) /\
  write_ann ss (mkDann 0 (Some 2) (Some 3)) = mkDann 0 (Some 4) (Some 5).
Proof. cbv zeta. repeat match goal with |- _ /\ _ => split end; vm_compute; reflexivity. Qed.

(* ================================================================================================================
   on the real writer models
   C03_doc_offsets_are_utf16 / C03_loaded_offsets_are_codepoints above live on the small document model of Offsets.v
   (sofas + annotations with a sofa index).  The theorems below state the same two facts on the REAL codec models:
   Xmi.save_xmi / XmiDoc.denote_xmi and Json.save_json / JsonDoc.denote_json over the reachability traversal
   Reach.find_all_fs — the models C01/C02/C04 are proved about and that are compared with cassis on every run.
   Proofs: DocOffsetsProofs.v.  utf16_off t z (DocOffsets.v) = utf16_len (firstn z t), the UTF-16 length of the prefix by the
   independent definition of Offsets.v (composition with C03_py2ext_is_utf16_prefix_len), and z itself for a sofa without
   text (no converter table).  "indexed or merely referenced, in any view": the theorems speak about every structure the
   writer writes, and that set is the closure of the indexed structures under the successor relation (C04_complete /
   find_all_exact, restated as a conjunct); the sofa is the annotation's OWN (slot `sofa`), whatever view lists it. *)
From Cassis Require Import Heap Schema Canon Lex Reach ReachProofs ReachSpec XmiDoc Xmi XmiProofs XmiWf XmiDocOk.
From Cassis Require Import DocOffsets DocOffsetsProofs DocDeterminism CorrC04.
Open Scope Z_scope.

(* XMI writer: for every well-formed CAS (Xmi.wf_casb, the premise of C04) and every written annotation, the element that
   carries its xmi:id has begin / end = the decimal rendering of the UTF-16 prefix length in the text of its own sofa *)
Theorem C03_xmi_doc_offsets_are_utf16 :
  forall (fmt : flt -> string) s c d c',
  wf_casb s c = true -> save_xmi fmt s c = Ok (d, c') ->
  exists all, written s c = Ok (c', all) /\
    (forall o, reachable s (c_heap c) (member_seeds c) o -> In o (map snd all)) /\
    forall i o f ti, In (i, o) all -> hget (c_heap c) o = Some f -> sch_find s (o_type f) = Some ti ->
      isa s (o_type f) T_ANNOTATION = true ->
      forall fd z, In fd (ti_feats ti) -> is_offset_fd fd = true -> slot f (fd_name fd) = VInt z ->
      exists e vn so, In e d /\ is_fs e = true /\ x_id e = Ok i /\ (x_ns e, x_tag e) = ns_of_type (o_type f) /\
        slot f "sofa" = VSofa vn /\ sofa_of_view c vn = Some so /\ off_in_text (s_text so) z /\
        xattr e (fd_xname fd) = Some (z2s (utf16_off (s_text so) z)).
Proof. exact xmi_doc_offsets_are_utf16. Qed.
Print Assumptions C03_xmi_doc_offsets_are_utf16.

(* XMI, read back by the independent denotation of the format: the offsets are the code-point offsets again (ext2py after
   py2ext, inside C04_dec_enc_fs) and the sofa of the loaded annotation has the same text *)
Theorem C03_xmi_loaded_offsets_are_codepoints :
  forall (fmt : flt -> string) (parse : string -> option flt),
  (forall x, parse (fmt x) = Some x) -> (forall x, tok_ok (fmt x)) ->
  forall s c d c',
  wf_inb s c = true -> save_xmi fmt s c = Ok (d, c') ->
  exists all cc, written s c = Ok (c', all) /\ denote_xmi parse s d = Ok cc /\
    forall i o f ti, In (i, o) all -> hget (c_heap c) o = Some f -> sch_find s (o_type f) = Some ti ->
      isa s (o_type f) T_ANNOTATION = true ->
      exists cf, In (i, cf) (cc_fs cc) /\ cf_type cf = o_type f /\
        forall fd z, In fd (ti_feats ti) -> is_offset_fd fd = true -> slot f (fd_name fd) = VInt z ->
          In (fd_xname fd, CInt z) (cf_feats cf) /\
          exists vn so cs, slot f "sofa" = VSofa vn /\ sofa_of_view c vn = Some so /\ off_in_text (s_text so) z /\
            In cs (cc_sofas cc) /\ cs_id cs = s_xid so /\ cs_text cs = s_text so.
Proof. exact xmi_loaded_offsets_are_codepoints. Qed.
Print Assumptions C03_xmi_loaded_offsets_are_codepoints.

(* hence the covered text: same begin, same end, same text *)
Theorem C03_xmi_covered_text_preserved :
  forall (fmt : flt -> string) (parse : string -> option flt),
  (forall x, parse (fmt x) = Some x) -> (forall x, tok_ok (fmt x)) ->
  forall s c d c',
  wf_inb s c = true -> save_xmi fmt s c = Ok (d, c') ->
  exists all cc, written s c = Ok (c', all) /\ denote_xmi parse s d = Ok cc /\
    forall i o f ti, In (i, o) all -> hget (c_heap c) o = Some f -> sch_find s (o_type f) = Some ti ->
      isa s (o_type f) T_ANNOTATION = true ->
      forall fb fe b e, In fb (ti_feats ti) -> In fe (ti_feats ti) -> fd_xname fb = "begin" -> fd_xname fe = "end" ->
        slot f (fd_name fb) = VInt b -> slot f (fd_name fe) = VInt e ->
        exists cf vn so cs, In (i, cf) (cc_fs cc) /\ In ("begin", CInt b) (cf_feats cf) /\ In ("end", CInt e) (cf_feats cf) /\
          slot f "sofa" = VSofa vn /\ sofa_of_view c vn = Some so /\ In cs (cc_sofas cc) /\ cs_id cs = s_xid so /\
          covered (cs_text cs) b e = covered (s_text so) b e.
Proof. exact xmi_covered_text_preserved. Qed.
Print Assumptions C03_xmi_covered_text_preserved.

(* non-vacuity (XMI): the example CAS (texts "a😀b𐀀c" and "xy"; annotation 10 = [1,4) and 11 = [4,5) behind astral characters,
   annotation 12 only referenced, in the second view) is well-formed; its document carries 1/6, 6/7 and 0/2; read back
   the offsets are 1/4, 4/5, 0/2 *)
Example C03_xmi_real_document :
  wf_inb dx_schema dx_cas = true /\
  (match save_xmi (tab_fmt XmiExample.ex_ftab) dx_schema dx_cas with
   | Ok (d, _) =>
     let attr i n := match find (fun e => match x_id e with Ok j => (j =? i) && is_fs e | _ => false end) d with
                     | Some e => xattr e n | None => None end in
     ([attr 10 "begin"; attr 10 "end"; attr 11 "begin"; attr 11 "end"; attr 12 "begin"; attr 12 "end"; attr 12 "sofa"],
      match denote_xmi (tab_parse XmiExample.ex_ftab) dx_schema d with
      | Ok cc => map (fun i => match find (fun p => fst p =? i) (cc_fs cc) with
                               | Some p => (alookup "begin" (cf_feats (snd p)), alookup "end" (cf_feats (snd p))) | None => (None, None) end) [10; 11; 12]
      | _ => [] end)
   | _ => ([], []) end)
  = ([Some "1"; Some "6"; Some "6"; Some "7"; Some "0"; Some "2"; Some "2"],
     [(Some (CInt 1), Some (CInt 4)); (Some (CInt 4), Some (CInt 5)); (Some (CInt 0), Some (CInt 2))]) /\
  utf16_off (Some [97; 128512; 98; 65536; 99]%N) 4 = 6.
Proof. repeat split; vm_compute; reflexivity. Qed.

(* ---- JSON ---- *)
From Cassis Require Import JsonDoc Json JsonProofs JsonLex.
Open Scope list_scope.
Open Scope Z_scope.

(* JSON writer (every mode): the entry of every written annotation has begin / end = the UTF-16 prefix length in the text
   of its own sofa.  Premises as in C04_json_denote_save (wf_jsonb on the CAS after the save, 0 < next id). *)
Theorem C03_json_doc_offsets_are_utf16 :
  forall L s mode c d c2,
  lex_ok L -> save_json L s mode c = Ok (d, c2) -> wf_jsonb s c2 = true -> 0 < c_next_id c ->
  exists w types sofa_fs fss views,
    find_all_fs true s c2 = Ok w /\
    (forall o, In o (map snd (w_all w)) <-> reach true s (c_heap c2) (member_seeds c2) o /\ ~ null_in (c_heap c2) o) /\
    d = JObj (types ++ [(K_FS, JArr (sofa_fs ++ fss)); (K_VIEWS, JObj views)]) /\
    Forall2 (fun io j => exists f m, hget (c_heap c2) (snd io) = Some f /\ o_id f = Some (fst io) /\ j = JObj m /\
               alookup K_ID m = Some (JInt (fst io)) /\
               (is_array_name (o_type f) = false -> isa s (o_type f) T_ANNOTATION = true ->
                exists vn sf, slot f "sofa" = VSofa vn /\ find_sofa c2 vn = Some sf /\
                  forall x z, x = "begin" \/ x = "end" -> slot f x = VInt z ->
                    off_in_text (s_text sf) z /\ alookup x m = Some (JInt (utf16_off (s_text sf) z))))
            (found_list c2 w) fss.
Proof. exact json_doc_offsets_are_utf16. Qed.
Print Assumptions C03_json_doc_offsets_are_utf16.

(* JSON, read back by the declarative semantics of the format: code-point offsets again, same text, same covered text *)
Theorem C03_json_loaded_offsets_are_codepoints :
  forall L s mode c d c2 cc,
  lex_ok L -> save_json L s mode c = Ok (d, c2) -> wf_jsonb s c2 = true -> 0 < c_next_id c ->
  denote_json L s d = Ok cc ->
  exists w, find_all_fs true s c2 = Ok w /\
    forall i o f, In (i, o) (w_all w) -> hget (c_heap c2) o = Some f ->
      is_array_name (o_type f) = false -> isa s (o_type f) T_ANNOTATION = true ->
      exists cf vn sf cs, In (i, cf) (cc_fs cc) /\ cf_type cf = o_type f /\
        slot f "sofa" = VSofa vn /\ find_sofa c2 vn = Some sf /\
        In cs (cc_sofas cc) /\ cs_id cs = s_xid sf /\ cs_text cs = s_text sf /\
        (forall b e, covered (cs_text cs) b e = covered (s_text sf) b e) /\
        forall x z, x = "begin" \/ x = "end" -> slot f x = VInt z ->
          off_in_text (s_text sf) z /\ In (x, CInt z) (cf_feats cf).
Proof. exact json_loaded_offsets_are_codepoints. Qed.
Print Assumptions C03_json_loaded_offsets_are_codepoints.

(* non-vacuity (JSON): same CAS, std_lex (proved lex_ok: C02_std_lex_ok); the entries of 10, 11, 12 carry 1/6, 6/7, 0/2 and
   denote_json gives 1/4, 4/5, 0/2 *)
Example C03_json_real_document :
  (match save_json std_lex dx_schema MNone dx_cas with
   | Ok (d, c2) =>
     (wf_jsonb dx_schema c2,
      match fs_entries d with
      | Ok es => map (fun i => match find (fun e => fst e =? i) es with
                               | Some e => (alookup "begin" (snd e), alookup "end" (snd e)) | None => (None, None) end) [10; 11; 12]
      | _ => [] end,
      match denote_json std_lex dx_schema d with
      | Ok cc => map (fun i => match find (fun p => fst p =? i) (cc_fs cc) with
                               | Some p => (alookup "begin" (cf_feats (snd p)), alookup "end" (cf_feats (snd p))) | None => (None, None) end) [10; 11; 12]
      | _ => [] end)
   | _ => (false, [], []) end)
  = (true, [(Some (JInt 1), Some (JInt 6)); (Some (JInt 6), Some (JInt 7)); (Some (JInt 0), Some (JInt 2))],
     [(Some (CInt 1), Some (CInt 4)); (Some (CInt 4), Some (CInt 5)); (Some (CInt 0), Some (CInt 2))]).
Proof. vm_compute. reflexivity. Qed.
