(* Props/C03.v — property C03: offsets are code points in memory and UTF-16 code units in every document.
   This file holds only the property theorems (closed by `exact`), non-vacuity examples and
   Print Assumptions.  All statements are for every text t : list N of code points and every offset. *)
From Cassis Require Import Base Offsets OffsetsProofs.
Open Scope Z_scope.

(* The table built by create_offset_mapping maps a code-point offset to the UTF-16 length of the prefix,
   against an independent definition of UTF-16 length. *)
Theorem C03_py2ext_is_utf16_prefix_len : forall t i, 0 <= i <= Z.of_nat (List.length t) ->
  py2ext (mk_conv t) i = utf16_len (firstn (Z.to_nat i) t).
Proof. exact py2ext_is_utf16_prefix_len. Qed.
Print Assumptions C03_py2ext_is_utf16_prefix_len.

(* ... and that length is the number of code units the UTF-16 encoder of the model emits *)
Theorem C03_utf16_len_is_encoding_length : forall t, Z.of_nat (List.length (utf16 t)) = utf16_len t.
Proof. exact utf16_length. Qed.
Print Assumptions C03_utf16_len_is_encoding_length.

(* the encoder writes astral scalar values as a well-formed surrogate pair that decodes to the same value *)
Theorem C03_utf16_units_astral : forall c, (65536 <= c < 1114112)%N ->
  exists hi lo, utf16_units c = [hi; lo] /\ (55296 <= hi < 56320)%N /\ (56320 <= lo < 57344)%N /\
                (c = 65536 + (hi - 55296) * 1024 + (lo - 56320))%N.
Proof. exact utf16_units_astral. Qed.
Print Assumptions C03_utf16_units_astral.

(* the two directions are mutually inverse on valid offsets ... *)
Theorem C03_ext2py_py2ext : forall t i, 0 <= i <= Z.of_nat (List.length t) ->
  ext2py (mk_conv t) (py2ext (mk_conv t) i) = i.
Proof. exact ext2py_py2ext. Qed.
Print Assumptions C03_ext2py_py2ext.

(* ... and on the image of the valid offsets *)
Theorem C03_py2ext_ext2py : forall t j,
  (exists i, 0 <= i <= Z.of_nat (List.length t) /\ py2ext (mk_conv t) i = j) ->
  py2ext (mk_conv t) (ext2py (mk_conv t) j) = j.
Proof. exact py2ext_ext2py. Qed.
Print Assumptions C03_py2ext_ext2py.

Theorem C03_py2ext_strict_mono : forall t i j, 0 <= i < j -> j <= Z.of_nat (List.length t) ->
  py2ext (mk_conv t) i < py2ext (mk_conv t) j.
Proof. exact py2ext_strict_mono. Qed.
Print Assumptions C03_py2ext_strict_mono.

Theorem C03_py2ext_injective : forall t i j,
  0 <= i <= Z.of_nat (List.length t) -> 0 <= j <= Z.of_nat (List.length t) ->
  py2ext (mk_conv t) i = py2ext (mk_conv t) j -> i = j.
Proof. exact py2ext_injective. Qed.
Print Assumptions C03_py2ext_injective.

(* identity (both directions) on text without astral code points *)
Theorem C03_bmp_identity : forall t, bmpb t = true ->
  (forall i, valid_offb t i = true -> py2ext (mk_conv t) i = i) /\ (forall j, ext2py (mk_conv t) j = j).
Proof. exact bmp_identity. Qed.
Print Assumptions C03_bmp_identity.

(* an external offset that is not a code-point boundary is passed through unchanged *)
Theorem C03_non_boundary_passthrough : forall t j,
  (forall i, 0 <= i <= Z.of_nat (List.length t) -> py2ext (mk_conv t) i <> j) -> ext2py (mk_conv t) j = j.
Proof. exact ext2py_non_boundary_passthrough. Qed.
Print Assumptions C03_non_boundary_passthrough.

(* in particular the offset between the two units of a surrogate pair *)
Theorem C03_inside_pair_passthrough : forall t i j, 0 <= i < Z.of_nat (List.length t) ->
  py2ext (mk_conv t) i < j < py2ext (mk_conv t) (i + 1) -> ext2py (mk_conv t) j = j.
Proof. exact ext2py_inside_pair_passthrough. Qed.
Print Assumptions C03_inside_pair_passthrough.

(* and every out-of-range offset, in either direction *)
Theorem C03_out_of_range_passthrough : forall t,
  (forall i, valid_offb t i = false -> py2ext (mk_conv t) i = i) /\
  (forall j, j < 0 \/ utf16_len t < j -> ext2py (mk_conv t) j = j).
Proof. exact out_of_range_passthrough. Qed.
Print Assumptions C03_out_of_range_passthrough.

(* covered text commutes with encoding: the UTF-16 encoding of t[b:e] is the slice of the UTF-16 encoding of t
   at the converted offsets *)
Theorem C03_covered_text_commutes : forall t b e, 0 <= b <= e -> e <= Z.of_nat (List.length t) ->
  utf16 (zslice t b e) = zslice (utf16 t) (py2ext (mk_conv t) b) (py2ext (mk_conv t) e).
Proof. exact covered_text_commutes. Qed.
Print Assumptions C03_covered_text_commutes.

(* invariant over sofa histories: after the constructor (any argument, None and the empty text included) and any
   sequence of sofaString-setter calls (None included), if the sofa has a text then the converter in use is
   mk_conv of that text — or no table exists and the text is empty (constructor with the empty text) — and both
   conversion methods behave as the table of the current text.  Nothing is claimed while the text is None:
   the setter keeps the previous table then (OffsetsProofs.stale_table_after_none). *)
Theorem C03_conv_tracks_text : forall init sets,
  match s_text (sofa_run init sets) with
  | None => True
  | Some t =>
      (s_tbl (sofa_run init sets) = Some (mk_conv t) \/ (t = [] /\ s_tbl (sofa_run init sets) = None)) /\
      forall i, p2e (s_tbl (sofa_run init sets)) (Some i) = Some (py2ext (mk_conv t) i) /\
                e2p (s_tbl (sofa_run init sets)) (Some i) = Some (ext2py (mk_conv t) i)
  end.
Proof. exact conv_tracks_text_full. Qed.
Print Assumptions C03_conv_tracks_text.

Theorem C03_conv_tracks_nonempty_text : forall init sets c r,
  s_text (sofa_run init sets) = Some (c :: r) -> s_tbl (sofa_run init sets) = Some (mk_conv (c :: r)).
Proof. exact conv_tracks_nonempty_text. Qed.
Print Assumptions C03_conv_tracks_nonempty_text.

(* conversion sites: every written annotation (member of a view or only referenced), in every view, after every
   history of text replacements, carries the UTF-16 prefix lengths of its offsets in the text of its own sofa *)
Theorem C03_doc_offsets_are_utf16 : forall (hist : list (option text * list (option text))) a,
  let ss := map (fun h => sofa_run (fst h) (snd h)) hist in
  ann_okb ss a = true ->
  exists t b e, s_text (sofa_of ss (da_view a)) = Some t /\ da_b a = Some b /\ da_e a = Some e /\
    write_ann ss a = mkDann (da_view a) (Some (utf16_len (firstn (Z.to_nat b) t)))
                                        (Some (utf16_len (firstn (Z.to_nat e) t))).
Proof. exact doc_offsets_are_utf16. Qed.
Print Assumptions C03_doc_offsets_are_utf16.

(* loading what was written (XMI reader: Sofa constructor; JSON reader: setter) gives back the code-point
   offsets and the same covered text *)
Theorem C03_loaded_offsets_are_codepoints : forall (hist : list (option text * list (option text))) a,
  let ss := map (fun h => sofa_run (fst h) (snd h)) hist in
  ann_okb ss a = true ->
  (let ss' := map (fun s => load_sofa_xmi (s_text s)) ss in
   read_ann ss' (write_ann ss a) = a /\ covered_text ss' (read_ann ss' (write_ann ss a)) = covered_text ss a) /\
  (let ss' := map (fun s => load_sofa_json (s_text s)) ss in
   read_ann ss' (write_ann ss a) = a /\ covered_text ss' (read_ann ss' (write_ann ss a)) = covered_text ss a).
Proof. exact doc_roundtrip_hist. Qed.
Print Assumptions C03_loaded_offsets_are_codepoints.

(* ---- non-vacuity: a text with U+1F600, U+10000 and U+10FFFF; "a😀b𐀀c" and the largest code point ---- *)
Example C03_astral_table :
  let t := [97; 128512; 98; 65536; 99; 1114111]%N in
  map (py2ext (mk_conv t)) [0; 1; 2; 3; 4; 5; 6; 7; -1] = [0; 1; 3; 4; 6; 7; 9; 7; -1] /\
  map (ext2py (mk_conv t)) [0; 1; 2; 3; 4; 5; 6; 7; 8; 9; 10] = [0; 1; 2; 2; 3; 5; 4; 5; 8; 6; 10] /\
  utf16_len t = 9 /\
  utf16 t = [97; 55357; 56832; 98; 55296; 56320; 99; 56319; 57343]%N.
Proof. cbv zeta. repeat match goal with |- _ /\ _ => split end; vm_compute; reflexivity. Qed.

(* the premises of the commutation theorem hold for a span that starts after one astral character and contains
   another; both sides are the five code units of "b𐀀c" *)
Example C03_covered_text_astral :
  let t := [97; 128512; 98; 65536; 99; 1114111]%N in
  0 <= 2 <= 5 /\ 5 <= Z.of_nat (List.length t) /\
  utf16 (zslice t 2 5) = [98; 55296; 56320; 99]%N /\
  zslice (utf16 t) (py2ext (mk_conv t) 2) (py2ext (mk_conv t) 5) = [98; 55296; 56320; 99]%N.
Proof. cbv zeta. split; [lia|]. split; [cbn; lia|]. repeat match goal with |- _ /\ _ => split end; vm_compute; reflexivity. Qed.

(* a BMP-only text with 2- and 3-byte characters satisfies bmpb; an astral one does not *)
Example C03_bmp_premise : bmpb [97; 233; 65533; 8364]%N = true /\ bmpb [97; 65536]%N = false.
Proof. split; reflexivity. Qed.

(* a sofa history: constructor with the empty text (no table), a text with an astral character, None (stale
   table, no text), then a different astral text: the table in use is that of the last text *)
Example C03_history :
  let s := sofa_run (Some []) [Some [128512; 97]%N; None; Some [98; 1114111; 99]%N] in
  s_text s = Some [98; 1114111; 99]%N /\ s_tbl s = Some (mk_conv [98; 1114111; 99]%N) /\
  p2e (s_tbl s) (Some 3) = Some 4 /\
  s_tbl (sofa_new (Some [])) = None /\ s_tbl (sofa_new None) = None /\
  s_tbl (sofa_set (sofa_new None) (Some [])) = Some (mk_conv []).
Proof. cbv zeta. repeat match goal with |- _ /\ _ => split end; vm_compute; reflexivity. Qed.

(* a document with two views with different texts; an annotation of the second view strictly after an astral
   character satisfies ann_okb, is written with UTF-16 offsets and comes back with code-point offsets *)
Example C03_document :
  let hist := [(None, [Some [97; 128512; 98]%N]); (None, [Some [120]%N; Some [1114111; 120; 65536; 121]%N])] in
  let ss := map (fun h => sofa_run (fst h) (snd h)) hist in
  let a := mkDann 1 (Some 1) (Some 4) in
  ann_okb ss a = true /\ write_ann ss a = mkDann 1 (Some 2) (Some 6) /\
  covered_text ss a = Some [120; 65536; 121]%N /\
  write_ann ss (mkDann 0 (Some 2) (Some 3)) = mkDann 0 (Some 3) (Some 4).
Proof. cbv zeta. repeat match goal with |- _ /\ _ => split end; vm_compute; reflexivity. Qed.
