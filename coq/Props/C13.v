(* Props/C13.v — property C13: merge_typesystems follows the UIMA merge rules, is order-independent and pure.
   Only the property theorems (closed by `exact`), Print Assumptions and non-vacuity examples.
   Model: Merge.v (cassis/typesystem.py merge_typesystems at 13b42b8) on top of TS.v.  `merge inputs` is the functional
   form; the mechanism form (recursion into _children as written) is evaluated next to it on every correspondence case.

   Vocabulary.  all_WFh inputs: every input satisfies the hierarchy invariant WFh of C10 (boolean twin wfhb; for inputs
   built by histories of create_type / create_feature it is C10_reachable_WF).  type_list inputs: the concatenated
   declarations (get_types() of every input: the user types and DocumentAnnotation), a declaration d has a name (dname d),
   a declared supertype (t_super (d_ty d)) and own features (t_own (d_ty d)).  below ts a d: a is d or an ancestor of d.
   has_feat ts x f: the type named x owns or inherits a feature that Feature.__eq__ identifies with f (name, range,
   element type with None = TOP, description; NOT the multipleReferencesAllowed flag: the property excludes it). *)
From Cassis Require Import Base TS TSProofs Merge MergeProofs.

(* ---- the result is a consistent type system: it satisfies the invariant WF = WFh /\ WFf of C10 / C11.  WFh: one tree
        rooted at TOP, children = inverse of supertype, every feature reference registered, own features carry their type
        as domain.  WFf: the inherited features of every type are the own features of its FINAL proper ancestors (sound, and
        complete up to Feature.__eq__), no type sees two definitions of one feature name, the lazily built constructor
        captures exactly the effective feature names.  Hence every query specification of Props/C10.v and Props/C11.v
        applies to the result.  (The inputs need the hierarchy invariant only.) ---- *)
Theorem C13_merge_WF : forall inputs ts, all_WFh inputs -> merge inputs = Ok ts -> WF ts.
Proof. exact merge_WF. Qed.
Print Assumptions C13_merge_WF.

(* ---- termination: the fuel of the readiness loop (number of declarations + 1 rounds) is never exhausted and no
        hierarchy query inside the loop runs out of its rank fuel ---- *)
Theorem C13_merge_terminates : forall inputs, all_WFh inputs -> merge inputs <> OutOfFuel.
Proof. exact merge_terminates. Qed.
Print Assumptions C13_merge_terminates.

(* ---- the only exception is ValueError ---- *)
Theorem C13_merge_error_is_value : forall inputs e, all_WFh inputs -> merge inputs = Err e -> e = EValue.
Proof. exact merge_error_is_value. Qed.
Print Assumptions C13_merge_error_is_value.

(* ---- contains every type and every own feature declared in any input ---- *)
Theorem C13_merge_contains_all_types : forall inputs ts, all_WFh inputs -> merge inputs = Ok ts ->
  forall ti t, In ti inputs -> In t ti -> registered ts (t_name t) = true.
Proof. exact merge_contains_all_types. Qed.
Print Assumptions C13_merge_contains_all_types.

Theorem C13_merge_contains_all_features : forall inputs ts, all_WFh inputs -> merge inputs = Ok ts ->
  forall d f, In d (type_list inputs) -> In f (t_own (d_ty d)) -> has_feat ts (dname d) f.
Proof. exact merge_contains_all_features. Qed.
Print Assumptions C13_merge_contains_all_features.

(* ---- a type declared with different supertypes gets one of the declared ones (or keeps the built-in one), and every
        supertype declared for it subsumes that one: the most specific ---- *)
Theorem C13_merge_supertype_most_specific : forall inputs ts, all_WFh inputs -> merge inputs = Ok ts ->
  forall d, In d (type_list inputs) ->
  exists t s, find_ty ts (dname d) = Some t /\ t_super t = Some s /\
    (forall d' sup', In d' (type_list inputs) -> dname d' = dname d -> t_super (d_ty d') = Some sup' -> below ts sup' s) /\
    ((exists d', In d' (type_list inputs) /\ dname d' = dname d /\ t_super (d_ty d') = Some s) \/
     (exists t0, find_ty init_ts (dname d) = Some t0 /\ t_super t0 = Some s)).
Proof. exact merge_supertype_most_specific. Qed.
Print Assumptions C13_merge_supertype_most_specific.

(* ---- conflicts raise ValueError.  Incomparable: neither declared supertype is above the other in the union of all
        declared supertype edges (dreach).  Contradictory: two types declared below each other. ---- *)
Theorem C13_merge_conflict_raises_incomparable : forall inputs d1 d2 s1 s2, all_WFh inputs ->
  In d1 (type_list inputs) -> In d2 (type_list inputs) -> dname d1 = dname d2 ->
  t_super (d_ty d1) = Some s1 -> t_super (d_ty d2) = Some s2 ->
  ~ dreach (type_list inputs) s1 s2 -> ~ dreach (type_list inputs) s2 s1 -> merge inputs = Err EValue.
Proof. exact merge_conflict_raises_incomparable. Qed.
Print Assumptions C13_merge_conflict_raises_incomparable.

Theorem C13_merge_conflict_raises_contradictory : forall inputs d1 d2, all_WFh inputs ->
  In d1 (type_list inputs) -> In d2 (type_list inputs) ->
  t_super (d_ty d1) = Some (dname d2) -> t_super (d_ty d2) = Some (dname d1) -> merge inputs = Err EValue.
Proof. exact merge_conflict_raises_contradictory. Qed.
Print Assumptions C13_merge_conflict_raises_contradictory.

(* two declarations of one feature name whose types end up on one inheritance chain (d1's type below or equal to d2's in
   whatever the merge would produce) and that differ in range or in element type (None = TOP): ValueError *)
Theorem C13_merge_conflict_raises_features : forall inputs d1 d2 f1 f2, all_WFh inputs ->
  In d1 (type_list inputs) -> In d2 (type_list inputs) -> In f1 (t_own (d_ty d1)) -> In f2 (t_own (d_ty d2)) ->
  f_name f1 = f_name f2 -> (f_range f1 <> f_range f2 \/ elem_name f1 <> elem_name f2) ->
  (forall ts, merge inputs = Ok ts -> below ts (dname d2) (dname d1)) -> merge inputs = Err EValue.
Proof. exact merge_conflict_raises_features. Qed.
Print Assumptions C13_merge_conflict_raises_features.

(* the same, read the other way: when a merge succeeds, declarations of one feature name on one chain agree (Feature.__eq__) *)
Theorem C13_merge_ok_features_agree : forall inputs ts d1 d2 f1 f2, all_WFh inputs -> merge inputs = Ok ts ->
  In d1 (type_list inputs) -> In d2 (type_list inputs) -> In f1 (t_own (d_ty d1)) -> In f2 (t_own (d_ty d2)) ->
  f_name f1 = f_name f2 -> below ts (dname d2) (dname d1) -> feat_eqb f1 f2 = true.
Proof. exact merge_ok_features_agree. Qed.
Print Assumptions C13_merge_ok_features_agree.

(* whenever a merge succeeds, any two supertypes declared for one type are comparable in the result *)
Theorem C13_merge_ok_supertypes_comparable : forall inputs ts d1 d2 s1 s2, all_WFh inputs -> merge inputs = Ok ts ->
  In d1 (type_list inputs) -> In d2 (type_list inputs) -> dname d1 = dname d2 ->
  t_super (d_ty d1) = Some s1 -> t_super (d_ty d2) = Some s2 -> below ts s1 s2 \/ below ts s2 s1.
Proof. exact merge_ok_supertypes_comparable. Qed.
Print Assumptions C13_merge_ok_supertypes_comparable.

(* ---- no object of an input is referenced from the result: after the fix-up loop every domain / range / element
        reference of every stored feature copy is owned by the merged type system (ghost owner tags, see Merge.v) ---- *)
Theorem C13_merge_no_foreign_refs : forall inputs st, all_WFh inputs -> merge_with fn_form inputs = Ok st -> foreign_refs st = 0.
Proof. exact merge_no_foreign_refs. Qed.
Print Assumptions C13_merge_no_foreign_refs.

(* ---- order independence, the part that is proved.  For inputs in which no type is declared with two different
        supertypes (no_competing, boolean twin no_competingb): two tuples with the same declarations - in particular a
        permutation of the arguments - whose merges both succeed give the same types, the same supertypes and the same
        effective features (as sets of (name, range, element type or TOP)): ts_equiv. ---- *)
Theorem C13_merge_order_independent_partial : forall inputs inputs' a b, all_WFh inputs -> all_WFh inputs' ->
  same_decls (type_list inputs) (type_list inputs') -> no_competing (type_list inputs) ->
  merge inputs = Ok a -> merge inputs' = Ok b -> ts_equiv a b = true.
Proof. exact merge_order_independent_partial. Qed.
Print Assumptions C13_merge_order_independent_partial.

Theorem C13_merge_permutation_partial : forall inputs inputs' a b, all_WFh inputs -> Permutation inputs inputs' ->
  no_competing (type_list inputs) -> merge inputs = Ok a -> merge inputs' = Ok b -> ts_equiv a b = true.
Proof. exact merge_permutation_partial. Qed.
Print Assumptions C13_merge_permutation_partial.

(* merging with itself / with an empty type system changes nothing - as far as the partial theorem reaches: the three
   merges [t], [t; t] and [t; TypeSystem()] are equivalent whenever they succeed (that they DO succeed, and that the
   merge of [t] is equivalent to t itself, is the "replay" statement listed below as not proved) *)
Theorem C13_merge_self_partial : forall t a b, WFh t -> no_competing (type_list [t]) ->
  merge [t] = Ok a -> merge [t; t] = Ok b -> ts_equiv a b = true.
Proof. exact merge_self_partial. Qed.
Print Assumptions C13_merge_self_partial.

Theorem C13_merge_empty_partial : forall t a b, WFh t -> (forall x, In x (user_types init_ts) -> In x (user_types t)) ->
  no_competing (type_list [t]) -> merge [t] = Ok a -> merge [t; init_ts] = Ok b -> ts_equiv a b = true.
Proof. exact merge_empty_partial. Qed.
Print Assumptions C13_merge_empty_partial.

Theorem C13_no_competing_reflect : forall L, no_competingb L = true -> no_competing L.
Proof. exact no_competingb_sound. Qed.
Print Assumptions C13_no_competing_reflect.

(* nothing comes from nowhere: every type of the result is built in or declared by an input, and so is every own feature *)
Theorem C13_merge_origin : forall inputs ts, all_WFh inputs -> merge inputs = Ok ts -> origin_ok (type_list inputs) ts.
Proof. exact merge_origin. Qed.
Print Assumptions C13_merge_origin.

(* ---- merge_inputs_unchanged: `merge` is a function of immutable values, so the statement is trivial in the model; that
        merge_typesystems does not modify its arguments (dumps and the identities of the domainType / rangeType /
        elementType references of all their Feature objects, before and after) is carried by the correspondence harness
        on every case (field c_pure) and by the oracle. ---- *)

(* ---- NOT PROVED (kept as the goals; explored by the correspondence, which checks wfb - hierarchy AND features - of the
        model's result on every case, and by the oracle on the implementation):

   C13_merge_agreeing_features_ok:
     if all declarations of every feature name agree (with each other and with the built-in features), no feature step of
     the merge raises: merge inputs = Err e  ->  the merge of the same inputs with all features erased raises as well.
     (Needs a lock-step simulation of the two runs; the checks that can raise are exactly the three feat_eqb tests of
     _add_feature and the one of create_type's inheritance loop.)
   C13_merge_idempotent:      WF t -> exists r, merge [t; t] = Ok r /\ ts_equiv r t = true
   C13_merge_empty_neutral:   WF t -> exists r, merge [t; init_ts] = Ok r /\ ts_equiv r t = true
     (both need the "replay" theorem: merging the declarations of one well-formed type system into TypeSystem() raises
      nowhere and reproduces it.  By C13_merge_order_independent_partial the three merges [t], [t; t] and [t; init_ts]
      are equivalent to each other whenever they succeed and t carries the default DocumentAnnotation.)
   C13_merge_order_independent (FULL statement, with the property's side condition):
     forall inputs inputs', Permutation inputs inputs' ->
       (forall d1 d2, In d1 (type_list inputs) -> In d2 (type_list inputs) -> dname d1 = dname d2 ->
          t_super (d_ty d1) <> t_super (d_ty d2) ->
          forall s, (t_super (d_ty d1) = Some s \/ t_super (d_ty d2) = Some s) ->
          forall a e1 e2, dreach (type_list inputs) a s -> In e1 (type_list inputs) -> In e2 (type_list inputs) ->
             dname e1 = a -> dname e2 = a -> t_super (d_ty e1) = t_super (d_ty e2)) ->
       match merge inputs, merge inputs' with
       | Ok a, Ok b => ts_equiv a b = true | Err _, Err _ => True | _, _ => False end
     and the same for regroupings merge [merge [a; b]; c] / merge [a; b; c].
   What is proved of it: (1) C13_merge_order_independent_partial / C13_merge_permutation_partial above: without
   competing supertypes and when both merges succeed, the results are equivalent.  (2) With competing supertypes, the
   supertype half: by C13_merge_supertype_most_specific and C13_merge_contains_all_types the types of the result and
   the supertype of each are determined by the SET of declarations whenever both orders succeed (the most specific
   declared supertype is unique in a tree), and by C13_merge_conflict_raises_* the failures that the declarations force
   do not depend on the order.  Missing: that success itself does not depend on the order under the side condition
   (an order can fail on a comparison that another order postpones until the hierarchy has deepened - exactly what the
   side condition is there to exclude), and regrouping. ---- *)

(* ================================================================================================ non-vacuity *)
Definition ex_a : tsys := final_ts [CT "a.A" ANNOTATION; CT "a.B" "a.A"; CT "a.X" "a.A"; CF "a.B" "f" "uima.cas.String" None] init_ts.
Definition ex_b : tsys := final_ts [CT "a.A" ANNOTATION; CT "a.B" "a.A"; CT "a.X" "a.B"] init_ts.
(* the premises hold of non-trivial inputs, the merge succeeds and re-parents a.X below a.B *)
Example C13_premises_nonvacuous :
  wfhb ex_a = true /\ wfhb ex_b = true /\
  exists ts, merge [ex_a; ex_b] = Ok ts /\ wfb ts = true /\
             (match find_ty ts "a.X" with Some t => t_super t | None => None end) = Some "a.B".
Proof. split; [vm_compute; reflexivity|]. split; [vm_compute; reflexivity|]. eexists. vm_compute. repeat split. Qed.
(* a conflict: incomparable supertypes *)
Example C13_conflict_nonvacuous :
  merge [final_ts [CT "a.A" ANNOTATION; CT "a.B" ANNOTATION; CT "a.X" "a.A"] init_ts;
         final_ts [CT "a.A" ANNOTATION; CT "a.B" ANNOTATION; CT "a.X" "a.B"] init_ts] = Err EValue.
Proof. vm_compute. reflexivity. Qed.
