(* Props/C13.v — property C13 (placeholder while the proofs are being written). *)
From Cassis Require Import Base TS TSProofs Merge MergeProofs.
