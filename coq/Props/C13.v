(* Props/C13.v — property C13: merge_typesystems follows the UIMA merge rules, is order-independent and pure.
   Only the property theorems (closed by `exact`), Print Assumptions and non-vacuity examples.
   Model: Merge.v (cassis/typesystem.py merge_typesystems at 13b42b8) on top of TS.v.  `merge inputs` is the functional
   form; the mechanism form (recursion into _children as written) is evaluated next to it on every correspondence case.

   Vocabulary.  all_WFh inputs: every input satisfies the hierarchy invariant WFh of C10 (boolean twin wfhb; for inputs
   built by histories of create_type / create_feature it is C10_reachable_WF).  type_list inputs: the concatenated
   declarations (get_types() of every input: the user types and DocumentAnnotation), a declaration d has a name (dname d),
   a declared supertype (t_super (d_ty d)) and own features (t_own (d_ty d)).  below ts a d: a is d or an ancestor of d.
   has_feat ts x f: the type named x owns or inherits a feature that Feature.__eq__ identifies with f (name, range,
   element type with None = TOP, description; NOT the multipleReferencesAllowed flag: the property excludes it). *)
From Cassis Require Import Base TS TSProofs Merge MergeProofs MergeProofs2 MergeProofs3 MergeProofs4 MergeProofs5.

(* ---- the result is a consistent type system: it satisfies the invariant WF = WFh /\ WFf of C10 / C11.  WFh: one tree
        rooted at TOP, children = inverse of supertype, every feature reference registered, own features carry their type
        as domain.  WFf: the inherited features of every type are the own features of its FINAL proper ancestors (sound, and
        complete up to Feature.__eq__), no type sees two definitions of one feature name, the lazily built constructor
        captures exactly the effective feature names.  Hence every query specification of Props/C10.v and Props/C11.v
        applies to the result.  (The inputs need the hierarchy invariant only.) ---- *)
Theorem C13_merge_WF : forall inputs ts, all_WFh inputs -> merge inputs = Ok ts -> WF ts.
Proof. exact merge_WF. Qed.
Print Assumptions C13_merge_WF.

(* ---- termination: the fuel of the readiness loop (number of declarations + 1 rounds) is never exhausted and no
        hierarchy query inside the loop runs out of its rank fuel ---- *)
Theorem C13_merge_terminates : forall inputs, all_WFh inputs -> merge inputs <> OutOfFuel.
Proof. exact merge_terminates. Qed.
Print Assumptions C13_merge_terminates.

(* ---- the only exception is ValueError ---- *)
Theorem C13_merge_error_is_value : forall inputs e, all_WFh inputs -> merge inputs = Err e -> e = EValue.
Proof. exact merge_error_is_value. Qed.
Print Assumptions C13_merge_error_is_value.

(* ---- contains every type and every own feature declared in any input ---- *)
Theorem C13_merge_contains_all_types : forall inputs ts, all_WFh inputs -> merge inputs = Ok ts ->
  forall ti t, In ti inputs -> In t ti -> registered ts (t_name t) = true.
Proof. exact merge_contains_all_types. Qed.
Print Assumptions C13_merge_contains_all_types.

Theorem C13_merge_contains_all_features : forall inputs ts, all_WFh inputs -> merge inputs = Ok ts ->
  forall d f, In d (type_list inputs) -> In f (t_own (d_ty d)) -> has_feat ts (dname d) f.
Proof. exact merge_contains_all_features. Qed.
Print Assumptions C13_merge_contains_all_features.

(* ---- a type declared with different supertypes gets one of the declared ones (or keeps the built-in one), and every
        supertype declared for it subsumes that one: the most specific ---- *)
Theorem C13_merge_supertype_most_specific : forall inputs ts, all_WFh inputs -> merge inputs = Ok ts ->
  forall d, In d (type_list inputs) ->
  exists t s, find_ty ts (dname d) = Some t /\ t_super t = Some s /\
    (forall d' sup', In d' (type_list inputs) -> dname d' = dname d -> t_super (d_ty d') = Some sup' -> below ts sup' s) /\
    ((exists d', In d' (type_list inputs) /\ dname d' = dname d /\ t_super (d_ty d') = Some s) \/
     (exists t0, find_ty init_ts (dname d) = Some t0 /\ t_super t0 = Some s)).
Proof. exact merge_supertype_most_specific. Qed.
Print Assumptions C13_merge_supertype_most_specific.

(* ---- conflicts raise ValueError.  Incomparable: neither declared supertype is above the other in the union of all
        declared supertype edges (dreach).  Contradictory: two types declared below each other. ---- *)
Theorem C13_merge_conflict_raises_incomparable : forall inputs d1 d2 s1 s2, all_WFh inputs ->
  In d1 (type_list inputs) -> In d2 (type_list inputs) -> dname d1 = dname d2 ->
  t_super (d_ty d1) = Some s1 -> t_super (d_ty d2) = Some s2 ->
  ~ dreach (type_list inputs) s1 s2 -> ~ dreach (type_list inputs) s2 s1 -> merge inputs = Err EValue.
Proof. exact merge_conflict_raises_incomparable. Qed.
Print Assumptions C13_merge_conflict_raises_incomparable.

Theorem C13_merge_conflict_raises_contradictory : forall inputs d1 d2, all_WFh inputs ->
  In d1 (type_list inputs) -> In d2 (type_list inputs) ->
  t_super (d_ty d1) = Some (dname d2) -> t_super (d_ty d2) = Some (dname d1) -> merge inputs = Err EValue.
Proof. exact merge_conflict_raises_contradictory. Qed.
Print Assumptions C13_merge_conflict_raises_contradictory.

(* two declarations of one feature name whose types end up on one inheritance chain (d1's type below or equal to d2's in
   whatever the merge would produce) and that differ in range or in element type (None = TOP): ValueError *)
Theorem C13_merge_conflict_raises_features : forall inputs d1 d2 f1 f2, all_WFh inputs ->
  In d1 (type_list inputs) -> In d2 (type_list inputs) -> In f1 (t_own (d_ty d1)) -> In f2 (t_own (d_ty d2)) ->
  f_name f1 = f_name f2 -> (f_range f1 <> f_range f2 \/ elem_name f1 <> elem_name f2) ->
  (forall ts, merge inputs = Ok ts -> below ts (dname d2) (dname d1)) -> merge inputs = Err EValue.
Proof. exact merge_conflict_raises_features. Qed.
Print Assumptions C13_merge_conflict_raises_features.

(* the same, read the other way: when a merge succeeds, declarations of one feature name on one chain agree (Feature.__eq__) *)
Theorem C13_merge_ok_features_agree : forall inputs ts d1 d2 f1 f2, all_WFh inputs -> merge inputs = Ok ts ->
  In d1 (type_list inputs) -> In d2 (type_list inputs) -> In f1 (t_own (d_ty d1)) -> In f2 (t_own (d_ty d2)) ->
  f_name f1 = f_name f2 -> below ts (dname d2) (dname d1) -> feat_eqb f1 f2 = true.
Proof. exact merge_ok_features_agree. Qed.
Print Assumptions C13_merge_ok_features_agree.

(* whenever a merge succeeds, any two supertypes declared for one type are comparable in the result *)
Theorem C13_merge_ok_supertypes_comparable : forall inputs ts d1 d2 s1 s2, all_WFh inputs -> merge inputs = Ok ts ->
  In d1 (type_list inputs) -> In d2 (type_list inputs) -> dname d1 = dname d2 ->
  t_super (d_ty d1) = Some s1 -> t_super (d_ty d2) = Some s2 -> below ts s1 s2 \/ below ts s2 s1.
Proof. exact merge_ok_supertypes_comparable. Qed.
Print Assumptions C13_merge_ok_supertypes_comparable.

(* ---- no object of an input is referenced from the result: after the fix-up loop every domain / range / element
        reference of every stored feature copy is owned by the merged type system (ghost owner tags, see Merge.v) ---- *)
Theorem C13_merge_no_foreign_refs : forall inputs st, all_WFh inputs -> merge_with fn_form inputs = Ok st -> foreign_refs st = 0.
Proof. exact merge_no_foreign_refs. Qed.
Print Assumptions C13_merge_no_foreign_refs.

(* ---- order independence for inputs without competing supertypes (no_competing, boolean twin no_competingb) when both
        merges succeed.  Kept from the first round; SUPERSEDED by C13_merge_results_equiv (no premise on the supertypes),
        C13_merge_order_independent / C13_merge_any_order_and_grouping (success and failure too) and the replay theorems
        below. ---- *)
Theorem C13_merge_order_independent_partial : forall inputs inputs' a b, all_WFh inputs -> all_WFh inputs' ->
  same_decls (type_list inputs) (type_list inputs') -> no_competing (type_list inputs) ->
  merge inputs = Ok a -> merge inputs' = Ok b -> ts_equiv a b = true.
Proof. exact merge_order_independent_partial. Qed.
Print Assumptions C13_merge_order_independent_partial.

Theorem C13_merge_permutation_partial : forall inputs inputs' a b, all_WFh inputs -> Permutation inputs inputs' ->
  no_competing (type_list inputs) -> merge inputs = Ok a -> merge inputs' = Ok b -> ts_equiv a b = true.
Proof. exact merge_permutation_partial. Qed.
Print Assumptions C13_merge_permutation_partial.

(* merging with itself / with an empty type system changes nothing - as far as the partial theorem reaches: the three
   merges [t], [t; t] and [t; TypeSystem()] are equivalent whenever they succeed (that they DO succeed, and that the
   merge of [t] is equivalent to t itself, is the "replay" statement listed below as not proved) *)
Theorem C13_merge_self_partial : forall t a b, WFh t -> no_competing (type_list [t]) ->
  merge [t] = Ok a -> merge [t; t] = Ok b -> ts_equiv a b = true.
Proof. exact merge_self_partial. Qed.
Print Assumptions C13_merge_self_partial.

Theorem C13_merge_empty_partial : forall t a b, WFh t -> (forall x, In x (user_types init_ts) -> In x (user_types t)) ->
  no_competing (type_list [t]) -> merge [t] = Ok a -> merge [t; init_ts] = Ok b -> ts_equiv a b = true.
Proof. exact merge_empty_partial. Qed.
Print Assumptions C13_merge_empty_partial.

Theorem C13_no_competing_reflect : forall L, no_competingb L = true -> no_competing L.
Proof. exact no_competingb_sound. Qed.
Print Assumptions C13_no_competing_reflect.

(* nothing comes from nowhere: every type of the result is built in or declared by an input, and so is every own feature *)
Theorem C13_merge_origin : forall inputs ts, all_WFh inputs -> merge inputs = Ok ts -> origin_ok (type_list inputs) ts.
Proof. exact merge_origin. Qed.
Print Assumptions C13_merge_origin.

(* ---- merge_inputs_unchanged: `merge` is a function of immutable values, so the statement is trivial in the model; that
        merge_typesystems does not modify its arguments (dumps and the identities of the domainType / rangeType /
        elementType references of all their Feature objects, before and after) is carried by the correspondence harness
        on every case (field c_pure) and by the oracle. ---- *)

(* ================================================================================================ the merge as a function of the declarations
   Vocabulary (MergeProofs.v / MergeProofs2.v / MergeProofs3.v).  L = type_list inputs.
   declared_edge L x s: TypeSystem() or some input declares x directly below s;  dreach L a d: a is d or above d in the
   union of all declared edges.  declared_feat L A f: TypeSystem() or some input declares feature f on the type named A.
   AG L (agreement): two declarations of one feature name on types A1, A2 with dreach L A1 A2 are equal for
   Feature.__eq__ (name, range, element type with None = TOP, description).
   mergeable_h L: any two supertypes declared for one type are comparable in dreach; no type is above (or equal to) a
   supertype declared for it; every declared supertype is predefined or (inductively) declared below such a type.
   side_cond L (the property's side condition): whenever a type has two different declared supertypes, these and every
   type above them in dreach have one declared supertype only.  Boolean twin: side_condb (sound).
   same_static L L': the same declared edges and the same declared features (a permutation of the inputs, a duplicated
   input, an added TypeSystem()).  nofinal L / all_nofinal inputs: no declared supertype is inheritance-final (true of
   every input built through create_type: C10_reachable_no_final_parent). ---- *)

(* ---- the hierarchy of a successful merge is exactly the reachability relation of the declared edges ---- *)
Theorem C13_merge_below_iff_dreach : forall inputs ts, all_WFh inputs -> merge inputs = Ok ts ->
  forall a d, below ts a d <-> dreach (type_list inputs) a d.
Proof. exact merge_below_iff_dreach. Qed.
Print Assumptions C13_merge_below_iff_dreach.

(* ---- necessity: what merges is mergeable and agrees (so everything else raises ValueError, by C13_merge_terminates and
        C13_merge_error_is_value) ---- *)
Theorem C13_merge_ok_mergeable : forall inputs ts, all_WFh inputs -> merge inputs = Ok ts -> mergeable_h (type_list inputs).
Proof. exact merge_mergeable_h. Qed.
Print Assumptions C13_merge_ok_mergeable.
Theorem C13_merge_ok_agree : forall inputs ts, all_WFh inputs -> merge inputs = Ok ts -> AG (type_list inputs).
Proof. exact merge_AG. Qed.
Print Assumptions C13_merge_ok_agree.

(* ---- merge_agreeing_features_ok: when all declarations of each feature name along the declared supertype edges agree,
        the features add no failure: if the merge of the same inputs with all features erased succeeds (i.e. the declared
        supertypes are comparable, in the order given), the merge succeeds, with the same hierarchy.  No side condition. ---- *)
Theorem C13_merge_agreeing_features_ok : forall inputs sk, all_WFh inputs -> AG (type_list inputs) ->
  merge (map erase_feats inputs) = Ok sk -> exists ts, merge inputs = Ok ts /\ strip ts = strip sk.
Proof. exact merge_agreeing_features_ok. Qed.
Print Assumptions C13_merge_agreeing_features_ok.

(* ---- sufficiency: under the side condition, mergeable and agreeing declarations merge; so success is a property of the
        SET of declarations ---- *)
Theorem C13_merge_succeeds : forall inputs, all_WFh inputs -> nofinal (type_list inputs) -> side_cond (type_list inputs) ->
  mergeable_h (type_list inputs) -> AG (type_list inputs) -> exists ts, merge inputs = Ok ts.
Proof. exact merge_succeeds. Qed.
Print Assumptions C13_merge_succeeds.
Theorem C13_merge_success_iff : forall inputs, all_WFh inputs -> nofinal (type_list inputs) -> side_cond (type_list inputs) ->
  ((exists ts, merge inputs = Ok ts) <-> mergeable_h (type_list inputs) /\ AG (type_list inputs)).
Proof. exact merge_success_iff. Qed.
Print Assumptions C13_merge_success_iff.

(* ---- ORDER INDEPENDENCE.  (1) Without any side condition: two tuples with the same declarations whose merges both
        succeed give the same types, supertypes and effective features.  (2) Under the side condition: success / failure
        (ValueError) and the result do not depend on the order of the inputs (same_outcome: Ok/Ok with ts_equiv, or
        Err EValue / Err EValue).  RefutedC13.order_independence_without_side_condition_refuted shows that (2) needs it. ---- *)
Theorem C13_merge_results_equiv : forall inputs inputs' a b, all_WFh inputs -> all_WFh inputs' ->
  same_static (type_list inputs) (type_list inputs') -> merge inputs = Ok a -> merge inputs' = Ok b -> ts_equiv a b = true.
Proof. exact merge_results_equiv. Qed.
Print Assumptions C13_merge_results_equiv.
Theorem C13_merge_order_independent : forall inputs inputs', all_WFh inputs -> all_WFh inputs' -> nofinal (type_list inputs) ->
  same_static (type_list inputs) (type_list inputs') -> side_cond (type_list inputs) -> same_outcome (merge inputs) (merge inputs').
Proof. exact merge_order_independent. Qed.
Print Assumptions C13_merge_order_independent.
Theorem C13_merge_permutation : forall inputs inputs', all_WFh inputs -> all_nofinal inputs -> Permutation inputs inputs' ->
  side_cond (type_list inputs) -> same_outcome (merge inputs) (merge inputs').
Proof. exact merge_permutation. Qed.
Print Assumptions C13_merge_permutation.
Theorem C13_side_cond_reflect : forall L, side_condb L = true -> side_cond L.
Proof. exact side_condb_sound. Qed.
Print Assumptions C13_side_cond_reflect.

(* ---- REGROUPING.  Under the side condition of the flat tuple Z, merging a group X of the inputs first and then the result
        together with the remaining inputs Ys (Z1 r: any list made of r and Ys, in any order) has the same outcome as
        merging everything at once: both succeed with equivalent results, or both raise ValueError (merge_grouped
        propagates the exception of the inner merge).  The three groupings of a triple are instances. ---- *)
Theorem C13_merge_regroup : forall X Ys Z1 Z,
  (forall r ts, In ts (Z1 r) <-> ts = r \/ In ts Ys) -> (forall ts, In ts Z <-> In ts X \/ In ts Ys) ->
  all_WFh Z -> nofinal (type_list Z) -> side_cond (type_list Z) -> same_outcome (merge_grouped X Z1) (merge Z).
Proof. exact merge_regroup. Qed.
Print Assumptions C13_merge_regroup.
Theorem C13_merge_regroup_left : forall a b c, all_WFh [a; b; c] -> nofinal (type_list [a; b; c]) -> side_cond (type_list [a; b; c]) ->
  same_outcome (do r <- merge [a; b];; merge [r; c]) (merge [a; b; c]).
Proof. exact merge_regroup_left. Qed.
Print Assumptions C13_merge_regroup_left.
Theorem C13_merge_regroup_right : forall a b c, all_WFh [a; b; c] -> nofinal (type_list [a; b; c]) -> side_cond (type_list [a; b; c]) ->
  same_outcome (do r <- merge [b; c];; merge [a; r]) (merge [a; b; c]).
Proof. exact merge_regroup_right. Qed.
Print Assumptions C13_merge_regroup_right.
Theorem C13_merge_regroup_outer : forall a b c, all_WFh [a; b; c] -> nofinal (type_list [a; b; c]) -> side_cond (type_list [a; b; c]) ->
  same_outcome (do r <- merge [a; c];; merge [r; b]) (merge [a; b; c]).
Proof. exact merge_regroup_outer. Qed.
Print Assumptions C13_merge_regroup_outer.
(* ---- ORDER AND GROUPING in general.  A merge expression (gexp: an input, or merge_typesystems applied to sub-expressions;
        geval propagates an exception of a sub-merge; leaves: its inputs, left to right).  Under the side condition of the
        flat tuple of its inputs, ANY nesting of merges has the same outcome as the merge of all the inputs at once - and as
        the flat merge of any tuple with the same declarations (a permutation in particular). ---- *)
Theorem C13_merge_any_grouping : forall l, all_WFh (flat_map leaves l) -> nofinal (type_list (flat_map leaves l)) ->
  side_cond (type_list (flat_map leaves l)) -> same_outcome (geval (GM l)) (merge (flat_map leaves l)).
Proof. exact merge_any_grouping. Qed.
Print Assumptions C13_merge_any_grouping.
Theorem C13_merge_any_order_and_grouping : forall l inputs', all_WFh (flat_map leaves l) -> all_WFh inputs' ->
  nofinal (type_list (flat_map leaves l)) -> side_cond (type_list (flat_map leaves l)) ->
  same_static (type_list (flat_map leaves l)) (type_list inputs') -> same_outcome (geval (GM l)) (merge inputs').
Proof. exact merge_any_order_and_grouping. Qed.
Print Assumptions C13_merge_any_order_and_grouping.
(* no well-formed input can stall the readiness loop: the "no progress" ValueError needs a hand-made declaration list *)
Theorem C13_merge_all_ready : forall inputs, all_WFh inputs -> forall x s, user_edge (type_list inputs) x s -> proc (type_list inputs) s.
Proof. exact proc_all. Qed.
Print Assumptions C13_merge_all_ready.

(* ---- REPLAY.  A well-formed type system t that contains TypeSystem() (init_embedded: every built-in type,
        DocumentAnnotation included, with its supertype and - up to __eq__ - its features; the predefined types of t
        declare nothing else; boolean twin init_embeddedb) and has no inheritance-final supertype is reproduced by the merge:
        it raises nowhere and the result has the same types, supertypes and effective features (ts_equiv), the same
        children as sets (same_tree), and every own feature of the result is an own feature of that type in t (or in
        TypeSystem()).  The same for [t; t] (idempotence) and [t; TypeSystem()] (neutrality of the empty type system).
        RefutedC13: replay_without_document_annotation_refuted (the premise is needed),
        replay_own_features_exact_refuted (own features are reproduced as a subset only). ---- *)
Theorem C13_merge_replay : forall t, WF t -> init_embedded t -> no_final_parent t -> replays t [t].
Proof. exact merge_replay. Qed.
Print Assumptions C13_merge_replay.
Theorem C13_merge_idempotent : forall t, WF t -> init_embedded t -> no_final_parent t -> replays t [t; t].
Proof. exact merge_idempotent. Qed.
Print Assumptions C13_merge_idempotent.
Theorem C13_merge_empty_neutral : forall t, WF t -> init_embedded t -> no_final_parent t -> replays t [t; init_ts].
Proof. exact merge_empty_neutral. Qed.
Print Assumptions C13_merge_empty_neutral.
Theorem C13_merge_nothing : merge [] = Ok init_ts.
Proof. exact merge_nil. Qed.
Print Assumptions C13_merge_nothing.
Theorem C13_init_embedded_reflect : forall t, init_embeddedb t = true -> init_embedded t.
Proof. exact init_embeddedb_sound. Qed.
Print Assumptions C13_init_embedded_reflect.

(* ---- REFINEMENT between the two forms of the model: the mechanism form (Type._add_feature as written: recursion into
        _children with inherited=True, TS.add_rec) and the functional form on which the theorems above are stated give the
        same outcome on well-formed inputs: the same merged type system (structurally, ghost ranks and constructor fields
        included), the same owner tags, or the same error.  (The correspondence still evaluates both on every case.) ---- *)
Theorem C13_merge_mech_refines : forall inputs, all_WFh inputs -> merge_with mech_form inputs = merge_with fn_form inputs.
Proof. exact merge_with_mech_agrees. Qed.
Print Assumptions C13_merge_mech_refines.
Theorem C13_merge_mech_agrees : forall inputs, all_WFh inputs -> merge_mech inputs = merge inputs.
Proof. exact merge_mech_agrees. Qed.
Print Assumptions C13_merge_mech_agrees.
(* the building block, of independent interest for C11: Type._add_feature as written agrees with its functional form
   whenever the tree invariant holds of the SKELETON (feature references need not be registered) and WFf holds *)
Theorem C13_add_feature_mech_skeleton : forall ts dom f, WFh (strip ts) -> WFf ts -> add_feature_mech ts dom f = add_feature_res ts dom f.
Proof. exact add_feature_mech_HI. Qed.
Print Assumptions C13_add_feature_mech_skeleton.

(* ---- WHAT IS NOT CLAIMED, and the premises in one place.
   * all_WFh inputs (boolean twin wfhb; C10_reachable_WF for API-built inputs) everywhere; nofinal / all_nofinal (no declared
     supertype is inheritance-final: C10 reachable_no_final_parent for API-built inputs) wherever SUCCESS is concluded:
     re-parenting has no final check, so a hand-made input may merge below a final type while create_type refuses it.
   * side_cond counts the built-in declaration of DocumentAnnotation as a declaration (an input that re-declares it with
     another supertype makes it "competing"): marginally stronger than the property's wording.
   * Order independence of SUCCESS needs the side condition (RefutedC13.order_independence_without_side_condition_refuted);
     equivalence of two successful results does not (C13_merge_results_equiv).
   * ts_equiv / same_outcome compare types, supertypes and effective features as sets of (name, range, element type or TOP):
     registration order, children order, descriptions and the multipleReferencesAllowed flag are outside (the property
     excludes the last two); children as SETS and own features are covered for the replay theorems (same_tree, replays).
   * Replay needs init_embedded (RefutedC13.replay_without_document_annotation_refuted); own features are reproduced as a
     subset only (RefutedC13.replay_own_features_exact_refuted: an own feature that duplicates an inherited one is dropped).
   * merge_inputs_unchanged is trivial in a functional model (see above); object identity is a ghost (C13_merge_no_foreign_refs).
   Nothing of the property's statement is left as a comment only. ---- *)

(* ================================================================================================ non-vacuity *)
Definition ex_a : tsys := final_ts [CT "a.A" ANNOTATION; CT "a.B" "a.A"; CT "a.X" "a.A"; CF "a.B" "f" "uima.cas.String" None] init_ts.
Definition ex_b : tsys := final_ts [CT "a.A" ANNOTATION; CT "a.B" "a.A"; CT "a.X" "a.B"] init_ts.
(* the premises hold of non-trivial inputs, the merge succeeds and re-parents a.X below a.B *)
Example C13_premises_nonvacuous :
  wfhb ex_a = true /\ wfhb ex_b = true /\
  exists ts, merge [ex_a; ex_b] = Ok ts /\ wfb ts = true /\
             (match find_ty ts "a.X" with Some t => t_super t | None => None end) = Some "a.B".
Proof. split; [vm_compute; reflexivity|]. split; [vm_compute; reflexivity|]. eexists. vm_compute. repeat split. Qed.
(* a conflict: incomparable supertypes *)
Example C13_conflict_nonvacuous :
  merge [final_ts [CT "a.A" ANNOTATION; CT "a.B" ANNOTATION; CT "a.X" "a.A"] init_ts;
         final_ts [CT "a.A" ANNOTATION; CT "a.B" ANNOTATION; CT "a.X" "a.B"] init_ts] = Err EValue.
Proof. vm_compute. reflexivity. Qed.

(* the side condition holds of inputs with competing supertypes (a.X below a.A and below a.B), the declarations agree,
   the hierarchy-only merge succeeds *)
Example C13_side_cond_nonvacuous :
  side_cond (type_list [ex_a; ex_b]) /\ no_competingb (type_list [ex_a; ex_b]) = false /\ AG (type_list [ex_a; ex_b]) /\
  nofinal (type_list [ex_a; ex_b]) /\ exists sk, merge (map erase_feats [ex_a; ex_b]) = Ok sk.
Proof.
  assert (HW : all_WFh [ex_a; ex_b]) by (intros ts [<-|[<-|[]]]; apply wfhb_sound; vm_compute; reflexivity).
  split; [apply side_condb_sound; vm_compute; reflexivity|]. split; [vm_compute; reflexivity|]. split.
  - assert (H : exists ts, merge [ex_a; ex_b] = Ok ts) by (eexists; vm_compute; reflexivity). destruct H as (ts & H). apply (merge_AG _ _ HW H).
  - split; [|eexists; vm_compute; reflexivity]. apply type_list_nofinal. intros ts [<-|[<-|[]]]; apply no_final_parentb_sound; vm_compute; reflexivity.
Qed.
(* the premises of the replay theorem hold of a type system with a feature *)
Example C13_replay_nonvacuous : wfb ex_a = true /\ init_embeddedb ex_a = true /\ no_final_parentb ex_a = true.
Proof. vm_compute. repeat split. Qed.

(* a nested merge over inputs that meet the side condition: merge(merge(a, b), a) *)
Example C13_grouping_nonvacuous :
  side_condb (type_list (flat_map leaves [GM [GIn ex_a; GIn ex_b]; GIn ex_a])) = true /\
  exists r, geval (GM [GM [GIn ex_a; GIn ex_b]; GIn ex_a]) = Ok r /\ wfb r = true.
Proof. split; [vm_compute; reflexivity|]. eexists. vm_compute. split; reflexivity. Qed.
