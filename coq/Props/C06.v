(* Props/C06.v — property C06: select / select_all return exactly the indexed instances of a type subtree.
   Only the property theorems (closed by `exact`), Print Assumptions and non-vacuity examples.

   Vocabulary (coq/Select.v): `crun lenient ops` runs a history on the mechanism (per-view dict of per-type lists kept
   sorted by (begin, end, id), defaultdict side effects, Type.descendants walked with fuel, set iteration order
   as the `order` argument of OSelect); `arun lenient ops` runs the same history on the specification: one bag
   (list of feature structures added and not removed) per view, select = filter of the bag by the subtype
   relation `subb` (upward walk; `sub` is the reflexive-transitive closure of the supertype map).  Both start from
   a fresh CAS whose type system holds uima.cas.TOP; the predefined types are created by create_type like any
   other (that is what TypeSystem.__init__ does), so every theorem covers them.
   T may be named by a Type object of the CAS's type system (ByType), a string (ByName) or a Type object of any
   other TypeSystem (ByForeign cts T, cts = the create_type calls made on that object so far): Cas.select takes a
   Type object as it is, `sel_tree` is the tree of the type system the object belongs to (the CAS's own for the
   first two forms). *)
From Cassis Require Import Base Index Select SelectProofs.
Open Scope Z_scope.

(* Master refinement, for every history: same control state (leniency, type tree, handles, view names), a well-formed
   tree, every view's index refining that view's bag, and observation sequences that agree operation by operation
   (exception kinds and handles equal, query results equal as multisets). *)
Theorem C06_history_refines : forall lenient ops,
  R (fst (crun lenient ops)) (fst (arun lenient ops)) /\
  Forall2 obs_equiv (snd (crun lenient ops)) (snd (arun lenient ops)).
Proof. exact history_refines. Qed.
Print Assumptions C06_history_refines.

(* Invariant over all histories: the views are the same; flattening a view's index gives, as a multiset, exactly the
   bag of that view; each per-type list is sorted and holds exactly the keys of the bag members of that very type. *)
Theorem C06_index_refines_bag : forall lenient ops,
  let c := fst (crun lenient ops) in let a := fst (arun lenient ops) in
  akeys (s_views c) = akeys (s_views a) /\
  forall v idx, alookup v (s_views c) = Some idx ->
    Permutation (flatten idx) (map fs_ent (bag_of a v)) /\
    forall t, sorted (idx_get t idx) /\ Permutation (idx_get t idx) (keys_of t (bag_of a v)).
Proof. exact index_refines_bag. Qed.
Print Assumptions C06_index_refines_bag.

(* select: after any history, through any handle, for every way of naming T that resolves and every `order` argument,
   the result is a permutation of the bag of the handle's view filtered by "type is T or a transitive subtype of T" -
   each once, none missing, none from another view; and when `order` is an arrangement of the descendant names, that
   is the order in which the per-type lists were concatenated.  (For q = ByType / ByName, `sel_tree (s_tree c) q` is
   `s_tree c` by computation: the statement the earlier version of this file made is the instance C06_select_spec_own.) *)
Theorem C06_select_spec : forall lenient ops h q order,
  let c := fst (crun lenient ops) in let a := fst (arun lenient ops) in
  forall v idx T, cur_view c h = Some (v, idx) -> resolve_sel (s_tree c) q = Ok T ->
  exists c' l, step cpl c (OSelect h q order) = (c', OList l) /\
    Permutation l (map fs_ent (filter (fun f => subb (sel_tree (s_tree c) q) (f_type f) T) (bag_of a v))) /\
    (forall D, descendants (sel_tree (s_tree c) q) T = Some D -> Permutation order D -> l = select_in order idx).
Proof. exact select_spec. Qed.
Print Assumptions C06_select_spec.
Theorem C06_select_spec_own : forall lenient ops h q order,
  let c := fst (crun lenient ops) in let a := fst (arun lenient ops) in
  (forall cts t, q <> ByForeign cts t) ->
  forall v idx T, cur_view c h = Some (v, idx) -> resolve_sel (s_tree c) q = Ok T ->
  exists c' l, step cpl c (OSelect h q order) = (c', OList l) /\
    Permutation l (map fs_ent (filter (fun f => subb (s_tree c) (f_type f) T) (bag_of a v))) /\
    (forall D, descendants (s_tree c) T = Some D -> Permutation order D -> l = select_in order idx).
Proof.
  intros lenient ops h q order c a Hq. pose proof (select_spec lenient ops h q order) as H. cbv zeta in H.
  destruct q as [t|s|cts t]; [exact H|exact H|]. exfalso. exact (Hq cts t eq_refl).
Qed.
Print Assumptions C06_select_spec_own.

(* T given as a Type object of ANOTHER type system (a lenient CAS can hold that system's instances): the result is the
   bag of the view filtered by "type is T or a transitive subtype of T" in the tree of the type system T belongs to -
   the closure of that system's supertype map, which its descendants walk computes, each name once; every type system
   reachable by create_type calls is covered, no premise on it *)
Theorem C06_select_foreign_spec : forall lenient ops h cts T order,
  let c := fst (crun lenient ops) in let a := fst (arun lenient ops) in let ft := foreign_tree cts in
  forall v idx, cur_view c h = Some (v, idx) -> has_type ft T = true ->
  (exists D, descendants ft T = Some D /\ NoDup D /\ forall x, In x D <-> sub ft x T) /\
  exists c' l, step cpl c (OSelect h (ByForeign cts T) order) = (c', OList l) /\
    Permutation l (map fs_ent (filter (fun f => subb ft (f_type f) T) (bag_of a v))) /\
    (forall f, subb ft (f_type f) T = true <-> sub ft (f_type f) T).
Proof. exact select_foreign_spec. Qed.
Print Assumptions C06_select_foreign_spec.
(* the object is used as it is: what the CAS's own type system holds (that name, another type with that short name,
   nothing) plays no part ... *)
Theorem C06_select_foreign_ignores_own_tree : forall (P : Type) (pl : payload P) l tr tr' vs hs h cts T order,
  snd (step pl (mkSt l tr vs hs) (OSelect h (ByForeign cts T) order)) =
  snd (step pl (mkSt l tr' vs hs) (OSelect h (ByForeign cts T) order)).
Proof. exact @select_foreign_ignores_own_tree. Qed.
Print Assumptions C06_select_foreign_ignores_own_tree.
(* ... and a Type object of a type system holding the same tree is as good as the CAS's own *)
Theorem C06_select_foreign_same_tree : forall (P : Type) (pl : payload P) (st : state P) h cts T order,
  foreign_tree cts = s_tree st -> has_type (s_tree st) T = true ->
  step pl st (OSelect h (ByForeign cts T) order) = step pl st (OSelect h (ByType T) order).
Proof. exact @select_foreign_same_tree. Qed.
Print Assumptions C06_select_foreign_same_tree.

(* the filter above is the closure of the supertype map, and Type.descendants (with the fuel the model gives it)
   terminates and lists exactly that closure, each name once, on every reachable type tree *)
Theorem C06_subtype_is_closure : forall lenient ops a T,
  let tr := s_tree (fst (crun lenient ops)) in subb tr a T = true <-> sub tr a T.
Proof. exact subtype_is_closure. Qed.
Print Assumptions C06_subtype_is_closure.
Theorem C06_descendants_compute_closure : forall lenient ops T,
  let tr := s_tree (fst (crun lenient ops)) in
  exists D, descendants tr T = Some D /\ NoDup D /\ forall a, In a D <-> sub tr a T.
Proof. exact descendants_compute_closure. Qed.
Print Assumptions C06_descendants_compute_closure.

Theorem C06_select_all_spec : forall lenient ops h,
  let c := fst (crun lenient ops) in let a := fst (arun lenient ops) in
  forall v idx, cur_view c h = Some (v, idx) ->
  exists l, step cpl c (OSelectAll h) = (c, OList l) /\ Permutation l (map fs_ent (bag_of a v)).
Proof. exact select_all_spec. Qed.
Print Assumptions C06_select_all_spec.

(* type object, full name and unique short name give the same step (state and result), in any state *)
Theorem C06_select_name_forms_agree : forall (P : Type) (pl : payload P) (st : state P) h order T,
  has_type (s_tree st) T = true ->
  step pl st (OSelect h (ByName T) order) = step pl st (OSelect h (ByType T) order) /\
  forall s, has_type (s_tree st) s = false -> has_dot s = false ->
    filter (fun n => String.eqb (short_name n) s) (names (s_tree st)) = [T] ->
    step pl st (OSelect h (ByName s) order) = step pl st (OSelect h (ByType T) order).
Proof. exact @select_name_forms_agree. Qed.
Print Assumptions C06_select_name_forms_agree.

(* instances of one concrete type are returned in index order: non-decreasing (begin, end) *)
Theorem C06_per_type_sorted : forall lenient ops h q order c' l t,
  let c := fst (crun lenient ops) in
  step cpl c (OSelect h q order) = (c', OList l) ->
  sorted (map snd (filter (fun e : ent => String.eqb (fst e) t) l)).
Proof. exact per_type_sorted. Qed.
Print Assumptions C06_per_type_sorted.
Theorem C06_per_type_sorted_all : forall lenient ops h c' l t,
  let c := fst (crun lenient ops) in
  step cpl c (OSelectAll h) = (c', OList l) ->
  sorted (map snd (filter (fun e : ent => String.eqb (fst e) t) l)).
Proof. exact per_type_sorted_all. Qed.
Print Assumptions C06_per_type_sorted_all.

(* removing a structure that is not in the bag of the handle's view raises ValueError, and every later observation
   (whatever the continuation ops2) is what it would have been without the attempt *)
Theorem C06_remove_absent_unchanged : forall lenient ops h f v idx ops2,
  let c := fst (crun lenient ops) in let a := fst (arun lenient ops) in
  cur_view c h = Some (v, idx) -> existsb (same_fs f) (bag_of a v) = false ->
  snd (step cpl c (ORemove h f)) = OErr EValue /\
  Forall2 obs_equiv (snd (run cpl (fst (step cpl c (ORemove h f))) ops2)) (snd (run cpl c ops2)).
Proof. exact remove_absent_unchanged. Qed.
Print Assumptions C06_remove_absent_unchanged.

(* an add / add_all / remove / select through one handle never changes another view: neither its bag ... *)
Theorem C06_views_disjoint : forall (st : state (list fs)) o h v p v',
  op_handle o = Some h -> cur_view st h = Some (v, p) -> v' <> v ->
  alookup v' (s_views (fst (step apl st o))) = alookup v' (s_views st).
Proof. exact (@views_disjoint _ apl). Qed.
Print Assumptions C06_views_disjoint.
(* ... nor its index *)
Theorem C06_views_disjoint_index : forall (st : state index) o h v p v',
  op_handle o = Some h -> cur_view st h = Some (v, p) -> v' <> v ->
  alookup v' (s_views (fst (step cpl st o))) = alookup v' (s_views st).
Proof. exact (@views_disjoint _ cpl). Qed.
Print Assumptions C06_views_disjoint_index.

(* create_type in the middle of a history: no view and no handle changes, the tree stays well-formed, and the
   subtype relation among the types that already exist is unchanged (all theorems above hold for the longer history
   anyway, since they quantify over every history) *)
Theorem C06_create_type_preserves : forall (P : Type) (pl : payload P) (st : state P) n sup,
  let st' := fst (step pl st (OCreateType n sup)) in
  s_views st' = s_views st /\ s_handles st' = s_handles st /\
  (wf_tree (s_tree st) -> wf_tree (s_tree st') /\
     forall a T, has_type (s_tree st) a = true -> (sub (s_tree st') a T <-> sub (s_tree st) a T)).
Proof. exact @create_type_preserves. Qed.
Print Assumptions C06_create_type_preserves.

(* ---- non-vacuity: a history with a subtype created after instances exist, a second view holding a twin of an
   indexed structure, a non-annotation structure (sorts at maxsize), a type found by its unique short name; the premises of
   C06_select_spec and C06_remove_absent_unchanged hold in the state it reaches and the query returns something *)
Definition ex_ops : list op :=
  [OCreateType "t.A" "uima.cas.TOP"; OCreateType "t.B" "t.A";
   OAdd 0 (mkFs 1 "t.A" (Some (3, 5))); OAdd 0 (mkFs 2 "t.B" (Some (0, 9)));
   OCreateView "v2"; OAdd 1 (mkFs 3 "t.A" (Some (3, 5)));
   OCreateType "u.C" "B"; OAddAll 0 [mkFs 4 "u.C" None; mkFs 5 "t.A" (Some (1, 2))];
   ORemove 0 (mkFs 2 "t.B" (Some (0, 9))); OAdd 0 (mkFs 2 "t.B" (Some (0, 9)))].
Example C06_premises_hold :
  let c := fst (crun false ex_ops) in let a := fst (arun false ex_ops) in
  let twin := mkFs 3 "t.A" (Some (3, 5)) in
  (exists idx, cur_view c 0 = Some ("_InitialView", idx)) /\
  resolve_sel (s_tree c) (ByName "A") = Ok "t.A" /\
  descendants (s_tree c) "t.A" = Some ["t.A"; "t.B"; "u.C"] /\
  existsb (same_fs twin) (bag_of a "_InitialView") = false /\
  existsb (same_fs twin) (bag_of a "v2") = true /\
  snd (step cpl c (OSelect 0 (ByName "A") ["u.C"; "t.B"; "t.A"])) =
    OList [("u.C", mkKey maxsize maxsize 4); ("t.B", mkKey 0 9 2); ("t.A", mkKey 1 2 5); ("t.A", mkKey 3 5 1)] /\
  snd (step cpl c (OSelect 1 (ByType "t.A") [])) = OList [("t.A", mkKey 3 5 3)] /\
  snd (step cpl c (ORemove 0 twin)) = OErr EValue.
Proof. cbv zeta. split; [eexists; vm_compute; reflexivity|]. vm_compute. repeat split; reflexivity. Qed.

(* a lenient CAS that knows t.A and t.E; a second type system with x.P, x.Q < x.P and a dot-free E; instances of both:
   the foreign x.P selects the x.P and x.Q instances the CAS's own type system has no name for, the foreign E selects
   its own instance and not the instance of t.E whose unique short name it is *)
Definition ex_cts : list (tname * tname) := [("x.P", "uima.cas.TOP"); ("x.Q", "x.P"); ("E", "uima.cas.TOP")].
Definition ex_fops : list op :=
  [OCreateType "t.A" "uima.cas.TOP"; OCreateType "t.E" "t.A";
   OAddAll 0 [mkFs 1 "t.A" (Some (0, 2)); mkFs 2 "x.P" (Some (3, 5)); mkFs 3 "x.Q" (Some (1, 4));
              mkFs 4 "t.E" (Some (0, 9)); mkFs 5 "E" (Some (2, 3))]].
Example C06_foreign_premises_hold :
  let c := fst (crun true ex_fops) in
  (exists idx, cur_view c 0 = Some ("_InitialView", idx)) /\
  has_type (foreign_tree ex_cts) "x.P" = true /\ has_type (s_tree c) "x.P" = false /\
  resolve_sel (s_tree c) (ByName "E") = Ok "t.E" /\
  snd (step cpl c (OSelect 0 (ByForeign ex_cts "x.P") [])) = OList [("x.P", mkKey 3 5 2); ("x.Q", mkKey 1 4 3)] /\
  snd (step cpl c (OSelect 0 (ByForeign ex_cts "E") [])) = OList [("E", mkKey 2 3 5)] /\
  snd (step cpl c (OSelect 0 (ByName "E") [])) = OList [("t.E", mkKey 0 9 4)] /\
  snd (step cpl c (OSelect 0 (ByName "x.P") [])) = OErr ETypeNotFound.
Proof. cbv zeta. split; [eexists; vm_compute; reflexivity|]. vm_compute. repeat split; reflexivity. Qed.
