(* Props/C20.v — property C20: cas_to_comparable_text ignores ids and creation order but not content.
   Only the property theorems (closed by `exact`), Print Assumptions and non-vacuity examples.

   Reading guide.  `rows_of hash sort ff rs o s vs h found` is the model (Comparable.v) of the rows written by
   cas_to_comparable_text for the structures `found` (labels, in the order Cas._find_all_fs returns them) of the heap h with
   views vs, options o and type system s.  The external functions are parameters: `hash` (no contract at all), `sort`
   (contract sort_contract: permutation; sorted when the comparison is a strict weak order; stable), `ff` = repr(float)
   and `rs` = repr(str) (injective where stated).  The premise of the property is the boolean
   `unique_offsets_per_type h found`.  CSV quoting is not modelled (rows, not text).

   NOT proved (kept as a comment, as the task allows): the full sensitivity statement
     forall CAS1 CAS2 satisfying the premise, content(CAS1) <> content(CAS2) -> rows(CAS1) <> rows(CAS2)
   for arbitrary pairs.  What is proved is sensitivity to every kind of SINGLE-POINT change named by the property
   (C20_render_sensitive_*_partial below).  Known limits of the implementation that make the full statement false as it
   stands: a string feature value equal to "<NULL>" is rendered like None and in which views a structure without a sofa
   feature is indexed is not rendered (open findings, C20_null_sentinel_refuted / C20_view_of_sofaless_refuted below); the
   contents of lists (FSList & co) held inline are not rendered (lists are not in the property's enumeration).
   Invariance under a save/load round trip needs C01/C02 and is checked by the oracle only. *)
From Cassis Require Import Base Heap Schema Reach Comparable ComparableProofs RefutedC20.
Open Scope Z_scope.

(* On the found structures of one type, _compare_fs is a strict total order (offset-bearing first, begin ascending, end
   descending) and its value never depends on the hash tie-break. *)
Theorem C20_compare_total_order :
  forall (hash : tname -> fsobj -> Z) (h : heap) (found : list oid) (items : list item) (t : tname),
  unique_offsets_per_type h found = true -> resolve h found = Ok items ->
  let l := filter (of_type t) items in
  (forall a b, In a l -> In b l -> (cmp hash t a b = 0 <-> a = b)) /\
  (forall a b, In a l -> In b l -> (cmp hash t a b < 0 <-> cmp hash t b a > 0)) /\
  (forall a b c, In a l -> In b l -> In c l -> cmp hash t a b < 0 -> cmp hash t b c < 0 -> cmp hash t a c < 0) /\
  (forall a b, In a l -> In b l -> (cmp hash t a b < 0 <-> listed_before (snd a) (snd b))) /\
  (forall hash' a b, In a l -> In b l -> cmp hash' t a b = cmp hash t a b).
Proof. exact compare_total_order_b. Qed.
Print Assumptions C20_compare_total_order.

(* Hence the sorted group depends neither on the order found, nor on the hash, nor on the (correct) sort algorithm. *)
Theorem C20_sort_invariant :
  forall (h1 h2 : tname -> fsobj -> Z) (s1 s2 : (item -> item -> Z) -> list item -> list item) (t : tname) (l l' : list item),
  sort_contract s1 -> sort_contract s2 -> uniq l -> Permutation l l' -> s1 (cmp h1 t) l = s2 (cmp h2 t) l'.
Proof. exact sort_invariant. Qed.
Print Assumptions C20_sort_invariant.

(* Permuting the order in which the structures are found (creation order, add order) leaves the rows unchanged. *)
Theorem C20_render_invariant_order :
  forall (h1 h2 : tname -> fsobj -> Z) (s1 s2 : (item -> item -> Z) -> list item -> list item)
         (ff : flt -> string) (rs : string -> string) (o : opts) (s : schema) (vs : list cview) (h : heap)
         (found found' : list oid),
  sort_contract s1 -> sort_contract s2 ->
  unique_offsets_per_type h found = true -> Permutation found found' ->
  rows_of h1 s1 ff rs o s vs h found = rows_of h2 s2 ff rs o s vs h found'.
Proof. exact rows_invariant_order. Qed.
Print Assumptions C20_render_invariant_order.

(* Renumbering the xmi:ids by any injective map leaves the rows unchanged: anchors never contain ids. *)
Theorem C20_render_invariant_ids :
  forall rho : xid -> xid, (forall a b, rho a = rho b -> a = b) ->
  forall (hash : tname -> fsobj -> Z) (sort : (item -> item -> Z) -> list item -> list item), sort_contract sort ->
  forall (ff : flt -> string) (rs : string -> string) (o : opts) (s : schema) (vs : list cview) (h : heap) (found : list oid),
  unique_offsets_per_type h found = true ->
  rows_of hash sort ff rs o s vs (ren_heap rho h) found = rows_of hash sort ff rs o s vs h found.
Proof. exact rows_invariant_ids. Qed.
Print Assumptions C20_render_invariant_ids.

(* Every type block lists exactly the found structures of the type: offset-bearing ones first, by ascending begin and then
   descending end (rows_of renders the blocks in this order: lemmas rows_of_inv / block_inv). *)
Theorem C20_listing_order :
  forall (hash : tname -> fsobj -> Z) (sort : (item -> item -> Z) -> list item -> list item) (s : schema) (h : heap)
         (found : list oid) (items : list item) (ls : list (tinfo * list item)),
  sort_contract sort -> unique_offsets_per_type h found = true -> resolve h found = Ok items ->
  listing hash sort s items = Ok ls ->
  forall b, In b ls ->
    StronglySorted (fun x y => listed_before (snd x) (snd y)) (snd b) /\
    Permutation (snd b) (filter (of_type (ti_name (fst b))) items).
Proof. exact listing_order_b. Qed.
Print Assumptions C20_listing_order.

(* Rendering never fails on a well-formed CAS: no exception, no recursion overflow (also for cyclic array nestings,
   annotations without sofa, null arrays, unset features). *)
Theorem C20_render_total :
  forall (hash : tname -> fsobj -> Z) (sort : (item -> item -> Z) -> list item -> list item) (ff : flt -> string)
         (rs : string -> string) (o : opts) (s : schema) (vs : list cview) (h : heap) (found : list oid),
  sort_contract sort -> wf_render s vs h found = true ->
  exists R, rows_of hash sort ff rs o s vs h found = Ok R.
Proof. exact render_total. Qed.
Print Assumptions C20_render_total.

(* ---- sensitivity to single-point changes (the part of "different whenever content differs" that is proved) ---- *)

Theorem C20_render_sensitive_primitive_partial :
  forall (hash : tname -> fsobj -> Z) (sort : (item -> item -> Z) -> list item -> list item) (ff : flt -> string)
         (rs : string -> string) (o : opts) (s : schema) (vs : list cview) (h : heap) (found : list oid) (x : oid)
         (f : fsobj) (ti : tinfo) (n : fname) (v' : val) (R : list row),
  sort_contract sort -> float_contract ff ->
  unique_offsets_per_type h found = true ->
  In x found -> hget h x = Some f -> sch_find s (o_type f) = Some ti ->
  memb (o_type f) (op_exclude o) = false -> is_array_name (o_type f) = false ->
  not_offset_name n -> In n (map fd_name (feats_sorted ti)) ->
  prim_differs (slot f n) v' ->
  rows_of hash sort ff rs o s vs h found = Ok R ->
  rows_of hash sort ff rs o s vs (hset h x (set_slot f n v')) found <> Ok R.
Proof. exact sensitive_primitive. Qed.
Print Assumptions C20_render_sensitive_primitive_partial.

Theorem C20_render_sensitive_offset_partial :
  forall (hash : tname -> fsobj -> Z) (sort : (item -> item -> Z) -> list item -> list item) (ff : flt -> string)
         (rs : string -> string), sort_contract sort ->
  forall (o : opts) (s : schema) (vs : list cview) (h : heap) (found : list oid) (x : oid) (f : fsobj) (ti : tinfo)
         (n : string) (z' : Z) (R : list row),
  unique_offsets_per_type h found = true ->
  In x found -> hget h x = Some f -> sch_find s (o_type f) = Some ti ->
  memb (o_type f) (op_exclude o) = false -> is_array_name (o_type f) = false ->
  In "begin" (map fd_name (feats_sorted ti)) -> In "end" (map fd_name (feats_sorted ti)) ->
  (forall y fy, In y found -> hget h y = Some fy -> o_type fy = o_type f ->
                int_or_none (slot fy "begin") /\ int_or_none (slot fy "end")) ->
  n = "begin" \/ n = "end" -> offs (set_slot f n (VInt z')) <> offs f ->
  rows_of hash sort ff rs o s vs h found = Ok R ->
  rows_of hash sort ff rs o s vs (hset h x (set_slot f n (VInt z'))) found <> Ok R.
Proof. exact sensitive_offset. Qed.
Print Assumptions C20_render_sensitive_offset_partial.

Theorem C20_render_sensitive_reference_partial :
  forall (hash : tname -> fsobj -> Z) (sort : (item -> item -> Z) -> list item -> list item) (ff : flt -> string)
         (rs : string -> string) (o : opts) (s : schema) (vs : list cview) (h : heap) (found : list oid) (x : oid)
         (f : fsobj) (ti : tinfo) (n : fname) (p q : oid) (fp fq : fsobj) (d : adict) (ap aq : string) (R : list row),
  sort_contract sort ->
  unique_offsets_per_type h found = true ->
  In x found -> hget h x = Some f -> sch_find s (o_type f) = Some ti ->
  memb (o_type f) (op_exclude o) = false -> is_array_name (o_type f) = false ->
  not_offset_name n -> In n (map fd_name (feats_sorted ti)) ->
  slot f n = VRef p -> hget h p = Some fp -> hget h q = Some fq ->
  is_array_name (o_type fp) = false -> is_array_name (o_type fq) = false ->
  anchor_dict hash sort o s vs h found = Ok d ->
  dget (o_id fp) d = Some ap -> dget (o_id fq) d = Some aq -> ap <> aq ->
  rows_of hash sort ff rs o s vs h found = Ok R ->
  rows_of hash sort ff rs o s vs (hset h x (set_slot f n (VRef q))) found <> Ok R.
Proof. exact sensitive_reference. Qed.
Print Assumptions C20_render_sensitive_reference_partial.

(* an element of an array held by a feature of a listed structure (e, e': primitives, None, references to non-array
   structures or -- since 23e9ca1 -- references to arrays that have an anchor, i.e. listed arrays; their reprs c, c' differ).
   The array a is expanded by content in the cell of the feature; arrays nested IN it appear as their anchors. *)
Theorem C20_render_sensitive_array_element_partial :
  forall (hash : tname -> fsobj -> Z) (sort : (item -> item -> Z) -> list item -> list item) (ff : flt -> string)
         (rs : string -> string), sort_contract sort ->
  forall (o : opts) (s : schema) (vs : list cview) (h : heap) (found : list oid) (x : oid) (f : fsobj) (ti : tinfo)
         (n : fname) (a : oid) (fa : fsobj) (pre : list val) (e e' : val) (post : list val) (d : adict) (c c' : string)
         (R : list row),
  unique_offsets_per_type h found = true ->
  In x found -> hget h x = Some f -> x <> a -> sch_find s (o_type f) = Some ti ->
  memb (o_type f) (op_exclude o) = false -> is_array_name (o_type f) = false ->
  In n (map fd_name (feats_sorted ti)) -> slot f n = VRef a ->
  hget h a = Some fa -> is_array_name (o_type fa) = true -> slot fa "elements" = VList (pre ++ e :: post) ->
  anchor_dict hash sort o s vs h found = Ok d ->
  srepr ff rs h d e = Some c -> srepr ff rs h d e' = Some c' -> c <> c' ->
  rows_of hash sort ff rs o s vs h found = Ok R ->
  rows_of hash sort ff rs o s vs (hset h a (set_slot fa "elements" (VList (pre ++ e' :: post)))) found <> Ok R.
Proof. exact sensitive_array_element_held. Qed.
Print Assumptions C20_render_sensitive_array_element_partial.

(* an element of an array that is listed itself *)
Theorem C20_render_sensitive_listed_array_element_partial :
  forall (hash : tname -> fsobj -> Z) (sort : (item -> item -> Z) -> list item -> list item) (ff : flt -> string)
         (rs : string -> string), sort_contract sort ->
  forall (o : opts) (s : schema) (vs : list cview) (h : heap) (found : list oid) (a : oid) (fa : fsobj) (pre : list val)
         (e e' : val) (post : list val) (d : adict) (c c' : string) (R : list row),
  unique_offsets_per_type h found = true ->
  In a found -> hget h a = Some fa -> is_array_name (o_type fa) = true ->
  memb (o_type fa) (op_exclude o) = false -> slot fa "elements" = VList (pre ++ e :: post) ->
  anchor_dict hash sort o s vs h found = Ok d ->
  srepr ff rs h d e = Some c -> srepr ff rs h d e' = Some c' -> c <> c' ->
  rows_of hash sort ff rs o s vs h found = Ok R ->
  rows_of hash sort ff rs o s vs (hset h a (set_slot fa "elements" (VList (pre ++ e' :: post)))) found <> Ok R.
Proof. exact sensitive_array_element_listed. Qed.
Print Assumptions C20_render_sensitive_listed_array_element_partial.

(* 23e9ca1: an array met while another array is being rendered (act non-empty: inside the row of a listed array, or inside
   the cell of an array held by a feature) is referred to by its anchor when it has one ... *)
Theorem C20_nested_array_by_anchor :
  forall (k : nat) (h : heap) (d : adict) (act : list oid) (o : oid) (f : fsobj) (a : string),
  hget h o = Some f -> is_array_name (o_type f) = true -> act <> [] -> dget (o_id f) d = Some a ->
  render_val (S k) h d act (VRef o) = Ok (PStr a).
Proof. exact render_val_nested_array. Qed.
Print Assumptions C20_nested_array_by_anchor.
(* ... so a change of the elements of such a nested array b does NOT show in the row of a listed array a it is nested in
   (honest restatement of array-element sensitivity for nested arrays): it shows in b's own row, by
   C20_render_sensitive_listed_array_element_partial applied to b, which is a listed structure *)
Theorem C20_nested_array_change_not_in_outer_row :
  forall (ff : flt -> string) (rs : string -> string) (vs : list cview) (h : heap) (d : adict) (ti : tinfo) (isann : bool)
         (a : oid) (fa : fsobj) (b : oid) (fb fb' : fsobj) (ab : string),
  a <> b -> is_array_name (o_type fa) = true ->
  hget h b = Some fb -> is_array_name (o_type fb) = true -> o_type fb' = o_type fb -> o_id fb' = o_id fb ->
  dget (o_id fb) d = Some ab ->
  render_fs ff rs vs (hset h b fb') d ti isann (a, fa) = render_fs ff rs vs h d ti isann (a, fa).
Proof. exact listed_array_row_ignores_nested. Qed.
Print Assumptions C20_nested_array_change_not_in_outer_row.

(* the view (sofa) of a listed structure; view names without '(' (the disambiguation counter is written in parentheses) *)
Theorem C20_render_sensitive_view_partial :
  forall (hash : tname -> fsobj -> Z) (sort : (item -> item -> Z) -> list item -> list item) (ff : flt -> string)
         (rs : string -> string), sort_contract sort ->
  forall (o : opts) (s : schema) (vs : list cview) (h : heap) (found : list oid) (x : oid) (f : fsobj) (n n' : string)
         (R : list row),
  unique_offsets_per_type h found = true ->
  In x found -> hget h x = Some f -> memb (o_type f) (op_exclude o) = false ->
  id_unshared h found x f ->
  slot f "sofa" = VSofa n -> n <> n' -> paren_free n = true -> paren_free n' = true ->
  rows_of hash sort ff rs o s vs h found = Ok R ->
  rows_of hash sort ff rs o s vs (hset h x (set_slot f "sofa" (VSofa n'))) found <> Ok R.
Proof. exact sensitive_view. Qed.
Print Assumptions C20_render_sensitive_view_partial.

(* the indexed / unindexed status of a listed structure (mark_indexed on); symmetric by exchanging vs and vs' *)
Theorem C20_render_sensitive_index_partial :
  forall (hash : tname -> fsobj -> Z) (sort : (item -> item -> Z) -> list item -> list item) (ff : flt -> string)
         (rs : string -> string), sort_contract sort ->
  forall (o : opts) (s : schema) (vs vs' : list cview) (h : heap) (found : list oid) (x : oid) (f : fsobj) (R : list row),
  unique_offsets_per_type h found = true ->
  In x found -> hget h x = Some f -> memb (o_type f) (op_exclude o) = false ->
  id_unshared h found x f -> op_mark o = true ->
  memN x (flat_map v_members vs) = true -> memN x (flat_map v_members vs') = false ->
  rows_of hash sort ff rs o s vs h found = Ok R ->
  rows_of hash sort ff rs o s vs' h found <> Ok R.
Proof. exact sensitive_index. Qed.
Print Assumptions C20_render_sensitive_index_partial.

(* ---- the contract of the sort parameter is satisfiable: the insertion sort used by the correspondence meets it ---- *)
Theorem C20_sort_contract_satisfiable : sort_contract isort.
Proof. exact isort_contract. Qed.
Print Assumptions C20_sort_contract_satisfiable.

(* ---- regression evidence: the mechanisms before the repairs 218ccba, bb0740a and 23e9ca1 violate the property ---- *)
Theorem C20_compare_mixed_refuted :
  unique_keysb [x_noffs; a_offs] = true /\
  (forall hash, cmp_old hash "a.T" x_noffs a_offs < 0 /\ cmp_old hash "a.T" a_offs x_noffs < 0) /\
  (forall hash, isort (cmp_old hash "a.T") [x_noffs; a_offs] <> isort (cmp_old hash "a.T") [a_offs; x_noffs]).
Proof. exact compare_mixed_refuted. Qed.
Print Assumptions C20_compare_mixed_refuted.

Theorem C20_cyclic_array_old_refuted : forall fuel d, render_val_old fuel self_array d (VRef 1%N) = OutOfFuel.
Proof. exact cyclic_array_old_refuted. Qed.
Print Assumptions C20_cyclic_array_old_refuted.

(* between bb0740a and 23e9ca1 an array nested in an array was expanded in place: 2^n leaves for a chain of n arrays each
   holding the next one twice (16, 256, 4096 for n = 4, 8, 12); the current mechanism renders two anchors *)
Theorem C20_nested_array_expansion_old_refuted :
  chain_cell_mid 4 = Some 16%N /\ chain_cell_mid 8 = Some 256%N /\ chain_cell_mid 12 = Some 4096%N /\
  chain_cell_new 4 = Some 2%N /\ chain_cell_new 8 = Some 2%N /\ chain_cell_new 12 = Some 2%N.
Proof. exact nested_array_expansion_old_refuted. Qed.
Print Assumptions C20_nested_array_expansion_old_refuted.

(* ---- open findings (known_findings.json: null_sentinel_string, view_of_sofaless_fs): without the side premises of the
   sensitivity theorems the property as written is false of the CURRENT mechanism ---- *)
(* C20_render_sensitive_primitive_partial without "the string is not <NULL>" (prim_differs): *)
Theorem C20_null_sentinel_refuted :
  exists vs h x f n v',
    unique_offsets_per_type h [x] = true /\ hget h x = Some f /\ slot f n = VNone /\ v' = VStr NULL /\ v' <> slot f n /\
    rf_rows vs (hset h x (set_slot f n v')) = rf_rows vs h /\ exists R, rf_rows vs h = Ok R.
Proof. exact null_sentinel_refuted. Qed.
Print Assumptions C20_null_sentinel_refuted.
(* "the view of a structure" read as the view it is indexed in, for a structure without a sofa feature: *)
Theorem C20_view_of_sofaless_refuted :
  exists h x vs vs',
    unique_offsets_per_type h [x] = true /\
    memN x (v_members (nth 0 vs (mkView (mkSofa 0 0 "" None None None None) []))) = true /\
    memN x (v_members (nth 0 vs' (mkView (mkSofa 0 0 "" None None None None) []))) = false /\
    memN x (v_members (nth 1 vs' (mkView (mkSofa 0 0 "" None None None None) []))) = true /\
    rf_rows vs h = rf_rows vs' h /\ exists R, rf_rows vs h = Ok R.
Proof. exact view_of_sofaless_refuted. Qed.
Print Assumptions C20_view_of_sofaless_refuted.

(* ---- non-vacuity: a CAS with a mixed type (two annotations with distinct offsets and one structure without offsets and
   without sofa, reachable only through a reference), an inline array, two views ---- *)
Definition ex_sch : schema :=
  [mkTi "a.T" ["a.T"; "uima.tcas.Annotation"; "uima.cas.AnnotationBase"; "uima.cas.TOP"]
     [mkFd "v" "v" "uima.cas.Integer" None false; mkFd "r" "r" "a.T" None false;
      mkFd "arr" "arr" "uima.cas.IntegerArray" None false;
      mkFd "begin" "begin" "uima.cas.Integer" None false; mkFd "end" "end" "uima.cas.Integer" None false;
      mkFd "sofa" "sofa" "uima.cas.Sofa" None false];
   mkTi "a.H" ["a.H"; "uima.cas.TOP"] [mkFd "f" "f" "a.T" None false];
   mkTi "uima.cas.IntegerArray" ["uima.cas.IntegerArray"; "uima.cas.ArrayBase"; "uima.cas.TOP"]
     [mkFd "elements" "elements" "uima.cas.Integer" None false]].
Definition ex_views (members : list oid) : list cview :=
  [mkView (mkSofa 1 1 "_InitialView" (Some [104; 101; 108; 108; 111]%N) None None None) members;
   mkView (mkSofa 2 2 "v2" (Some [120; 121]%N) None None None) []].
Definition ex_f1 : fsobj :=
  mkFs "a.T" (Some 11) [("begin", VInt 0); ("end", VInt 5); ("sofa", VSofa "_InitialView"); ("v", VInt 1);
                        ("r", VRef 2%N); ("arr", VRef 5%N)].
Definition ex_heap : heap :=
  [(1%N, ex_f1);
   (2%N, mkFs "a.T" (Some 12) [("begin", VInt 0); ("end", VInt 2); ("sofa", VSofa "_InitialView"); ("v", VInt 2)]);
   (3%N, mkFs "a.T" (Some 13) [("v", VInt 3)]);
   (4%N, mkFs "a.H" (Some 14) [("f", VRef 3%N)]);
   (5%N, mkFs "uima.cas.IntegerArray" (Some 15) [("elements", VList [VInt 1; VInt 2])])].
Definition ex_found : list oid := [2; 4; 1; 3]%N.
Definition ex_rows (vs : list cview) (h : heap) (found : list oid) : res (list row) :=
  rows_of (fun _ _ => 0) isort (fun x => x) (fun s => "'" +++ s +++ "'") (mkOpts true true []) ex_sch vs h found.

Example C20_premises_hold :
  unique_offsets_per_type ex_heap ex_found = true /\
  wf_render ex_sch (ex_views [1; 2; 4]%N) ex_heap ex_found = true /\
  ex_rows (ex_views [1; 2; 4]%N) ex_heap ex_found = Ok
    [["a.H"]; ["<ANCHOR>"; "f"]; ["H*"; "T"]; ["a.T"];
     ["<ANCHOR>"; "<COVERED_TEXT>"; "arr"; "begin"; "end"; "r"; "v"];
     ["T[0-5]*@_InitialView"; "hello"; "[1, 2]"; "0"; "5"; "T[0-2]*@_InitialView"; "1"];
     ["T[0-2]*@_InitialView"; "he"; "<NULL>"; "0"; "2"; "<NULL>"; "2"];
     ["T"; "<NULL>"; "<NULL>"; "<NULL>"; "<NULL>"; "3"]] /\
  (* invariance: another order found, other ids *)
  ex_rows (ex_views [4; 2; 1]%N) (ren_heap (fun i => 100 - i) ex_heap) [3; 1; 4; 2]%N
    = ex_rows (ex_views [1; 2; 4]%N) ex_heap ex_found /\
  (* sensitivity: the view of structure 1, the index status of structure 2, one array element *)
  ex_rows (ex_views [1; 2; 4]%N) (hset ex_heap 1%N (set_slot ex_f1 "sofa" (VSofa "v2"))) ex_found
    <> ex_rows (ex_views [1; 2; 4]%N) ex_heap ex_found /\
  ex_rows (ex_views [1; 4]%N) ex_heap ex_found <> ex_rows (ex_views [1; 2; 4]%N) ex_heap ex_found /\
  ex_rows (ex_views [1; 2; 4]%N)
          (hset ex_heap 5%N (mkFs "uima.cas.IntegerArray" (Some 15) [("elements", VList [VInt 1; VInt 3])])) ex_found
    <> ex_rows (ex_views [1; 2; 4]%N) ex_heap ex_found.
Proof. vm_compute. repeat split; try reflexivity; discriminate. Qed.

(* ---- non-vacuity for nested arrays (23e9ca1): a listed FSArray holding a listed IntegerArray twice and itself once; the
   outer row shows anchors only, a change inside the IntegerArray shows in its own row and leaves the outer row alone ---- *)
Definition na_sch : schema :=
  [mkTi "uima.cas.FSArray" ["uima.cas.FSArray"; "uima.cas.ArrayBase"; "uima.cas.TOP"]
     [mkFd "elements" "elements" "uima.cas.TOP" None false];
   mkTi "uima.cas.IntegerArray" ["uima.cas.IntegerArray"; "uima.cas.ArrayBase"; "uima.cas.TOP"]
     [mkFd "elements" "elements" "uima.cas.Integer" None false]].
Definition na_views : list cview := [mkView (mkSofa 1 1 "_InitialView" (Some [104]%N) None None None) [1%N]].
Definition na_heap (l : list val) : heap :=
  [(1%N, mkFs "uima.cas.FSArray" (Some 11) [("elements", VList [VRef 2%N; VRef 1%N; VRef 2%N])]);
   (2%N, mkFs "uima.cas.IntegerArray" (Some 12) [("elements", VList l)])].
Definition na_rows (l : list val) : res (list row) :=
  rows_of (fun _ _ => 0) isort (fun x => x) (fun s => "'" +++ s +++ "'") (mkOpts true true []) na_sch na_views (na_heap l)
          [1; 2]%N.
Example C20_nested_array_rows :
  unique_offsets_per_type (na_heap [VInt 1; VInt 2]) [1; 2]%N = true /\
  wf_render na_sch na_views (na_heap [VInt 1; VInt 2]) [1; 2]%N = true /\
  na_rows [VInt 1; VInt 2] = Ok
    [["uima.cas.FSArray"]; ["<ANCHOR>"; "elements"]; ["FSArray*"; "['IntegerArray', 'FSArray*', 'IntegerArray']"];
     ["uima.cas.IntegerArray"]; ["<ANCHOR>"; "elements"]; ["IntegerArray"; "[1, 2]"]] /\
  na_rows [VInt 1; VInt 3] = Ok
    [["uima.cas.FSArray"]; ["<ANCHOR>"; "elements"]; ["FSArray*"; "['IntegerArray', 'FSArray*', 'IntegerArray']"];
     ["uima.cas.IntegerArray"]; ["<ANCHOR>"; "elements"]; ["IntegerArray"; "[1, 3]"]].
Proof. vm_compute. repeat split; reflexivity. Qed.
