(* Props/C19.v — property C19: typecheck reports exactly the FSArray element-type violations.
   Only the property theorems (closed by `exact`), non-vacuity examples and Print Assumptions. *)
From Cassis Require Import Base Heap Schema Reach ReachProofs Typecheck TypecheckProofs.
Open Scope Z_scope.

(* For every schema and CAS: when typecheck returns, its errors are — in the order the traversal lists the structures —
   exactly one per element (viol_of: a feature structure whose type is neither the feature's declared element type, TOP
   when none is declared, nor a subtype of it) of every FSArray-valued feature of every structure returned by the
   traversal, each carrying the xmi:id under which that owner was returned; and nothing else. *)
Theorem C19_typecheck_spec : forall s c r, typecheck_cas s c = Ok r ->
  exists w, find_all_fs false s c = Ok w /\ r = expected_errors s (c_heap c) (w_all w).
Proof. exact typecheck_spec. Qed.
Print Assumptions C19_typecheck_spec.

(* the owners are exactly the structures reachable from the indexed ones (not passing through cas:NULL), each once, under
   pairwise distinct ids: completeness over referenced-only owners, soundness, no owner counted twice *)
Theorem C19_typecheck_owners : forall s c w, find_all_fs false s c = Ok w ->
  (forall o, In o (returned w) <-> (reach false s (c_heap c) (member_seeds c) o /\ ~ null_in (c_heap c) o)) /\
  NoDup (map fst (w_all w)) /\ NoDup (returned w).
Proof. exact typecheck_owners. Qed.
Print Assumptions C19_typecheck_owners.

(* the same statement as a multiset, over the id-sorted list of structures *)
Theorem C19_typecheck_spec_multiset : forall s c r, typecheck_cas s c = Ok r ->
  exists w, find_all_fs false s c = Ok w /\ Permutation r (expected_errors s (c_heap c) (sort_ids (w_all w))).
Proof. exact typecheck_spec_sorted. Qed.
Print Assumptions C19_typecheck_spec_multiset.

(* it completes without raising on well-formed CASes: FSArray features unset, arrays with elements None or empty, null
   elements, owners that are only referenced — none of them is excluded by the premises (see the example below) *)
Theorem C19_typecheck_total : forall s c,
  wf_heapb false s (c_heap c) = true -> seeds_liveb (c_heap c) (member_seeds c) = true ->
  ids_okb (c_heap c) (c_next_id c) = true -> tc_heapb s (c_heap c) = true ->
  exists r, typecheck_cas s c = Ok r.
Proof. exact typecheck_total. Qed.
Print Assumptions C19_typecheck_total.

(* the empty list is returned iff there is no violating element *)
Theorem C19_typecheck_clean_iff : forall s c r, typecheck_cas s c = Ok r ->
  exists w, find_all_fs false s c = Ok w /\ (r = [] <-> forall o, In o (returned w) -> viol_of s (c_heap c) o = []).
Proof. exact typecheck_clean_iff. Qed.
Print Assumptions C19_typecheck_clean_iff.

(* the per-structure check alone: TypeSystem.typecheck(fs) *)
Theorem C19_typecheck_fs_spec : forall s h f r, typecheck_fs s h f = Ok r -> r = map (fun _ => o_id f) (viol s h f).
Proof. exact typecheck_fs_spec. Qed.
Print Assumptions C19_typecheck_fs_spec.

(* non-vacuity.  Types: Base > Mid > Leaf, Other unrelated.  Owner 1 (indexed, id 7): `mids` (element type Mid) holds
   [Leaf; null; Other; Base; Other] -> three violations; `any` (no element type) holds the same array -> none; `leaves`
   is unset; `tops` holds an array whose elements is None; `others` holds an empty array.  Owner 2 is only referenced by
   owner 1 and has no id: its `leaves` (element type Leaf) holds [Mid] -> one violation under the fresh id 23 (the three elements
   of the inline array are met first and take 20, 21, 22). *)
Definition sEx : schema :=
  let arr n e := mkFd n n "uima.cas.FSArray" e false in
  [mkTi "c.Base" ["c.Base"; "uima.cas.TOP"] [];
   mkTi "c.Mid" ["c.Mid"; "c.Base"; "uima.cas.TOP"] [];
   mkTi "c.Leaf" ["c.Leaf"; "c.Mid"; "c.Base"; "uima.cas.TOP"] [];
   mkTi "c.Other" ["c.Other"; "uima.cas.TOP"] [];
   mkTi "c.Owner" ["c.Owner"; "uima.cas.TOP"]
        [arr "any" None; arr "tops" (Some "uima.cas.TOP"); arr "mids" (Some "c.Mid"); arr "leaves" (Some "c.Leaf");
         arr "others" (Some "c.Other"); mkFd "ref" "ref" "c.Owner" None false];
   mkTi "uima.cas.FSArray" ["uima.cas.FSArray"; "uima.cas.ArrayBase"; "uima.cas.TOP"] [mkFd "elements" "elements" "uima.cas.TOP" None true];
   mkTi "uima.cas.TOP" ["uima.cas.TOP"] []].
Definition hEx : heap :=
  [(1%N, mkFs "c.Owner" (Some 7) [("mids", VRef 10%N); ("any", VRef 10%N); ("tops", VRef 11%N); ("others", VRef 12%N); ("ref", VRef 2%N)]);
   (2%N, mkFs "c.Owner" None [("leaves", VRef 13%N)]);
   (3%N, mkFs "c.Leaf" None []); (4%N, mkFs "c.Other" None []); (5%N, mkFs "c.Base" None []); (6%N, mkFs "c.Mid" None []);
   (10%N, mkFs "uima.cas.FSArray" None [("elements", VList [VRef 3%N; VNone; VRef 4%N; VRef 5%N; VRef 4%N])]);
   (11%N, mkFs "uima.cas.FSArray" None [("elements", VNone)]);
   (12%N, mkFs "uima.cas.FSArray" None [("elements", VList [])]);
   (13%N, mkFs "uima.cas.FSArray" None [("elements", VList [VRef 6%N])])].
Definition cEx : cas := mkCas [mkView (mkSofa 1 1 "_InitialView" None None None None) [1%N]] hEx 20.

Example C19_premises_hold :
  wf_heapb false sEx hEx = true /\ seeds_liveb hEx (member_seeds cEx) = true /\ ids_okb hEx 20 = true /\ tc_heapb sEx hEx = true /\
  typecheck_cas sEx cEx = Ok [Some 7; Some 7; Some 7; Some 23] /\
  viol_of sEx hEx 1%N = [VRef 4%N; VRef 5%N; VRef 4%N] /\ viol_of sEx hEx 2%N = [VRef 6%N].
Proof. repeat split; vm_compute; reflexivity. Qed.
(* a CAS without violations: the clean side of the iff *)
Example C19_clean :
  let h := [(1%N, mkFs "c.Owner" None [("mids", VRef 2%N); ("tops", VRef 2%N)]);
            (2%N, mkFs "uima.cas.FSArray" None [("elements", VList [VRef 3%N; VNone; VRef 4%N])]);
            (3%N, mkFs "c.Leaf" None []); (4%N, mkFs "c.Mid" None [])] in
  typecheck_cas sEx (mkCas [mkView (mkSofa 1 1 "_InitialView" None None None None) [1%N]] h 2) = Ok [].
Proof. vm_compute. reflexivity. Qed.
(* ids at the generator, names without a namespace.  A fresh CAS with one view has handed out id 1 (the sofa); the holder was
   added with keep_id under id 2, exactly the id the CAS would have generated next, so the generator stands at 3.  The owner
   (type "Owner", no namespace; "pkg.Owner" shares its short name) is only referenced and has no id, nor have its array and
   the elements: the owner is met first and takes 3, the elements of its inline array 4 and 5; its `items` (element type
   "Item") holds ["legacy.Item"; "Item"] -> one violation under id 3.  With the generator left at 2 (an id kept by add that was not
   reserved) the same heap is outside the premises (ids_okb) and the traversal meets id 2 twice: this is why the check
   derives the generator's position from the way the CAS was built. *)
Definition sNames : schema :=
  [mkTi "Item" ["Item"; "uima.cas.TOP"] [];
   mkTi "legacy.Item" ["legacy.Item"; "uima.cas.TOP"] [];
   mkTi "Owner" ["Owner"; "uima.cas.TOP"]
        [mkFd "items" "items" "uima.cas.FSArray" (Some "Item") false; mkFd "ref" "ref" "Owner" None false];
   mkTi "pkg.Owner" ["pkg.Owner"; "Owner"; "uima.cas.TOP"]
        [mkFd "items" "items" "uima.cas.FSArray" (Some "Item") false; mkFd "ref" "ref" "Owner" None false];
   mkTi "uima.cas.FSArray" ["uima.cas.FSArray"; "uima.cas.ArrayBase"; "uima.cas.TOP"] [mkFd "elements" "elements" "uima.cas.TOP" None true];
   mkTi "uima.cas.TOP" ["uima.cas.TOP"] []].
Definition hNames : heap :=
  [(1%N, mkFs "pkg.Owner" (Some 2) [("ref", VRef 2%N)]);
   (2%N, mkFs "Owner" None [("items", VRef 3%N)]);
   (3%N, mkFs "uima.cas.FSArray" None [("elements", VList [VRef 4%N; VRef 5%N])]);
   (4%N, mkFs "legacy.Item" None []); (5%N, mkFs "Item" None [])].
Definition cNames (next : Z) : cas := mkCas [mkView (mkSofa 1 1 "_InitialView" None None None None) [1%N]] hNames next.

Example C19_id_at_generator :
  wf_heapb false sNames hNames = true /\ seeds_liveb hNames (member_seeds (cNames 3)) = true /\ ids_okb hNames 3 = true /\
  tc_heapb sNames hNames = true /\ typecheck_cas sNames (cNames 3) = Ok [Some 3] /\
  ids_okb hNames 2 = false /\ typecheck_cas sNames (cNames 2) = Err EDupId.
Proof. repeat split; vm_compute; reflexivity. Qed.
