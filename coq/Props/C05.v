(* Props/C05.v — property C05 (XMI half): loading depends on what a document says, not on how it is laid out.
   Only the property theorems (closed by `exact`), Print Assumptions and non-vacuity examples.
   parse_flt (float(str)) is universally quantified in every statement. *)
From Cassis Require Import Base Heap Schema Canon Lex XmiDoc XmiLoad XmiLoadProofs.
Open Scope Z_scope.

(* The declarative meaning of a closed document (ids distinct, references resolvable) whose elements carry no attribute
   twice is the same for every presentation of it: any sequence of element permutations (forward references, sofas and
   views anywhere), attribute permutations and omissions of member-less View elements.  Every presentation is again a
   closed document. *)
Theorem C05_denote_xmi_presentation_invariant : forall parse_flt s d d',
  doc_ok_xmi parse_flt s d = true -> attrs_nodupb d = true -> presentation_equiv d d' ->
  denote_xmi parse_flt s d' = denote_xmi parse_flt s d /\ doc_ok_xmi parse_flt s d' = true /\ attrs_nodupb d' = true.
Proof. exact denote_xmi_presentation_invariant. Qed.
Print Assumptions C05_denote_xmi_presentation_invariant.

(* load_xmi_is_denotation, per feature kind.  For an element of an ordinary (non-array) type and every declared feature
   other than the sofa reference of an annotation: the value the reader's first pass leaves in the slot (raw attribute,
   int() of begin/end, wrapped child elements), post-processed by the branch chain of the second pass with references
   resolved through the id-keyed dict, reads back as exactly what the denotation decodes from the element for that
   feature - for primitive, string-collection, token-collection, byte-array, id-collection and reference features alike.
   deref_ok is the global fact: a pointer taken from the dict for id i reads back as i (null for cas:NULL). *)
Theorem C05_load_xmi_is_denotation_partial_feature : forall parse_flt s sofas fss views objs e ti o fd v1 c,
  sch_find s (reader_tname (x_ns e) (x_tag e)) = Some ti -> ti_okb s ti = true -> elem_okb s e = true ->
  is_array_name (ti_name ti) = false -> In fd (ti_feats ti) ->
  String.eqb (fd_name fd) "sofa" && memb T_ANNOTATION_BASE (ti_anc ti) = false ->
  deref_ok fss objs ->
  parse_fs parse_flt s e = Ok o ->
  post_feature parse_flt s sofas fss ti fd (lslot o (fd_name fd)) = Ok v1 ->
  dec_feature parse_flt s (fun z => z) false e fd = Ok c ->
  cv views objs v1 = Ok c.
Proof. exact reader_feature_is_denotation. Qed.
Print Assumptions C05_load_xmi_is_denotation_partial_feature.

(* the same for an array stored as an element of its own (StringArray with child elements or the empty attribute,
   primitive arrays as tokens, ByteArray as hex digits, FSArray as ids with 0 for null) *)
Theorem C05_load_xmi_is_denotation_partial_array : forall parse_flt s sofas fss views objs e ti o fd k v1 c,
  sch_find s (reader_tname (x_ns e) (x_tag e)) = Some ti -> ti_okb s ti = true -> elem_okb s e = true ->
  is_primitive s T_TOP = false ->
  is_array_name (ti_name ti) = true -> coll_kind (ti_name ti) = Some k -> ti_feats ti = [fd] ->
  deref_ok fss objs ->
  parse_fs parse_flt s e = Ok o ->
  post_feature parse_flt s sofas fss ti fd (lslot o (fd_name fd)) = Ok v1 ->
  dec_coll parse_flt k e "elements" = Ok c ->
  cv views objs v1 = Ok (match c with Some l => CColl "" l | None => CNull end).
Proof. exact reader_elements_is_denotation. Qed.
Print Assumptions C05_load_xmi_is_denotation_partial_array.
