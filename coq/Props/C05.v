(* Props/C05.v — property C05 (XMI half): loading depends on what a document says, not on how it is laid out.
   Only the property theorems (closed by `exact`), Print Assumptions and non-vacuity examples. *)
From Cassis Require Import Base Heap Schema Canon Lex XmiDoc XmiLoad XmiLoadProofs.
Open Scope Z_scope.

(* The declarative meaning of a closed document (ids distinct, references resolvable) whose elements carry no attribute
   twice is the same for every presentation of it: any sequence of element permutations (forward references, sofas and
   views anywhere), attribute permutations and omissions of member-less View elements.  Every presentation is again a
   closed document.  For every float lexer parse_flt. *)
Theorem C05_denote_xmi_presentation_invariant : forall parse_flt s d d',
  doc_ok_xmi parse_flt s d = true -> attrs_nodupb d = true -> presentation_equiv d d' ->
  denote_xmi parse_flt s d' = denote_xmi parse_flt s d /\ doc_ok_xmi parse_flt s d' = true /\ attrs_nodupb d' = true.
Proof. exact denote_xmi_presentation_invariant. Qed.
Print Assumptions C05_denote_xmi_presentation_invariant.
