(* Props/C05.v — property C05 (XMI half): loading depends on what a document says, not on how it is laid out.
   Only the property theorems (closed by `exact`), Print Assumptions and non-vacuity examples.
   parse_flt (float(str)) is universally quantified in every statement. *)
From Cassis Require Import Base Heap Schema Canon Lex XmiDoc XmiLoad XmiLoadProofs XmiLoadProofs2 XmiLoadProofs3 XmiLoadProofs4.
Open Scope Z_scope.

(* The declarative meaning of a closed document (ids distinct, references resolvable) whose elements carry no attribute
   twice is the same for every presentation of it: any sequence of element permutations (forward references, sofas and
   views anywhere), attribute permutations and omissions of member-less View elements.  Every presentation is again a
   closed document. *)
Theorem C05_denote_xmi_presentation_invariant : forall parse_flt s d d',
  doc_ok_xmi parse_flt s d = true -> attrs_nodupb d = true -> presentation_equiv d d' ->
  denote_xmi parse_flt s d' = denote_xmi parse_flt s d /\ doc_ok_xmi parse_flt s d' = true /\ attrs_nodupb d' = true.
Proof. exact denote_xmi_presentation_invariant. Qed.
Print Assumptions C05_denote_xmi_presentation_invariant.

(* The per-feature-kind core of load_xmi_is_denotation.  For an element of an ordinary (non-array) type and every declared feature
   other than the sofa reference of an annotation: the value the reader's first pass leaves in the slot (raw attribute,
   int() of begin/end, wrapped child elements), post-processed by the branch chain of the second pass with references
   resolved through the id-keyed dict, reads back as exactly what the denotation decodes from the element for that
   feature - for primitive, string-collection, token-collection, byte-array, id-collection and reference features alike.
   deref_ok is the global fact: a pointer taken from the dict for id i reads back as i (null for cas:NULL). *)
Theorem C05_reader_feature_is_denotation : forall parse_flt s sofas fss views objs e ti o fd v1 c,
  sch_find s (reader_tname (x_ns e) (x_tag e)) = Some ti -> ti_okb s ti = true -> elem_okb s e = true ->
  is_array_name (ti_name ti) = false -> In fd (ti_feats ti) ->
  String.eqb (fd_name fd) "sofa" && memb T_ANNOTATION_BASE (ti_anc ti) = false ->
  deref_ok fss objs ->
  parse_fs parse_flt s e = Ok o ->
  post_feature parse_flt s sofas fss ti fd (lslot o (fd_name fd)) = Ok v1 ->
  dec_feature parse_flt s (fun z => z) false e fd = Ok c ->
  cv views objs v1 = Ok c.
Proof. exact reader_feature_is_denotation. Qed.
Print Assumptions C05_reader_feature_is_denotation.

(* the same for an array stored as an element of its own (StringArray with child elements or the empty attribute,
   primitive arrays as tokens, ByteArray as hex digits, FSArray as ids with 0 for null) *)
Theorem C05_reader_array_is_denotation : forall parse_flt s sofas fss views objs e ti o fd k v1 c,
  sch_find s (reader_tname (x_ns e) (x_tag e)) = Some ti -> ti_okb s ti = true -> elem_okb s e = true ->
  is_primitive s T_TOP = false ->
  is_array_name (ti_name ti) = true -> coll_kind (ti_name ti) = Some k -> ti_feats ti = [fd] ->
  deref_ok fss objs ->
  parse_fs parse_flt s e = Ok o ->
  post_feature parse_flt s sofas fss ti fd (lslot o (fd_name fd)) = Ok v1 ->
  dec_coll parse_flt k e "elements" = Ok c ->
  cv views objs v1 = Ok (match c with Some l => CColl "" l | None => CNull end).
Proof. exact reader_elements_is_denotation. Qed.
Print Assumptions C05_reader_array_is_denotation.

(* The reader computes the denotation.  For every document that is closed (doc_ok_xmi), has the _InitialView sofa and
   distinct view names, whose elements are well-formed XML elements of defined types named by the UIMA rule (elem_okb,
   names_okb), whose annotations are members of the view of their own sofa only (members_okb), over a schema that answers
   like a TypeSystem (schema_okb, sofa_feat_okb) - reader_okb is the conjunction, a boolean counted per generated case -
   and that the strict reader loads: the canonical content of the loaded CAS (every object of the id-keyed dict read back
   through its pointers, views with sorted member ids) IS the declarative denotation of the document: same sofas and
   views, same feature structures under the same ids, same values, offsets converted with the table of the own sofa,
   references as ids, null for cas:NULL. *)
Theorem C05_load_xmi_is_denotation : forall parse_flt s d c,
  reader_okb parse_flt s d = true -> load_xmi parse_flt s false d = Ok c ->
  canon_loaded s c = denote_xmi parse_flt s d.
Proof. exact load_xmi_is_denotation. Qed.
Print Assumptions C05_load_xmi_is_denotation.
(* The same for EVERY document satisfying the remaining premises, with or without an _InitialView sofa (reader_okb0 =
   reader_okb without that requirement): when the document has no such sofa, the view every Cas has from its construction
   stays in the loaded CAS, without text and members, under the next free xmi:id (largest id of the document + 1) and the
   next free sofaNum (941f890) - with_initial (XmiLoad.v) adds exactly that view to the denoted content, and is the identity
   on a document that has the sofa.  The theorem above is the corollary for documents with the sofa. *)
Theorem C05_load_xmi_is_denotation_general : forall parse_flt s d c,
  reader_okb0 parse_flt s d = true -> load_xmi parse_flt s false d = Ok c ->
  canon_loaded s c = res_map with_initial (denote_xmi parse_flt s d).
Proof. exact load_xmi_is_denotation_gen. Qed.
Print Assumptions C05_load_xmi_is_denotation_general.
Theorem C05_reader_okb_is_general_plus_initial : forall parse_flt s d,
  reader_okb parse_flt s d = reader_okb0 parse_flt s d && memb INITIAL (map sofa_name (filter is_sofa d)).
Proof. exact reader_okb_split. Qed.
Print Assumptions C05_reader_okb_is_general_plus_initial.

(* Totality of the reader.  A document that satisfies reader_okb0 and total_okb - every attribute of a Sofa element is one
   _parse_sofa knows, every attribute of a feature structure element is its xmi:id or a declared feature (the constructors
   refuse unknown keywords), every element of a subtype of AnnotationBase names its sofa (sofas[value] is indexed
   unconditionally), cas:NULL is there (a reference written as 0 is looked up like any other) - is loaded: no step of the
   two loops, of the offset conversion, of view creation and member insertion raises, and (with the theorem above) the
   loaded CAS has the denoted content.  total_okb is a boolean on the document, evaluated per case. *)
Theorem C05_load_xmi_total : forall parse_flt s d,
  reader_okb0 parse_flt s d = true -> total_okb s d = true ->
  exists c, load_xmi parse_flt s false d = Ok c /\ canon_loaded s c = res_map with_initial (denote_xmi parse_flt s d).
Proof. exact load_xmi_total_denotation. Qed.
Print Assumptions C05_load_xmi_total.
(* reader_okb alone does not give totality: a Sofa element with an unknown attribute (TypeError), an annotation element
   without a sofa attribute (KeyError) *)
Theorem C05_load_total_refuted : exists pf s d, reader_okb pf s d = true /\ load_xmi pf s false d = Err EType.
Proof. exact load_total_refuted. Qed.
Print Assumptions C05_load_total_refuted.
Theorem C05_load_total_refuted_sofa_attr : exists pf s d, reader_okb pf s d = true /\ load_xmi pf s false d = Err EKey.
Proof. exact load_total_refuted_sofa_attr. Qed.
Print Assumptions C05_load_total_refuted_sofa_attr.

(* Corollary: the content the reader produces does not depend on the presentation. *)
Theorem C05_load_order_independent : forall parse_flt s d d' c c',
  reader_okb parse_flt s d = true -> reader_okb parse_flt s d' = true -> attrs_nodupb d = true -> presentation_equiv d d' ->
  load_xmi parse_flt s false d = Ok c -> load_xmi parse_flt s false d' = Ok c' -> canon_loaded s c' = canon_loaded s c.
Proof. exact load_order_independent. Qed.
Print Assumptions C05_load_order_independent.

(* non-vacuity: cassis' own output for a two-view CAS (astral text, forward references because the elements are listed in
   reverse, a string array with an empty element as child elements, an inline FSArray with a null element, a shared
   IntegerArray, the reserved feature name self, a no-namespace type, the literal Infinity) satisfies every premise, is
   loaded by the model, and the UTF-16 offsets 3..5 of structure 7 are the code point offsets 2..4 *)
Definition ex_schema : schema :=
 [mkTi "Holder"%string ["Holder"%string; "uima.cas.TOP"%string] [mkFd "items"%string "items"%string "uima.cas.FSArray"%string None false; mkFd "shared"%string "shared"%string "uima.cas.IntegerArray"%string None true];
  mkTi "ex.Tok"%string ["ex.Tok"%string; "uima.tcas.Annotation"%string; "uima.cas.AnnotationBase"%string; "uima.cas.TOP"%string] [mkFd "next"%string "next"%string "ex.Tok"%string None false; mkFd "tags"%string "tags"%string "uima.cas.StringArray"%string None false; mkFd "w"%string "w"%string "uima.cas.Double"%string None false; mkFd "self_"%string "self"%string "uima.cas.String"%string None false; mkFd "begin"%string "begin"%string "uima.cas.Integer"%string None false; mkFd "end"%string "end"%string "uima.cas.Integer"%string None false; mkFd "sofa"%string "sofa"%string "uima.cas.Sofa"%string None false];
  mkTi "uima.cas.AnnotationBase"%string ["uima.cas.AnnotationBase"%string; "uima.cas.TOP"%string] [mkFd "sofa"%string "sofa"%string "uima.cas.Sofa"%string None false];
  mkTi "uima.cas.ArrayBase"%string ["uima.cas.ArrayBase"%string; "uima.cas.TOP"%string] [mkFd "elements"%string "elements"%string "uima.cas.TOP"%string None true];
  mkTi "uima.cas.ByteArray"%string ["uima.cas.ByteArray"%string; "uima.cas.ArrayBase"%string; "uima.cas.TOP"%string] [mkFd "elements"%string "elements"%string "uima.cas.TOP"%string None true];
  mkTi "uima.cas.Double"%string ["uima.cas.Double"%string; "uima.cas.TOP"%string] [];
  mkTi "uima.cas.FSArray"%string ["uima.cas.FSArray"%string; "uima.cas.ArrayBase"%string; "uima.cas.TOP"%string] [mkFd "elements"%string "elements"%string "uima.cas.TOP"%string None true];
  mkTi "uima.cas.Integer"%string ["uima.cas.Integer"%string; "uima.cas.TOP"%string] [];
  mkTi "uima.cas.IntegerArray"%string ["uima.cas.IntegerArray"%string; "uima.cas.ArrayBase"%string; "uima.cas.TOP"%string] [mkFd "elements"%string "elements"%string "uima.cas.TOP"%string None true];
  mkTi "uima.cas.NULL"%string ["uima.cas.NULL"%string; "uima.cas.TOP"%string] [];
  mkTi "uima.cas.Sofa"%string ["uima.cas.Sofa"%string; "uima.cas.TOP"%string] [mkFd "sofaNum"%string "sofaNum"%string "uima.cas.Integer"%string None false; mkFd "sofaID"%string "sofaID"%string "uima.cas.String"%string None false; mkFd "mimeType"%string "mimeType"%string "uima.cas.String"%string None false; mkFd "sofaArray"%string "sofaArray"%string "uima.cas.TOP"%string None true; mkFd "sofaString"%string "sofaString"%string "uima.cas.String"%string None false; mkFd "sofaURI"%string "sofaURI"%string "uima.cas.String"%string None false];
  mkTi "uima.cas.String"%string ["uima.cas.String"%string; "uima.cas.TOP"%string] [];
  mkTi "uima.cas.StringArray"%string ["uima.cas.StringArray"%string; "uima.cas.ArrayBase"%string; "uima.cas.TOP"%string] [mkFd "elements"%string "elements"%string "uima.cas.TOP"%string None true];
  mkTi "uima.cas.TOP"%string ["uima.cas.TOP"%string] [];
  mkTi "uima.tcas.Annotation"%string ["uima.tcas.Annotation"%string; "uima.cas.AnnotationBase"%string; "uima.cas.TOP"%string] [mkFd "begin"%string "begin"%string "uima.cas.Integer"%string None false; mkFd "end"%string "end"%string "uima.cas.Integer"%string None false; mkFd "sofa"%string "sofa"%string "uima.cas.Sofa"%string None false]].
Definition ex_doc : xdoc :=
 [mkX "http:///uima/cas.ecore"%string "View"%string [("sofa"%string, "2"%string); ("members"%string, "9 30"%string)] [];
  mkX "http:///uima/cas.ecore"%string "View"%string [("sofa"%string, "1"%string); ("members"%string, "7 9 12"%string)] [];
  mkX "http:///uima/cas.ecore"%string "Sofa"%string [("xmi:id"%string, "2"%string); ("sofaNum"%string, "2"%string); ("sofaID"%string, "second"%string); ("sofaString"%string, "xyz"%string)] [];
  mkX "http:///uima/cas.ecore"%string "Sofa"%string [("xmi:id"%string, "1"%string); ("sofaNum"%string, "1"%string); ("sofaID"%string, "_InitialView"%string); ("mimeType"%string, "text/plain"%string); ("sofaString"%string, (String (Ascii.ascii_of_N 97%N) (String (Ascii.ascii_of_N 240%N) (String (Ascii.ascii_of_N 159%N) (String (Ascii.ascii_of_N 152%N) (String (Ascii.ascii_of_N 128%N) (String (Ascii.ascii_of_N 98%N) (String (Ascii.ascii_of_N 99%N) EmptyString))))))))] [];
  mkX "http:///ex.ecore"%string "Tok"%string [("xmi:id"%string, "30"%string); ("begin"%string, "1"%string); ("end"%string, "3"%string); ("sofa"%string, "2"%string)] [];
  mkX "http:///uima/cas.ecore"%string "IntegerArray"%string [("xmi:id"%string, "20"%string); ("elements"%string, "1 -2"%string)] [];
  mkX "http:///ex.ecore"%string "Tok"%string [("xmi:id"%string, "12"%string); ("next"%string, "7"%string); ("begin"%string, "0"%string); ("end"%string, "3"%string); ("sofa"%string, "1"%string)] [("tags"%string, "x"%string); ("tags"%string, ""%string); ("tags"%string, "y z"%string)];
  mkX "http:///uima/noNamespace.ecore"%string "Holder"%string [("xmi:id"%string, "9"%string); ("items"%string, "7 0 12"%string); ("shared"%string, "20"%string)] [];
  mkX "http:///ex.ecore"%string "Tok"%string [("xmi:id"%string, "7"%string); ("w"%string, "Infinity"%string); ("self"%string, "s p"%string); ("begin"%string, "3"%string); ("end"%string, "5"%string); ("sofa"%string, "1"%string)] [];
  mkX "http:///uima/cas.ecore"%string "NULL"%string [("xmi:id"%string, "0"%string)] []].

Definition alookup_z {V} (k : Z) (l : list (Z * V)) : option V := zlookup k l.
Definition ex_flt (a : string) : option flt := if String.eqb a "Infinity" then Some "inf" else None.
Example C05_premises_hold :
  reader_okb ex_flt ex_schema ex_doc = true /\ attrs_nodupb ex_doc = true /\
  match load_xmi ex_flt ex_schema false ex_doc with
  | Ok c => res_map (fun cc => option_map (fun f => (alookup "begin" (cf_feats f), alookup "end" (cf_feats f)))
                                          (alookup_z 7 (cc_fs cc))) (canon_loaded ex_schema c)
            = Ok (Some (Some (CInt 2), Some (CInt 4)))
  | _ => False
  end.
Proof. vm_compute. repeat split; reflexivity. Qed.

(* non-vacuity of the general theorem: a document whose only sofa is a named view (astral text, xmi:id 5, sofaNum 3) and
   whose largest xmi:id is 9 satisfies reader_okb0 but not reader_okb; the model loads it, and the loaded CAS has the
   pre-created _InitialView under xmi:id 10 with sofaNum 4 next to the named view *)
Definition ex_doc0 : xdoc :=
 [mkX "http:///ex.ecore"%string "Tok"%string [("xmi:id"%string, "9"%string); ("begin"%string, "3"%string); ("end"%string, "5"%string); ("sofa"%string, "5"%string)] [];
  mkX "http:///uima/cas.ecore"%string "View"%string [("sofa"%string, "5"%string); ("members"%string, "9"%string)] [];
  mkX "http:///uima/cas.ecore"%string "Sofa"%string [("xmi:id"%string, "5"%string); ("sofaNum"%string, "3"%string); ("sofaID"%string, "other"%string); ("sofaString"%string, (String (Ascii.ascii_of_N 97%N) (String (Ascii.ascii_of_N 240%N) (String (Ascii.ascii_of_N 159%N) (String (Ascii.ascii_of_N 152%N) (String (Ascii.ascii_of_N 128%N) (String (Ascii.ascii_of_N 98%N) (String (Ascii.ascii_of_N 99%N) EmptyString))))))))] [];
  mkX "http:///uima/cas.ecore"%string "NULL"%string [("xmi:id"%string, "0"%string)] []].
Example C05_general_premises_hold :
  reader_okb0 ex_flt ex_schema ex_doc0 = true /\ reader_okb ex_flt ex_schema ex_doc0 = false /\
  match load_xmi ex_flt ex_schema false ex_doc0 with
  | Ok c => res_map (fun cc => (map (fun so => (cs_id so, cs_num so, cs_name so, cs_members so)) (cc_sofas cc),
                                option_map (fun f => (alookup "begin" (cf_feats f), alookup "end" (cf_feats f))) (alookup_z 9 (cc_fs cc))))
                    (canon_loaded ex_schema c)
            = Ok ([(5, 3, "other"%string, [9]); (10, 4, "_InitialView"%string, [])], Some (Some (CInt 2), Some (CInt 4)))
  | _ => False
  end.
Proof. vm_compute. repeat split; reflexivity. Qed.


Example C05_total_premises_hold : total_okb ex_schema ex_doc = true /\ total_okb ex_schema ex_doc0 = true.
Proof. vm_compute. split; reflexivity. Qed.

(* ---- fourth wave (XmiLoadProofs4.v) ---- *)
(* Order independence for documents with or without an _InitialView sofa (reader_okb0 instead of reader_okb). *)
Theorem C05_load_order_independent_general : forall parse_flt s d d' c c',
  reader_okb0 parse_flt s d = true -> reader_okb0 parse_flt s d' = true -> attrs_nodupb d = true -> presentation_equiv d d' ->
  load_xmi parse_flt s false d = Ok c -> load_xmi parse_flt s false d' = Ok c' -> canon_loaded s c' = canon_loaded s c.
Proof. exact load_order_independent_gen. Qed.
Print Assumptions C05_load_order_independent_general.

(* Lenient loading (lenient=True) of a document that contains elements of types the type system does not define - a
   document written against a richer type system.  drop_unknown s d is the document without those elements and without
   their ids in the member lists; dropped_ids_okb: the xmi:id of a skipped element is absent, empty or a number.  The
   loaded CAS has the content THAT document denotes: nothing a skipped element carries (attributes, nested child
   elements) reaches another feature structure. *)
Theorem C05_load_lenient_is_denotation : forall parse_flt s d c,
  dropped_ids_okb s d = true -> reader_okb0 parse_flt s (drop_unknown s d) = true -> load_xmi parse_flt s true d = Ok c ->
  canon_loaded s c = res_map with_initial (denote_xmi parse_flt s (drop_unknown s d)).
Proof. exact load_lenient_is_denotation. Qed.
Print Assumptions C05_load_lenient_is_denotation.
Theorem C05_load_lenient_total : forall parse_flt s d,
  dropped_ids_okb s d = true -> reader_okb0 parse_flt s (drop_unknown s d) = true -> total_okb s (drop_unknown s d) = true ->
  exists c, load_xmi parse_flt s true d = Ok c /\
            canon_loaded s c = res_map with_initial (denote_xmi parse_flt s (drop_unknown s d)).
Proof. exact load_lenient_total. Qed.
Print Assumptions C05_load_lenient_total.
(* ... and therefore does not depend on the order of the elements, in particular not on where the skipped elements
   stand relative to the others (clause "order of feature-structure elements", configuration lenient=True) *)
Theorem C05_load_lenient_order_independent : forall parse_flt s d d' c c',
  dropped_ids_okb s d = true ->
  reader_okb0 parse_flt s (drop_unknown s d) = true -> reader_okb0 parse_flt s (drop_unknown s d') = true ->
  attrs_nodupb (drop_unknown s d) = true -> Permutation d d' ->
  load_xmi parse_flt s true d = Ok c -> load_xmi parse_flt s true d' = Ok c' -> canon_loaded s c' = canon_loaded s c.
Proof. exact load_lenient_order_independent. Qed.
Print Assumptions C05_load_lenient_order_independent.
Theorem C05_load_lenient_same_as_strict : forall parse_flt s d c c',
  forallb (fun e => negb (unknown s e)) d = true ->
  load_xmi parse_flt s true d = Ok c -> load_xmi parse_flt s false d = Ok c' -> canon_loaded s c = canon_loaded s c'.
Proof. exact load_lenient_same_as_strict. Qed.
Print Assumptions C05_load_lenient_same_as_strict.

(* The spellings of an empty view (clause "omission of empty views"): a View element without members - empty_view: the
   members attribute is absent or holds white space only - may be written either way or left out; all three documents
   denote the same content and load to it. *)
Theorem C05_empty_view_spelling_denote : forall parse_flt s d1 e e' d2, empty_view e -> empty_view e' ->
  doc_ok_xmi parse_flt s (d1 ++ e :: d2) = true -> attrs_nodupb (d1 ++ e :: d2) = true ->
  doc_ok_xmi parse_flt s (d1 ++ e' :: d2) = true -> attrs_nodupb (d1 ++ e' :: d2) = true ->
  denote_xmi parse_flt s (d1 ++ e' :: d2) = denote_xmi parse_flt s (d1 ++ e :: d2)
  /\ denote_xmi parse_flt s (d1 ++ d2) = denote_xmi parse_flt s (d1 ++ e :: d2).
Proof. exact empty_view_spelling_denote. Qed.
Print Assumptions C05_empty_view_spelling_denote.
Theorem C05_empty_view_spelling_load : forall parse_flt s d1 e e' d2 c c', empty_view e -> empty_view e' ->
  reader_okb0 parse_flt s (d1 ++ e :: d2) = true -> attrs_nodupb (d1 ++ e :: d2) = true ->
  reader_okb0 parse_flt s (d1 ++ e' :: d2) = true -> attrs_nodupb (d1 ++ e' :: d2) = true ->
  load_xmi parse_flt s false (d1 ++ e :: d2) = Ok c -> load_xmi parse_flt s false (d1 ++ e' :: d2) = Ok c' ->
  canon_loaded s c' = canon_loaded s c.
Proof. exact empty_view_spelling_load. Qed.
Print Assumptions C05_empty_view_spelling_load.

(* non-vacuity.  (1) ex_doc with an element of the undefined type other.Unknown that has nested <tags> elements, put right
   in front of the Tok 12 (which has a tags feature of its own) or at the end, and listed as a member of view 1: the
   premises hold, the lenient model loads both, the tags of 12 are the three the document gives it, and the content is
   the one of the strict load of ex_doc.  (2) ex_doc with a third sofa whose empty view is written without a members
   attribute / with members="": both are empty views, both satisfy the premises, both load to the same content. *)
Definition ex_unknown : xelem :=
  mkX "http:///other.ecore"%string "Unknown"%string [("xmi:id"%string, "40"%string); ("sofa"%string, "1"%string); ("begin"%string, "0"%string)]
      [("tags"%string, "blue"%string); ("next"%string, "7"%string)].
Definition ex_view1 : xelem :=
  mkX "http:///uima/cas.ecore"%string "View"%string [("sofa"%string, "1"%string); ("members"%string, "7 40 9 12"%string)] [].
Definition ex_rest : xdoc := match ex_doc with _ :: _ :: r => r | _ => [] end.      (* ex_doc without its two View elements *)
Definition ex_view2 : xelem := match ex_doc with v :: _ => v | _ => ex_view1 end.
Definition ex_before : xdoc := firstn 4 ex_rest.       (* the two sofas, Tok 30, IntegerArray 20 *)
Definition ex_after : xdoc := skipn 4 ex_rest.         (* Tok 12 (with tags), Holder 9, Tok 7, cas:NULL *)
Definition ex_len_first : xdoc := ex_view2 :: ex_view1 :: (ex_before ++ ex_unknown :: ex_after).
Definition ex_len_last : xdoc := ex_view2 :: ex_view1 :: ((ex_before ++ ex_after) ++ [ex_unknown]).
Definition tags_of (i : Z) (r : res ccas) : res (option (option cval)) :=
  res_map (fun cc => option_map (fun f => alookup "tags" (cf_feats f)) (alookup_z i (cc_fs cc))) r.
Definition content_of (lenient : bool) (d : xdoc) : res ccas :=
  do c <- load_xmi ex_flt ex_schema lenient d ;; canon_loaded ex_schema c.
Example C05_lenient_premises_hold :
  forallb (fun d => dropped_ids_okb ex_schema d && reader_okb0 ex_flt ex_schema (drop_unknown ex_schema d)
                    && total_okb ex_schema (drop_unknown ex_schema d) && attrs_nodupb (drop_unknown ex_schema d)
                    && existsb (unknown ex_schema) d) [ex_len_first; ex_len_last] = true
  /\ Permutation ex_len_last ex_len_first
  /\ tags_of 12 (content_of true ex_len_first) = Ok (Some (Some (CColl "uima.cas.StringArray" [CStr "x"; CNull; CStr "y z"])))
  /\ content_of true ex_len_first = content_of false ex_doc
  /\ content_of true ex_len_last = content_of false ex_doc
  /\ content_of false ex_len_first = Err ETypeNotFound.
Proof.
  split; [vm_compute; reflexivity|]. split.
  { unfold ex_len_last, ex_len_first. do 2 apply perm_skip. apply Permutation_sym.
    eapply perm_trans; [apply Permutation_sym, Permutation_middle|apply Permutation_cons_append]. }
  vm_compute. repeat split; reflexivity.
Qed.

Definition ex_sofa3 : xelem :=
  mkX "http:///uima/cas.ecore"%string "Sofa"%string [("xmi:id"%string, "50"%string); ("sofaNum"%string, "3"%string); ("sofaID"%string, "third"%string)] [].
Definition ex_ev_absent : xelem := mkX "http:///uima/cas.ecore"%string "View"%string [("sofa"%string, "50"%string)] [].
Definition ex_ev_blank : xelem := mkX "http:///uima/cas.ecore"%string "View"%string [("members"%string, ""%string); ("sofa"%string, "50"%string)] [].
Example C05_empty_view_premises_hold :
  empty_view ex_ev_absent /\ empty_view ex_ev_blank /\
  forallb (fun e => reader_okb0 ex_flt ex_schema ([ex_sofa3] ++ e :: ex_doc) && total_okb ex_schema ([ex_sofa3] ++ e :: ex_doc)
                    && attrs_nodupb ([ex_sofa3] ++ e :: ex_doc)) [ex_ev_absent; ex_ev_blank] = true /\
  content_of false ([ex_sofa3] ++ ex_ev_absent :: ex_doc) = content_of false ([ex_sofa3] ++ ex_doc) /\
  res_map (fun cc => map (fun so => (cs_id so, cs_name so, cs_members so)) (cc_sofas cc)) (content_of false ([ex_sofa3] ++ ex_ev_absent :: ex_doc))
    = Ok [(1, "_InitialView"%string, [7; 9; 12]); (2, "second"%string, [9; 30]); (50, "third"%string, [])].
Proof. vm_compute. repeat split; reflexivity. Qed.

(* ================================================================================================
   JSON half of C05: the statements below are proved in JsonProofs.v / JsonProofs2.v / JsonLoadProofs.v / JsonLex.v and
   collected in PropsJson.v (reading guide there); the sub-suite harness/props/C05json.py runs the JSON cases. *)
From Cassis Require Import JsonDoc Json JsonProofs JsonProofs2 JsonLoadProofs JsonLex.
From Cassis Require PropsJson.
Open Scope list_scope.
Open Scope Z_scope.

Theorem C05_json_load_is_denotation : forall L s d cc,
  doc_ok_json L s d = true -> denote_json L s d = Ok cc -> load_json L s d = Ok (with_initial_view cc).
Proof. exact PropsJson.C05_json_load_is_denotation. Qed.
Print Assumptions C05_json_load_is_denotation.

Theorem C05_json_load_presentation_invariant : forall L s d d' cc,
  schema_keys_okb s = true -> same_content d d' -> doc_ok_json L s d = true -> doc_ok_json L s d' = true ->
  denote_json L s d = Ok cc -> load_json L s d' = load_json L s d.
Proof. exact PropsJson.C05_json_load_presentation_invariant. Qed.
Print Assumptions C05_json_load_presentation_invariant.

Theorem C05_json_presentation_invariant : forall L s d d' c,
  schema_keys_okb s = true -> same_content d d' -> denote_json L s d = Ok c -> denote_json L s d' = Ok c.
Proof. exact PropsJson.C05_json_presentation_invariant. Qed.
Print Assumptions C05_json_presentation_invariant.

Theorem C05_json_presentations_compose : forall d1 d2 d3, same_content d1 d2 -> same_content d2 d3 -> same_content d1 d3.
Proof. exact PropsJson.C05_json_presentations_compose. Qed.
Print Assumptions C05_json_presentations_compose.

Theorem C05_json_fs_order : forall d js js' es vs,
  jget K_FS d = Some (JArr js) -> Permutation.Permutation js js' -> fs_entries d = Ok es -> doc_views d = Ok vs ->
  NoDup (map fst es) -> NoDup (map fst vs) -> same_content d (set_member K_FS (JArr js') d).
Proof. exact PropsJson.C05_json_fs_order. Qed.
Print Assumptions C05_json_fs_order.

Theorem C05_json_dict_form : forall d es vs,
  jget K_FS d <> None -> fs_entries d = Ok es -> doc_views d = Ok vs -> NoDup (map fst es) -> NoDup (map fst vs) ->
  same_content d (set_member K_FS (dict_form es) d).
Proof. exact PropsJson.C05_json_dict_form. Qed.
Print Assumptions C05_json_dict_form.

Theorem C05_json_member_order : forall d d' es es' vs,
  fs_entries d = Ok es -> fs_entries d' = Ok es' -> doc_views d = Ok vs -> doc_views d' = Ok vs ->
  NoDup (map fst es) -> NoDup (map fst vs) ->
  Forall2 (fun e e' => fst e = fst e' /\ NoDup (map fst (snd e)) /\ Permutation.Permutation (snd e) (snd e')) es es' ->
  same_content d d'.
Proof. exact PropsJson.C05_json_member_order. Qed.
Print Assumptions C05_json_member_order.

Theorem C05_json_document_member_order : forall l l' es vs,
  NoDup (map fst l) -> Permutation.Permutation l l' -> fs_entries (JObj l) = Ok es -> doc_views (JObj l) = Ok vs ->
  NoDup (map fst es) -> NoDup (map fst vs) -> same_content (JObj l) (JObj l').
Proof. exact PropsJson.C05_json_document_member_order. Qed.
Print Assumptions C05_json_document_member_order.

Theorem C05_json_view_order : forall d vs vs' es,
  fs_entries d = Ok es -> doc_views d = Ok vs -> Permutation.Permutation vs vs' -> NoDup (map fst es) -> NoDup (map fst vs) ->
  same_content d (set_member K_VIEWS (JObj vs') d).
Proof. exact PropsJson.C05_json_view_order. Qed.
Print Assumptions C05_json_view_order.

(* ---- omission of empty views (JsonViewOmit.v, JsonViewOmitProofs.v): the %VIEWS entry of a view without members may be
   left out.  restore_views d writes out an entry  name : { %SOFA : id, %MEMBERS : [] }  for every Sofa entry of d that has
   none; doc_ok_json asks for an entry per sofa, so it is required of restore_views d. ---- *)
From Cassis Require Import JsonViewOmit JsonViewOmitProofs.

Theorem C05_json_empty_views_denote : forall L s d, denote_json L s (restore_views d) = denote_json L s d.
Proof. exact denote_json_restore. Qed.
Print Assumptions C05_json_empty_views_denote.

Theorem C05_json_empty_views_load : forall L s d,
  load_json L s (restore_views d) = load_json L s d /\ load_made L s (restore_views d) = load_made L s d.
Proof. exact restore_views_invariant. Qed.
Print Assumptions C05_json_empty_views_load.

(* the writer's direction: omit_views keep d leaves out the %VIEWS entries without members whose name a Sofa entry of d
   carries and which `keep` does not retain *)
Theorem C05_json_empty_views_omitted : forall L s keep d vs,
  doc_views d = Ok vs -> NoDup (map fst vs) ->
  denote_json L s (omit_views keep d) = denote_json L s d /\ load_json L s (omit_views keep d) = load_json L s d
  /\ load_made L s (omit_views keep d) = load_made L s d.
Proof. exact omit_views_invariant. Qed.
Print Assumptions C05_json_empty_views_omitted.

Theorem C05_json_load_is_denotation_omitted : forall L s d cc,
  doc_ok_json L s (restore_views d) = true -> denote_json L s d = Ok cc -> load_json L s d = Ok (with_initial_view cc).
Proof. exact load_json_is_denotation_omitted. Qed.
Print Assumptions C05_json_load_is_denotation_omitted.

(* non-vacuity: two views, the annotation lives in the second one; the entry of the initial view is really left out, the
   document is well-formed once it is written out again, and the initial sofa keeps the id 4 and the sofaNum 2 *)
Definition ex_json : json :=
  JObj [(K_FS, JArr [JObj [(K_ID, JInt 4); (K_TYPE, JStr "uima.cas.Sofa"); ("sofaNum", JInt 2); ("sofaID", JStr "_InitialView"); ("sofaString", JStr "Hello")];
                     JObj [(K_ID, JInt 9); (K_TYPE, JStr "uima.cas.Sofa"); ("sofaNum", JInt 5); ("sofaID", JStr "other"); ("sofaString", JStr "World wide")];
                     JObj [(K_ID, JInt 11); (K_TYPE, JStr "uima.tcas.Annotation"); ("@sofa", JInt 9); ("begin", JInt 0); ("end", JInt 5)]]);
        (K_VIEWS, JObj [("_InitialView", JObj [(K_SOFA, JInt 4); (K_MEMBERS, JArr [])]);
                        ("other", JObj [(K_SOFA, JInt 9); (K_MEMBERS, JArr [JInt 11])])])].
Example C05_json_empty_views_premises_hold :
  let d' := omit_views (fun _ => false) ex_json in
  res_map (map fst) (doc_views d') = Ok ["other"] /\
  doc_ok_json std_lex builtin_schema d' = false /\ doc_ok_json std_lex builtin_schema (restore_views d') = true /\
  res_map (fun cc => map (fun so => (cs_id so, cs_num so, cs_name so, cs_members so)) (cc_sofas cc)) (load_json std_lex builtin_schema d')
    = Ok [(4, 2, "_InitialView", []); (9, 5, "other", [11])].
Proof. vm_compute. repeat split; reflexivity. Qed.
