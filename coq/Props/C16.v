(* Props/C16.v — property C16: converting between XMI and JSON preserves the CAS.
   Full statements (DESIGN.md section 5, C16): xmi_json_xmi and json_xmi_json as corollaries of xmi_roundtrip,
   json_roundtrip, load_produces_wf and inline_outline.  What is proved here are the compositions through canonical
   content; their inputs are (a) the codec theorems of both formats — denote_save_json (C02, proved) and denote_save_xmi
   (C01/C04, proved by the XMI development), (b) the JSON reader = denotation theorem (JsonLoadProofs.load_json_is_denotation,
   proved; its premise doc_ok_json is a boolean on the written document, evaluated on every document of every chain),
   (c) inline_outline_at: the XMI view of a CAS is inline_of of its JSON view (Convert.v; evaluated in Coq on all four
   CASes of every chain).  (c) is an explicit premise, hence the suffix _partial where it occurs. *)
From Cassis Require Import Base Heap Schema Canon Reach JsonDoc Json JsonProofs JsonLoadProofs CorrC02 Convert ConvertProofs.
From Cassis Require Lex Xmi XmiDoc.
From Cassis.Props Require C02.
Open Scope Z_scope.

Theorem C16_xmi_json_xmi_partial : forall L s mode c1 j c1' cc,
  lex_ok L -> save_json L s mode c1 = Ok (j, c1') -> wf_jsonb s c1' = true -> 0 < c_next_id c1 ->
  doc_ok_json L s j = true -> initial_view_in c1' = true -> canon_json s c1' = Ok cc ->
  inline_outline_at s c1' ->
  (do x <- load_json L s j ;; inline_of s x) = Xmi.canon_xmi s c1'.
Proof. exact xmi_json_xmi. Qed.
Print Assumptions C16_xmi_json_xmi_partial.

Theorem C16_json_leg_preserves : forall L s mode c1 j c1' cc,
  lex_ok L -> save_json L s mode c1 = Ok (j, c1') -> wf_jsonb s c1' = true -> 0 < c_next_id c1 ->
  doc_ok_json L s j = true -> initial_view_in c1' = true -> canon_json s c1' = Ok cc ->
  load_json L s j = canon_json s c1'.
Proof. exact json_leg_preserves. Qed.
Print Assumptions C16_json_leg_preserves.

Theorem C16_json_xmi_json_partial : forall L s (fmt_flt : flt -> string) (parse_flt : string -> option flt) j0 c1 x c1',
  (forall f, parse_flt (fmt_flt f) = Some f) -> (forall f, Lex.tok_ok (fmt_flt f)) ->
  canon_json s c1 = denote_json L s j0 ->
  Xmi.save_xmi fmt_flt s c1 = Ok (x, c1') ->
  (forall all, Xmi.written s c1 = Ok (c1', all) -> Xmi.wf_xmib s c1' all = true) ->
  inline_outline_at s c1 ->
  XmiDoc.denote_xmi parse_flt s x = (do j <- denote_json L s j0 ;; do v <- inline_of s j ;; Ok (XmiDoc.norm_xmi s v)).
Proof. exact json_xmi_json. Qed.
Print Assumptions C16_json_xmi_json_partial.

(* the two documents written from one CAS agree: the XMI document denotes the XMI view of what the JSON document denotes *)
Theorem C16_conversion_documents_agree : forall L s mode (fmt_flt : flt -> string) (parse_flt : string -> option flt) c x c' j c'',
  lex_ok L -> (forall f, parse_flt (fmt_flt f) = Some f) -> (forall f, Lex.tok_ok (fmt_flt f)) ->
  Xmi.save_xmi fmt_flt s c = Ok (x, c') ->
  (forall all, Xmi.written s c = Ok (c', all) -> Xmi.wf_xmib s c' all = true) ->
  save_json L s mode c = Ok (j, c'') -> wf_jsonb s c'' = true -> 0 < c_next_id c ->
  inline_outline_at s c'' -> Xmi.canon_xmi s c'' = Xmi.canon_xmi s c ->
  XmiDoc.denote_xmi parse_flt s x = (do jv <- denote_json L s j ;; do v <- inline_of s jv ;; Ok (XmiDoc.norm_xmi s v)).
Proof. exact conversion_documents_agree. Qed.
Print Assumptions C16_conversion_documents_agree.

(* non-vacuity: on the example CAS of C02 (three views, astral text, inlined and shared collections, extended
   DocumentAnnotation) the premises hold — in particular the two canonical views are related by inline_of — and the
   conclusion of the JSON leg is an equation between two successful results *)
Example C16_premises_hold :
  let s := full_schema (c_user C02.ex_case) in
  match save_json std_lex s MFull (c_cas C02.ex_case) with
  | Ok (j, c') =>
      wf_jsonb s c' = true /\ 0 < c_next_id (c_cas C02.ex_case) /\
      doc_ok_json std_lex s j = true /\ initial_view_in c' = true /\
      load_json std_lex s j = canon_json s c' /\ inline_outline_at s c' /\
      match Xmi.canon_xmi s c' with Ok x => (2 <= List.length (cc_fs x))%nat | _ => False end
  | _ => False
  end.
Proof. vm_compute. repeat split; try reflexivity; repeat constructor. Qed.
