(* Props/C16.v — property C16: converting between XMI and JSON preserves the CAS.
   Full statements (DESIGN.md section 5, C16): xmi_json_xmi and json_xmi_json as corollaries of xmi_roundtrip,
   json_roundtrip, load_produces_wf and inline_outline.  The conversion statements are compositions through canonical
   content of
     (a) the codec theorems of both formats — denote_save_json (C02) and denote_save_xmi (C01/C04),
     (b) the reader = denotation theorems — JsonLoadProofs.load_json_is_denotation (C02/C05 JSON half; its premise
         doc_ok_json is a boolean on the written document) and, for the XMI reader leg, C01_xmi_roundtrip_partial
         (= C04_denote_save_xmi + C01_saved_document_is_readable + C05_load_xmi_is_denotation),
     (c) inline_outline: the XMI view of a CAS is inline_of of its JSON view (Convert.v) — PROVED here for every CAS
         satisfying the boolean ConvertWf.wf_convb (C16_inline_outline, ConvertInline.v), no longer a premise.
   Premises left, all booleans on the schema, the input CAS or the written document: wf_convb (= Xmi.wf_inb, the XMI
   writer's input premise + XmiLoad.schema_okb, what a TypeSystem guarantees + Json.wf_jsonb / ids_distinctb / refs_wfb,
   the JSON writer's premises: the structures carry their ids + slots_declb: objects have only declared attributes),
   XmiRt.wf_rtb for the XMI reader leg (C01), doc_ok_json of the written JSON document (C02: proved for its closed part),
   0 < next id, the document has the initial view.  That the XMI reader succeeds is a hypothesis as in C01.
   The statements of the first build that take inline_outline_at as a premise are kept (suffix _partial). *)
From Cassis Require Import Base Heap Schema Canon Reach JsonDoc Json JsonProofs JsonLoadProofs JsonWf CorrC02 Convert ConvertWf ConvertInline ConvertProofs.
From Cassis Require Lex Xmi XmiDoc XmiLoad XmiRt XmiRtTotal XmiExample.
From Cassis.Props Require C02.
Open Scope Z_scope.

(* inline_outline: the JSON view of a well-formed CAS (every collection a structure of its own, references as ids)
   determines its XMI view (collections held by features without multipleReferencesAllowed by content, only what XMI
   stores separately).  Relates the traversals find_all_fs true / find_all_fs false through ReachProofs.find_all_exact /
   find_all_closed and ReachSpec.succs_declarative: the XMI-reachable set lies inside the JSON-reachable set, the closure
   reach_c computes on canonical content is its set of ids, and inlining by content reads the same slots. *)
Theorem C16_inline_outline : forall s c j,
  wf_convb s c = true -> canon_json s c = Ok j -> inline_of s j = Xmi.canon_xmi s c.
Proof. exact inline_outline. Qed.
Print Assumptions C16_inline_outline.
Theorem C16_inline_outline_at : forall s c, wf_convb s c = true ->
  (do j <- canon_json s c ;; inline_of s j) = Xmi.canon_xmi s c.
Proof. exact inline_outline_at_wf. Qed.
Print Assumptions C16_inline_outline_at.
(* both views exist for a well-formed CAS (totality of canon_json and canon_xmi), and the JSON save leaves it unchanged *)
Theorem C16_inline_outline_total : forall s c, wf_convb s c = true ->
  exists j x, canon_json s c = Ok j /\ Xmi.canon_xmi s c = Ok x /\ inline_of s j = Ok x.
Proof. exact inline_outline_total. Qed.
Print Assumptions C16_inline_outline_total.
Theorem C16_json_save_leaves_cas : forall L s mode c d c', wf_convb s c = true -> save_json L s mode c = Ok (d, c') -> c' = c.
Proof. exact save_json_same. Qed.
Print Assumptions C16_json_save_leaves_cas.

(* XMI -> CAS -> JSON -> CAS: c1 the CAS loaded first (its inlined collections have no id yet), j the JSON document written
   from it, c1' the same CAS with the ids the save assigned; what the JSON reader builds from j, seen in the XMI view, is
   the XMI view of c1' (views, sofa data, structures, ids, values, reference structure, offsets, membership); both exist *)
Theorem C16_xmi_json_xmi : forall L s mode c1 j c1',
  lex_ok L -> save_json L s mode c1 = Ok (j, c1') -> wf_convb s c1' = true -> 0 < c_next_id c1 ->
  doc_ok_json L s j = true -> initial_view_in c1' = true ->
  exists x, Xmi.canon_xmi s c1' = Ok x /\ (do y <- load_json L s j ;; inline_of s y) = Ok x.
Proof. exact xmi_json_xmi. Qed.
Print Assumptions C16_xmi_json_xmi.

(* ... and no premise about the written document: doc_ok_json j follows from the CAS (C02 json_doc_ok, premise typed_jsonb) *)
Theorem C16_xmi_json_xmi_total : forall L s mode c1 j c1',
  lex_ok L -> save_json L s mode c1 = Ok (j, c1') -> wf_convb s c1' = true -> typed_jsonb s c1' = true -> 0 < c_next_id c1 ->
  initial_view_in c1' = true ->
  exists x, Xmi.canon_xmi s c1' = Ok x /\ (do y <- load_json L s j ;; inline_of s y) = Ok x.
Proof. exact xmi_json_xmi_total. Qed.
Print Assumptions C16_xmi_json_xmi_total.

Theorem C16_json_leg_preserves : forall L s mode c1 j c1' cc,
  lex_ok L -> save_json L s mode c1 = Ok (j, c1') -> wf_jsonb s c1' = true -> 0 < c_next_id c1 ->
  doc_ok_json L s j = true -> initial_view_in c1' = true -> canon_json s c1' = Ok cc ->
  load_json L s j = canon_json s c1'.
Proof. exact json_leg_preserves. Qed.
Print Assumptions C16_json_leg_preserves.

(* JSON -> CAS -> XMI -> CAS, with the XMI reader mechanism: c1 the CAS loaded first (its JSON view jv is what j0
   denotes), x the XMI document written from it, c2 what XmiLoad.load_xmi builds from x: the content of c2 is the XMI view
   of what j0 says, up to ""/null inside string collections.  Adapter between the XMI reader's CAS type (lcas) and
   canonical content: XmiLoad.canon_loaded. *)
Theorem C16_json_xmi_json : forall L s (fmt_flt : flt -> string) (parse_flt : string -> option flt) j0 c1 jv x c1' c2,
  (forall f, parse_flt (fmt_flt f) = Some f) -> (forall f, Lex.tok_ok (fmt_flt f)) ->
  denote_json L s j0 = Ok jv -> canon_json s c1 = Ok jv ->
  wf_convb s c1 = true -> XmiRt.wf_rtb s c1 = true ->
  Xmi.save_xmi fmt_flt s c1 = Ok (x, c1') -> XmiLoad.load_xmi parse_flt s false x = Ok c2 ->
  XmiLoad.canon_loaded s c2 = (do v <- inline_of s jv ;; Ok (XmiDoc.norm_xmi s v)).
Proof. exact json_xmi_json. Qed.
Print Assumptions C16_json_xmi_json.

(* ... and the XMI reader does load the document when, in addition, every structure of a type with the feature sofa holds
   a sofa (wf_rt_totalb; what Cas.add guarantees): C01_xmi_roundtrip instead of C01_xmi_roundtrip_if_loaded *)
Theorem C16_json_xmi_json_total : forall L s (fmt_flt : flt -> string) (parse_flt : string -> option flt) j0 c1 jv x c1',
  (forall f, parse_flt (fmt_flt f) = Some f) -> (forall f, Lex.tok_ok (fmt_flt f)) ->
  denote_json L s j0 = Ok jv -> canon_json s c1 = Ok jv ->
  wf_convb s c1 = true -> XmiRtTotal.wf_rt_totalb s c1 = true ->
  Xmi.save_xmi fmt_flt s c1 = Ok (x, c1') ->
  exists c2, XmiLoad.load_xmi parse_flt s false x = Ok c2 /\
             XmiLoad.canon_loaded s c2 = (do v <- inline_of s jv ;; Ok (XmiDoc.norm_xmi s v)).
Proof. exact json_xmi_json_total. Qed.
Print Assumptions C16_json_xmi_json_total.

(* the same leg over the declarative reading of the XMI document *)
Theorem C16_json_xmi_json_denote : forall L s (fmt_flt : flt -> string) (parse_flt : string -> option flt) j0 c1 jv x c1',
  (forall f, parse_flt (fmt_flt f) = Some f) -> (forall f, Lex.tok_ok (fmt_flt f)) ->
  denote_json L s j0 = Ok jv -> canon_json s c1 = Ok jv -> wf_convb s c1 = true ->
  Xmi.save_xmi fmt_flt s c1 = Ok (x, c1') ->
  XmiDoc.denote_xmi parse_flt s x = (do v <- inline_of s jv ;; Ok (XmiDoc.norm_xmi s v)).
Proof. exact json_xmi_json_denote. Qed.
Print Assumptions C16_json_xmi_json_denote.

(* the two documents written from one CAS agree: the XMI document denotes the XMI view of what the JSON document denotes *)
Theorem C16_conversion_documents_agree : forall L s mode (fmt_flt : flt -> string) (parse_flt : string -> option flt) c x c' j c'',
  lex_ok L -> (forall f, parse_flt (fmt_flt f) = Some f) -> (forall f, Lex.tok_ok (fmt_flt f)) ->
  wf_convb s c = true -> 0 < c_next_id c ->
  Xmi.save_xmi fmt_flt s c = Ok (x, c') -> save_json L s mode c = Ok (j, c'') ->
  XmiDoc.denote_xmi parse_flt s x = (do jv <- denote_json L s j ;; do v <- inline_of s jv ;; Ok (XmiDoc.norm_xmi s v)).
Proof. exact conversion_documents_agree. Qed.
Print Assumptions C16_conversion_documents_agree.

(* ---- the statements of the first build: inline_outline_at as an explicit premise, no well-formedness of the CAS ---- *)
Theorem C16_xmi_json_xmi_partial : forall L s mode c1 j c1' cc,
  lex_ok L -> save_json L s mode c1 = Ok (j, c1') -> wf_jsonb s c1' = true -> 0 < c_next_id c1 ->
  doc_ok_json L s j = true -> initial_view_in c1' = true -> canon_json s c1' = Ok cc ->
  inline_outline_at s c1' ->
  (do x <- load_json L s j ;; inline_of s x) = Xmi.canon_xmi s c1'.
Proof. exact xmi_json_xmi_given_outline. Qed.
Print Assumptions C16_xmi_json_xmi_partial.
Theorem C16_json_xmi_json_partial : forall L s (fmt_flt : flt -> string) (parse_flt : string -> option flt) j0 c1 x c1',
  (forall f, parse_flt (fmt_flt f) = Some f) -> (forall f, Lex.tok_ok (fmt_flt f)) ->
  canon_json s c1 = denote_json L s j0 ->
  Xmi.save_xmi fmt_flt s c1 = Ok (x, c1') ->
  (forall all, Xmi.written s c1 = Ok (c1', all) -> Xmi.wf_xmib s c1' all = true) ->
  inline_outline_at s c1 ->
  XmiDoc.denote_xmi parse_flt s x = (do j <- denote_json L s j0 ;; do v <- inline_of s j ;; Ok (XmiDoc.norm_xmi s v)).
Proof. exact json_xmi_json_given_outline. Qed.
Print Assumptions C16_json_xmi_json_partial.

(* non-vacuity (1): on the example CAS of C02 after its save (three views, astral text, a sofa byte array, extended
   DocumentAnnotation, reserved feature names, an inlined IntegerArray) the premises of C16_xmi_json_xmi hold — wf_convb
   in particular — and the conclusion of the JSON leg is an equation between two successful results *)
Example C16_premises_hold :
  let s := full_schema (c_user C02.ex_case) in
  match save_json std_lex s MFull (c_cas C02.ex_case) with
  | Ok (j, c') =>
      wf_convb s c' = true /\ typed_jsonb s c' = true /\ XmiRtTotal.wf_rt_totalb s c' = true /\ 0 < c_next_id (c_cas C02.ex_case) /\
      doc_ok_json std_lex s j = true /\ initial_view_in c' = true /\
      load_json std_lex s j = canon_json s c' /\
      match canon_json s c', Xmi.canon_xmi s c' with Ok _, Ok x => (2 <= List.length (cc_fs x))%nat | _, _ => False end
  | _ => False
  end.
Proof. vm_compute. repeat split; try reflexivity; repeat constructor. Qed.
(* non-vacuity (2): the example CAS of C01/C04 (two views, a reference cycle, an inline FSArray with a null element, a
   shared FSArray, an empty inline StringList, a referenced-only annotation; every structure carries its id) satisfies
   wf_convb and wf_rtb; its JSON view lists 7 structures, its XMI view 5 *)
Example C16_premises_hold_inline :
  let s := (XmiExample.ex_schema ++ [mkTi "uima.cas.NULL" ["uima.cas.NULL"; "uima.cas.TOP"] []])%list in
  wf_convb s XmiExample.ex_cas = true /\ typed_jsonb s XmiExample.ex_cas = true /\ XmiRtTotal.wf_rt_totalb s XmiExample.ex_cas = true /\
  match canon_json s XmiExample.ex_cas, Xmi.canon_xmi s XmiExample.ex_cas with
  | Ok j, Ok x => List.length (cc_fs j) = 7%nat /\ List.length (cc_fs x) = 5%nat
  | _, _ => False
  end.
Proof. vm_compute. repeat split; reflexivity. Qed.
