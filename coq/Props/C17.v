(* Props/C17.v — property C17: lenient loading drops exactly the feature structures of unknown type; strict loading
   refuses; the flag stays with every view handle; the guard of Cas.add.
   Only the property theorems (closed by `exact`), Print Assumptions and non-vacuity examples.
   parse_flt (float(str)) is universally quantified in every statement. *)
From Cassis Require Import Base Heap Schema Canon Lex XmiDoc XmiLoad XmiLoadProofs.
Open Scope Z_scope.

(* A document that the lenient reader gets through its first loop (i.e. whose only problem, if any, are elements of
   types the type system does not define) and that has such an element is refused by the strict reader with
   TypeNotFoundError. *)
Theorem C17_strict_raises : forall parse_flt s d st,
  pass1 parse_flt s true p1_init d = Ok st -> existsb (unknown s) d = true ->
  load_xmi parse_flt s false d = Err ETypeNotFound.
Proof. exact load_strict_raises. Qed.
Print Assumptions C17_strict_raises.

(* Nothing but the type lookup raises TypeNotFoundError while an element is parsed. *)
Theorem C17_type_not_found_iff_unknown : forall parse_flt s e,
  parse_fs parse_flt s e = Err ETypeNotFound <-> sch_find s (reader_tname (x_ns e) (x_tag e)) = None.
Proof. exact parse_fs_tnf_iff. Qed.
Print Assumptions C17_type_not_found_iff_unknown.

(* Lenient loading is filtering: for every document whose dropped elements carry a numeric (or no) xmi:id, the lenient
   reader returns exactly what the strict reader returns for the document without the elements of unknown type and
   without their ids in every member list - the same views, objects, slots, members and next ids, the same error
   otherwise (a kept structure that refers to a dropped one gives KeyError on both sides: no premise about dangling
   references is needed) - and differs in the lenient flag of the result only. *)
Theorem C17_lenient_is_filter : forall parse_flt s d,
  dropped_ids_okb s d = true ->
  load_xmi parse_flt s true d = with_lenient true (load_xmi parse_flt s false (drop_unknown s d)).
Proof. exact lenient_is_filter. Qed.
Print Assumptions C17_lenient_is_filter.

(* If the type system defines the type of every element, the flag changes nothing but itself. *)
Theorem C17_leniency_noninterference : forall parse_flt s d,
  forallb (fun e => negb (unknown s e)) d = true ->
  load_xmi parse_flt s true d = with_lenient true (load_xmi parse_flt s false d).
Proof. exact leniency_noninterference. Qed.
Print Assumptions C17_leniency_noninterference.

(* The flag given to load is the flag of every handle derived from the loaded CAS by any chain of get_view /
   create_view (Cas._copy after 779cf12). *)
Theorem C17_lenient_persists : forall parse_flt s b d c path,
  load_xmi parse_flt s b d = Ok c -> h_lenient (derive (cas_handle c) path) = b.
Proof. exact lenient_persists. Qed.
Print Assumptions C17_lenient_persists.

(* The guard of Cas.add (exact type-name membership, after 1700993). *)
Theorem C17_strict_add_refuses : forall s h tn,
  h_lenient h = false -> contains_exact s tn = false -> handle_add s h tn = Err ERuntime.
Proof. exact strict_add_refuses. Qed.
Print Assumptions C17_strict_add_refuses.
Theorem C17_lenient_add_accepts : forall s h tn, h_lenient h = true -> handle_add s h tn = Ok tt.
Proof. exact lenient_add_accepts. Qed.
Print Assumptions C17_lenient_add_accepts.
Theorem C17_strict_add_accepts_own : forall s h tn, contains_exact s tn = true -> handle_add s h tn = Ok tt.
Proof. exact strict_add_accepts_own. Qed.
Print Assumptions C17_strict_add_accepts_own.

(* regression witnesses: the mechanisms before 779cf12, 1700993 and 32a3d1b violate the statements above *)
Theorem C17_copy_handle_old_refuted : exists h n, h_lenient h = true /\ h_lenient (copy_handle_old h n) = false.
Proof. exact copy_handle_old_refuted. Qed.
Print Assumptions C17_copy_handle_old_refuted.
Theorem C17_contains_loose_refuted : exists s tn, contains_exact s tn = false /\ contains_loose s tn = true.
Proof. exact contains_loose_refuted. Qed.
Print Assumptions C17_contains_loose_refuted.
Theorem C17_load_xmi_old_short_name_refuted :
  exists s d, existsb (unknown s) d = true /\
    match load_xmi_old (fun _ => None) s false d with Ok c => map (fun ko => lo_type (snd ko)) (lc_objs c) = ["a.b.Foo"] | _ => False end.
Proof. exact load_xmi_old_short_name_refuted. Qed.
Print Assumptions C17_load_xmi_old_short_name_refuted.

(* non-vacuity: a document with one known and one unknown element, the unknown one a member of the view *)
Definition ex_doc : xdoc :=
  [mkX NS_CAS "NULL" [(A_ID, "0")] [];
   mkX NS_CAS "Sofa" [(A_ID, "1"); ("sofaNum", "1"); ("sofaID", "_InitialView"); ("sofaString", "ab")] [];
   mkX "http:///a/b.ecore" "Foo" [(A_ID, "7")] [];
   mkX "http:///x/y.ecore" "Gone" [(A_ID, "9"); ("ref", "7")] [];
   mkX NS_CAS "View" [("sofa", "1"); ("members", "7 9")] []].
Definition ex_ts : schema := ts_foo ++ [mkTi "uima.cas.NULL" ["uima.cas.NULL"; "uima.cas.TOP"] []].
Example C17_premises_hold :
  dropped_ids_okb ex_ts ex_doc = true /\ existsb (unknown ex_ts) ex_doc = true /\
  load_xmi (fun _ => None) ex_ts false ex_doc = Err ETypeNotFound /\
  match load_xmi (fun _ => None) ex_ts true ex_doc with
  | Ok c => map (fun nv => lv_members (snd nv)) (lc_views c) = [[7]] /\ map fst (lc_objs c) = [0; 7] /\ lc_lenient c = true
  | _ => False
  end /\
  map (fun e => xattr e "members") (filter is_view (drop_unknown ex_ts ex_doc)) = [Some "7"].
Proof. vm_compute. repeat split; reflexivity. Qed.
