(* Props/C17.v — property C17: lenient loading drops exactly the feature structures of unknown type; strict loading
   refuses; the flag stays with every view handle; the guard of Cas.add.
   Only the property theorems (closed by `exact`), Print Assumptions and non-vacuity examples.
   parse_flt (float(str)) is universally quantified in every statement. *)
From Cassis Require Import Base Heap Schema Canon Lex XmiDoc XmiLoad XmiLoadProofs XmiLoadC17 XmiLoadC17Proofs.
Open Scope Z_scope.

(* A document that the lenient reader gets through its first loop (i.e. whose only problem, if any, are elements of
   types the type system does not define) and that has such an element is refused by the strict reader with
   TypeNotFoundError. *)
Theorem C17_strict_raises : forall parse_flt s d st,
  pass1 parse_flt s true p1_init d = Ok st -> existsb (unknown s) d = true ->
  load_xmi parse_flt s false d = Err ETypeNotFound.
Proof. exact load_strict_raises. Qed.
Print Assumptions C17_strict_raises.

(* Nothing but the type lookup raises TypeNotFoundError while an element is parsed. *)
Theorem C17_type_not_found_iff_unknown : forall parse_flt s e,
  parse_fs parse_flt s e = Err ETypeNotFound <-> sch_find s (reader_tname (x_ns e) (x_tag e)) = None.
Proof. exact parse_fs_tnf_iff. Qed.
Print Assumptions C17_type_not_found_iff_unknown.

(* Lenient loading is filtering: for every document whose dropped elements carry a numeric (or no) xmi:id, the lenient
   reader returns exactly what the strict reader returns for the document without the elements of unknown type and
   without their ids in every member list - the same views, objects, slots, members and next ids, the same error
   otherwise (a kept structure that refers to a dropped one gives KeyError on both sides: no premise about dangling
   references is needed) - and differs in the lenient flag of the result only. *)
Theorem C17_lenient_is_filter : forall parse_flt s d,
  dropped_ids_okb s d = true ->
  load_xmi parse_flt s true d = with_lenient true (load_xmi parse_flt s false (drop_unknown s d)).
Proof. exact lenient_is_filter. Qed.
Print Assumptions C17_lenient_is_filter.

(* If the type system defines the type of every element, the flag changes nothing but itself. *)
Theorem C17_leniency_noninterference : forall parse_flt s d,
  forallb (fun e => negb (unknown s e)) d = true ->
  load_xmi parse_flt s true d = with_lenient true (load_xmi parse_flt s false d).
Proof. exact leniency_noninterference. Qed.
Print Assumptions C17_leniency_noninterference.

(* The flag given to load is the flag of every handle derived from the loaded CAS by any chain of get_view /
   create_view (Cas._copy after 779cf12). *)
Theorem C17_lenient_persists : forall parse_flt s b d c path,
  load_xmi parse_flt s b d = Ok c -> h_lenient (derive (cas_handle c) path) = b.
Proof. exact lenient_persists. Qed.
Print Assumptions C17_lenient_persists.

(* The guard of Cas.add (exact type-name membership, after 1700993). *)
Theorem C17_strict_add_refuses : forall s h tn,
  h_lenient h = false -> contains_exact s tn = false -> handle_add s h tn = Err ERuntime.
Proof. exact strict_add_refuses. Qed.
Print Assumptions C17_strict_add_refuses.
Theorem C17_lenient_add_accepts : forall s h tn, h_lenient h = true -> handle_add s h tn = Ok tt.
Proof. exact lenient_add_accepts. Qed.
Print Assumptions C17_lenient_add_accepts.
Theorem C17_strict_add_accepts_own : forall s h tn, contains_exact s tn = true -> handle_add s h tn = Ok tt.
Proof. exact strict_add_accepts_own. Qed.
Print Assumptions C17_strict_add_accepts_own.

(* Second wave.  The entry point load_cas_from_xmi: whether the document is given as a string, an open file or a
   pathlib.Path, and whatever `trusted` is, the reader runs with the caller's lenient flag - so the statements above
   hold for every source kind and every value of trusted. *)
Theorem C17_entry_source_trusted_irrelevant : forall parse_flt src src' s lenient t t' d,
  load_entry parse_flt src s lenient t d = load_entry parse_flt src' s lenient t' d.
Proof. exact entry_source_trusted_irrelevant. Qed.
Print Assumptions C17_entry_source_trusted_irrelevant.
Theorem C17_entry_strict_raises : forall parse_flt src s trusted d st,
  pass1 parse_flt s true p1_init d = Ok st -> existsb (unknown s) d = true ->
  load_entry parse_flt src s false trusted d = Err ETypeNotFound.
Proof. exact entry_strict_raises. Qed.
Print Assumptions C17_entry_strict_raises.
Theorem C17_entry_lenient_is_filter : forall parse_flt src src' s t t' d,
  dropped_ids_okb s d = true ->
  load_entry parse_flt src s true t d = with_lenient true (load_entry parse_flt src' s false t' (drop_unknown s d)).
Proof. exact entry_lenient_is_filter. Qed.
Print Assumptions C17_entry_lenient_is_filter.

(* "Exactly the CAS that the document without those structures would yield" includes the state of its id generators:
   any sequence of later operations (adds of new structures through any handle, new views) receives the same xmi:ids
   and sofaNums from the lenient CAS as from the CAS of the filtered document (an error of the load is the same error
   on both sides); with all types known the flag does not move the generators either. *)
Theorem C17_lenient_same_ids_later : forall parse_flt s d ops,
  dropped_ids_okb s d = true ->
  handed_out (load_xmi parse_flt s true d) ops = handed_out (load_xmi parse_flt s false (drop_unknown s d)) ops.
Proof. exact lenient_same_ids_later. Qed.
Print Assumptions C17_lenient_same_ids_later.
Theorem C17_noninterference_same_ids_later : forall parse_flt s d ops,
  forallb (fun e => negb (unknown s e)) d = true ->
  handed_out (load_xmi parse_flt s true d) ops = handed_out (load_xmi parse_flt s false d) ops.
Proof. exact noninterference_same_ids_later. Qed.
Print Assumptions C17_noninterference_same_ids_later.
(* the k-th later operation receives the xmi:id (first id after the load) + k *)
Theorem C17_ids_fresh : forall g ops1 o ops2 out,
  nth_error (run_ops g (ops1 ++ o :: ops2)) (List.length ops1) = Some out ->
  hd 0 out = g_id g + Z.of_nat (List.length ops1).
Proof. exact ids_fresh. Qed.
Print Assumptions C17_ids_fresh.

(* Third wave.  "The supplied type system does not define": ONE TypeSystem object may serve several loads, and types
   may be created in it between them (XmiLoadC17.session: loads of any documents, lenient or strict, from any source,
   interleaved with create_type).  What the object served before leaves no trace: a load gives what the reader gives
   for the types the object defines at that moment - so every statement above holds at any point of a session. *)
Theorem C17_session_history_irrelevant : forall parse_flt s ops src b t d,
  session parse_flt s (ops ++ [SLoad src b t d])
  = (session parse_flt s ops ++ [load_xmi parse_flt (types_after s ops) b d])%list.
Proof. exact session_last_load. Qed.
Print Assumptions C17_session_history_irrelevant.
(* a defined type stays defined, and a created type is defined from the next lookup on *)
Theorem C17_session_known_stays_known : forall s ops e, unknown s e = false -> unknown (types_after s ops) e = false.
Proof. exact known_stays_known. Qed.
Print Assumptions C17_session_known_stays_known.
Theorem C17_session_created_is_known : forall s ti ops n,
  n = ti_name ti -> sch_find (types_after (create_type s ti) ops) n <> None.
Proof. exact created_is_known. Qed.
Print Assumptions C17_session_created_is_known.
Theorem C17_session_lenient_is_filter : forall parse_flt s ops src t d, let s' := types_after s ops in
  dropped_ids_okb s' d = true ->
  session parse_flt s (ops ++ [SLoad src true t d])
  = (session parse_flt s ops ++ [with_lenient true (load_xmi parse_flt s' false (drop_unknown s' d))])%list.
Proof. exact session_lenient_is_filter. Qed.
Print Assumptions C17_session_lenient_is_filter.
Theorem C17_session_strict_raises : forall parse_flt s ops src t d st, let s' := types_after s ops in
  pass1 parse_flt s' true p1_init d = Ok st -> existsb (unknown s') d = true ->
  session parse_flt s (ops ++ [SLoad src false t d]) = (session parse_flt s ops ++ [Err ETypeNotFound])%list.
Proof. exact session_strict_raises. Qed.
Print Assumptions C17_session_strict_raises.
(* once the missing types have been created, the flag no longer matters - although an earlier load through the same
   object dropped or refused the structures of those types *)
Theorem C17_session_all_defined_flag_irrelevant : forall parse_flt s ops src src' t t' d, let s' := types_after s ops in
  forallb (fun e => negb (unknown s' e)) d = true ->
  session parse_flt s (ops ++ [SLoad src true t d; SLoad src' false t' d])
  = (session parse_flt s ops ++ [with_lenient true (load_xmi parse_flt s' false d); load_xmi parse_flt s' false d])%list.
Proof. exact session_all_defined_flag_irrelevant. Qed.
Print Assumptions C17_session_all_defined_flag_irrelevant.

(* Fourth wave.  "A strict CAS refuses to index a structure of a foreign type", for the CAS that load returns: its type
   system is the supplied one (XmiLoadC17.loaded_ts: Cas.__init__ replaces None only), whatever that defines - every
   subset of the user types may have been deleted from it, all of them and uima.tcas.DocumentAnnotation included - and
   whatever a default type system would define.  Through every handle reached by get_view / create_view a strictly
   loaded CAS refuses every type the supplied type system does not define and accepts its own; a lenient one accepts. *)
Theorem C17_loaded_strict_refuses : forall parse_flt s dflt src t d c path tn,
  load_entry parse_flt src s false t d = Ok c -> contains_exact s tn = false -> loaded_add s dflt c path tn = Err ERuntime.
Proof. exact loaded_strict_refuses. Qed.
Print Assumptions C17_loaded_strict_refuses.
Theorem C17_loaded_lenient_accepts : forall parse_flt s dflt src t d c path tn,
  load_entry parse_flt src s true t d = Ok c -> loaded_add s dflt c path tn = Ok tt.
Proof. exact loaded_lenient_accepts. Qed.
Print Assumptions C17_loaded_lenient_accepts.
Theorem C17_loaded_strict_accepts_own : forall parse_flt s dflt src t d c path tn,
  load_entry parse_flt src s false t d = Ok c -> contains_exact s tn = true -> loaded_add s dflt c path tn = Ok tt.
Proof. exact loaded_strict_accepts_own. Qed.
Print Assumptions C17_loaded_strict_accepts_own.

(* regression witnesses: the mechanisms before 779cf12, 1700993 and 32a3d1b violate the statements above *)
Theorem C17_copy_handle_old_refuted : exists h n, h_lenient h = true /\ h_lenient (copy_handle_old h n) = false.
Proof. exact copy_handle_old_refuted. Qed.
Print Assumptions C17_copy_handle_old_refuted.
Theorem C17_contains_loose_refuted : exists s tn, contains_exact s tn = false /\ contains_loose s tn = true.
Proof. exact contains_loose_refuted. Qed.
Print Assumptions C17_contains_loose_refuted.
Theorem C17_load_xmi_old_short_name_refuted :
  exists s d, existsb (unknown s) d = true /\
    match load_xmi_old (fun _ => None) s false d with Ok c => map (fun ko => lo_type (snd ko)) (lc_objs c) = ["a.b.Foo"] | _ => False end.
Proof. exact load_xmi_old_short_name_refuted. Qed.
Print Assumptions C17_load_xmi_old_short_name_refuted.

(* non-vacuity: a document with one known and one unknown element, the unknown one a member of the view *)
Definition ex_doc : xdoc :=
  [mkX NS_CAS "NULL" [(A_ID, "0")] [];
   mkX NS_CAS "Sofa" [(A_ID, "1"); ("sofaNum", "1"); ("sofaID", "_InitialView"); ("sofaString", "ab")] [];
   mkX "http:///a/b.ecore" "Foo" [(A_ID, "7")] [];
   mkX "http:///x/y.ecore" "Gone" [(A_ID, "9"); ("ref", "7")] [];
   mkX NS_CAS "View" [("sofa", "1"); ("members", "7 9")] []].
Definition ex_ts : schema := ts_foo ++ [mkTi "uima.cas.NULL" ["uima.cas.NULL"; "uima.cas.TOP"] []].
Example C17_premises_hold :
  dropped_ids_okb ex_ts ex_doc = true /\ existsb (unknown ex_ts) ex_doc = true /\
  load_xmi (fun _ => None) ex_ts false ex_doc = Err ETypeNotFound /\
  match load_xmi (fun _ => None) ex_ts true ex_doc with
  | Ok c => map (fun nv => lv_members (snd nv)) (lc_views c) = [[7]] /\ map fst (lc_objs c) = [0; 7] /\ lc_lenient c = true
  | _ => False
  end /\
  map (fun e => xattr e "members") (filter is_view (drop_unknown ex_ts ex_doc)) = [Some "7"].
Proof. vm_compute. repeat split; reflexivity. Qed.

(* non-vacuity, second wave: only a named view is declared and the dropped element carries the highest xmi:id of the
   document (23): the sofa of the implicit _InitialView gets 8 = (highest KEPT id) + 1 and sofaNum 2, and an add, a new
   view and another add afterwards receive 9, (10, 3), 11 - as for the filtered document *)
Definition ex_doc2 : xdoc :=
  [mkX NS_CAS "NULL" [(A_ID, "0")] [];
   mkX "http:///a/b.ecore" "Foo" [(A_ID, "7")] [];
   mkX "http:///x/y.ecore" "Gone" [(A_ID, "23")] [];
   mkX NS_CAS "Sofa" [(A_ID, "2"); ("sofaNum", "1"); ("sofaID", "second"); ("sofaString", "ab")] [];
   mkX NS_CAS "View" [("sofa", "2"); ("members", "7 23")] []].
Example C17_later_ids_hold :
  dropped_ids_okb ex_ts ex_doc2 = true /\ existsb (unknown ex_ts) ex_doc2 = true /\
  load_entry (fun _ => None) SrcPath ex_ts false true ex_doc2 = Err ETypeNotFound /\
  match load_entry (fun _ => None) SrcPath ex_ts true false ex_doc2 with
  | Ok c => map (fun nv => (fst nv, ls_id (lv_sofa (snd nv)), ls_num (lv_sofa (snd nv)))) (lc_views c)
              = [("_InitialView", 8, 2); ("second", 2, 1)] /\ lc_lenient c = true
  | _ => False
  end /\
  handed_out (load_xmi (fun _ => None) ex_ts true ex_doc2) [OpAdd; OpNewView; OpAdd] = Ok [[9]; [10; 3]; [11]] /\
  handed_out (load_xmi (fun _ => None) ex_ts false (drop_unknown ex_ts ex_doc2)) [OpAdd; OpNewView; OpAdd] = Ok [[9]; [10; 3]; [11]].
Proof. vm_compute. repeat split; reflexivity. Qed.

(* non-vacuity, third wave: the type system of the first example serves a lenient and a strict load, then x.y.Gone is
   created in it, then it serves both again: dropped (member 7 only) / refused before, both members and the object 9
   with its reference to 7 afterwards, under either flag *)
Definition ti_gone : tinfo := mkTi "x.y.Gone" ["x.y.Gone"; "uima.cas.TOP"] [mkFd "ref" "ref" "uima.cas.TOP" None false].
Example C17_session_holds :
  existsb (unknown ex_ts) ex_doc = true /\ forallb (fun e => negb (unknown (create_type ex_ts ti_gone) e)) ex_doc = true /\
  map (fun r => match r with
                | Ok c => Some (map (fun nv => lv_members (snd nv)) (lc_views c), map fst (lc_objs c), lc_lenient c)
                | _ => None end)
      (session (fun _ => None) ex_ts [SLoad SrcStr true false ex_doc; SLoad SrcFile false false ex_doc; SCreate ti_gone;
                                      SLoad SrcPath false true ex_doc; SLoad SrcStr true false ex_doc])
  = [Some ([[7]], [0; 7], true); None; Some ([[7; 9]], [0; 7; 9], false); Some ([[7; 9]], [0; 7; 9], true)].
Proof. vm_compute. repeat split; reflexivity. Qed.

(* non-vacuity, fourth wave: a type system that defines built-in types only (no user type, no
   uima.tcas.DocumentAnnotation).  A document with a DocumentAnnotation and a my.Thing in two views is refused strictly
   and loses both leniently (both views empty); the document without them loads strictly, and the CAS refuses a
   uima.tcas.DocumentAnnotation (which a default type system defines) through the handle of either view, accepts a
   uima.cas.TOP; the lenient CAS accepts *)
Definition ts_bare : schema :=
  [mkTi "uima.cas.TOP" ["uima.cas.TOP"] []; mkTi "uima.cas.NULL" ["uima.cas.NULL"; "uima.cas.TOP"] [];
   mkTi "uima.cas.Sofa" ["uima.cas.Sofa"; "uima.cas.TOP"] []].
Definition ex_doc4 : xdoc :=
  [mkX NS_CAS "NULL" [(A_ID, "0")] [];
   mkX "http:///uima/tcas.ecore" "DocumentAnnotation" [(A_ID, "2"); ("sofa", "1"); ("begin", "0"); ("end", "5"); ("language", "en")] [];
   mkX "http:///my.ecore" "Thing" [(A_ID, "5"); ("sofa", "4"); ("begin", "0"); ("end", "3")] [];
   mkX NS_CAS "Sofa" [(A_ID, "1"); ("sofaNum", "1"); ("sofaID", "_InitialView"); ("sofaString", "Hello")] [];
   mkX NS_CAS "Sofa" [(A_ID, "4"); ("sofaNum", "2"); ("sofaID", "second"); ("sofaString", "Bye")] [];
   mkX NS_CAS "View" [("sofa", "1"); ("members", "2")] [];
   mkX NS_CAS "View" [("sofa", "4"); ("members", "5")] []].
Example C17_bare_type_system_holds :
  dropped_ids_okb ts_bare ex_doc4 = true /\ existsb (unknown ts_bare) ex_doc4 = true /\
  forallb (fun e => negb (unknown ts_bare e)) (drop_unknown ts_bare ex_doc4) = true /\
  contains_exact default_extra "uima.tcas.DocumentAnnotation" = true /\
  load_entry (fun _ => None) SrcStr ts_bare false false ex_doc4 = Err ETypeNotFound /\
  match load_entry (fun _ => None) SrcStr ts_bare true false ex_doc4 with
  | Ok c => map (fun nv => (fst nv, lv_members (snd nv))) (lc_views c) = [("_InitialView", []); ("second", [])] /\
            loaded_add ts_bare default_extra c ["second"] "uima.tcas.DocumentAnnotation" = Ok tt
  | _ => False
  end /\
  match load_entry (fun _ => None) SrcFile ts_bare false false (drop_unknown ts_bare ex_doc4) with
  | Ok c => map (fun nv => (fst nv, lv_members (snd nv))) (lc_views c) = [("_InitialView", []); ("second", [])] /\
            loaded_add ts_bare default_extra c [] "uima.tcas.DocumentAnnotation" = Err ERuntime /\
            loaded_add ts_bare default_extra c ["second"] "uima.tcas.DocumentAnnotation" = Err ERuntime /\
            loaded_add ts_bare default_extra c ["second"; "_InitialView"] "my.Thing" = Err ERuntime /\
            loaded_add ts_bare default_extra c ["second"] "uima.cas.TOP" = Ok tt
  | _ => False
  end.
Proof. vm_compute. repeat split; reflexivity. Qed.
