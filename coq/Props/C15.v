(* Props/C15.v — property C15: every operation terminates on every reference-graph shape.
   Only the property theorems (closed by `exact`), non-vacuity examples and Print Assumptions.

   What is proved here is the termination of the three loops of the implementation that are not structural:
   the worklist of Cas._find_all_fs (used by to_xmi, to_json, typecheck, cas_to_comparable_text), its inline FSList
   walk, and the walk of the XMI writer over the nodes of a list stored inside its holder's element
   (CasXmiSerializer._collect_list_elements: FSList and the lists of primitive values IntegerList / FloatList /
   StringList, whose tails are ordinary references and can be cyclic just as well).  The model runs them on explicit fuel; OutOfFuel is a distinct result, and the theorems exclude it for the
   stated bound |heap|+1, for ALL schemas, heaps (cyclic or not, well-formed or not), seeds and both values of
   include_inlinable_arrays_and_lists.  The bound is linear in the number of feature structures: that is the
   "low-order polynomial" of the property as far as loop iterations go.

   PARTIAL by nature: the theorems bound loop iterations of the model.  Wall-clock / CPU time of the implementation is
   measured by the deadline oracle of harness/props/C15.py (22 shapes x sizes n,2n,4n x 8 operations), not proved.

   No theorem is stated (none would say anything) for:
   - hierarchy queries that walk UP (subsumes, is_instance_of, is_primitive) AS USED BY THE GRAPH MODELS: in Schema.v the
     ancestor chain of every type is data (ti_anc), `isa` and `is_primitive` are membership tests on that finite list,
     hence total by construction; that the TypeSystem's recursive walks agree with these lists is C10's theorem, their
     cost on type trees 60 levels deep is measured by the deadline oracle.  The walk DOWN (Type.descendants, what select
     iterates over) follows the mutable _children tables and does have a theorem: C15_subtype_walk_linear below (third
     wave); the walk UP over the mutable supertype attributes of the TS.v model, which merge_typesystems rewrites, has
     C15_supertype_walk_ends / C15_merged_supertype_walk_ends (fourth wave);
   - readers and writers (apart from the list walk above and the search for a free namespace prefix of the XMI writer:
     C15_free_prefix_found, fourth wave), typecheck, select: in the models they are structural folds
     (map / fold_left / filter) over the document or over the id-sorted list returned by find_all_fs, so Coq's guard
     condition is their termination proof; there is nothing further to state. *)
From Cassis Require Import Base Heap Schema Reach ReachProofs ReachSpec RefutedC15 ReachList ReachListProofs.
From Cassis Require TS TSProofs Merge MergeProofs ReachTypes ReachPrefix ReachPrefixProofs.
Open Scope Z_scope.

(* the worklist: never out of fuel with |heap|+1, whatever the graph *)
Theorem C15_worklist_terminates : forall inl s c seeds, find_all_from inl s c seeds <> OutOfFuel.
Proof. exact worklist_terminates. Qed.
Print Assumptions C15_worklist_terminates.

Theorem C15_worklist_terminates_indexed : forall inl s c, find_all_fs inl s c <> OutOfFuel.
Proof. exact worklist_terminates_fs. Qed.
Print Assumptions C15_worklist_terminates_indexed.

(* every object is admitted to the open list at most once; the number of pops is at most the number of objects *)
Theorem C15_pops_bound : forall inl s c seeds w, find_all_from inl s c seeds = Ok w ->
  NoDup (w_queued w) /\ (List.length (w_queued w) <= List.length (c_heap c))%nat.
Proof. exact pops_bound. Qed.
Print Assumptions C15_pops_bound.

(* the inline list walk: never out of fuel with |heap|+1, also on cyclic tail chains (the node set) *)
Theorem C15_list_walk_terminates : forall s h v, list_heads (S (List.length h)) s h [] v <> OutOfFuel.
Proof. exact list_walk_terminates. Qed.
Print Assumptions C15_list_walk_terminates.

(* the list walk of the XMI writer, for every list kind: never out of fuel with |heap|+1, whatever the tail chain
   (a node whose tail is itself, a tail leading back to any earlier node, a dangling tail) *)
Theorem C15_list_collect_terminates : forall s h v, list_elems s h v <> OutOfFuel.
Proof. exact collect_terminates. Qed.
Print Assumptions C15_list_collect_terminates.

(* the whole of to_xmi that is not a structural fold: traversal, then the list walks of everything found *)
Theorem C15_to_xmi_lists_terminate : forall s c, to_xmi_lists s c <> OutOfFuel.
Proof. exact to_xmi_lists_terminates. Qed.
Print Assumptions C15_to_xmi_lists_terminate.

(* it refuses (ValueError) exactly the lists in which some node stands at two positions of the tail chain ... *)
Theorem C15_list_collect_refuses_exactly_cycles : forall s h v,
  list_elems s h v = Err EValue <-> cyclic_chain s h v.
Proof. exact collect_refuses_exactly_cycles. Qed.
Print Assumptions C15_list_collect_refuses_exactly_cycles.

(* ... and otherwise returns the head of the node at every position of the chain, in order: the values the traversal's
   own walk offered to the open list *)
Theorem C15_list_collect_returns_elements : forall s h v l, list_elems s h v = Ok l ->
  (forall n, nth_error l n = option_map (fun p => slot (snd p) "head") (node_at s h n v)) /\
  list_heads (S (List.length h)) s h [] v = Ok l.
Proof. exact collect_returns_elements. Qed.
Print Assumptions C15_list_collect_returns_elements.

(* on well-formed heaps the traversal does not merely stop: it returns (or reports a forced duplicate id) *)
Theorem C15_traversal_total : forall inl s c seeds,
  wf_heapb inl s (c_heap c) = true -> seeds_liveb (c_heap c) seeds = true ->
  (exists w, find_all_from inl s c seeds = Ok w) \/ find_all_from inl s c seeds = Err EDupId.
Proof. exact find_all_total. Qed.
Print Assumptions C15_traversal_total.

Theorem C15_traversal_returns : forall inl s c seeds,
  wf_heapb inl s (c_heap c) = true -> seeds_liveb (c_heap c) seeds = true -> ids_okb (c_heap c) (c_next_id c) = true ->
  exists w, find_all_from inl s c seeds = Ok w.
Proof. exact find_all_ok. Qed.
Print Assumptions C15_traversal_returns.

(* ... and what it returns is exactly the reachable structures, each once (shared with C04) *)
Theorem C15_result_exact : forall inl s c seeds w, find_all_from inl s c seeds = Ok w ->
  forall o, In o (returned w) <-> (reach inl s (c_heap c) seeds o /\ ~ null_in (c_heap c) o).
Proof. exact find_all_exact. Qed.
Print Assumptions C15_result_exact.

(* `reach` steps along Reach.succs; succs is exactly the inductively defined successor relation of ReachSpec.v (references,
   TOP-ranged features, list head/tail, FSArray elements, members of inlined FSArrays, heads of ALL nodes on the tail chain
   of an inlined FSList — also when that chain is cyclic) *)
Theorem C15_successors_declarative : forall inl s h o f l, hget h o = Some f -> obj_cands inl s h f = Ok l ->
  forall x, In x (refs_of l) <-> succ_rel inl s h o x.
Proof. exact succs_declarative. Qed.
Print Assumptions C15_successors_declarative.

(* after a traversal nothing is left to assign: traversing the resulting CAS again ends in the very same state *)
Theorem C15_second_traversal_identical : forall inl s c seeds w, 0 < c_next_id c -> find_all_from inl s c seeds = Ok w ->
  find_all_from inl s (cas_after c w) seeds = Ok w.
Proof. exact find_all_stable. Qed.
Print Assumptions C15_second_traversal_identical.

Theorem C15_result_each_once : forall inl s c seeds w, find_all_from inl s c seeds = Ok w ->
  NoDup (map fst (w_all w)) /\ NoDup (returned w).
Proof. exact find_all_each_once. Qed.
Print Assumptions C15_result_each_once.

(* regression evidence against the loop before ce2ede6 *)
Theorem C15_old_loop_exponential :
  map old_pops [1; 2; 3; 4; 5; 6; 7; 8; 9; 10]%nat = map Some [3; 7; 15; 31; 63; 127; 255; 511; 1023; 2047]%N.
Proof. exact old_loop_exponential. Qed.
Print Assumptions C15_old_loop_exponential.

Theorem C15_old_list_walk_diverges_refuted : forall fuel, list_walk_old fuel sL wL (VRef 1%N) = OutOfFuel.
Proof. exact list_walk_diverges_refuted. Qed.
Print Assumptions C15_old_list_walk_diverges_refuted.

(* without the node set the writer's walk runs out of every fuel on a one-node IntegerList whose tail is the node itself *)
Theorem C15_unguarded_list_collect_diverges_refuted : forall fuel, collect_unguarded fuel sI hI (VRef 1%N) = OutOfFuel.
Proof. exact collect_unguarded_diverges_refuted. Qed.
Print Assumptions C15_unguarded_list_collect_diverges_refuted.

(* non-vacuity of the list-walk theorems: a FloatList 1.5 -> 2.5 -> back to the first node held inline is refused, the
   same holder with the list ending is written, and the elements are the heads in order *)
Definition sPl : schema :=
  [mkTi "t.H" ["t.H"; "uima.cas.TOP"] [mkFd "items" "items" "uima.cas.FloatList" None false];
   mkTi "uima.cas.NonEmptyFloatList" ["uima.cas.NonEmptyFloatList"; "uima.cas.FloatList"; "uima.cas.ListBase"; "uima.cas.TOP"]
        [mkFd "head" "head" "uima.cas.Float" None false; mkFd "tail" "tail" "uima.cas.FloatList" None true];
   mkTi "uima.cas.EmptyFloatList" ["uima.cas.EmptyFloatList"; "uima.cas.FloatList"; "uima.cas.ListBase"; "uima.cas.TOP"] [];
   mkTi "uima.cas.TOP" ["uima.cas.TOP"] []].
Definition hPl (last_tail : oid) : heap :=
  [(1%N, mkFs "t.H" None [("items", VRef 2%N)]);
   (2%N, mkFs "uima.cas.NonEmptyFloatList" None [("head", VFlt "0x1.8000000000000p+0"); ("tail", VRef 3%N)]);
   (3%N, mkFs "uima.cas.NonEmptyFloatList" None [("head", VFlt "0x1.4000000000000p+1"); ("tail", VRef last_tail)]);
   (4%N, mkFs "uima.cas.EmptyFloatList" None [])].
Definition cPl (last_tail : oid) : cas := mkCas [mkView (mkSofa 1 1 "_InitialView" None None None None) [1%N]] (hPl last_tail) 2.
Example C15_list_collect_examples :
  cyclic_chain sPl (hPl 2%N) (VRef 2%N) /\ to_xmi_lists sPl (cPl 2%N) = Err EValue /\
  list_elems sPl (hPl 4%N) (VRef 2%N) = Ok [VFlt "0x1.8000000000000p+0"; VFlt "0x1.4000000000000p+1"] /\
  to_xmi_lists sPl (cPl 4%N) = Ok tt.
Proof.
  split.
  - exists 0%nat, 2%nat, 2%N. eexists. eexists. split; [lia|]. split; vm_compute; reflexivity.
  - repeat split; vm_compute; reflexivity.
Qed.

(* non-vacuity: a graph with a reference cycle, a self reference, an inline FSArray holding the same structure twice and
   a null, and an inline FSList whose tail chain is cyclic and whose first head was visited before — the premises hold,
   the traversal returns every structure once and assigns the ids 1..3 *)
Definition sEx : schema :=
  [mkTi "t.N" ["t.N"; "uima.cas.TOP"]
        [mkFd "a" "a" "t.N" None false; mkFd "arr" "arr" "uima.cas.FSArray" None false; mkFd "lst" "lst" "uima.cas.FSList" None false];
   mkTi "uima.cas.FSArray" ["uima.cas.FSArray"; "uima.cas.ArrayBase"; "uima.cas.TOP"] [mkFd "elements" "elements" "uima.cas.TOP" None true];
   mkTi "uima.cas.NonEmptyFSList" ["uima.cas.NonEmptyFSList"; "uima.cas.FSList"; "uima.cas.ListBase"; "uima.cas.TOP"]
        [mkFd "head" "head" "uima.cas.TOP" None true; mkFd "tail" "tail" "uima.cas.FSList" None true];
   mkTi "uima.cas.TOP" ["uima.cas.TOP"] []].
Definition hEx : heap :=
  [(1%N, mkFs "t.N" None [("a", VRef 2%N); ("arr", VRef 4%N); ("lst", VRef 5%N)]);
   (2%N, mkFs "t.N" None [("a", VRef 1%N)]);
   (3%N, mkFs "t.N" None [("a", VRef 3%N)]);
   (4%N, mkFs "uima.cas.FSArray" None [("elements", VList [VRef 3%N; VNone; VRef 3%N])]);
   (5%N, mkFs "uima.cas.NonEmptyFSList" None [("head", VRef 1%N); ("tail", VRef 6%N)]);
   (6%N, mkFs "uima.cas.NonEmptyFSList" None [("head", VNone); ("tail", VRef 5%N)])].
Definition cEx : cas := mkCas [mkView (mkSofa 1 1 "_InitialView" None None None None) [1%N]] hEx 1.

Example C15_premises_hold :
  wf_heapb false sEx hEx = true /\ wf_heapb true sEx hEx = true /\ seeds_liveb hEx (member_seeds cEx) = true /\
  ids_okb hEx 1 = true /\
  (exists w, find_all_fs false sEx cEx = Ok w /\ w_all w = [(1, 1%N); (2, 2%N); (3, 3%N)]) /\
  (exists w, find_all_fs true sEx cEx = Ok w /\ map snd (w_all w) = [1%N; 2%N; 4%N; 5%N; 3%N; 6%N]).
Proof.
  repeat split; try (vm_compute; reflexivity); eexists; split; vm_compute; reflexivity.
Qed.

(* ---- third wave: the walk over the subtypes of a type (Type.descendants: select, select_covered, create_feature) ----
   It follows the _children tables, which create_type fills and merge_typesystems rewrites when it re-parents a type.  On
   every type system satisfying the hierarchy invariant of C10 the walk returns with the fuel desc_fuel, hands out no type
   twice and hence at most as many types as there are: linear work, whatever the depth of the tree ... *)
Theorem C15_subtype_walk_linear : forall ts a, TS.WFh ts -> In a ts ->
  exists l, TS.descendants (TS.desc_fuel ts) ts (TS.t_name a) = Some l /\ NoDup l /\ (List.length l <= List.length ts)%nat.
Proof. exact ReachTypes.subtype_walk_linear. Qed.
Print Assumptions C15_subtype_walk_linear.

(* ... in particular on every type system merge_typesystems returns, whatever it re-parented on the way *)
Theorem C15_merged_subtype_walk_linear : forall inputs ts a, MergeProofs.all_WFh inputs -> Merge.merge inputs = Ok ts -> In a ts ->
  exists l, TS.descendants (TS.desc_fuel ts) ts (TS.t_name a) = Some l /\ NoDup l /\ (List.length l <= List.length ts)%nat.
Proof. exact ReachTypes.merged_subtype_walk_linear. Qed.
Print Assumptions C15_merged_subtype_walk_linear.

(* the invariant is needed: with ONE stale entry per level (a re-parented type still listed under its old supertype, the
   supertype attributes and everything else as declared) the walk from the root of a tree of depth k hands out
   3 * 2^k - 2 types, the tree has 2k + 1; with the tables as declared it hands out 2k + 1 and the invariant holds *)
Theorem C15_stale_child_walk_exponential :
  map (fun k => ReachTypes.walked (ReachTypes.ladder true k) (ReachTypes.tn 0)) [1; 2; 3; 4; 5; 6; 7; 8; 9; 10]%nat
  = map Some [4; 10; 22; 46; 94; 190; 382; 766; 1534; 3070]%nat.
Proof. exact ReachTypes.stale_child_walk_exponential. Qed.
Print Assumptions C15_stale_child_walk_exponential.

Example C15_subtype_walk_examples :
  forallb (fun k => TS.wfhb (ReachTypes.ladder false k)) [1; 2; 3; 4; 5; 6; 7; 8; 9; 10]%nat = true /\
  map (fun k => ReachTypes.walked (ReachTypes.ladder false k) (ReachTypes.tn 0)) [1; 2; 3; 4; 5; 6; 7; 8; 9; 10]%nat
  = map Some [3; 5; 7; 9; 11; 13; 15; 17; 19; 21]%nat.
Proof. exact ReachTypes.declared_children_walk_linear. Qed.

(* non-vacuity on collections inside collections (third wave): FSArrays 3 and 4 are reachable only through FSArrays, contain
   each other, 4 contains itself and the outermost array 2 again, 2 holds 3 twice and a null; 2 is entered through a shared
   feature, 3 also through an inline one.  The premises hold, every structure is returned once, the writer's walks return. *)
Definition sNa : schema :=
  [mkTi "t.H" ["t.H"; "uima.cas.TOP"]
        [mkFd "items" "items" "uima.cas.FSArray" (Some "uima.cas.TOP") true; mkFd "own" "own" "uima.cas.FSArray" None false];
   mkTi "uima.cas.FSArray" ["uima.cas.FSArray"; "uima.cas.ArrayBase"; "uima.cas.TOP"] [mkFd "elements" "elements" "uima.cas.TOP" None true];
   mkTi "uima.cas.TOP" ["uima.cas.TOP"] []].
Definition hNa : heap :=
  [(1%N, mkFs "t.H" None [("items", VRef 2%N)]);
   (2%N, mkFs "uima.cas.FSArray" None [("elements", VList [VRef 3%N; VNone; VRef 3%N])]);
   (3%N, mkFs "uima.cas.FSArray" None [("elements", VList [VRef 4%N])]);
   (4%N, mkFs "uima.cas.FSArray" None [("elements", VList [VRef 3%N; VRef 2%N; VNone; VRef 4%N])]);
   (5%N, mkFs "t.H" None [("own", VRef 3%N)])].
Definition cNa : cas := mkCas [mkView (mkSofa 1 1 "_InitialView" None None None None) [1%N; 5%N]] hNa 2.
Example C15_nested_arrays_example :
  wf_heapb false sNa hNa = true /\ wf_heapb true sNa hNa = true /\ seeds_liveb hNa (member_seeds cNa) = true /\
  ids_okb hNa 2 = true /\
  (exists w, find_all_fs false sNa cNa = Ok w /\ w_all w = [(2, 1%N); (3, 5%N); (4, 2%N); (5, 4%N); (6, 3%N)]) /\
  (exists w, find_all_fs true sNa cNa = Ok w /\ w_all w = [(2, 1%N); (3, 5%N); (4, 2%N); (5, 3%N); (6, 4%N)]) /\
  to_xmi_lists sNa cNa = Ok tt.
Proof.
  repeat split; try (vm_compute; reflexivity); eexists; split; vm_compute; reflexivity.
Qed.

(* ---- fourth wave: the walk UP the supertype attributes (Type.subsumes: TypeSystem.subsumes, typecheck, merge_typesystems
   itself; is_instance_of is the same walk written recursively).  merge_typesystems rewrites these attributes when it
   re-parents a type.  On every type system satisfying the hierarchy invariant the walk returns and decides `below` ... *)
Theorem C15_supertype_walk_ends : forall ts a b, TS.WFh ts -> In a ts -> In b ts ->
  exists r, TS.subsumes_ty ts a b = Ok r /\ (r = true <-> TS.below ts (TS.t_name a) (TS.t_name b)).
Proof. exact ReachTypes.supertype_walk_ends. Qed.
Print Assumptions C15_supertype_walk_ends.

(* ... in particular on every type system merge_typesystems returns: whatever versions of a tree are put together, the
   modelled merge either refuses them or hands out a tree again *)
Theorem C15_merged_supertype_walk_ends : forall inputs ts a b, MergeProofs.all_WFh inputs -> Merge.merge inputs = Ok ts ->
  In a ts -> In b ts ->
  exists r, TS.subsumes_ty ts a b = Ok r /\ (r = true <-> TS.below ts (TS.t_name a) (TS.t_name b)).
Proof. exact ReachTypes.merged_supertype_walk_ends. Qed.
Print Assumptions C15_merged_supertype_walk_ends.

(* the invariant is needed: t.A re-parented under its own descendant t.B leaves a ring, and the walk that asks whether the
   unrelated type t.C subsumes a type of the ring runs out of EVERY fuel *)
Theorem C15_ring_supertype_walk_diverges :
  forall k, TS.walks_up k ReachTypes.ring2 "t.C" "t.A" = None /\ TS.walks_up k ReachTypes.ring2 "t.C" "t.B" = None.
Proof. exact ReachTypes.ring_supertype_walk_diverges. Qed.
Print Assumptions C15_ring_supertype_walk_diverges.

Example C15_ring_is_not_a_tree : TS.wfhb ReachTypes.ring2 = false.
Proof. exact ReachTypes.ring_not_WFh. Qed.

(* ---- fourth wave: the search for a free namespace prefix of the XMI writer (one `while` loop per package met).  For every
   table of prefixes, every state of the counters and every raw prefix it returns within |table| + 2 rounds, with a prefix
   that is not in the table: the raw prefix itself or the raw prefix followed by a number ... *)
Theorem C15_free_prefix_found : forall ns d raw,
  exists p d', ReachPrefix.free_prefix ns d raw = Ok (p, d') /\ memb p ns = false /\
               (p = raw \/ exists j, p = String.append raw (ReachPrefix.show j)).
Proof. exact ReachPrefixProofs.free_prefix_found. Qed.
Print Assumptions C15_free_prefix_found.

(* ... so the prefix assignments of a whole serialisation return, whatever the packages are called and in whatever order
   their structures are written *)
Theorem C15_prefix_assignment_terminates : forall elems, ReachPrefix.assign_all ReachPrefix.ns_init elems <> OutOfFuel.
Proof. exact ReachPrefixProofs.assign_all_terminates. Qed.
Print Assumptions C15_prefix_assignment_terminates.

(* the loop ends because the counter it reads is the counter it increments: reading the suffix from the counter of the
   candidate just tried proposes type0 for ever once the packages ...type, ...type0, ...type have been met *)
Theorem C15_stuck_prefix_search_diverges :
  forall f, ReachPrefix.search_stuck f ["type"; "type0"] [] "type" "type" = OutOfFuel.
Proof. exact ReachPrefixProofs.stuck_search_diverges. Qed.
Print Assumptions C15_stuck_prefix_search_diverges.

(* non-vacuity: two packages ending in `type`, one called `type0` written between them, an array of uima.cas and a package
   called `cas0`: type, type0, type1; cas0 goes to the built-in url (cas stands for it already), the package gets cas00 *)
Example C15_prefix_assignment_example :
  option_map ReachPrefix.ns_urls
    (match ReachPrefix.assign_all ReachPrefix.ns_init
             [("type", "http:///p/v1/type.ecore"); ("type0", "http:///p/type0.ecore"); ("type", "http:///p/v2/type.ecore");
              ("cas", "http:///uima/cas.ecore"); ("cas0", "http:///q/cas0.ecore"); ("type", "http:///p/v1/type.ecore")]
     with Ok st => Some st | _ => None end)
  = Some [("http:///p/v1/type.ecore", "type"); ("http:///p/type0.ecore", "type0"); ("http:///p/v2/type.ecore", "type1");
          ("http:///uima/cas.ecore", "cas0"); ("http:///q/cas0.ecore", "cas00")].
Proof. vm_compute. reflexivity. Qed.
