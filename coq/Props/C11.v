(* Props/C11.v — property C11: effective features = own + all ancestors', whatever the order of creation.
   Only the property theorems (closed by `exact`), Print Assumptions and non-vacuity examples.
   Model: TS.v.  WF ts = WFh ts (hierarchy, C10) /\ WFf ts (features); boolean twin wfb.
   Two-form model (DESIGN section 9): the theorems speak about the FUNCTIONAL form of Type._add_feature (`add_feature`,
   used by `step` / `run_ts`); the MECHANISM form (`add_rec`: the recursion through _children as written, with its early
   return, used by `run_ts_mech`) is proved equal to it on every well-formed type system (C11_mechanism_agrees,
   C11_histories_mechanism_agree) and is also evaluated beside it in every correspondence case. *)
From Cassis Require Import Base TS TSProofs.

(* ---- the invariant at every point of every history of create_type / create_feature / instantiate, in any order ---- *)
Theorem C11_init_WF : WF init_ts.
Proof. exact init_WF. Qed.
Print Assumptions C11_init_WF.

Theorem C11_reachable_WF : forall ops : list tsop, WF (final_ts ops init_ts).
Proof. exact reachable_WF. Qed.
Print Assumptions C11_reachable_WF.

Theorem C11_history_preserves_WF : forall (ops : list tsop) (ts : tsys), WF ts -> WF (final_ts ops ts).
Proof. exact run_WF. Qed.
Print Assumptions C11_history_preserves_WF.

Theorem C11_wf_reflect : forall ts, wfb ts = true <-> WF ts.
Proof. exact wfb_reflect. Qed.
Print Assumptions C11_wf_reflect.

(* ---- the code's recursion through _children computes the functional form: same new state, same no-op, same refusal
   (in particular no exception is raised half way through the propagation) ---- *)
Theorem C11_mechanism_agrees : forall ts dom f, WFh ts -> WFf ts ->
  add_feature_mech ts dom f =
  match add_feature ts dom f with Added ts' => Ok ts' | Unchanged => Ok ts | Raises e => Err e | Fuel => OutOfFuel end.
Proof. exact add_feature_mech_agrees. Qed.
Print Assumptions C11_mechanism_agrees.

Theorem C11_histories_mechanism_agree : forall ops ts, WF ts -> run_ts_mech ops ts = run_ts ops ts.
Proof. exact run_mech_agrees. Qed.
Print Assumptions C11_histories_mechanism_agree.

(* ---- first sentence: a type's feature set is its own features plus those of all its ancestors ----
   every listed feature is (the object of) an own feature of the type or of an ancestor; every own feature of the type or
   of an ancestor is listed up to Feature.__eq__; no name is listed twice *)
Theorem C11_effective_features_spec : forall ts t, WFh ts -> WFf ts -> In t ts ->
  (forall f, In f (all_features t) -> exists a ta, below ts a (t_name t) /\ find_ty ts a = Some ta /\ In f (t_own ta)) /\
  (forall a ta g, below ts a (t_name t) -> find_ty ts a = Some ta -> In g (t_own ta) ->
     exists f, In f (all_features t) /\ feat_eqb f g = true) /\
  NoDup (feature_names t).
Proof. exact effective_features_spec. Qed.
Print Assumptions C11_effective_features_spec.

(* found by name *)
Theorem C11_get_feature_spec : forall ts t n, WFh ts -> WFf ts -> In t ts ->
  (forall f, get_feature t n = Some f -> f_name f = n /\ In f (t_own t ++ t_inh t) /\
             exists y, In y (all_features t) /\ feat_eqb y f = true) /\
  (get_feature t n = None <-> ~ In n (feature_names t)).
Proof. exact get_feature_spec. Qed.
Print Assumptions C11_get_feature_spec.

(* no type ever exposes two definitions under one feature name *)
Theorem C11_no_two_definitions : forall ts t, WFf ts -> In t ts -> NoDup (feature_names t).
Proof. exact no_two_definitions. Qed.
Print Assumptions C11_no_two_definitions.

(* accepted by the constructor, and no other keyword: also when the instance class was built before the feature was
   added (the cached class is dropped at every rebuild; WF says a cached class is never stale) *)
Theorem C11_ctor_accepts_exactly_all_features : forall ts n t kw, WFh ts -> WFf ts -> get_type ts n = Ok t ->
  ctor_accepts ts n kw = Ok (memb kw (feature_names t)).
Proof. exact ctor_accepts_exactly_all_features. Qed.
Print Assumptions C11_ctor_accepts_exactly_all_features.

Theorem C11_instantiate_spec : forall ts n t, WFh ts -> WFf ts -> get_type ts n = Ok t ->
  exists ts', instantiate ts n = Ok (ts', feature_names t) /\ WFf ts'.
Proof. exact instantiate_spec. Qed.
Print Assumptions C11_instantiate_spec.

(* ---- redefinitions ---- *)
(* identically (Feature.__eq__): nothing is added *)
Theorem C11_identical_redefinition_noop : forall ts dom t f g, WFh ts -> WFf ts -> find_ty ts dom = Some t ->
  In g (t_own t ++ t_inh t) -> f_name g = f_name f -> feat_eqb g f = true -> add_feature ts dom f = Unchanged.
Proof. exact identical_redefinition_noop. Qed.
Print Assumptions C11_identical_redefinition_noop.

(* differently: ValueError whether the ancestor ... *)
Theorem C11_conflict_raises_ancestor_first : forall ts d td f g, WFh ts -> WFf ts -> find_ty ts d = Some td ->
  In f (t_own td ++ t_inh td) -> f_name g = f_name f -> feat_eqb f g = false -> add_feature ts d g = Raises EValue.
Proof. exact conflict_ancestor_first. Qed.
Print Assumptions C11_conflict_raises_ancestor_first.

(* ... or the descendant was defined first *)
Theorem C11_conflict_raises_descendant_first : forall ts dom t d g f, WFh ts -> WFf ts -> find_ty ts dom = Some t ->
  In d ts -> below ts dom (t_name d) -> In g (t_own d) -> f_name g = f_name f -> feat_eqb g f = false ->
  add_feature ts dom f = Raises EValue.
Proof. exact conflict_descendant_first. Qed.
Print Assumptions C11_conflict_raises_descendant_first.

(* a different range is a different definition *)
Theorem C11_range_differs_is_conflict : forall f g, f_range f <> f_range g -> feat_eqb f g = false.
Proof. exact range_differs_not_eq. Qed.
Print Assumptions C11_range_differs_is_conflict.

(* and the refused operation leaves the type system unchanged *)
Theorem C11_conflict_leaves_unchanged : forall ts dom n r e m d f, make_feature ts dom n r e m d = Ok f ->
  add_feature ts (f_dom f) f = Raises EValue -> step ts (OCreateFeature dom n r e m d) = (ts, RErr EValue).
Proof. exact create_feature_conflict_step. Qed.
Print Assumptions C11_conflict_leaves_unchanged.

Theorem C11_refused_unchanged : forall ts o e, snd (step ts o) = RErr e -> fst (step ts o) = ts.
Proof. exact step_refused_unchanged. Qed.
Print Assumptions C11_refused_unchanged.

(* ---- non-vacuity: descendant first / ancestor first, identical redefinition, feature added after a subtype and an
   instance exist, a type created afterwards ---- *)
Example C11_premises_hold :
  let ops := [OCreateType "a.A" "uima.cas.TOP" None; OCreateType "a.B" "a.A" None; OCreateType "a.C" "a.B" None;
              OInstantiate "a.C";
              OCreateFeature "a.C" "f" "uima.cas.String" None None None;       (* descendant first *)
              OCreateFeature "a.A" "f" "uima.cas.Integer" None None None;      (* refused: a.C defines f differently *)
              OCreateFeature "a.A" "g" "uima.cas.Integer" None None None;      (* reaches B and C, whose class was built before *)
              OCreateFeature "a.B" "g" "uima.cas.String" None None None;       (* refused: ancestor first *)
              OCreateFeature "a.B" "g" "uima.cas.Integer" None None None;      (* identical: no-op *)
              OCreateType "a.E" "a.C" None] in                                  (* created afterwards: inherits f and g *)
  let ts := final_ts ops init_ts in
  wfb ts = true /\
  snd (run_ts ops init_ts) = [ROk; ROk; ROk; ROk; ROk; RErr EValue; ROk; RErr EValue; ROk; ROk] /\
  fst (run_ts_mech ops init_ts) = ts /\
  map (fun n => option_map feature_names (find_ty ts n)) ["a.A"; "a.B"; "a.C"; "a.E"]
    = [Some ["g"]; Some ["g"]; Some ["f"; "g"]; Some ["f"; "g"]] /\
  ctor_accepts ts "a.C" "g" = Ok true /\ ctor_accepts ts "a.C" "nope" = Ok false.
Proof. vm_compute. repeat split. Qed.

(* ---- non-vacuity on the root: "any type" includes the built-in ancestors.  A feature on uima.cas.TOP reaches the types
   that exist (built-in ones too), a type created directly below the root afterwards and its descendants; a conflicting
   definition below is refused, one a built-in descendant holds already refuses the root's (descendant first) ---- *)
Example C11_premises_hold_root :
  let ops := [OCreateType "r.A" "uima.cas.TOP" None;
              OCreateFeature "uima.cas.TOP" "f" "uima.cas.String" None None None;
              OCreateType "r.B" "uima.cas.TOP" None; OCreateType "r.C" "r.B" None;
              OCreateFeature "r.C" "f" "uima.cas.Integer" None None None;           (* refused: ancestor (the root) first *)
              OCreateFeature "r.B" "f" "uima.cas.String" None None None;            (* identical: no-op *)
              OCreateFeature "uima.cas.TOP" "begin" "uima.cas.String" None None None (* refused: Annotation.begin is Integer *)] in
  let ts := final_ts ops init_ts in
  wfb ts = true /\
  snd (run_ts ops init_ts) = [ROk; ROk; ROk; ROk; RErr EValue; ROk; RErr EValue] /\
  fst (run_ts_mech ops init_ts) = ts /\
  map (fun n => option_map feature_names (find_ty ts n)) ["uima.cas.TOP"; "r.A"; "r.B"; "r.C"; "uima.cas.Integer"]
    = [Some ["f"]; Some ["f"]; Some ["f"]; Some ["f"]; Some ["f"]] /\
  ctor_accepts ts "r.C" "f" = Ok true /\ ctor_accepts ts "r.C" "begin" = Ok false.
Proof. vm_compute. repeat split. Qed.

(* ================================================================================================================
   Bridge (coq/Bridge.v, BridgeProofs.v): the feature half of the flattened view `flatten ts : schema` handed to the
   heap-level models.  For a registered type n, sch_feats (flatten ts) n is Type.all_features field by field (python
   name, document name, range, element type, bool(multipleReferencesAllowed)), in that order; hence every entry is an own
   feature of n or of an ancestor, every such own feature is represented (same name and range, equal up to
   Feature.__eq__), one entry per python name; looking a name up in it is Type.get_feature. *)
From Cassis Require Import Schema Bridge BridgeProofs.

Theorem C11_flatten_features : forall ts n t, WFh ts -> WFf ts -> find_ty ts n = Some t ->
  sch_feats (flatten ts) n = map fdecl_of (all_features t) /\
  (forall fd, In fd (sch_feats (flatten ts) n) ->
     exists f a ta, fd = fdecl_of f /\ below ts a n /\ find_ty ts a = Some ta /\ In f (t_own ta)) /\
  (forall a ta g, below ts a n -> find_ty ts a = Some ta -> In g (t_own ta) ->
     exists f, In (fdecl_of f) (sch_feats (flatten ts) n) /\ feat_eqb f g = true /\
               fd_name (fdecl_of f) = f_name g /\ fd_range (fdecl_of f) = f_range g) /\
  NoDup (map fd_name (sch_feats (flatten ts) n)) /\
  (forall x, fd_find (sch_feats (flatten ts) n) x = option_map fdecl_of (get_feature t x)).
Proof. exact flatten_features. Qed.
Print Assumptions C11_flatten_features.

Theorem C11_flatten_features_reachable : forall ops n t, let ts := final_ts ops init_ts in find_ty ts n = Some t ->
  sch_feats (flatten ts) n = map fdecl_of (all_features t) /\
  (forall fd, In fd (sch_feats (flatten ts) n) ->
     exists f a ta, fd = fdecl_of f /\ below ts a n /\ find_ty ts a = Some ta /\ In f (t_own ta)) /\
  (forall a ta g, below ts a n -> find_ty ts a = Some ta -> In g (t_own ta) ->
     exists f, In (fdecl_of f) (sch_feats (flatten ts) n) /\ feat_eqb f g = true /\
               fd_name (fdecl_of f) = f_name g /\ fd_range (fdecl_of f) = f_range g) /\
  NoDup (map fd_name (sch_feats (flatten ts) n)) /\
  (forall x, fd_find (sch_feats (flatten ts) n) x = option_map fdecl_of (get_feature t x)).
Proof. exact flatten_features_reachable. Qed.
Print Assumptions C11_flatten_features_reachable.

(* the names: in documents the name given to create_feature, in Python self_ / type_ for the reserved words *)
Theorem C11_flatten_feature_names : forall ts dom name range elem multi desc f,
  make_feature ts dom name range elem multi desc = Ok f ->
  fd_xname (fdecl_of f) = name /\
  fd_name (fdecl_of f) = (if reserved_name name then (name ++ "_")%string else name) /\
  fd_multi (fdecl_of f) = match multi with Some true => true | _ => false end.
Proof. exact make_feature_names. Qed.
Print Assumptions C11_flatten_feature_names.

Example C11_flatten_computes :
  let ops := [OCreateType "a.A" "uima.tcas.Annotation" None; OCreateFeature "a.A" "self" "uima.cas.Integer" None None None;
              OCreateType "a.B" "a.A" None; OCreateFeature "a.B" "g" "uima.cas.FSArray" (Some "a.A") (Some true) None;
              OCreateFeature "a.A" "h" "uima.cas.String" None None None] in
  let ts := final_ts ops init_ts in
  sch_feats (flatten ts) "a.B" =
    [mkFd "g" "g" "uima.cas.FSArray" (Some "a.A") true; mkFd "self_" "self" "uima.cas.Integer" None false;
     mkFd "begin" "begin" "uima.cas.Integer" None false; mkFd "end" "end" "uima.cas.Integer" None false;
     mkFd "sofa" "sofa" "uima.cas.Sofa" None false; mkFd "h" "h" "uima.cas.String" None false].
Proof. vm_compute. reflexivity. Qed.
