(* Props/C02.v — property C02: JSON save/load is lossless and carries a sufficient type system.
   Only the property theorems (closed by `exact`), Print Assumptions and non-vacuity examples.

   Reading guide.  `denote_json L s d` (JsonDoc.v) is the declarative meaning of a JSON-CAS document; `save_json` /
   `load_json` (Json.v) model cassis/json.py; `canon_json s c` is "the same CAS" (sofa data, view membership, every
   structure under its id with every value, references as ids).  L is the lexical layer the format borrows (UTF-8 for
   sofa text, base64 for byte arrays); `lex_ok L` is its contract, proved for the concrete codecs (C02_std_lex_ok).
   Premises are booleans evaluated on every generated case (CorrC02.premises): wf_jsonb (distinct view names and sofa ids,
   encodable texts, every structure found is typed, has plain distinct feature names, arrays hold lists, annotations carry
   a sofa of this CAS and offsets inside its text), 0 < c_next_id (the id generator hands out positive ids; replaces the
   former premise stableb, now a theorem: ReachSpec.find_all_fs_stable), ids_distinctb, refs_wfb, typed_jsonb (JsonWf.v),
   initial_view_in, same_view_orderb.  ids_distinctb speaks about the structures the document lists, each once: the sofas, the
   byte arrays holding sofa data (an array may serve several sofas and may be indexed or referenced as well: d1bc860 writes it
   once, in front of the first sofa referring to it) and what the traversal finds besides; doc_ok_json (the written document is well-formed: a boolean on the document alone) is a
   premise of the older `_partial` statements only and a theorem since Round 3 (C02_json_doc_ok). *)
From Cassis Require Import Base Heap Schema Canon Reach JsonDoc Json JsonProofs JsonProofs2 JsonLoadProofs JsonLex CorrC02.
From Cassis Require Import JsonWf JsonDocOk JsonRoundtrip JsonResave.
Open Scope Z_scope.

(* ---- per-kind: decoding what the writer encodes gives the canonical value ---- *)

Theorem C02_special_float_roundtrip : forall x sp, special_flt x = Some sp -> den_special (JStr sp) = Ok (CFlt x).
Proof. exact special_flt_spec. Qed.
Print Assumptions C02_special_float_roundtrip.

(* %ELEMENTS of every array kind: byte arrays through base64, float arrays with special-value strings, FSArray as ids
   and nulls, the other primitive arrays as JSON values *)
Theorem C02_elements_roundtrip : forall L c t l j, lex_ok L -> l <> [] ->
  (String.eqb t T_FLOAT_ARRAY || String.eqb t T_DOUBLE_ARRAY = true ->
     forallb (fun v => match v with VFlt _ => true | _ => false end) l = true) ->
  enc_elements L c t l = Ok j ->
  exists els, den_elements L t (Some j) = Ok els /\ cv_json c (VList l) = Ok (CColl "" els).
Proof. exact elements_roundtrip. Qed.
Print Assumptions C02_elements_roundtrip.

(* one feature: plain key for primitives, '#' key for special floats, '@' key for references *)
Theorem C02_feature_roundtrip : forall c s fd v1 ms, is_vnone v1 = false -> enc_value c s fd v1 = Ok ms ->
  keyset_only ms (fd_xname fd) /\ exists w, cv_atom c v1 = Ok w /\ den_feature ms fd = Ok (fd_xname fd, w).
Proof. exact enc_value_den. Qed.
Print Assumptions C02_feature_roundtrip.

(* one feature structure (any type, arrays included, offsets back to code points through the annotation's own sofa) *)
Theorem C02_structure_roundtrip : forall L s c f i m stab,
  lex_ok L -> o_id f = Some i -> obj_okb s c f = true -> stab_ok c stab -> enc_fs L s c f = Ok m ->
  exists cf, canon_fs s c f = Ok cf /\ den_fs L s stab (i, m) = Ok (i, cf).
Proof. exact den_fs_written. Qed.
Print Assumptions C02_structure_roundtrip.

(* one sofa with its view: text / mime / URI / byte array reference / members *)
Theorem C02_sofa_roundtrip : forall L c sf ms views ids,
  lex_ok L -> (match s_text sf with Some t => text_okb t = true | None => True end) ->
  enc_sofa L c sf = Ok ms ->
  alookup (s_name sf) views = Some (JObj [(K_SOFA, JInt (s_xid sf)); (K_MEMBERS, JArr (map JInt (zsort ids)))]) ->
  exists arr, (match s_arr sf with None => Ok None | Some o => ref_id c (VRef o) end) = Ok arr /\
  den_sofa L views (s_xid sf, ms) =
    Ok (mkCsofa (s_xid sf) (s_num sf) (s_name sf) (s_text sf) (s_mime sf) (s_uri sf) arr (zsort ids)).
Proof. exact den_sofa_written. Qed.
Print Assumptions C02_sofa_roundtrip.

(* ---- the document: for every CAS, every mode, the whole writer mechanism (views loop with id assignment to sofa byte
   arrays, traversal, per-kind encoders, %TYPES) ---- *)
Theorem C02_denote_save_json : forall L s mode c d c',
  lex_ok L -> save_json L s mode c = Ok (d, c') -> wf_jsonb s c' = true -> 0 < c_next_id c ->
  denote_json L s d = canon_json s c'.
Proof. exact denote_save_json. Qed.
Print Assumptions C02_denote_save_json.

(* shared structures stay shared: a collection is a reference in JSON; whoever holds the object a denotes the id i, the
   id i files exactly a, and a is filed once *)
Theorem C02_shared_stays_shared : forall s c w a fa i,
  find_all_fs true s c = Ok w -> In (i, a) (w_all w) -> hget (c_heap c) a = Some fa -> o_id fa = Some i ->
  cv_json c (VRef a) = Ok (CRef i) /\ (forall o, In (i, o) (w_all w) -> o = a) /\ (forall j, In (j, a) (w_all w) -> j = i).
Proof. exact shared_stays_shared. Qed.
Print Assumptions C02_shared_stays_shared.

(* ---- the embedded type system ---- *)

(* transitive_closure (MINIMAL): contains the seeds, only known non-predefined types, and is closed under supertype,
   feature range and element type of every effective feature *)
Theorem C02_closure_closed : forall s fuel seeds r, tclosure fuel s [] seeds = Ok r ->
  closed_under_refs s r /\
  (forall t, In t seeds -> is_predefined t = true \/ In t r) /\
  (forall t, In t r -> is_predefined t = false /\ sch_find s t <> None).
Proof. exact closure_closed. Qed.
Print Assumptions C02_closure_closed.

(* what _serialize_feature writes and _parse_features reads back is the original declaration ("X[]" ranges included) *)
Theorem C02_declaration_roundtrip : forall fd, fd_okb fd = true -> jdecl_of (jfeat_of fd) = norm_fd fd.
Proof. exact jdecl_roundtrip. Qed.
Print Assumptions C02_declaration_roundtrip.

Theorem C02_embedded_ts_sufficient_minimal : forall s used decls,
  schema_okb s = true -> ser_types s MMinimal used = Ok [(K_TYPES, JObj decls)] ->
  exists names,
    (forall t, In t used -> is_predefined t = true \/ In t names) /\
    closed_under_refs s names /\
    (forall t, In t names -> exists ti, sch_find s t = Some ti /\ (docann_default s ti = true \/ declared s decls t)).
Proof. exact embedded_ts_sufficient_minimal. Qed.
Print Assumptions C02_embedded_ts_sufficient_minimal.

Theorem C02_embedded_ts_sufficient_full : forall s used decls,
  schema_okb s = true -> ser_types s MFull used = Ok [(K_TYPES, JObj decls)] ->
  forall t ti, sch_find s t = Some ti -> is_predefined t = false -> docann_default s ti = true \/ declared s decls t.
Proof. exact embedded_ts_sufficient_full. Qed.
Print Assumptions C02_embedded_ts_sufficient_full.

(* regression (c9a01e4): with the old rule an extended DocumentAnnotation that the document uses was not declared *)
Theorem C02_old_docann_skip_refuted :
  exists s used decls ti, schema_okb s = true /\ ser_types_old s MFull used = Ok [(K_TYPES, JObj decls)] /\
    In T_DOCANN used /\ sch_find s T_DOCANN = Some ti /\ is_predefined T_DOCANN = false /\ docann_default s ti = false /\
    alookup T_DOCANN decls = None.
Proof. exact old_docann_skip_refuted. Qed.
Print Assumptions C02_old_docann_skip_refuted.

(* ---- round trip and re-serialisation ----
   Full statements (DESIGN.md section 5, C02):
     json_roundtrip     : save_json L s mode c = Ok (d, c') -> wf.. -> load_json L s d = canon_json s c'
     json_resave_equal  : the document written from the loaded CAS equals d as a JSON value modulo member order
   Rounds 1-2 proved: the reader mechanism computes the declarative reading on every well-formed document
   (C02_load_json_is_denotation, all presentations, all orders), hence the round trip for every written document that is
   well-formed (C02_json_roundtrip_partial, premise doc_ok_json d) and equality of the denotations of two re-serialisations
   (C02_json_resave_equal_partial).  Both `_partial` theorems are kept below as they were; Round 3 (further down) proves the full
   statements: C02_json_doc_ok discharges doc_ok_json, C02_json_roundtrip has no premise about the document, and
   C02_json_resave_equal is equality of the JSON values. *)
Theorem C02_load_json_is_denotation : forall L s d cc,
  doc_ok_json L s d = true -> denote_json L s d = Ok cc -> load_json L s d = Ok (with_initial_view cc).
Proof. exact load_json_is_denotation. Qed.
Print Assumptions C02_load_json_is_denotation.

Theorem C02_json_roundtrip_partial : forall L s mode c d c' cc,
  lex_ok L -> save_json L s mode c = Ok (d, c') -> wf_jsonb s c' = true -> 0 < c_next_id c ->
  doc_ok_json L s d = true -> initial_view_in c' = true -> canon_json s c' = Ok cc ->
  load_json L s d = Ok cc.
Proof. exact json_roundtrip. Qed.
Print Assumptions C02_json_roundtrip_partial.

(* Round 3: json_doc_ok and json_roundtrip at full strength.  The written document is well-formed for every CAS whose state
   after the save satisfies the boolean premises wf_jsonb, ids_distinctb, refs_wfb (no id 0, arrays = ArrayBase subtypes, `sofa`
   slots hold sofas) and typed_jsonb (JsonWf.v: ids positive, sofaNums distinct, a view indexes a structure once and a member's
   `sofa` is that view's sofa, slots hold values of the kind of their range / live references / sofas of this CAS). *)
Theorem C02_json_doc_ok : forall L s mode c d c',
  lex_ok L -> save_json L s mode c = Ok (d, c') -> wf_jsonb s c' = true -> 0 < c_next_id c ->
  ids_distinctb s c' = true -> refs_wfb s c' = true -> typed_jsonb s c' = true -> doc_ok_json L s d = true.
Proof. exact doc_ok_save_json. Qed.
Print Assumptions C02_json_doc_ok.

(* the canonical content is defined: for every well-formed typed CAS, and (without typed_jsonb) for the CAS a successful
   save leaves behind, where it is what the document denotes *)
Theorem C02_canon_json_total : forall s c, wf_jsonb s c = true -> typed_jsonb s c = true -> exists cc, canon_json s c = Ok cc.
Proof. exact canon_json_total. Qed.
Print Assumptions C02_canon_json_total.
Theorem C02_canon_json_after_save : forall L s mode c d c',
  lex_ok L -> save_json L s mode c = Ok (d, c') -> wf_jsonb s c' = true -> 0 < c_next_id c ->
  exists cc, canon_json s c' = Ok cc /\ denote_json L s d = Ok cc.
Proof. exact canon_json_after_save. Qed.
Print Assumptions C02_canon_json_after_save.

(* json_roundtrip, full statement: no premise about the document, about the reader, or about the definedness of the
   canonical content is left; initial_view_in: the CAS has the view _InitialView (every cassis CAS has) *)
Theorem C02_json_roundtrip : forall L s mode c d c',
  lex_ok L -> save_json L s mode c = Ok (d, c') ->
  wf_jsonb s c' = true -> ids_distinctb s c' = true -> refs_wfb s c' = true -> typed_jsonb s c' = true -> 0 < c_next_id c ->
  initial_view_in c' = true ->
  exists cc, canon_json s c' = Ok cc /\ load_json L s d = Ok cc.
Proof. exact json_roundtrip_wf. Qed.
Print Assumptions C02_json_roundtrip.

(* D59 / D60: a byte array that holds the data of a sofa -- of several sofas, indexed in a view, referenced by a feature -- is one
   structure.  The writer lists it once (C02_json_doc_ok above demands every %ID once; C04_json_entries says where), the
   reader makes ONE object per entry that is not a sofa, also for the array it parses ahead of its turn for a sofa: `load_made`
   is the list of objects made, by the id they were made under; every holder of an id takes its object from the id-keyed dict *)
Theorem C02_load_one_object_per_entry : forall L s d cc es,
  doc_ok_json L s d = true -> denote_json L s d = Ok cc -> fs_entries d = Ok es ->
  exists made, load_made L s d = Ok made /\ NoDup made /\ Permutation.Permutation made (map fst (filter not_sofa es)).
Proof. exact load_json_one_object_per_entry. Qed.
Print Assumptions C02_load_one_object_per_entry.
Theorem C02_json_roundtrip_objects : forall L s mode c d c' es,
  lex_ok L -> save_json L s mode c = Ok (d, c') ->
  wf_jsonb s c' = true -> ids_distinctb s c' = true -> refs_wfb s c' = true -> typed_jsonb s c' = true -> 0 < c_next_id c ->
  fs_entries d = Ok es ->
  exists made, load_made L s d = Ok made /\ NoDup made /\ Permutation.Permutation made (map fst (filter not_sofa es)).
Proof. exact json_roundtrip_objects. Qed.
Print Assumptions C02_json_roundtrip_objects.

(* regression (d1bc860): the old views loop / traversal loop wrote a shared, indexed sofa byte array three times under one %ID *)
Theorem C02_old_writer_lists_array_again_refuted :
  exists s c d c', save_json_old std_lex s MNone c = Ok (d, c') /\
    wf_jsonb s c' = true /\ ids_distinctb s c' = true /\ refs_wfb s c' = true /\ typed_jsonb s c' = true /\ 0 < c_next_id c /\
    (match fs_entries d with Ok es => map fst es | _ => [] end) = [32; 1; 32; 2; 40; 3; 32] /\
    doc_ids_distinctb d = false /\ doc_ok_json std_lex s d = false.
Proof. exact old_writer_lists_array_again_refuted. Qed.
Print Assumptions C02_old_writer_lists_array_again_refuted.
(* regression (d94ad6a): the old second pass made a second object for an array fetched ahead -- sharing lost, content by id equal *)
Theorem C02_old_reader_second_object_refuted :
  exists s d, doc_ok_json std_lex s d = true /\
    load_made_old std_lex s d = Ok [32; 40; 32; 40] /\ load_made std_lex s d = Ok [32; 40] /\
    load_json_old std_lex s d = load_json std_lex s d.
Proof. exact old_reader_second_object_refuted. Qed.
Print Assumptions C02_old_reader_second_object_refuted.

Theorem C02_std_lex_ok : lex_ok std_lex.
Proof. exact std_lex_ok. Qed.
Print Assumptions C02_std_lex_ok.

Theorem C02_json_resave_equal_partial : forall L s m1 m2 c1 d1 c1' c2 d2 c2',
  lex_ok L ->
  save_json L s m1 c1 = Ok (d1, c1') -> wf_jsonb s c1' = true -> 0 < c_next_id c1 ->
  save_json L s m2 c2 = Ok (d2, c2') -> wf_jsonb s c2' = true -> 0 < c_next_id c2 ->
  canon_json s c1' = canon_json s c2' -> denote_json L s d1 = denote_json L s d2.
Proof. exact json_resave_same_denotation. Qed.
Print Assumptions C02_json_resave_equal_partial.

(* Round 3: json_resave_equal at the level of JSON values.  The writer's document is a function of the canonical content, of
   the order of the views and of (schema, mode): `doc_of_canon` (JsonResave.v) rebuilds it from the canonical content — every
   structure's members from its canonical entry (encc_fs: offsets through the converter of the annotation's own sofa, '#' keys
   for special floats, '@' keys for references, base64 byte arrays, no %ELEMENTS for empty arrays, null features omitted), the
   sofa and view entries from the csofa, %TYPES from the types of the structures found in id order. *)
Theorem C02_save_json_canon : forall L s mode c d c' cc,
  lex_ok L -> save_json L s mode c = Ok (d, c') -> wf_jsonb s c' = true -> 0 < c_next_id c ->
  ids_distinctb s c' = true -> refs_wfb s c' = true -> canon_json s c' = Ok cc ->
  doc_of_canon L s mode (map (fun v => s_name (v_sofa v)) (c_views c')) cc = Ok d.
Proof. exact save_json_canon. Qed.
Print Assumptions C02_save_json_canon.

(* Full statement: two CASes with the same canonical content (the original after its save and the loaded one after its save:
   the reader creates the views in document order, i.e. in the writer's order), saved in the same mode, give the same JSON
   value — here even the same document, member order included; json_equiv is equality modulo member order *)
Theorem C02_json_resave_equal : forall L s mode c1 d1 c1' c2 d2 c2',
  lex_ok L ->
  save_json L s mode c1 = Ok (d1, c1') -> wf_jsonb s c1' = true -> ids_distinctb s c1' = true -> refs_wfb s c1' = true -> 0 < c_next_id c1 ->
  save_json L s mode c2 = Ok (d2, c2') -> wf_jsonb s c2' = true -> ids_distinctb s c2' = true -> refs_wfb s c2' = true -> 0 < c_next_id c2 ->
  canon_json s c1' = canon_json s c2' -> same_view_orderb c1' c2' = true ->
  d1 = d2 /\ jcanon d1 = jcanon d2.
Proof. exact json_resave_equal. Qed.
Print Assumptions C02_json_resave_equal.
Theorem C02_json_resave_equiv : forall L s mode c1 d1 c1' c2 d2 c2',
  lex_ok L ->
  save_json L s mode c1 = Ok (d1, c1') -> wf_jsonb s c1' = true -> ids_distinctb s c1' = true -> refs_wfb s c1' = true -> 0 < c_next_id c1 ->
  save_json L s mode c2 = Ok (d2, c2') -> wf_jsonb s c2' = true -> ids_distinctb s c2' = true -> refs_wfb s c2' = true -> 0 < c_next_id c2 ->
  canon_json s c1' = canon_json s c2' -> same_view_orderb c1' c2' = true ->
  json_equiv d1 d2 = true.
Proof. exact json_resave_equiv. Qed.
Print Assumptions C02_json_resave_equiv.

(* When the views of the two CASes are in different orders the documents are NOT the same JSON value (%FEATURE_STRUCTURES is an
   array: per view its byte array and its sofa, in view order).  What holds then: same %TYPES, same structures in the same
   order after that prefix; the prefix and the members of %VIEWS are permuted.  (With different modes %TYPES differs; for
   MINIMAL the list of used types is a function of the canonical content: found_of.) *)
Theorem C02_json_resave_equal_any_view_order : forall L s mode c1 d1 c1' c2 d2 c2',
  lex_ok L ->
  save_json L s mode c1 = Ok (d1, c1') -> wf_jsonb s c1' = true -> ids_distinctb s c1' = true -> refs_wfb s c1' = true -> 0 < c_next_id c1 ->
  save_json L s mode c2 = Ok (d2, c2') -> wf_jsonb s c2' = true -> ids_distinctb s c2' = true -> refs_wfb s c2' = true -> 0 < c_next_id c2 ->
  canon_json s c1' = canon_json s c2' ->
  exists types pre1 pre2 fss vs1 vs2,
    d1 = JObj (types ++ [(K_FS, JArr (pre1 ++ fss)); (K_VIEWS, JObj vs1)]) /\
    d2 = JObj (types ++ [(K_FS, JArr (pre2 ++ fss)); (K_VIEWS, JObj vs2)]) /\
    Permutation.Permutation pre1 pre2 /\ Permutation.Permutation vs1 vs2.
Proof. exact json_resave_equal_perm. Qed.
Print Assumptions C02_json_resave_equal_any_view_order.

(* ---- non-vacuity: a CAS with three views (BMP/astral text, a sofa byte array without id), an extended
   DocumentAnnotation, annotations with offsets behind astral characters, arrays, reserved feature names, a shared
   reference: the premises hold, the document is well-formed and denotes the canonical content ---- *)
Definition ex_case : case :=
  mkCase [mkTi "a.b.T0" ["a.b.T0"; "uima.tcas.Annotation"; "uima.cas.AnnotationBase"; "uima.cas.TOP"] [mkFd "f0" "f0" "uima.cas.FSArray" (Some "NoNs") false; mkFd "type_" "type" "a.c.T1" None false; mkFd "self_" "self" "a.c.T1" None false; mkFd "g3" "g3" "uima.cas.IntegerArray" None false; mkFd "begin" "begin" "uima.cas.Integer" None false; mkFd "end" "end" "uima.cas.Integer" None false; mkFd "sofa" "sofa" "uima.cas.Sofa" None false];
    mkTi "a.c.T1" ["a.c.T1"; "uima.cas.TOP"] [mkFd "f0" "f0" "uima.cas.FSArray" (Some "NoNs") false];
    mkTi "x.b.T2" ["x.b.T2"; "uima.tcas.Annotation"; "uima.cas.AnnotationBase"; "uima.cas.TOP"] [mkFd "f0" "f0" "uima.cas.IntegerList" None false; mkFd "f1" "f1" "a.MyStr" None false; mkFd "begin" "begin" "uima.cas.Integer" None false; mkFd "end" "end" "uima.cas.Integer" None false; mkFd "sofa" "sofa" "uima.cas.Sofa" None false];
    mkTi "NoNs" ["NoNs"; "x.b.T2"; "uima.tcas.Annotation"; "uima.cas.AnnotationBase"; "uima.cas.TOP"] [mkFd "begin" "begin" "uima.cas.Integer" None false; mkFd "end" "end" "uima.cas.Integer" None false; mkFd "sofa" "sofa" "uima.cas.Sofa" None false; mkFd "f0" "f0" "uima.cas.IntegerList" None false; mkFd "f1" "f1" "a.MyStr" None false];
    mkTi "a.MyStr" ["a.MyStr"; "uima.cas.String"; "uima.cas.TOP"] [];
    mkTi "uima.tcas.DocumentAnnotation" ["uima.tcas.DocumentAnnotation"; "uima.tcas.Annotation"; "uima.cas.AnnotationBase"; "uima.cas.TOP"] [mkFd "language" "language" "uima.cas.String" None false; mkFd "docId" "docId" "uima.cas.String" None false; mkFd "docRef" "docRef" "a.c.T1" None false; mkFd "begin" "begin" "uima.cas.Integer" None false; mkFd "end" "end" "uima.cas.Integer" None false; mkFd "sofa" "sofa" "uima.cas.Sofa" None false]] None MMinimal
   (mkCas [mkView (mkSofa 1%Z 1%Z "_InitialView" (Some [20013%N; 25991%N; 127465%N; 127466%N; 769%N; 97%N]) None None None) [1%N]; mkView (mkSofa 2%Z 2%Z "view1" (Some [97%N; 128512%N; 98%N; 65536%N; 99%N; 233%N]) None None None) [3%N]; mkView (mkSofa 3%Z 3%Z "view2" None (Some "text/plain") (Some "file:/tmp/x.bin") (Some 5%N)) []] [(1%N, mkFs "a.b.T0" (Some 23%Z) [("sofa", VSofa "_InitialView"); ("begin", VInt 5%Z); ("end", VInt 6%Z); ("type_", VRef 2%N); ("self_", VRef 2%N); ("g3", VRef 4%N)]);
    (2%N, mkFs "a.c.T1" None []);
    (3%N, mkFs "x.b.T2" (Some 9%Z) [("sofa", VSofa "view1"); ("begin", VInt 5%Z); ("end", VInt 6%Z)]);
    (4%N, mkFs "uima.cas.IntegerArray" (Some 41%Z) [("elements", VList [])]);
    (5%N, mkFs "uima.cas.ByteArray" (Some 32%Z) [("elements", VList [(VInt 255%Z)])])] 24%Z)
   (JObj [("%TYPES", JObj [("NoNs", JObj [("%NAME", JStr "NoNs"); ("%SUPER_TYPE", JStr "x.b.T2")]); ("a.MyStr", JObj [("%NAME", JStr "a.MyStr"); ("%SUPER_TYPE", JStr "uima.cas.String")]); ("a.b.T0", JObj [("%NAME", JStr "a.b.T0"); ("%SUPER_TYPE", JStr "uima.tcas.Annotation"); ("f0", JObj [("%NAME", JStr "f0"); ("%RANGE", JStr "NoNs[]")]); ("type", JObj [("%NAME", JStr "type"); ("%RANGE", JStr "a.c.T1")]); ("self", JObj [("%NAME", JStr "self"); ("%RANGE", JStr "a.c.T1")]); ("g3", JObj [("%NAME", JStr "g3"); ("%RANGE", JStr "uima.cas.Integer[]"); ("%MULTIPLE_REFERENCES_ALLOWED", JBool false)])]); ("a.c.T1", JObj [("%NAME", JStr "a.c.T1"); ("%SUPER_TYPE", JStr "uima.cas.TOP"); ("f0", JObj [("%NAME", JStr "f0"); ("%RANGE", JStr "NoNs[]")])]); ("x.b.T2", JObj [("%NAME", JStr "x.b.T2"); ("%SUPER_TYPE", JStr "uima.tcas.Annotation"); ("f0", JObj [("%NAME", JStr "f0"); ("%RANGE", JStr "uima.cas.IntegerList"); ("%MULTIPLE_REFERENCES_ALLOWED", JBool false)]); ("f1", JObj [("%NAME", JStr "f1"); ("%RANGE", JStr "a.MyStr")])])]); ("%FEATURE_STRUCTURES", JArr [(JObj [("%ID", JInt 1%Z); ("%TYPE", JStr "uima.cas.Sofa"); ("sofaNum", JInt 1%Z); ("sofaID", JStr "_InitialView"); ("sofaString", JStr (String (Ascii.ascii_of_N 228%N) (String (Ascii.ascii_of_N 184%N) (String (Ascii.ascii_of_N 173%N) (String (Ascii.ascii_of_N 230%N) (String (Ascii.ascii_of_N 150%N) (String (Ascii.ascii_of_N 135%N) (String (Ascii.ascii_of_N 240%N) (String (Ascii.ascii_of_N 159%N) (String (Ascii.ascii_of_N 135%N) (String (Ascii.ascii_of_N 169%N) (String (Ascii.ascii_of_N 240%N) (String (Ascii.ascii_of_N 159%N) (String (Ascii.ascii_of_N 135%N) (String (Ascii.ascii_of_N 170%N) (String (Ascii.ascii_of_N 204%N) (String (Ascii.ascii_of_N 129%N) (String (Ascii.ascii_of_N 97%N) EmptyString))))))))))))))))))]); (JObj [("%ID", JInt 2%Z); ("%TYPE", JStr "uima.cas.Sofa"); ("sofaNum", JInt 2%Z); ("sofaID", JStr "view1"); ("sofaString", JStr (String (Ascii.ascii_of_N 97%N) (String (Ascii.ascii_of_N 240%N) (String (Ascii.ascii_of_N 159%N) (String (Ascii.ascii_of_N 152%N) (String (Ascii.ascii_of_N 128%N) (String (Ascii.ascii_of_N 98%N) (String (Ascii.ascii_of_N 240%N) (String (Ascii.ascii_of_N 144%N) (String (Ascii.ascii_of_N 128%N) (String (Ascii.ascii_of_N 128%N) (String (Ascii.ascii_of_N 99%N) (String (Ascii.ascii_of_N 195%N) (String (Ascii.ascii_of_N 169%N) EmptyString))))))))))))))]); (JObj [("%ID", JInt 32%Z); ("%TYPE", JStr "uima.cas.ByteArray"); ("%ELEMENTS", JStr "/w==")]); (JObj [("%ID", JInt 3%Z); ("%TYPE", JStr "uima.cas.Sofa"); ("sofaNum", JInt 3%Z); ("sofaID", JStr "view2"); ("mimeType", JStr "text/plain"); ("@sofaArray", JInt 32%Z); ("sofaURI", JStr "file:/tmp/x.bin")]); (JObj [("%ID", JInt 9%Z); ("%TYPE", JStr "x.b.T2"); ("begin", JInt 7%Z); ("end", JInt 8%Z); ("@sofa", JInt 2%Z)]); (JObj [("%ID", JInt 23%Z); ("%TYPE", JStr "a.b.T0"); ("@type", JInt 24%Z); ("@self", JInt 24%Z); ("@g3", JInt 41%Z); ("begin", JInt 7%Z); ("end", JInt 8%Z); ("@sofa", JInt 1%Z)]); (JObj [("%ID", JInt 24%Z); ("%TYPE", JStr "a.c.T1")]); (JObj [("%ID", JInt 41%Z); ("%TYPE", JStr "uima.cas.IntegerArray")])]); ("%VIEWS", JObj [("_InitialView", JObj [("%SOFA", JInt 1%Z); ("%MEMBERS", JArr [(JInt 23%Z)])]); ("view1", JObj [("%SOFA", JInt 2%Z); ("%MEMBERS", JArr [(JInt 9%Z)])]); ("view2", JObj [("%SOFA", JInt 3%Z); ("%MEMBERS", JArr [])])])])
   (mkCcas [mkCsofa 1%Z 1%Z "_InitialView" (Some [20013%N; 25991%N; 127465%N; 127466%N; 769%N; 97%N]) None None None [23%Z]; mkCsofa 2%Z 2%Z "view1" (Some [97%N; 128512%N; 98%N; 65536%N; 99%N; 233%N]) None None None [9%Z]; mkCsofa 3%Z 3%Z "view2" None (Some "text/plain") (Some "file:/tmp/x.bin") (Some 32%Z) []] [(9%Z, mkCfs "x.b.T2" [("begin", CInt 5%Z); ("end", CInt 6%Z); ("f0", CNull); ("f1", CNull); ("sofa", CRef 2%Z)]);
    (23%Z, mkCfs "a.b.T0" [("begin", CInt 5%Z); ("end", CInt 6%Z); ("f0", CNull); ("g3", CRef 41%Z); ("self", CRef 24%Z); ("sofa", CRef 1%Z); ("type", CRef 24%Z)]);
    (24%Z, mkCfs "a.c.T1" [("f0", CNull)]);
    (32%Z, mkCfs "uima.cas.ByteArray" [("elements", CColl "" [(CInt 255%Z)])]);
    (41%Z, mkCfs "uima.cas.IntegerArray" [("elements", CColl "" [])])])
   (mkCcas [mkCsofa 1%Z 1%Z "_InitialView" (Some [20013%N; 25991%N; 127465%N; 127466%N; 769%N; 97%N]) None None None [23%Z]; mkCsofa 2%Z 2%Z "view1" (Some [97%N; 128512%N; 98%N; 65536%N; 99%N; 233%N]) None None None [9%Z]; mkCsofa 3%Z 3%Z "view2" None (Some "text/plain") (Some "file:/tmp/x.bin") (Some 32%Z) []] [(9%Z, mkCfs "x.b.T2" [("begin", CInt 5%Z); ("end", CInt 6%Z); ("f0", CNull); ("f1", CNull); ("sofa", CRef 2%Z)]);
    (23%Z, mkCfs "a.b.T0" [("begin", CInt 5%Z); ("end", CInt 6%Z); ("f0", CNull); ("g3", CRef 41%Z); ("self", CRef 24%Z); ("sofa", CRef 1%Z); ("type", CRef 24%Z)]);
    (24%Z, mkCfs "a.c.T1" [("f0", CNull)]);
    (32%Z, mkCfs "uima.cas.ByteArray" [("elements", CColl "" [(CInt 255%Z)])]);
    (41%Z, mkCfs "uima.cas.IntegerArray" [("elements", CColl "" [])])])
   None true.
Example C02_premises_hold :
  let s := full_schema (c_user ex_case) in
  match save_json std_lex s MMinimal (c_cas ex_case) with
  | Ok (d, c') =>
      wf_jsonb s c' = true /\ 0 < c_next_id (c_cas ex_case) /\ ids_distinctb s c' = true /\ initial_view_in c' = true /\
      refs_wfb s c' = true /\ typed_jsonb s c' = true /\
      schema_okb s = true /\ doc_ok_json std_lex s d = true /\
      denote_json std_lex s d = canon_json s c' /\ load_json std_lex s d = canon_json s c' /\
      (3 <= List.length (c_views c'))%nat /\ (5 <= List.length (c_heap c'))%nat
  | _ => False
  end.
Proof. vm_compute. repeat split; try reflexivity; repeat constructor. Qed.

(* non-vacuity of json_resave_equal: the CAS the save left behind, saved again (now every structure carries an id, the
   generator has advanced): all premises hold for both saves, the canonical contents and the view orders agree, the document
   is rebuilt from the canonical content, and the two documents are equal *)
Example C02_resave_premises_hold :
  let s := full_schema (c_user ex_case) in
  match save_json std_lex s MMinimal (c_cas ex_case) with
  | Ok (d, c') =>
      match save_json std_lex s MMinimal c' with
      | Ok (d2, c'') =>
          wf_jsonb s c'' = true /\ ids_distinctb s c'' = true /\ refs_wfb s c'' = true /\ typed_jsonb s c'' = true /\ 0 < c_next_id c' /\
          canon_json s c' = canon_json s c'' /\ same_view_orderb c' c'' = true /\
          (match canon_json s c' with
           | Ok cc => doc_of_canon std_lex s MMinimal (map (fun v => s_name (v_sofa v)) (c_views c')) cc = Ok d
           | _ => False end) /\
          d = d2 /\ json_equiv d d2 = true
      | _ => False end
  | _ => False
  end.
Proof. vm_compute. repeat split; reflexivity. Qed.

(* non-vacuity with sharing: the byte array 5 holds the data of two sofas and is indexed in a view, the id-less array 6 holds the
   data of a third sofa; all premises hold, the document lists the ids 32 1 2 40 3 (each once), the reader makes the objects 32
   and 40 once and returns the content of the CAS *)
Example C02_shared_array_premises_hold :
  match save_json std_lex builtin_schema MNone shared_cas with
  | Ok (d, c') =>
      wf_jsonb builtin_schema c' = true /\ ids_distinctb builtin_schema c' = true /\ refs_wfb builtin_schema c' = true /\
      typed_jsonb builtin_schema c' = true /\ initial_view_in c' = true /\
      doc_ids_distinctb d = true /\ doc_ok_json std_lex builtin_schema d = true /\
      option_map (fun es => map fst es) (match fs_entries d with Ok es => Some es | _ => None end) = Some [32; 1; 2; 40; 3] /\
      load_made std_lex builtin_schema d = Ok [32; 40] /\
      load_json std_lex builtin_schema d = canon_json builtin_schema c'
  | _ => False
  end.
Proof. exact shared_cas_ok. Qed.
