(* Props/C02.v — property C02: JSON save/load is lossless and carries a sufficient type system. *)
From Cassis Require Import Base Heap Schema Canon Reach JsonDoc Json JsonProofs.
Open Scope Z_scope.

Theorem C02_special_float_roundtrip : forall x sp, special_flt x = Some sp -> den_special (JStr sp) = Ok (CFlt x).
Proof. exact special_flt_spec. Qed.
Print Assumptions C02_special_float_roundtrip.
