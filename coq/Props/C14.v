(* Props/C14.v — property C14: serialisation is deterministic and does not disturb the CAS.

   LABEL: PARTIAL.  The full statement of the property is
     "serialising the same CAS or type system repeatedly, in processes with different hash seeds, to a string / a str path /
      a Path gives byte-identical XMI, JSON and type-system XML; serialising in either format, any number of times, in any
      order changes nothing that later queries or serialisations return, other than assigning ids to id-less structures".
   Byte identity across processes, sinks and hash seeds is runtime behaviour of CPython / lxml / json and is OBSERVED on
   every run by the subprocess oracle of harness/props/C14.py, not proved.  What is proved here, for all inputs and all
   histories, is the logic core over the model coq/Determinism.v in which every set-iteration / id()-dependent site is an
   explicit list in arbitrary order:
     * each such site is followed by a sort on a key that is unique, so the emitted order does not depend on it;
     * a save only adds ids to id-less structures, taken fresh from the generator; saving again changes nothing and writes
       the same document; along every history all documents of one format are equal and queries answer the same.
   This file holds only the theorems (closed by `exact`), Print Assumptions and non-vacuity examples. *)
From Cassis Require Import Base Determinism DeterminismProofs.
Open Scope Z_scope.

(* --- sorting removes the dependence on iteration order ------------------------------------------------------------ *)

(* generic: any key order that is total, antisymmetric and transitive *)
Theorem C14_sort_unique : forall (A K : Type) (key : A -> K) (kleb : K -> K -> bool),
  (forall a b, kleb a b = true \/ kleb b a = true) ->
  (forall a b, kleb a b = true -> kleb b a = true -> a = b) ->
  (forall a b c, kleb a b = true -> kleb b c = true -> kleb a c = true) ->
  forall l l', Permutation l l' -> NoDup (map key l) -> sort_by key kleb l = sort_by key kleb l'.
Proof. exact (@sort_unique). Qed.
Print Assumptions C14_sort_unique.

Theorem C14_sort_unique_z : forall (A : Type) (key : A -> Z) l l',
  Permutation l l' -> NoDup (map key l) -> sort_z key l = sort_z key l'.
Proof. exact (@sort_unique_z). Qed.
Print Assumptions C14_sort_unique_z.

(* string keys, byte-wise lexicographic order sleb (total, antisymmetric, transitive: the next theorem) *)
Theorem C14_sort_unique_s : forall (A : Type) (key : A -> string) l l',
  Permutation l l' -> NoDup (map key l) -> sort_s key l = sort_s key l'.
Proof. exact (@sort_unique_s). Qed.
Print Assumptions C14_sort_unique_s.

Theorem C14_sleb_total_order :
  (forall a b, sleb a b = true \/ sleb b a = true) /\
  (forall a b, sleb a b = true -> sleb b a = true -> a = b) /\
  (forall a b c, sleb a b = true -> sleb b c = true -> sleb a c = true).
Proof. exact (conj sleb_total (conj sleb_antisym sleb_trans)). Qed.
Print Assumptions C14_sleb_total_order.

(* the sort really sorts: the emitted listing is a permutation of what was found, in non-decreasing id order *)
Theorem C14_xmi_emit_sorted : forall found sofas views,
  Permutation found (xd_fs (xmi_emit found sofas views)) /\
  StronglySorted (fun a b => (fi_id a <=? fi_id b) = true) (xd_fs (xmi_emit found sofas views)).
Proof. exact xmi_emit_sorted. Qed.
Print Assumptions C14_xmi_emit_sorted.

(* --- emit_order_independent, one per serialiser ------------------------------------------------------------------ *)

(* XMI: any order of the found structures (unique ids) and any order of the members inside each view gives the same
   structure list, the same namespace introduction order, the same sofas and views *)
Theorem C14_xmi_emit_order_independent : forall found found' sofas views views',
  Permutation found found' -> NoDup (map fi_id found) -> same_views views views' ->
  xmi_emit found sofas views = xmi_emit found' sofas views'.
Proof. exact xmi_emit_order_independent. Qed.
Print Assumptions C14_xmi_emit_order_independent.

(* JSON types: any iteration order of the set of types to include (unique names) *)
Theorem C14_json_types_emit_order_independent : forall types types',
  Permutation types types' -> NoDup (map ty_name types) -> json_types_emit types = json_types_emit types'.
Proof. exact json_types_emit_order_independent. Qed.
Print Assumptions C14_json_types_emit_order_independent.

(* JSON document: types (if any), structures, views *)
Theorem C14_json_emit_order_independent : forall types types' found found' sofas views views',
  match types, types' with
  | Some t, Some t' => Permutation t t' /\ NoDup (map ty_name t)
  | None, None => True
  | _, _ => False
  end ->
  Permutation found found' -> NoDup (map fi_id found) -> same_named_views views views' ->
  json_emit types found sofas views = json_emit types' found' sofas views'.
Proof. exact json_emit_order_independent. Qed.
Print Assumptions C14_json_emit_order_independent.

(* type-system XML: any order of the set of redeclared predefined names and of the types (unique names) *)
Theorem C14_tsxml_emit_order_independent : forall redecl redecl' types types',
  Permutation redecl redecl' -> Permutation types types' -> NoDup (map ty_name types) ->
  tsxml_emit redecl types = tsxml_emit redecl' types'.
Proof. exact tsxml_emit_order_independent. Qed.
Print Assumptions C14_tsxml_emit_order_independent.

(* with all ids present the (label,id) listing of a save does not depend on the order the traversal visits in *)
Theorem C14_doc_order_independent : forall t t' s,
  Permutation t t' -> NoDup (map snd (listed t s)) -> doc_of t s = doc_of t' s.
Proof. exact doc_order_independent. Qed.
Print Assumptions C14_doc_order_independent.

(* --- save --------------------------------------------------------------------------------------------------------- *)

(* saving again returns the same document and the same state *)
Theorem C14_save_idempotent : forall trav s, save trav (fst (save trav s)) = save trav s.
Proof. exact save_idempotent. Qed.
Print Assumptions C14_save_idempotent.

(* the state after a save has the same labels in the same order; an entry either keeps its id, or it had none and got
   one from the generator's range [next before, next after) *)
Theorem C14_save_preserves_content : forall trav s,
  Forall2 (extends (st_next s) (st_next (traverse trav s))) (st_entries s) (st_entries (traverse trav s)).
Proof. exact save_preserves_content. Qed.
Print Assumptions C14_save_preserves_content.

(* entries with ids are untouched *)
Theorem C14_save_keeps_ids : forall trav s l i,
  id_of l (st_entries s) = Some (Some i) -> id_of l (st_entries (traverse trav s)) = Some (Some i).
Proof. exact save_keeps_ids. Qed.
Print Assumptions C14_save_keeps_ids.

(* if every structure the formats visit has an id: any number of saves, in any formats, in any order leave the state
   unchanged and every document is the one that format writes for the initial state *)
Theorem C14_saves_commute_when_ids_present : forall travs s,
  Forall (fun t => settled t s) travs -> saves travs s = (s, map (fun t => doc_of t s) travs).
Proof. exact saves_commute_when_ids_present. Qed.
Print Assumptions C14_saves_commute_when_ids_present.

(* a format that visits no more than an earlier one (XMI / typecheck after JSON) assigns nothing *)
Theorem C14_save_after_superset : forall t1 t2 s, incl t1 t2 ->
  save t1 (fst (save t2 s)) = (fst (save t2 s), doc_of t1 (fst (save t2 s))).
Proof. exact save_after_superset. Qed.
Print Assumptions C14_save_after_superset.

(* ids assigned by a save are fresh and pairwise distinct: in a store whose ids are distinct and below the generator's
   next id, all ids after the save are distinct, the new ones lie in [next before, next after), the old ones below it *)
Theorem C14_save_ids_fresh_distinct : forall trav s, wf_state s ->
  NoDup (present (st_entries (traverse trav s))) /\
  Forall2 (extends (st_next s) (st_next (traverse trav s))) (st_entries s) (st_entries (traverse trav s)) /\
  Forall (fun i => i < st_next s) (present (st_entries s)).
Proof. exact save_ids_fresh_distinct. Qed.
Print Assumptions C14_save_ids_fresh_distinct.

Theorem C14_save_wf : forall trav s, wf_state s -> wf_state (traverse trav s).
Proof. exact save_wf. Qed.
Print Assumptions C14_save_wf.

(* --- byte arrays holding sofa data (Sofa.sofaArray) ------------------------------------------------------------------
   They are given ids and written outside the traversal: by XMI after it (`if ... not any(fs is sofa.sofaArray for fs in
   feature_structures)`: xmi_trav), by JSON before it, in front of the first sofa that refers to them, and left out of the
   sorted part (`written_sofa_arrays`: save_pre, uniq, without). *)

(* what an XMI save visits: what the traversal found, then the arrays it did not find, each once *)
Theorem C14_xmi_trav_spec : forall ta tx,
  (forall l, In l (xmi_trav ta tx) <-> In l tx \/ In l ta) /\ (exists extra, xmi_trav ta tx = tx ++ extra) /\
  (NoDup tx -> NoDup (xmi_trav ta tx)).
Proof. exact (fun ta tx => conj (xmi_trav_in ta tx) (conj (xmi_trav_prefix ta tx) (xmi_trav_nodup ta tx))). Qed.
Print Assumptions C14_xmi_trav_spec.

(* the JSON save: without sofa data arrays it is `save`; its state is that of a traversal of the arrays (each once) followed
   by the structures (so C14_save_preserves_content / _keeps_ids / _ids_fresh_distinct / _wf speak about it); saving again returns
   the same document and the same state; with all ids present it is the identity on the state *)
Theorem C14_save_pre_spec : forall pre trav s,
  save_pre [] trav s = save trav s /\ fst (save_pre pre trav s) = traverse (uniq pre ++ trav) s /\
  save_pre pre trav (fst (save_pre pre trav s)) = save_pre pre trav s /\
  (settled (uniq pre ++ trav) s -> save_pre pre trav s = (s, doc_of_pre pre trav s)).
Proof.
  exact (fun pre trav s => conj (save_pre_nil trav s) (conj (save_pre_state pre trav s)
           (conj (save_pre_idempotent pre trav s) (save_pre_settled pre trav s)))).
Qed.
Print Assumptions C14_save_pre_spec.

(* every save lists every structure of the store that it visits; in particular every sofa data array is an element of
   EVERY XMI and of EVERY JSON document, whether or not this save is the one that gave the array its id - and it is
   listed exactly once (count_lab), however many sofas share it and whether or not the traversal reaches it too (XMI: when
   the traversal itself lists no structure twice) *)
Theorem C14_save_lists_visited : forall t s l, In l t -> id_of l (st_entries s) <> None -> exists i, In (l, i) (snd (save t s)).
Proof. exact save_lists_visited. Qed.
Print Assumptions C14_save_lists_visited.
Theorem C14_saves_list_arrays : forall ta tx tj s a, In a ta -> id_of a (st_entries s) <> None ->
  (exists i, In (a, i) (snd (save (xmi_trav ta tx) s))) /\ (exists i, In (a, i) (snd (save_pre ta tj s))).
Proof. exact (fun ta tx tj s a Ha Hs => conj (xmi_save_lists_arrays ta tx s a Ha Hs) (json_save_lists_arrays ta tj s a Ha Hs)). Qed.
Print Assumptions C14_saves_list_arrays.
Theorem C14_saves_list_arrays_once : forall ta tx tj s a, In a ta -> id_of a (st_entries s) <> None ->
  (NoDup tx -> count_lab a (snd (save (xmi_trav ta tx) s)) = 1%nat) /\ count_lab a (snd (save_pre ta tj s)) = 1%nat.
Proof.
  exact (fun ta tx tj s a Ha Hs => conj (fun ND => xmi_save_lists_arrays_once ta tx s a ND Ha Hs)
                                        (json_save_lists_arrays_once ta tj s a Ha Hs)).
Qed.
Print Assumptions C14_saves_list_arrays_once.

(* --- histories: any number of operations in any order ------------------------------------------------------------- *)

(* all XMI documents (k = OXmi) written along a history are one and the same, and so are all JSON documents (k = OJson),
   from every initial state, whatever is interleaved (to_xmi, to_json, to_xml, select, select_all, typecheck).
   ta = the byte arrays holding sofa data, in view order (given ids and written outside the traversal: xmi_trav, save_pre);
   tx / tj = what _find_all_fs visits without / with inlinable collections *)
Theorem C14_history_documents_repeat : forall ta tx tj k ops s d d',
  In d (docs_of k ta tx tj ops s) -> In d' (docs_of k ta tx tj ops s) -> d = d'.
Proof. exact history_documents_repeat. Qed.
Print Assumptions C14_history_documents_repeat.

(* and each of them lists every sofa data array of the store, the first one as well as the last, exactly once (both
   formats; for XMI provided the traversal lists no structure twice) *)
Theorem C14_history_documents_list_arrays : forall ta tx tj k ops s d a, k = OXmi \/ k = OJson ->
  In d (docs_of k ta tx tj ops s) -> In a ta -> id_of a (st_entries s) <> None ->
  (exists i, In (a, i) d) /\ (k = OJson \/ NoDup tx -> count_lab a d = 1%nat).
Proof. exact history_documents_list_arrays. Qed.
Print Assumptions C14_history_documents_list_arrays.

(* queries over structures that have ids (indexed structures always do) answer the same in every state of a history *)
Theorem C14_history_queries_unchanged : forall ta tx tj labs ops s,
  (forall l, In l labs -> exists i, id_of l (st_entries s) = Some (Some i)) ->
  Forall (fun s' => query s' labs = query s labs) (states_of ta tx tj ops s).
Proof. exact history_queries_unchanged. Qed.
Print Assumptions C14_history_queries_unchanged.

(* every state of a history differs from the initial one only in ids given to id-less entries *)
Theorem C14_history_preserves_content : forall ta tx tj ops s,
  Forall (fun s' => st_next s <= st_next s' /\
                    Forall2 (extends (st_next s) (st_next s')) (st_entries s) (st_entries s')) (states_of ta tx tj ops s).
Proof. exact history_preserves_content. Qed.
Print Assumptions C14_history_preserves_content.

(* handles (Cas objects: the one the CAS was created as, those create_view / get_view return): each operation of a history
   is called through some handle (hops = (handle, operation) pairs).  Whatever the handles: every handle keeps pointing at
   the view it pointed at, the stores and documents are those of the history without handles (so they do not depend on the
   handles used), and select_all / select through any handle h answer in every state what they answered before *)
Theorem C14_history_handles_unchanged : forall ta tx tj hops hs,
  Forall (fun x => hs_cur (fst x) = hs_cur hs) (hrun ta tx tj hops hs).
Proof. exact hrun_handles. Qed.
Print Assumptions C14_history_handles_unchanged.
Theorem C14_history_handle_irrelevant : forall ta tx tj hops hops' hs hs',
  map snd hops = map snd hops' -> hs_store hs = hs_store hs' ->
  map (fun x => (hs_store (fst x), snd x)) (hrun ta tx tj hops hs) =
  map (fun x => (hs_store (fst x), snd x)) (hrun ta tx tj hops' hs') /\
  map (fun x => (hs_store (fst x), snd x)) (hrun ta tx tj hops hs) = run ta tx tj (map snd hops) (hs_store hs).
Proof. intros. split; [apply hrun_handle_irrelevant; assumption|apply hrun_store]. Qed.
Print Assumptions C14_history_handle_irrelevant.
Theorem C14_history_handle_queries_unchanged : forall ta tx tj per_view h hops hs,
  (forall l, In l (nth (N.to_nat (view_of hs h)) per_view []) -> exists i, id_of l (st_entries (hs_store hs)) = Some (Some i)) ->
  Forall (fun x => hquery per_view (fst x) h = hquery per_view hs h) (hrun ta tx tj hops hs).
Proof. exact history_handle_queries_unchanged. Qed.
Print Assumptions C14_history_handle_queries_unchanged.

(* reflection of the boolean premises counted by the harness *)
Theorem C14_wf_stateb_spec : forall s, wf_stateb s = true <-> wf_state s.
Proof. exact wf_stateb_spec. Qed.
Print Assumptions C14_wf_stateb_spec.
Theorem C14_settledb_spec : forall trav s, settledb trav s = true <-> settled trav s.
Proof. exact settledb_spec. Qed.
Print Assumptions C14_settledb_spec.

(* --- non-vacuity --------------------------------------------------------------------------------------------------- *)

(* a set of four types in two iteration orders: same emitted order, DocumentAnnotation left out, upper case first *)
Example C14_types_two_orders :
  let a := [mkTy "x.b.T2" "uima.cas.TOP"; mkTy "NoNs" "uima.cas.TOP"; mkTy DOCANN "uima.tcas.Annotation"; mkTy "a.c.T1" "x.b.T2"] in
  let b := [mkTy "a.c.T1" "x.b.T2"; mkTy DOCANN "uima.tcas.Annotation"; mkTy "x.b.T2" "uima.cas.TOP"; mkTy "NoNs" "uima.cas.TOP"] in
  Permutation a b /\ NoDup (map ty_name a) /\
  map ty_name (json_types_emit a) = ["NoNs"; "a.c.T1"; "x.b.T2"] /\ json_types_emit b = json_types_emit a.
Proof.
  cbv zeta. split; [|split; [|split; reflexivity]].
  - apply (Permutation_trans (l' := [mkTy "a.c.T1" "x.b.T2"; mkTy "x.b.T2" "uima.cas.TOP"; mkTy "NoNs" "uima.cas.TOP"; mkTy DOCANN "uima.tcas.Annotation"])).
    + change (Permutation ([mkTy "x.b.T2" "uima.cas.TOP"; mkTy "NoNs" "uima.cas.TOP"; mkTy DOCANN "uima.tcas.Annotation"] ++ [mkTy "a.c.T1" "x.b.T2"])
                          ([mkTy "a.c.T1" "x.b.T2"] ++ [mkTy "x.b.T2" "uima.cas.TOP"; mkTy "NoNs" "uima.cas.TOP"; mkTy DOCANN "uima.tcas.Annotation"])).
      apply Permutation_app_comm.
    + apply perm_skip.
      change (Permutation ([mkTy "x.b.T2" "uima.cas.TOP"; mkTy "NoNs" "uima.cas.TOP"] ++ [mkTy DOCANN "uima.tcas.Annotation"])
                          ([mkTy DOCANN "uima.tcas.Annotation"] ++ [mkTy "x.b.T2" "uima.cas.TOP"; mkTy "NoNs" "uima.cas.TOP"])).
      apply Permutation_app_comm.
  - repeat constructor; cbn; intuition discriminate.
Qed.

(* XMI: structures found in two orders, a view whose members come in two orders; namespaces in first-use order *)
Example C14_xmi_two_orders :
  let f := [mkFi 9 1 "q.type.T5"; mkFi 4 2 "uima.cas.FSArray"; mkFi 7 3 "NoNs"] in
  let f' := [mkFi 7 3 "NoNs"; mkFi 9 1 "q.type.T5"; mkFi 4 2 "uima.cas.FSArray"] in
  NoDup (map fi_id f) /\
  xmi_emit f [mkSo 1 1 "_InitialView" None] [mkVi 1 [9; 7]] = xmi_emit f' [mkSo 1 1 "_InitialView" None] [mkVi 1 [7; 9]] /\
  map fi_id (xd_fs (xmi_emit f [] [])) = [4; 7; 9] /\
  xd_ns (xmi_emit f [] []) = ["uima.cas"; "uima.noNamespace"; "q.type"].
Proof. cbv zeta. split; [repeat constructor; cbn; intuition discriminate|repeat split; reflexivity]. Qed.

(* a store with two id-less structures; XMI visits labels 1 2 3, JSON also the inlined collection 4 *)
Example C14_save_assigns :
  let s := mkSt [mkE 1 (Some 2); mkE 2 None; mkE 3 None; mkE 4 None] 3 in
  wf_state s /\
  save [1; 3; 2]%N s = (mkSt [mkE 1 (Some 2); mkE 2 (Some 4); mkE 3 (Some 3); mkE 4 None] 5, [(1%N, 2); (3%N, 3); (2%N, 4)]) /\
  save [1; 3; 2]%N (fst (save [1; 3; 2]%N s)) = save [1; 3; 2]%N s /\
  fst (save [1; 4; 3; 2]%N (fst (save [1; 3; 2]%N s))) = mkSt [mkE 1 (Some 2); mkE 2 (Some 4); mkE 3 (Some 3); mkE 4 (Some 5)] 6 /\
  docs_of OXmi [] [1; 3; 2]%N [1; 4; 3; 2]%N [OXmi; OJson; OSelect; OXmi; OTypecheck; OXmi] s =
    [[(1%N, 2); (3%N, 3); (2%N, 4)]; [(1%N, 2); (3%N, 3); (2%N, 4)]; [(1%N, 2); (3%N, 3); (2%N, 4)]].
Proof.
  cbv zeta. split; [|repeat split; reflexivity].
  apply wf_stateb_spec. reflexivity.
Qed.

(* a second view whose sofa data is a byte array (label 3) set through the API, id-less and not reachable from an indexed
   structure; two indexed structures 1 2.  The first to_xmi gives it id 4 and lists it; the second and third list it again;
   to_json lists it first (before its sofa) under the same id; typecheck does not touch it.  With the array also indexed
   (traversal [1;2;3]) and shared by two sofas both formats still list it once. *)
Example C14_sofa_array_history :
  let s := mkSt [mkE 1 (Some 2); mkE 2 (Some 3); mkE 3 None] 4 in
  wf_state s /\ xmi_trav [3]%N [1; 2]%N = [1; 2; 3]%N /\ xmi_trav [3; 3]%N [1; 3; 2]%N = [1; 3; 2]%N /\
  docs_of OXmi [3]%N [1; 2]%N [1; 2]%N [OTypecheck; OXmi; OXmi; OJson; OXmi] s =
    [[(1%N, 2); (2%N, 3); (3%N, 4)]; [(1%N, 2); (2%N, 3); (3%N, 4)]; [(1%N, 2); (2%N, 3); (3%N, 4)]] /\
  docs_of OJson [3]%N [1; 2]%N [1; 2]%N [OJson; OXmi; OJson] s =
    [[(3%N, 4); (1%N, 2); (2%N, 3)]; [(3%N, 4); (1%N, 2); (2%N, 3)]] /\
  map st_next (states_of [3]%N [1; 2]%N [1; 2]%N [OTypecheck; OXmi; OXmi; OJson] s) = [4; 5; 5; 5] /\
  docs_of OJson [3; 3]%N [1; 2; 3]%N [1; 2; 3]%N [OXmi; OJson] s = [[(3%N, 4); (1%N, 2); (2%N, 3)]] /\
  docs_of OXmi [3; 3]%N [1; 2; 3]%N [1; 2; 3]%N [OJson; OXmi] s = [[(1%N, 2); (2%N, 3); (3%N, 4)]].
Proof. cbv zeta. split; [apply wf_stateb_spec; reflexivity|repeat split; reflexivity]. Qed.

(* two views (members [1] and [2;3]), four handles: 0 1 from building the CAS, 2 3 from get_view.  to_json through handle 1,
   to_xmi through handle 3, typecheck through handle 0: the handles still point at views 0 1 0 1, select_all through handle 1
   and through handle 3 answers [3;5] after each of them, through handle 2 (view 0) [2] *)
Example C14_handles_history :
  let hs := mkHs [0; 1; 0; 1]%N (mkSt [mkE 1 (Some 2); mkE 2 (Some 3); mkE 3 (Some 5)] 6) in
  let r := hrun [] [1; 2; 3]%N [1; 2; 3]%N [(1%N, OJson); (3%N, OXmi); (0%N, OTypecheck)] hs in
  map (fun x => hs_cur (fst x)) r = [[0; 1; 0; 1]%N; [0; 1; 0; 1]%N; [0; 1; 0; 1]%N] /\
  map (fun x => hquery [[1]; [2; 3]]%N (fst x) 1%N) r = [[3; 5]; [3; 5]; [3; 5]] /\
  map (fun x => hquery [[1]; [2; 3]]%N (fst x) 3%N) r = [[3; 5]; [3; 5]; [3; 5]] /\
  hquery [[1]; [2; 3]]%N hs 2%N = [2].
Proof. cbv zeta. repeat split; reflexivity. Qed.

(* all ids present: three saves in mixed formats leave the state alone *)
Example C14_saves_all_ids :
  let s := mkSt [mkE 1 (Some 12); mkE 2 (Some 5); mkE 3 (Some 40)] 2 in
  Forall (fun t => settled t s) [[1; 2]%N; [1; 3; 2]%N; [1; 2]%N] /\
  saves [[1; 2]%N; [1; 3; 2]%N; [1; 2]%N] s =
    (s, [[(2%N, 5); (1%N, 12)]; [(2%N, 5); (1%N, 12); (3%N, 40)]; [(2%N, 5); (1%N, 12)]]).
Proof.
  cbv zeta. split; [|reflexivity].
  repeat constructor; apply settledb_spec; reflexivity.
Qed.

(* why the freshness theorem has its premise: an explicit id at or above the generator's next id can be hit.  (In the
   code this case ends in `ValueError: Duplicate FS id` when both structures are reached; ids are C09's subject.) *)
Example C14_fresh_needs_ids_below_next :
  let s := mkSt [mkE 1 (Some 3); mkE 2 None] 3 in
  NoDup (present (st_entries s)) /\ ~ NoDup (present (st_entries (traverse [1; 2]%N s))).
Proof.
  cbv zeta. split; [repeat constructor; cbn; intuition discriminate|].
  intros H. apply znodupb_spec in H. discriminate H.
Qed.

(* ================================================================================================================
   on the real writer models
   The theorems above speak about the abstract emit pipelines of Determinism.v (kept: they isolate "every set-iteration
   site is followed by a sort on a unique key").  The theorems below are the headline of C14's model half: the same three
   statements on the REAL writer models of the codecs — Xmi.save_xmi and Json.save_json over the reachability traversal
   Reach.find_all_fs (Cas._find_all_fs), the very models C01/C02/C04 are proved about and that are compared with cassis on
   every run of ./check C01 C02 C04.  Proofs: DocDeterminismProofs.v.

   Vocabulary (DocDeterminism.v).  member_order_variant c1 c2: same objects, same id generator, same sofas in the same
   order, per view a Permutation of the member list (v_members = the id()-dependent select_all order; a view is a
   multiset).  settledb inl s c (boolean; = `settled`, the declarative form, by C14_real_settledb_spec): every sofa data array
   has an id and the traversal does not consult the id generator, i.e. "every structure the chosen format writes separately
   already has an id" (inl = false: XMI, inlinable collections are not structures of their own; inl = true: JSON).
   only_ids_added c c1 W: same views, same objects in the same order with the same types and slots, ids present before
   are kept, an id present only afterwards is fresh (in [old next, new next)) and belongs to a written structure (W).

   Which equality holds.  EXACT equality of the abstract documents (xdoc / json), not merely equality up to the
   element permutation used in C01/C04: the feature structures are emitted in the order of sort_ids (ids pairwise distinct),
   the namespace prefixes are allocated while walking THAT sorted list (not in traversal order), the sofas and views follow
   Cas.sofas order, and the members attribute is sorted numerically.  The traversal order (w_all, insertion order) does
   differ between the two CASes; it does not reach the document.  The CAS is left unchanged (c1' = c1). *)
From Cassis Require Import Heap Schema Canon Lex Reach ReachProofs ReachSpec XmiDoc Xmi XmiProofs XmiWf XmiDocOk.
From Cassis Require Import DocDeterminism DocDeterminismProofs CorrC04.
Open Scope Z_scope.

(* boolean premise = declarative premise *)
Theorem C14_real_settledb_spec : forall inl s c w, find_all_fs inl s c = Ok w ->
  (settledb inl s c = true <->
   (forall o, reach inl s (c_heap c) (member_seeds c) o -> exists f i, hget (c_heap c) o = Some f /\ o_id f = Some i) /\
   (forall v o, In v (c_views c) -> s_arr (v_sofa v) = Some o -> exists f i, hget (c_heap c) o = Some f /\ o_id f = Some i)).
Proof. exact settledb_spec. Qed.
Print Assumptions C14_real_settledb_spec.

(* the traversal itself: with every reachable structure carrying an id it changes nothing (any seed order) ... *)
Theorem C14_traversal_assigns_nothing : forall inl s c seeds w, find_all_from inl s c seeds = Ok w ->
  (forall o, reach inl s (c_heap c) seeds o -> exists f i, hget (c_heap c) o = Some f /\ o_id f = Some i) ->
  w_heap w = c_heap c /\ w_next w = c_next_id c.
Proof. exact find_all_noassign. Qed.
Print Assumptions C14_traversal_assigns_nothing.

(* ... and repeated on any CAS that carries at least the ids it left behind (generalises ReachSpec.find_all_stable: the XMI
   writer hands ids to sofa data arrays after the traversal) it finds the same structures under the same ids in the same
   order and assigns nothing *)
Theorem C14_traversal_again : forall inl s c seeds w c2, 0 < c_next_id c -> find_all_from inl s c seeds = Ok w ->
  ids_le (w_heap w) (c_heap c2) ->
  find_all_from inl s c2 seeds = Ok (mkW (c_heap c2) (c_next_id c2) (w_all w) (w_queued w) (w_open w)).
Proof. exact find_all_again. Qed.
Print Assumptions C14_traversal_again.

(* XMI: permuting the member lists of the views (the select_all order) of a well-formed CAS in which everything written has
   an id yields the SAME document, and the save leaves the CAS as it was *)
Theorem C14_xmi_save_member_order_independent :
  forall (fmt : flt -> string) s c1 c2 d c1',
  wf_casb s c1 = true -> settledb false s c1 = true -> member_order_variant c1 c2 ->
  save_xmi fmt s c1 = Ok (d, c1') -> c1' = c1 /\ save_xmi fmt s c2 = Ok (d, c2).
Proof. exact xmi_save_member_order_independent. Qed.
Print Assumptions C14_xmi_save_member_order_independent.

(* the same for any CAS with the same objects, the same views and the same SET of members per view, when no structure is
   indexed twice in one view (with multiplicities the members attribute lists an id once per occurrence) *)
Theorem C14_xmi_save_member_set_independent :
  forall (fmt : flt -> string) s c1 c2 d c1',
  wf_casb s c1 = true -> settledb false s c1 = true -> member_set_variant c1 c2 -> members_nodup c1 -> members_nodup c2 ->
  save_xmi fmt s c1 = Ok (d, c1') -> c1' = c1 /\ save_xmi fmt s c2 = Ok (d, c2).
Proof. exact xmi_save_member_set_independent. Qed.
Print Assumptions C14_xmi_save_member_set_independent.

(* XMI: saving again writes the same document and changes nothing — for EVERY CAS the writer accepts (ids may have been
   missing before the first save); the only premise is that the id generator hands out positive ids *)
Theorem C14_xmi_save_idempotent :
  forall (fmt : flt -> string) s c d c1, 0 < c_next_id c -> save_xmi fmt s c = Ok (d, c1) -> save_xmi fmt s c1 = Ok (d, c1).
Proof. exact xmi_save_idempotent. Qed.
Print Assumptions C14_xmi_save_idempotent.

(* XMI: a save changes nothing but the ids of id-less structures it writes, taken fresh from the generator (no premise) *)
Theorem C14_xmi_save_preserves_content :
  forall (fmt : flt -> string) s c d c1, save_xmi fmt s c = Ok (d, c1) ->
  exists all, written s c = Ok (c1, all) /\ only_ids_added c c1 (listed all).
Proof. exact xmi_save_preserves_content. Qed.
Print Assumptions C14_xmi_save_preserves_content.

(* non-vacuity (XMI): the example CAS with two structures indexed in the first view satisfies the premises in both member
   orders, the two saves give the identical document (10 elements) and leave the CAS alone; the variant with two id-less
   structures is well-formed but not settled: its save assigns ids 17 and 18, and saving again gives the same document *)
Example C14_xmi_real_premises_hold :
  wf_casb dx_schema dx_cas = true /\ settledb false dx_schema dx_cas = true /\ member_order_variant dx_cas dx_cas_perm /\
  dx_cas <> dx_cas_perm /\
  (match save_xmi (tab_fmt XmiExample.ex_ftab) dx_schema dx_cas, save_xmi (tab_fmt XmiExample.ex_ftab) dx_schema dx_cas_perm with
   | Ok (d1, c1), Ok (d2, c2) => list_eqb xelem_eqb d1 d2 && (List.length d1 =? 10)%nat && (c_next_id c1 =? 17) && (c_next_id c2 =? 17)
   | _, _ => false end) = true /\
  wf_casb dx_schema dx_cas_noid = true /\ settledb false dx_schema dx_cas_noid = false /\
  (match save_xmi (tab_fmt XmiExample.ex_ftab) dx_schema dx_cas_noid with
   | Ok (d1, c1) => match save_xmi (tab_fmt XmiExample.ex_ftab) dx_schema c1 with
                    | Ok (d2, c2) => list_eqb xelem_eqb d1 d2 && (c_next_id c1 =? 19) && (c_next_id c2 =? 19)
                    | _ => false end
   | _ => false end) = true.
Proof.
  split; [vm_compute; reflexivity|]. split; [vm_compute; reflexivity|]. split.
  { split; [reflexivity|]. split; [reflexivity|]. constructor; [split; [reflexivity|apply perm_swap]|].
    constructor; [split; [reflexivity|apply Permutation_refl]|constructor]. }
  split; [intros E; discriminate E|]. repeat split; vm_compute; reflexivity.
Qed.

(* ---- JSON ---- *)
From Cassis Require Import JsonDoc Json JsonProofs JsonLex.
Open Scope list_scope.
Open Scope Z_scope.

(* JSON: the same independence, for every type-system mode.  Premises: the traversal's own input conditions (Reach.wf_heapb,
   members live, ids_okb: C15) and settledb true.  EXACT equality of the json values. *)
Theorem C14_json_save_member_order_independent :
  forall L s mode c1 c2 d c1',
  reach_inb true s c1 = true -> settledb true s c1 = true -> member_order_variant c1 c2 ->
  save_json L s mode c1 = Ok (d, c1') -> c1' = c1 /\ save_json L s mode c2 = Ok (d, c2).
Proof. exact json_save_member_order_independent. Qed.
Print Assumptions C14_json_save_member_order_independent.

Theorem C14_json_save_member_set_independent :
  forall L s mode c1 c2 d c1',
  reach_inb true s c1 = true -> settledb true s c1 = true -> member_set_variant c1 c2 -> members_nodup c1 -> members_nodup c2 ->
  save_json L s mode c1 = Ok (d, c1') -> c1' = c1 /\ save_json L s mode c2 = Ok (d, c2).
Proof. exact json_save_member_set_independent. Qed.
Print Assumptions C14_json_save_member_set_independent.

(* JSON: saving again writes the same document and changes nothing; sofa data arrays are byte arrays (they are written by
   the views loop BEFORE the traversal, so an array of references would be written with the ids known at that time) *)
Theorem C14_json_save_idempotent :
  forall L s mode c d c2, 0 < c_next_id c -> sofa_arrays_bytesb c = true ->
  save_json L s mode c = Ok (d, c2) -> save_json L s mode c2 = Ok (d, c2).
Proof. exact json_save_idempotent. Qed.
Print Assumptions C14_json_save_idempotent.

(* JSON: a save changes nothing but the ids of id-less structures it writes (sofa data arrays in the views loop, then the
   structures the traversal lists), fresh from the generator (no premise) *)
Theorem C14_json_save_preserves_content :
  forall L s mode c d c2, save_json L s mode c = Ok (d, c2) ->
  exists c1 sofa_fs views w, save_found L s c = Ok (c1, sofa_fs, views, w) /\ c2 = cas_after c1 w /\
    only_ids_added c c2 (fun i o => In o (sofa_arrays c) \/ In (i, o) (w_all w)).
Proof. exact json_save_preserves_content. Qed.
Print Assumptions C14_json_save_preserves_content.

(* non-vacuity (JSON): same CASes, std_lex, all three modes *)
Example C14_json_real_premises_hold :
  reach_inb true dx_schema dx_cas = true /\ settledb true dx_schema dx_cas = true /\ sofa_arrays_bytesb dx_cas_noid = true /\
  settledb true dx_schema dx_cas_noid = false /\
  forallb (fun mode =>
    match save_json std_lex dx_schema mode dx_cas, save_json std_lex dx_schema mode dx_cas_perm with
    | Ok (d1, c1), Ok (d2, c2) => json_eqb d1 d2 && (c_next_id c1 =? 17) && (c_next_id c2 =? 17)
    | _, _ => false end &&
    match save_json std_lex dx_schema mode dx_cas_noid with
    | Ok (d1, c1) => match save_json std_lex dx_schema mode c1 with
                     | Ok (d2, c2) => json_eqb d1 d2 && (c_next_id c1 =? 19) && (c_next_id c2 =? 19)
                     | _ => false end
    | _ => false end) [MFull; MMinimal; MNone] = true.
Proof. repeat split; vm_compute; reflexivity. Qed.
