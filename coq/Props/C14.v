(* Props/C14.v — property C14: serialisation is deterministic and does not disturb the CAS.

   LABEL: PARTIAL.  The full statement of the property is
     "serialising the same CAS or type system repeatedly, in processes with different hash seeds, to a string / a str path /
      a Path gives byte-identical XMI, JSON and type-system XML; serialising in either format, any number of times, in any
      order changes nothing that later queries or serialisations return, other than assigning ids to id-less structures".
   Byte identity across processes, sinks and hash seeds is runtime behaviour of CPython / lxml / json and is OBSERVED on
   every run by the subprocess oracle of harness/props/C14.py, not proved.  What is proved here, for all inputs and all
   histories, is the logic core over the model coq/Determinism.v in which every set-iteration / id()-dependent site is an
   explicit list in arbitrary order:
     * each such site is followed by a sort on a key that is unique, so the emitted order does not depend on it;
     * a save only adds ids to id-less structures, taken fresh from the generator; saving again changes nothing and writes
       the same document; along every history all documents of one format are equal and queries answer the same.
   This file holds only the theorems (closed by `exact`), Print Assumptions and non-vacuity examples. *)
From Cassis Require Import Base Determinism DeterminismProofs.
Open Scope Z_scope.

(* --- sorting removes the dependence on iteration order ------------------------------------------------------------ *)

(* generic: any key order that is total, antisymmetric and transitive *)
Theorem C14_sort_unique : forall (A K : Type) (key : A -> K) (kleb : K -> K -> bool),
  (forall a b, kleb a b = true \/ kleb b a = true) ->
  (forall a b, kleb a b = true -> kleb b a = true -> a = b) ->
  (forall a b c, kleb a b = true -> kleb b c = true -> kleb a c = true) ->
  forall l l', Permutation l l' -> NoDup (map key l) -> sort_by key kleb l = sort_by key kleb l'.
Proof. exact (@sort_unique). Qed.
Print Assumptions C14_sort_unique.

Theorem C14_sort_unique_z : forall (A : Type) (key : A -> Z) l l',
  Permutation l l' -> NoDup (map key l) -> sort_z key l = sort_z key l'.
Proof. exact (@sort_unique_z). Qed.
Print Assumptions C14_sort_unique_z.

(* string keys, byte-wise lexicographic order sleb (total, antisymmetric, transitive: the next theorem) *)
Theorem C14_sort_unique_s : forall (A : Type) (key : A -> string) l l',
  Permutation l l' -> NoDup (map key l) -> sort_s key l = sort_s key l'.
Proof. exact (@sort_unique_s). Qed.
Print Assumptions C14_sort_unique_s.

Theorem C14_sleb_total_order :
  (forall a b, sleb a b = true \/ sleb b a = true) /\
  (forall a b, sleb a b = true -> sleb b a = true -> a = b) /\
  (forall a b c, sleb a b = true -> sleb b c = true -> sleb a c = true).
Proof. exact (conj sleb_total (conj sleb_antisym sleb_trans)). Qed.
Print Assumptions C14_sleb_total_order.

(* the sort really sorts: the emitted listing is a permutation of what was found, in non-decreasing id order *)
Theorem C14_xmi_emit_sorted : forall found sofas views,
  Permutation found (xd_fs (xmi_emit found sofas views)) /\
  StronglySorted (fun a b => (fi_id a <=? fi_id b) = true) (xd_fs (xmi_emit found sofas views)).
Proof. exact xmi_emit_sorted. Qed.
Print Assumptions C14_xmi_emit_sorted.

(* --- emit_order_independent, one per serialiser ------------------------------------------------------------------ *)

(* XMI: any order of the found structures (unique ids) and any order of the members inside each view gives the same
   structure list, the same namespace introduction order, the same sofas and views *)
Theorem C14_xmi_emit_order_independent : forall found found' sofas views views',
  Permutation found found' -> NoDup (map fi_id found) -> same_views views views' ->
  xmi_emit found sofas views = xmi_emit found' sofas views'.
Proof. exact xmi_emit_order_independent. Qed.
Print Assumptions C14_xmi_emit_order_independent.

(* JSON types: any iteration order of the set of types to include (unique names) *)
Theorem C14_json_types_emit_order_independent : forall types types',
  Permutation types types' -> NoDup (map ty_name types) -> json_types_emit types = json_types_emit types'.
Proof. exact json_types_emit_order_independent. Qed.
Print Assumptions C14_json_types_emit_order_independent.

(* JSON document: types (if any), structures, views *)
Theorem C14_json_emit_order_independent : forall types types' found found' sofas views views',
  match types, types' with
  | Some t, Some t' => Permutation t t' /\ NoDup (map ty_name t)
  | None, None => True
  | _, _ => False
  end ->
  Permutation found found' -> NoDup (map fi_id found) -> same_named_views views views' ->
  json_emit types found sofas views = json_emit types' found' sofas views'.
Proof. exact json_emit_order_independent. Qed.
Print Assumptions C14_json_emit_order_independent.

(* type-system XML: any order of the set of redeclared predefined names and of the types (unique names) *)
Theorem C14_tsxml_emit_order_independent : forall redecl redecl' types types',
  Permutation redecl redecl' -> Permutation types types' -> NoDup (map ty_name types) ->
  tsxml_emit redecl types = tsxml_emit redecl' types'.
Proof. exact tsxml_emit_order_independent. Qed.
Print Assumptions C14_tsxml_emit_order_independent.

(* with all ids present the (label,id) listing of a save does not depend on the order the traversal visits in *)
Theorem C14_doc_order_independent : forall t t' s,
  Permutation t t' -> NoDup (map snd (listed t s)) -> doc_of t s = doc_of t' s.
Proof. exact doc_order_independent. Qed.
Print Assumptions C14_doc_order_independent.

(* --- save --------------------------------------------------------------------------------------------------------- *)

(* saving again returns the same document and the same state *)
Theorem C14_save_idempotent : forall trav s, save trav (fst (save trav s)) = save trav s.
Proof. exact save_idempotent. Qed.
Print Assumptions C14_save_idempotent.

(* the state after a save has the same labels in the same order; an entry either keeps its id, or it had none and got
   one from the generator's range [next before, next after) *)
Theorem C14_save_preserves_content : forall trav s,
  Forall2 (extends (st_next s) (st_next (traverse trav s))) (st_entries s) (st_entries (traverse trav s)).
Proof. exact save_preserves_content. Qed.
Print Assumptions C14_save_preserves_content.

(* entries with ids are untouched *)
Theorem C14_save_keeps_ids : forall trav s l i,
  id_of l (st_entries s) = Some (Some i) -> id_of l (st_entries (traverse trav s)) = Some (Some i).
Proof. exact save_keeps_ids. Qed.
Print Assumptions C14_save_keeps_ids.

(* if every structure the formats visit has an id: any number of saves, in any formats, in any order leave the state
   unchanged and every document is the one that format writes for the initial state *)
Theorem C14_saves_commute_when_ids_present : forall travs s,
  Forall (fun t => settled t s) travs -> saves travs s = (s, map (fun t => doc_of t s) travs).
Proof. exact saves_commute_when_ids_present. Qed.
Print Assumptions C14_saves_commute_when_ids_present.

(* a format that visits no more than an earlier one (XMI / typecheck after JSON) assigns nothing *)
Theorem C14_save_after_superset : forall t1 t2 s, incl t1 t2 ->
  save t1 (fst (save t2 s)) = (fst (save t2 s), doc_of t1 (fst (save t2 s))).
Proof. exact save_after_superset. Qed.
Print Assumptions C14_save_after_superset.

(* ids assigned by a save are fresh and pairwise distinct: in a store whose ids are distinct and below the generator's
   next id, all ids after the save are distinct, the new ones lie in [next before, next after), the old ones below it *)
Theorem C14_save_ids_fresh_distinct : forall trav s, wf_state s ->
  NoDup (present (st_entries (traverse trav s))) /\
  Forall2 (extends (st_next s) (st_next (traverse trav s))) (st_entries s) (st_entries (traverse trav s)) /\
  Forall (fun i => i < st_next s) (present (st_entries s)).
Proof. exact save_ids_fresh_distinct. Qed.
Print Assumptions C14_save_ids_fresh_distinct.

Theorem C14_save_wf : forall trav s, wf_state s -> wf_state (traverse trav s).
Proof. exact save_wf. Qed.
Print Assumptions C14_save_wf.

(* --- histories: any number of operations in any order ------------------------------------------------------------- *)

(* all XMI documents (k = OXmi) written along a history are one and the same, and so are all JSON documents (k = OJson),
   from every initial state, whatever is interleaved (to_xmi, to_json, to_xml, select, select_all, typecheck) *)
Theorem C14_history_documents_repeat : forall tx tj k ops s d d',
  In d (docs_of k tx tj ops s) -> In d' (docs_of k tx tj ops s) -> d = d'.
Proof. exact history_documents_repeat. Qed.
Print Assumptions C14_history_documents_repeat.

(* queries over structures that have ids (indexed structures always do) answer the same in every state of a history *)
Theorem C14_history_queries_unchanged : forall tx tj labs ops s,
  (forall l, In l labs -> exists i, id_of l (st_entries s) = Some (Some i)) ->
  Forall (fun s' => query s' labs = query s labs) (states_of tx tj ops s).
Proof. exact history_queries_unchanged. Qed.
Print Assumptions C14_history_queries_unchanged.

(* every state of a history differs from the initial one only in ids given to id-less entries *)
Theorem C14_history_preserves_content : forall tx tj ops s,
  Forall (fun s' => st_next s <= st_next s' /\
                    Forall2 (extends (st_next s) (st_next s')) (st_entries s) (st_entries s')) (states_of tx tj ops s).
Proof. exact history_preserves_content. Qed.
Print Assumptions C14_history_preserves_content.

(* reflection of the boolean premises counted by the harness *)
Theorem C14_wf_stateb_spec : forall s, wf_stateb s = true <-> wf_state s.
Proof. exact wf_stateb_spec. Qed.
Print Assumptions C14_wf_stateb_spec.
Theorem C14_settledb_spec : forall trav s, settledb trav s = true <-> settled trav s.
Proof. exact settledb_spec. Qed.
Print Assumptions C14_settledb_spec.

(* --- non-vacuity --------------------------------------------------------------------------------------------------- *)

(* a set of four types in two iteration orders: same emitted order, DocumentAnnotation left out, upper case first *)
Example C14_types_two_orders :
  let a := [mkTy "x.b.T2" "uima.cas.TOP"; mkTy "NoNs" "uima.cas.TOP"; mkTy DOCANN "uima.tcas.Annotation"; mkTy "a.c.T1" "x.b.T2"] in
  let b := [mkTy "a.c.T1" "x.b.T2"; mkTy DOCANN "uima.tcas.Annotation"; mkTy "x.b.T2" "uima.cas.TOP"; mkTy "NoNs" "uima.cas.TOP"] in
  Permutation a b /\ NoDup (map ty_name a) /\
  map ty_name (json_types_emit a) = ["NoNs"; "a.c.T1"; "x.b.T2"] /\ json_types_emit b = json_types_emit a.
Proof.
  cbv zeta. split; [|split; [|split; reflexivity]].
  - apply (Permutation_trans (l' := [mkTy "a.c.T1" "x.b.T2"; mkTy "x.b.T2" "uima.cas.TOP"; mkTy "NoNs" "uima.cas.TOP"; mkTy DOCANN "uima.tcas.Annotation"])).
    + change (Permutation ([mkTy "x.b.T2" "uima.cas.TOP"; mkTy "NoNs" "uima.cas.TOP"; mkTy DOCANN "uima.tcas.Annotation"] ++ [mkTy "a.c.T1" "x.b.T2"])
                          ([mkTy "a.c.T1" "x.b.T2"] ++ [mkTy "x.b.T2" "uima.cas.TOP"; mkTy "NoNs" "uima.cas.TOP"; mkTy DOCANN "uima.tcas.Annotation"])).
      apply Permutation_app_comm.
    + apply perm_skip.
      change (Permutation ([mkTy "x.b.T2" "uima.cas.TOP"; mkTy "NoNs" "uima.cas.TOP"] ++ [mkTy DOCANN "uima.tcas.Annotation"])
                          ([mkTy DOCANN "uima.tcas.Annotation"] ++ [mkTy "x.b.T2" "uima.cas.TOP"; mkTy "NoNs" "uima.cas.TOP"])).
      apply Permutation_app_comm.
  - repeat constructor; cbn; intuition discriminate.
Qed.

(* XMI: structures found in two orders, a view whose members come in two orders; namespaces in first-use order *)
Example C14_xmi_two_orders :
  let f := [mkFi 9 1 "q.type.T5"; mkFi 4 2 "uima.cas.FSArray"; mkFi 7 3 "NoNs"] in
  let f' := [mkFi 7 3 "NoNs"; mkFi 9 1 "q.type.T5"; mkFi 4 2 "uima.cas.FSArray"] in
  NoDup (map fi_id f) /\
  xmi_emit f [mkSo 1 1 "_InitialView"] [mkVi 1 [9; 7]] = xmi_emit f' [mkSo 1 1 "_InitialView"] [mkVi 1 [7; 9]] /\
  map fi_id (xd_fs (xmi_emit f [] [])) = [4; 7; 9] /\
  xd_ns (xmi_emit f [] []) = ["uima.cas"; "uima.noNamespace"; "q.type"].
Proof. cbv zeta. split; [repeat constructor; cbn; intuition discriminate|repeat split; reflexivity]. Qed.

(* a store with two id-less structures; XMI visits labels 1 2 3, JSON also the inlined collection 4 *)
Example C14_save_assigns :
  let s := mkSt [mkE 1 (Some 2); mkE 2 None; mkE 3 None; mkE 4 None] 3 in
  wf_state s /\
  save [1; 3; 2]%N s = (mkSt [mkE 1 (Some 2); mkE 2 (Some 4); mkE 3 (Some 3); mkE 4 None] 5, [(1%N, 2); (3%N, 3); (2%N, 4)]) /\
  save [1; 3; 2]%N (fst (save [1; 3; 2]%N s)) = save [1; 3; 2]%N s /\
  fst (save [1; 4; 3; 2]%N (fst (save [1; 3; 2]%N s))) = mkSt [mkE 1 (Some 2); mkE 2 (Some 4); mkE 3 (Some 3); mkE 4 (Some 5)] 6 /\
  docs_of OXmi [1; 3; 2]%N [1; 4; 3; 2]%N [OXmi; OJson; OSelect; OXmi; OTypecheck; OXmi] s =
    [[(1%N, 2); (3%N, 3); (2%N, 4)]; [(1%N, 2); (3%N, 3); (2%N, 4)]; [(1%N, 2); (3%N, 3); (2%N, 4)]].
Proof.
  cbv zeta. split; [|repeat split; reflexivity].
  apply wf_stateb_spec. reflexivity.
Qed.

(* all ids present: three saves in mixed formats leave the state alone *)
Example C14_saves_all_ids :
  let s := mkSt [mkE 1 (Some 12); mkE 2 (Some 5); mkE 3 (Some 40)] 2 in
  Forall (fun t => settled t s) [[1; 2]%N; [1; 3; 2]%N; [1; 2]%N] /\
  saves [[1; 2]%N; [1; 3; 2]%N; [1; 2]%N] s =
    (s, [[(2%N, 5); (1%N, 12)]; [(2%N, 5); (1%N, 12); (3%N, 40)]; [(2%N, 5); (1%N, 12)]]).
Proof.
  cbv zeta. split; [|reflexivity].
  repeat constructor; apply settledb_spec; reflexivity.
Qed.

(* why the freshness theorem has its premise: an explicit id at or above the generator's next id can be hit.  (In the
   code this case ends in `ValueError: Duplicate FS id` when both structures are reached; ids are C09's subject.) *)
Example C14_fresh_needs_ids_below_next :
  let s := mkSt [mkE 1 (Some 3); mkE 2 None] 3 in
  NoDup (present (st_entries s)) /\ ~ NoDup (present (st_entries (traverse [1; 2]%N s))).
Proof.
  cbv zeta. split; [repeat constructor; cbn; intuition discriminate|].
  intros H. apply znodupb_spec in H. discriminate H.
Qed.
