(* Props/C08.v — property C08: views are isolated, share ids and types, and every handle sees the same
   state.  Only the property theorems (closed by `exact`), non-vacuity examples and Print Assumptions.
   `reachable ts l heap s`: s is the state after ANY history of operations on a fresh Cas(lenient = l) whose
   scenario created the structures `heap`; `inv l s` is the invariant every reachable state satisfies
   (C08_reachable_inv), so theorems stated with `inv` hold after all histories. *)
From Cassis Require Import Base Views ViewsProofs.
Open Scope Z_scope.

Theorem C08_reachable_inv : forall ts l heap s,
  heap0_okb heap = true -> reachable ts l heap s -> inv l s.
Proof. exact reachable_inv. Qed.
Print Assumptions C08_reachable_inv.

Theorem C08_reachable_ainv : forall ts l heap s,
  labels_okb heap = true -> reachable ts l heap s -> ainv (st s).
Proof. exact reachable_ainv. Qed.
Print Assumptions C08_reachable_ainv.

Theorem C08_init_reachable : forall ts k heap, reachable ts (k_lenient k) heap (init ts k heap).
Proof. exact init_reachable. Qed.
Print Assumptions C08_init_reachable.

Theorem C08_reachable_step : forall ts l heap s o,
  reachable ts l heap s -> reachable ts l heap (fst (step ts s o)).
Proof. exact reachable_step. Qed.
Print Assumptions C08_reachable_step.

(* ---- handles_equivalent: two handles on one view name give the same observation AND the same state for every
   operation, and over whole histories any choice of handle per step gives the same observations *)
Theorem C08_handles_equivalent : forall ts l s i j a b o,
  inv l s -> nth_error (hs s) i = Some a -> nth_error (hs s) j = Some b -> h_view a = h_view b ->
  step ts s (retarget i o) = step ts s (retarget j o).
Proof. exact handles_equivalent. Qed.
Print Assumptions C08_handles_equivalent.

Theorem C08_handles_equivalent_run : forall ts l s ops1 ops2,
  inv l s -> hequiv ts s ops1 ops2 -> run ts s ops1 = run ts s ops2.
Proof. exact handles_equivalent_run. Qed.
Print Assumptions C08_handles_equivalent_run.

(* ---- lenient_inherited *)
Theorem C08_lenient_inherited : forall ts l heap s h hd,
  heap0_okb heap = true -> reachable ts l heap s -> nth_error (hs s) h = Some hd ->
  h_lenient hd = l /\ exists v, alookup (h_view hd) (st_views (st s)) = Some v.
Proof. exact lenient_inherited. Qed.
Print Assumptions C08_lenient_inherited.

Theorem C08_new_handle_copies : forall ts s h hd name xid num s' n,
  nth_error (hs s) h = Some hd ->
  (step ts s (OCreateView h name xid num) = (s', ObHandle n) \/ step ts s (OGetView h name) = (s', ObHandle n)) ->
  n = List.length (hs s) /\ hs s' = hs s ++ [mkHandle name (h_lenient hd)].
Proof. exact new_handle_copies. Qed.
Print Assumptions C08_new_handle_copies.

Theorem C08_lenient_lost_refuted : exists hd name, h_lenient (new_handle_old name hd) <> h_lenient hd.
Proof. exact lenient_lost_refuted. Qed.
Print Assumptions C08_lenient_lost_refuted.

(* ---- one_sofa_per_view: the two dicts have the same keys in the same order, without repetition; the sofa of a
   view is the object registered under the view's name, carries that name; no two views share a sofa *)
Theorem C08_one_sofa_per_view : forall ts l heap s,
  heap0_okb heap = true -> reachable ts l heap s -> wf_store (st s) = true.
Proof. exact one_sofa_per_view. Qed.
Print Assumptions C08_one_sofa_per_view.

Theorem C08_wf_store_names : forall s, wf_store s = true ->
  NoDup (akeys (st_views s)) /\ akeys (st_views s) = akeys (st_sofas s) /\ List.length (st_views s) = List.length (st_sheap s).
Proof. exact wf_store_names. Qed.
Print Assumptions C08_wf_store_names.

Theorem C08_wf_store_view : forall s n v, wf_store s = true -> alookup n (st_views s) = Some v ->
  alookup n (st_sofas s) = Some (v_sofa v) /\ exists x, nth_error (st_sheap s) (v_sofa v) = Some x /\ s_name x = n.
Proof. exact wf_store_view. Qed.
Print Assumptions C08_wf_store_view.

Theorem C08_wf_store_sofa_inj : forall s n1 v1 n2 v2, wf_store s = true ->
  alookup n1 (st_views s) = Some v1 -> alookup n2 (st_views s) = Some v2 -> v_sofa v1 = v_sofa v2 -> n1 = n2.
Proof. exact wf_store_sofa_inj. Qed.
Print Assumptions C08_wf_store_sofa_inj.

Theorem C08_conv_in_sync : forall ts l heap s a x t,
  heap0_okb heap = true -> reachable ts l heap s ->
  nth_error (st_sheap (st s)) a = Some x -> s_text x = Some t -> s_conv x = Some t.
Proof. exact conv_in_sync. Qed.
Print Assumptions C08_conv_in_sync.

(* ---- sofa_read_your_writes: immediately through any handle of the view, and over histories: the sofa of a view
   is the initial one with every write through ANY handle of that view applied in order *)
Theorem C08_sofa_read_your_writes : forall ts l s i j a b,
  inv l s -> nth_error (hs s) i = Some a -> nth_error (hs s) j = Some b -> h_view a = h_view b ->
  (forall v, exists s', step ts s (OSetText i v) = (s', ObUnit) /\ step ts s' (OGetText j) = (s', ObText v)) /\
  (forall v, exists s', step ts s (OSetMime i v) = (s', ObUnit) /\ step ts s' (OGetMime j) = (s', ObStr v)) /\
  (forall v, exists s', step ts s (OSetUri i v) = (s', ObUnit) /\ step ts s' (OGetUri j) = (s', ObStr v)) /\
  (forall v, exists s', step ts s (OSetArr i v) = (s', ObUnit) /\ step ts s' (OGetArr j) = (s', ObArr v)).
Proof. exact sofa_read_your_writes. Qed.
Print Assumptions C08_sofa_read_your_writes.

Theorem C08_sofa_is_last_written : forall ts l ops s name x,
  inv l s -> view_sofa (st s) name = Some x ->
  view_sofa (st (fst (run ts s ops))) name = Some (apply_writes ts s ops name x).
Proof. exact sofa_is_last_written. Qed.
Print Assumptions C08_sofa_is_last_written.

(* ---- views_disjoint: an operation through a handle of one view changes neither the index nor the sofa of
   another view, nor what select_all returns there (no premise on the state for the index part) *)
Theorem C08_views_disjoint : forall ts s o name,
  op_view s o <> Some name -> view_index (st (fst (step ts s o))) name = view_index (st s) name.
Proof. exact views_disjoint. Qed.
Print Assumptions C08_views_disjoint.

Theorem C08_views_disjoint_sofa : forall ts l s o name x,
  inv l s -> op_view s o <> Some name -> view_sofa (st s) name = Some x ->
  view_sofa (st (fst (step ts s o))) name = Some x.
Proof. exact views_disjoint_sofa. Qed.
Print Assumptions C08_views_disjoint_sofa.

Theorem C08_views_disjoint_select : forall ts l s o j b,
  inv l s -> nth_error (hs s) j = Some b -> op_view s o <> Some (h_view b) ->
  snd (step ts (fst (step ts s o)) (OSelectAll j)) = snd (step ts s (OSelectAll j)).
Proof. exact views_disjoint_select. Qed.
Print Assumptions C08_views_disjoint_select.

(* ---- shared_ids: one generator for all handles, sofas and structures.  create_view(name, xmiID=k, sofaNum=m) is
   part of the histories: an explicit id moves the shared generator past it (reserve_id), so it is never generated
   afterwards through any handle.  `reachable_fresh`: histories in which every explicit number was at or above the
   generator's next value when passed — in particular (C08_no_explicit_fresh) all histories without explicit numbers,
   for which C08_shared_ids_fresh / C08_sofa_nums_distinct are the statements of the first version of this file. *)
Theorem C08_shared_ids : forall ts l heap s,
  heap0_okb heap = true -> reachable ts l heap s ->
  NoDup (st_genlog (st s)) /\ Forall (fun i => i < st_next_id (st s)) (st_genlog (st s)) /\
  Forall (fun x => s_xid x < st_next_id (st s)) (st_sheap (st s)).
Proof. exact shared_ids. Qed.
Print Assumptions C08_shared_ids.

Theorem C08_shared_ids_fresh : forall ts l heap s,
  heap0_okb heap = true -> reachable_fresh ts l heap s ->
  NoDup (st_genlog (st s)) /\ Forall (fun i => i < st_next_id (st s)) (st_genlog (st s)) /\
  Forall (fun x => In (s_xid x) (st_genlog (st s))) (st_sheap (st s)).
Proof. exact shared_ids_fresh. Qed.
Print Assumptions C08_shared_ids_fresh.

Theorem C08_no_explicit_fresh : forall ts ops s, forallb no_explicit ops = true -> fresh_run ts s ops = true.
Proof. exact no_explicit_fresh. Qed.
Print Assumptions C08_no_explicit_fresh.

Theorem C08_sofa_id_never_generated : forall ts l s ops x,
  inv l s -> In x (st_sheap (st s)) ->
  exists extra, st_genlog (st (fst (run ts s ops))) = extra ++ st_genlog (st s) /\ ~ In (s_xid x) extra.
Proof. exact sofa_id_never_generated. Qed.
Print Assumptions C08_sofa_id_never_generated.

Theorem C08_generated_id_fresh : forall ts l s h o s',
  inv l s -> step ts s (OAdd h o false) = (s', ObUnit) ->
  let id := st_next_id (st s) in
  st_genlog (st s') = id :: st_genlog (st s) /\ ~ In id (st_genlog (st s)) /\
  (exists fs', hget o (st_heap (st s')) = Some fs' /\ f_xid fs' = Some id).
Proof. exact generated_id_fresh. Qed.
Print Assumptions C08_generated_id_fresh.

Theorem C08_generated_id_no_sofa : forall ts l s h o keep s' fs,
  inv l s -> step ts s (OAdd h o keep) = (s', ObUnit) -> hget o (st_heap (st s)) = Some fs ->
  keep = false \/ f_xid fs = None ->
  (exists fs', hget o (st_heap (st s')) = Some fs' /\ f_xid fs' = Some (st_next_id (st s))) /\
  Forall (fun x => s_xid x <> st_next_id (st s)) (st_sheap (st s')).
Proof. exact generated_id_no_sofa. Qed.
Print Assumptions C08_generated_id_no_sofa.

Theorem C08_create_view_explicit : forall ts l s h name xid num s' n,
  inv l s -> step ts s (OCreateView h name xid num) = (s', ObHandle n) ->
  exists x, view_sofa (st s') name = Some x /\
            s_xid x = (match xid with Some k => k | None => st_next_id (st s) end) /\
            s_num x = (match num with Some k => k | None => st_next_sofa (st s) end) /\
            s_name x = name /\ s_text x = None /\
            s_xid x < st_next_id (st s') /\ s_num x < st_next_sofa (st s') /\
            st_next_id (st s) <= st_next_id (st s') /\ st_next_sofa (st s) <= st_next_sofa (st s') /\
            st_sheap (st s') = st_sheap (st s) ++ [x].
Proof. exact create_view_explicit. Qed.
Print Assumptions C08_create_view_explicit.

Theorem C08_create_view_fresh : forall ts l s h name s' n,
  inv l s -> step ts s (OCreateView h name None None) = (s', ObHandle n) ->
  exists x, view_sofa (st s') name = Some x /\ s_xid x = st_next_id (st s) /\ s_num x = st_next_sofa (st s) /\
            s_name x = name /\ s_text x = None /\
            (forall y, In y (st_sheap (st s)) -> s_xid y <> s_xid x /\ s_num y <> s_num x).
Proof. exact create_view_fresh. Qed.
Print Assumptions C08_create_view_fresh.

Theorem C08_sofa_nums_distinct : forall ts l heap s a b x y,
  heap0_okb heap = true -> reachable_fresh ts l heap s ->
  nth_error (st_sheap (st s)) a = Some x -> nth_error (st_sheap (st s)) b = Some y -> s_num x = s_num y -> a = b.
Proof. exact sofa_nums_distinct. Qed.
Print Assumptions C08_sofa_nums_distinct.

(* the premise `fresh` is needed: a number below the generator's next value is taken as it is (the caller's business) *)
Theorem C08_stale_explicit_id_repeats :
  exists ts heap ops x y, let s := fst (run ts (init0 false heap) ops) in
    nth_error (st_sheap (st s)) 0 = Some x /\ nth_error (st_sheap (st s)) 1 = Some y /\ s_xid x = s_xid y /\ s_num x = s_num y.
Proof. exact stale_explicit_id_repeats. Qed.
Print Assumptions C08_stale_explicit_id_repeats.

(* ---- docann_once *)
Theorem C08_docann_once : forall ts l r s name o,
  inv l s -> ainv (st s) -> (l = true \/ memb DOCANN (ts_types ts) = true) -> memb DOCANN (ts_family ts) = true ->
  Forall (lang_op_on s name) (o :: r) ->
  let s' := fst (run ts s (o :: r)) in
  let n := family_count ts (st s) name in
  family_count ts (st s') name = (if Nat.eqb n 0 then 1 else n)%nat /\
  exists d, view_docann ts (st s') name = Some d /\
            view_docann ts (st (fst (step ts s o))) name = Some d /\
            (n <> 0%nat -> view_docann ts (st s) name = Some d).
Proof. exact docann_once. Qed.
Print Assumptions C08_docann_once.

Theorem C08_docann_once_step : forall ts l s h hd o,
  inv l s -> ainv (st s) -> nth_error (hs s) h = Some hd ->
  (l = true \/ memb DOCANN (ts_types ts) = true) -> memb DOCANN (ts_family ts) = true ->
  (o = OGetLang h \/ exists v, o = OSetLang h v) ->
  let s' := fst (step ts s o) in
  let n := family_count ts (st s) (h_view hd) in
  family_count ts (st s') (h_view hd) = (if Nat.eqb n 0 then 1 else n)%nat /\
  (exists d, view_docann ts (st s') (h_view hd) = Some d /\
             (n <> 0%nat -> view_docann ts (st s) (h_view hd) = Some d)) /\
  hs s' = hs s /\
  (snd (step ts s o) = ObUnit \/ exists v, snd (step ts s o) = ObStr v).
Proof. exact docann_once_step. Qed.
Print Assumptions C08_docann_once_step.

(* ---- covered_text_is_slice: add points the annotation at the sofa of the view it was added through; over any
   history that does not add it again, its covered text is the Python slice of that view's current text *)
Theorem C08_add_sets_sofa : forall ts s h hd o keep s' fs v,
  nth_error (hs s) h = Some hd -> step ts s (OAdd h o keep) = (s', ObUnit) ->
  hget o (st_heap (st s)) = Some fs -> alookup (h_view hd) (st_views (st s)) = Some v ->
  exists fs', hget o (st_heap (st s')) = Some fs' /\
    f_sofa fs' = (if f_has_sofa fs then Some (v_sofa v) else f_sofa fs) /\
    f_type fs' = f_type fs /\ f_has_sofa fs' = f_has_sofa fs /\ f_has_span fs' = f_has_span fs /\
    f_begin fs' = f_begin fs /\ f_end fs' = f_end fs.
Proof. exact add_sets_sofa. Qed.
Print Assumptions C08_add_sets_sofa.

Theorem C08_covered_text_is_slice : forall ts l ops s o fs name v,
  inv l s -> ainv (st s) -> hget o (st_heap (st s)) = Some fs -> f_has_sofa fs && f_has_span fs = true ->
  alookup name (st_views (st s)) = Some v -> f_sofa fs = Some (v_sofa v) ->
  Forall (fun op => forall h k, op <> OAdd h o k) ops ->
  let s' := fst (run ts s ops) in
  exists x, view_sofa (st s') name = Some x /\
    covered_text (st s') o =
      ObText (match s_text x with Some t => Some (pyslice (f_begin fs) (f_end fs) t) | None => None end).
Proof. exact covered_text_is_slice. Qed.
Print Assumptions C08_covered_text_is_slice.

Theorem C08_covered_text_no_sofa : forall s o fs,
  hget o (st_heap s) = Some fs -> f_has_sofa fs && f_has_span fs = true -> f_sofa fs = None ->
  covered_text s o = ObNoSofa.
Proof. exact covered_text_no_sofa. Qed.
Print Assumptions C08_covered_text_no_sofa.

Theorem C08_covered_text_not_annotation : forall s o fs,
  hget o (st_heap s) = Some fs -> f_has_sofa fs && f_has_span fs = false -> covered_text s o = ObNotImpl.
Proof. exact covered_text_not_annotation. Qed.
Print Assumptions C08_covered_text_not_annotation.

(* Python's s[b:e]: in range it is the e-b elements after the first b; out of range offsets are clamped
   (negative counts from the end, then into [0, len]); the result is a contiguous piece *)
Theorem C08_pyslice_in_range : forall (l : text) b e,
  0 <= b -> b <= e -> e <= Z.of_nat (List.length l) ->
  pyslice (Some b) (Some e) l = firstn (Z.to_nat (e - b)) (skipn (Z.to_nat b) l).
Proof. exact (@pyslice_in_range N). Qed.
Print Assumptions C08_pyslice_in_range.

Theorem C08_pyslice_clamp : forall (l : text) b e,
  let n := Z.of_nat (List.length l) in
  let '(b', e') := slice_bounds n b e in
  0 <= b' <= n /\ 0 <= e' <= n /\ pyslice b e l = pyslice (Some b') (Some e') l.
Proof. exact (@pyslice_clamp N). Qed.
Print Assumptions C08_pyslice_clamp.

Theorem C08_pyslice_length : forall (l : text) b e,
  let '(b', e') := slice_bounds (Z.of_nat (List.length l)) b e in
  Z.of_nat (List.length (pyslice b e l)) = Z.max 0 (e' - b').
Proof. exact (@pyslice_length N). Qed.
Print Assumptions C08_pyslice_length.

Theorem C08_pyslice_contiguous : forall (l : text) b e,
  let '(b', e') := slice_bounds (Z.of_nat (List.length l)) b e in
  exists post, skipn (Z.to_nat b') l = pyslice b e l ++ post.
Proof. exact (@pyslice_contiguous N). Qed.
Print Assumptions C08_pyslice_contiguous.

(* ---- strict_add_refuses *)
Theorem C08_strict_add_refuses : forall ts s h hd o fs keep,
  nth_error (hs s) h = Some hd -> h_lenient hd = false ->
  hget o (st_heap (st s)) = Some fs -> memb (f_type fs) (ts_types ts) = false ->
  (exists v, alookup (h_view hd) (st_views (st s)) = Some v) ->
  step ts s (OAdd h o keep) = (s, ObErr ERuntime).
Proof. exact strict_add_refuses. Qed.
Print Assumptions C08_strict_add_refuses.

Theorem C08_lenient_add_accepts : forall ts s h hd o fs keep,
  nth_error (hs s) h = Some hd -> (h_lenient hd = true \/ memb (f_type fs) (ts_types ts) = true) ->
  hget o (st_heap (st s)) = Some fs ->
  (exists v, alookup (h_view hd) (st_views (st s)) = Some v) ->
  exists s', step ts s (OAdd h o keep) = (s', ObUnit) /\
             view_index (st s') (h_view hd) = view_index (st s) (h_view hd) ++ [o].
Proof. exact lenient_add_accepts. Qed.
Print Assumptions C08_lenient_add_accepts.

(* ---- the constructor's sofa arguments are writes like any other: Cas(sofa_string = t, sofa_mime = m) leaves exactly t
   and m (ANY given string, the empty one included; "text/plain" only when no MIME type was given) in the initial view's
   sofa, to be read back through every handle of that view (C08_sofa_read_your_writes / C08_handles_equivalent) *)
Theorem C08_ctor_sofa_as_given : forall ts k heap t,
  heap0_okb heap = true -> k_text k = Some t ->
  exists x, view_sofa (st (init ts k heap)) "_InitialView" = Some x /\
    s_text x = Some t /\ s_mime x = Some (match k_mime k with Some m => m | None => "text/plain"%string end) /\
    s_uri x = None /\ s_arr x = None.
Proof. exact ctor_sofa_as_given. Qed.
Print Assumptions C08_ctor_sofa_as_given.

(* ---- the type system is shared and may grow during the history (Views.ev / run_ev: operations interleaved with
   TypeSystem.create_type).  `reachable_ev ts0 l heap ts s`: s after ANY history of operations and declarations on a
   fresh CAS, ts the type system at its end.  The invariants hold for all of them, so every theorem above stated with
   `inv` (all are for an arbitrary ts) holds at every point of such a history with the type system of that moment;
   handles of one view stay interchangeable; and an instance of a subtype of DocumentAnnotation declared AFTER handles
   were obtained and used is found as the document annotation through every one of them, nothing is created. *)
Theorem C08_reachable_ev_inv : forall ts0 l heap ts s,
  heap0_okb heap = true -> reachable_ev ts0 l heap ts s -> inv l s.
Proof. exact reachable_ev_inv. Qed.
Print Assumptions C08_reachable_ev_inv.

Theorem C08_reachable_ev_ainv : forall ts0 l heap ts s,
  labels_okb heap = true -> reachable_ev ts0 l heap ts s -> ainv (st s).
Proof. exact reachable_ev_ainv. Qed.
Print Assumptions C08_reachable_ev_ainv.

Theorem C08_reachable_reachable_ev : forall ts l heap s, reachable ts l heap s -> reachable_ev ts l heap ts s.
Proof. exact reachable_reachable_ev. Qed.
Print Assumptions C08_reachable_reachable_ev.

Theorem C08_reachable_ev_step : forall ts0 l heap ts s e,
  reachable_ev ts0 l heap ts s -> reachable_ev ts0 l heap (fst (fst (step_ev ts s e))) (snd (fst (step_ev ts s e))).
Proof. exact reachable_ev_step. Qed.
Print Assumptions C08_reachable_ev_step.

Theorem C08_handles_equivalent_ev : forall l ts s evs1 evs2,
  inv l s -> hequiv_ev ts s evs1 evs2 -> run_ev ts s evs1 = run_ev ts s evs2.
Proof. exact handles_equivalent_ev. Qed.
Print Assumptions C08_handles_equivalent_ev.

Theorem C08_declare_grows : forall n p ts x,
  (memb x (ts_types ts) = true -> memb x (ts_types (declare n p ts)) = true) /\
  (memb x (ts_family ts) = true -> memb x (ts_family (declare n p ts)) = true).
Proof. exact declare_grows. Qed.
Print Assumptions C08_declare_grows.

Theorem C08_declare_subtype : forall n p ts,
  memb n (ts_types (declare n p ts)) = true /\
  (memb p (ts_family ts) = true -> memb n (ts_family (declare n p ts)) = true).
Proof. exact declare_subtype. Qed.
Print Assumptions C08_declare_subtype.

Theorem C08_declare_step : forall ts s n p,
  memb n (ts_types ts) = false -> step_ev ts s (EDeclare n p) = (declare n p ts, s, ObUnit).
Proof. exact declare_step. Qed.
Print Assumptions C08_declare_step.

Theorem C08_added_family_instance_is_docann : forall ts l s h hd o fs keep s1,
  inv l s -> ainv (st s) -> nth_error (hs s) h = Some hd ->
  hget o (st_heap (st s)) = Some fs -> memb (f_type fs) (ts_family ts) = true ->
  family_count ts (st s) (h_view hd) = 0%nat ->
  step ts s (OAdd h o keep) = (s1, ObUnit) ->
  view_docann ts (st s1) (h_view hd) = Some o /\ family_count ts (st s1) (h_view hd) = 1%nat /\ hs s1 = hs s.
Proof. exact added_family_instance_is_docann. Qed.
Print Assumptions C08_added_family_instance_is_docann.

Theorem C08_late_subtype_found_by_every_handle : forall ts0 l s n p h hd j hb o fs keep s1 op,
  let ts := declare n p ts0 in
  inv l s -> ainv (st s) -> memb p (ts_family ts0) = true ->
  (l = true \/ memb DOCANN (ts_types ts0) = true) -> memb DOCANN (ts_family ts0) = true ->
  nth_error (hs s) h = Some hd -> nth_error (hs s) j = Some hb -> h_view hb = h_view hd ->
  hget o (st_heap (st s)) = Some fs -> f_type fs = n ->
  family_count ts (st s) (h_view hd) = 0%nat ->
  step ts s (OAdd h o keep) = (s1, ObUnit) ->
  (op = OGetLang j \/ exists v, op = OSetLang j v) ->
  let s2 := fst (step ts s1 op) in
  view_docann ts (st s1) (h_view hd) = Some o /\
  view_docann ts (st s2) (h_view hd) = Some o /\ family_count ts (st s2) (h_view hd) = 1%nat /\ hs s2 = hs s.
Proof. exact late_subtype_found_by_every_handle. Qed.
Print Assumptions C08_late_subtype_found_by_every_handle.

(* non-vacuity: a strict CAS with text, a second view, three handles; an annotation moved from one view to the
   other, a foreign type refused, the document annotation created once and found again through another handle *)
Example C08_premises_hold :
  let ts := mkTs ["t.Tok"; DOCANN] [DOCANN; "t.Doc"] in
  let heap := [(0%N, mkFs "t.Tok" true true None None (Some 1) (Some 4) None);
               (1%N, mkFs "x.Foreign" true true None None (Some 0) (Some 1) None)] in
  let k := mkCtor false (Some [97; 98; 99; 100; 101]%N) None None in
  let ops := [OCreateView 0 "v2" None None; OGetView 1 "_InitialView"; OAdd 2 0%N true; OCovered 0%N;
              OSetText 1 (Some [120; 121; 122]%N); OAdd 1 0%N true; OCovered 0%N; OAdd 1 1%N true;
              OSetLang 2 (Some "en"); OGetLang 0; OSelectAll 0; OSelectAll 1] in
  heap0_okb heap = true /\ labels_okb heap = true /\ memb DOCANN (ts_types ts) = true /\ memb DOCANN (ts_family ts) = true /\
  snd (run ts (init ts k heap) ops) =
    [ObHandle 1; ObHandle 2; ObUnit; ObText (Some [98; 99; 100]%N); ObUnit; ObUnit; ObText (Some [121; 122]%N);
     ObErr ERuntime; ObUnit; ObStr (Some "en"); ObSel [0; 1000]%N; ObSel [0]%N].
Proof. cbv zeta. repeat split; vm_compute; reflexivity. Qed.

(* non-vacuity for the explicit-id theorems: a view created through a derived handle with xmiID 6 and sofaNum 4; the
   structures added afterwards through three handles get 7, 8, 9 (never 6), a third view gets id 10 and number 5;
   the history is fresh *)
Example C08_explicit_ids :
  let ts := mkTs ["t.Tok"; DOCANN] [DOCANN; "t.Doc"] in
  let heap := [(0%N, mkFs "t.Tok" true true None None (Some 0) (Some 1) None);
               (1%N, mkFs "t.Tok" true true None None (Some 1) (Some 2) None);
               (2%N, mkFs "t.Tok" true true None None (Some 2) (Some 3) None)] in
  let ops := [OGetView 0 "_InitialView"; OCreateView 1 "other" (Some 6) (Some 4); OAdd 0 0%N true; OAdd 2 1%N false;
              OAdd 1 2%N true; OCreateView 2 "third" None None] in
  let s := fst (run ts (init0 true heap) ops) in
  fresh_run ts (init0 true heap) ops = true /\
  map (fun x => (s_name x, s_xid x, s_num x)) (st_sheap (st s)) =
    [("_InitialView"%string, 1, 1); ("other"%string, 6, 4); ("third"%string, 10, 5)] /\
  map (fun p => f_xid (snd p)) (st_heap (st s)) = [Some 7; Some 8; Some 9] /\
  st_genlog (st s) = [10; 9; 8; 7; 6; 1].
Proof. cbv zeta. repeat split; vm_compute; reflexivity. Qed.

(* non-vacuity for the growing type system: a strict CAS; handle 1 (view "other") reads the document language (a
   DocumentAnnotation is created) and the annotation is removed again; an instance of t.Late is refused while the
   type is unknown; t.Late is declared below DocumentAnnotation; the instance is added through a NEW handle of the
   view; the OLD handle reads its language and nothing is created; declaring the name again is a ValueError *)
Example C08_late_subtype :
  let ts0 := mkTs ["t.Tok"; DOCANN] [DOCANN; "t.Doc"] in
  let heap := [(0%N, mkFs "t.Late" true true None None (Some 0) (Some 3) (Some "de"))] in
  let evs := [EOp (OCreateView 0 "other" None None); EOp (OGetLang 1); EOp (ORemove 1 1000%N); EOp (OAdd 1 0%N true);
              EDeclare "t.Late" DOCANN; EOp (OGetView 0 "other"); EOp (OAdd 2 0%N true); EOp (OGetLang 1);
              EOp (OSelectAll 2); EDeclare "t.Late" DOCANN] in
  heap0_okb heap = true /\ labels_okb heap = true /\
  snd (run_ev ts0 (init0 false heap) evs) =
    [ObHandle 1; ObStr None; ObUnit; ObErr ERuntime; ObUnit; ObHandle 2; ObUnit; ObStr (Some "de"); ObSel [0]%N;
     ObErr EValue] /\
  fst (fst (run_ev ts0 (init0 false heap) evs)) = mkTs ["t.Tok"; DOCANN; "t.Late"] [DOCANN; "t.Doc"; "t.Late"].
Proof. cbv zeta. repeat split; vm_compute; reflexivity. Qed.
