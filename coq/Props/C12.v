(* Props/C12.v — property C12: the type system XML round trip preserves every declaration, in any declaration
   order.  Only the property theorems (closed by `exact`), Print Assumptions and non-vacuity examples.
   Vocabulary (coq/Descr.v): descr = abstract descriptor (the XML content); tsys = the user types of a type system
   (supertype, description, own features with range, element type, tri-state multiple-references flag, description,
   reserved-name flag) + the set of redeclared predefined names; descr_of_ts = TypeSystemSerializer;
   ts_of_descr order = TypeSystemDeserializer, `order` being what toposort_flatten returned; order_okb = the contract of
   toposort_flatten (every declared name once, a declared supertype before its subtypes); canon = types sorted by name. *)
From Cassis Require Import Base Descr DescrProofs DescrProofs2 DescrProofs3.
From Cassis Require TS TSProofs DescrTS DescrTSProofs.

(* Round trip.  For every well-formed type system (unique trimmed type names, closed references, no feature declared
   again along a supertype chain, a DocumentAnnotation) and every admissible creation order: reading what was written
   succeeds and yields the same user types with the same supertypes, descriptions up to strip() (an empty one = none),
   own features in the same order with range, element type, tri-state flag, description and reserved name — types
   without namespace, features self/type and an extended DocumentAnnotation are ordinary instances — and the set of
   redeclared names the writer wrote. *)
Theorem C12_descr_roundtrip : forall s order,
  wf_tsb s = true -> order_okb order (descr_of_ts s) = true ->
  exists s', ts_of_descr order (descr_of_ts s) = Ok s' /\ canon s' = canon (norm_ts s).
Proof. exact roundtrip. Qed.
Print Assumptions C12_descr_roundtrip.

(* Re-emission.  A well-formed descriptor in written form (redeclared built-ins and DocumentAnnotation first, sorted,
   built-ins with their own declaration; then the user types sorted by full name) that loads to s' is re-emitted from
   s' identically, up to trimming of every name and description. *)
Theorem C12_descr_reemit_identical : forall d order s',
  wf_descrb d = true -> emitted_formb d = true -> order_okb order d = true ->
  ts_of_descr order d = Ok s' -> descr_of_ts s' = trimmed d.
Proof. exact reemit_identical. Qed.
Print Assumptions C12_descr_reemit_identical.

(* ... and what the writer produces from a well-formed type system is such a descriptor: write, read, write again
   reproduces the first descriptor. *)
Theorem C12_write_read_write : forall s order s',
  wf_tsb s = true -> order_okb order (descr_of_ts s) = true ->
  ts_of_descr order (descr_of_ts s) = Ok s' -> descr_of_ts s' = trimmed (descr_of_ts s).
Proof. exact write_read_write. Qed.
Print Assumptions C12_write_read_write.

(* Declaration order.  Any permutation of the declarations of a well-formed descriptor (subtypes before supertypes,
   features referring to later types, redundant built-ins anywhere) and any two admissible creation orders load, and load
   to the same type system. *)
Theorem C12_descr_permutation_invariant : forall d1 d2 o1 o2,
  Permutation d1 d2 -> wf_descrb d1 = true -> order_okb o1 d1 = true -> order_okb o2 d2 = true ->
  exists s1 s2, ts_of_descr o1 d1 = Ok s1 /\ ts_of_descr o2 d2 = Ok s2 /\ canon s1 = canon s2.
Proof. exact permutation_invariant. Qed.
Print Assumptions C12_descr_permutation_invariant.

(* the reader on a well-formed descriptor is its declarative reading: every declared user type with exactly its
   declared features, in creation order *)
Theorem C12_load_is_declarative_reading : forall d order,
  wf_descrb d = true -> order_okb order d = true -> ts_of_descr order d = Ok (state_of order d).
Proof. exact load_wf. Qed.
Print Assumptions C12_load_is_declarative_reading.

(* Built-ins redeclared identically: adding the own declaration of a predefined type to a well-formed descriptor
   changes nothing but the remembered set of redeclared names. *)
Theorem C12_builtin_redeclared_identically_ok : forall d b order,
  wf_descrb d = true -> In b builtins -> t_name b <> "uima.cas.TOP" -> ~ In (t_name b) (map t_name (prep d)) ->
  order_okb order d = true ->
  ts_of_descr order d = Ok (state_of order d) /\
  ts_of_descr order (b :: d) = Ok (state_of order (b :: d)) /\
  s_types (state_of order (b :: d)) = s_types (state_of order d) /\
  Permutation (s_redecl (state_of order (b :: d))) (t_name b :: s_redecl (state_of order d)).
Proof. exact builtin_identical_ok. Qed.
Print Assumptions C12_builtin_redeclared_identically_ok.

(* Built-ins redeclared differently (other supertype, other set of feature names, or a feature with another
   description, range, element type (absent = TOP) or multiple-references flag (absent = false)): the load raises
   ValueError — KeyError when, besides, some reference of the descriptor does not resolve — in every order. *)
Theorem C12_builtin_redeclared_differently_rejected : forall d order t b,
  In t (prep d) -> find_decl (t_name t) builtins = Some b -> builtin_same_declb t b = false ->
  ts_of_descr order d = Err (if resolve_okb (prep d) then EValue else EKey).
Proof. exact builtin_differently_rejected. Qed.
Print Assumptions C12_builtin_redeclared_differently_rejected.

(* Loading preserves well-formedness.  What a well-formed descriptor (whose typeDescriptions all carry a name) loads to, in
   any admissible order, is a well-formed type system: unique trimmed names, closed references, no final supertype, the
   reserved-name invariant, no feature repeated along a supertype chain, only redeclarable names remembered, and a
   DocumentAnnotation that the writer may leave out only when it is the default one.  (str.strip is idempotent.) *)
Theorem C12_load_preserves_wf : forall d order s,
  wf_descrb d = true -> named_descrb d = true -> order_okb order d = true ->
  ts_of_descr order d = Ok s -> wf_tsb s = true.
Proof. exact load_preserves_wf. Qed.
Print Assumptions C12_load_preserves_wf.

(* ... hence write . load . write . load = write . load ("the third emission is the second") is a theorem for EVERY
   well-formed descriptor, in written form or not: the type system s1 it loads to is written as a descriptor that loads
   again (in any admissible order o2), to a well-formed s2 that is written identically, with the content of s1 (an empty
   description being an absent one). *)
Theorem C12_reemit_fixpoint : forall d o1 s1 o2,
  wf_descrb d = true -> named_descrb d = true -> order_okb o1 d = true -> ts_of_descr o1 d = Ok s1 ->
  order_okb o2 (descr_of_ts s1) = true ->
  exists s2, ts_of_descr o2 (descr_of_ts s1) = Ok s2 /\ descr_of_ts s2 = descr_of_ts s1 /\
             wf_tsb s2 = true /\ canon s2 = canon (norm_ts s1).
Proof. exact reemit_fixpoint. Qed.
Print Assumptions C12_reemit_fixpoint.

(* ---- every descriptor, well-formed or not (vocabulary of coq/DescrProofs3.v: uniq_descrb = the typeDescriptions have
   distinct names after trimming (a repeated name is outside the model); read_spec = the declarative reading of any such
   descriptor: KeyError for an unresolved reference, ValueError for a built-in redeclared differently, a final supertype
   or a feature redefined differently, else every declared user type with own features = its declared features folded
   with _add_feature against what is visible at its supertype (an equal redefinition is dropped); res_agree = both Ok
   with the same canon, or both the same kind of exception) ---- *)

(* The supertype walk of the reader never runs out of fuel, for every descriptor and every order whatsoever: create_type
   has already refused a type whose supertype is not there yet, so the created types form a forest in creation order. *)
Theorem C12_load_total : forall order d, ts_of_descr order d <> OutOfFuel.
Proof. exact load_total. Qed.
Print Assumptions C12_load_total.

(* ... and the fuel bound inside wf_descrb follows from the toposort contract: a descriptor that is well-formed wherever
   the walk of the no-clash condition terminates within the bound (wf_descr_laxb), together with ANY admissible order,
   is well-formed.  Every theorem above with premises wf_descrb d, order_okb order d holds with wf_descr_laxb d instead. *)
Theorem C12_fuel_from_order : forall d order,
  wf_descr_laxb d = true -> order_okb order d = true -> wf_descrb d = true.
Proof. exact fuel_from_order. Qed.
Print Assumptions C12_fuel_from_order.

(* The same for type systems: the fuel bound inside wf_tsb (the walk of the no-clash condition) follows from the toposort
   contract on the WRITTEN descriptor: wf_ts_laxb = wf_tsb with the no-clash condition asked only where the walk
   terminates.  So C12_descr_roundtrip and C12_write_read_write hold with the premise wf_ts_laxb s. *)
Theorem C12_ts_fuel_from_order : forall s order,
  wf_ts_laxb s = true -> order_okb order (descr_of_ts s) = true -> wf_tsb s = true.
Proof. exact ts_fuel_from_order. Qed.
Print Assumptions C12_ts_fuel_from_order.

(* The reader on ANY descriptor with distinct names, under the toposort contract, is the declarative reading. *)
Theorem C12_load_is_reading_all : forall order d,
  uniq_descrb d = true -> order_okb order d = true -> ts_of_descr order d = read_spec order d.
Proof. exact load_reading_all. Qed.
Print Assumptions C12_load_is_reading_all.

(* Declaration order, in full: for ALL descriptors with distinct names, any permutation of the declarations and any two
   admissible creation orders: both loads succeed with the same content (types, supertypes, descriptions, own features,
   redeclared set) -- also when an equal redefinition of an inherited feature is silently dropped --, or both raise the
   same kind of exception. *)
Theorem C12_permutation_invariant_all : forall d1 d2 o1 o2,
  Permutation d1 d2 -> uniq_descrb d1 = true -> order_okb o1 d1 = true -> order_okb o2 d2 = true ->
  res_agree (ts_of_descr o1 d1) (ts_of_descr o2 d2).
Proof. exact permutation_invariant_all. Qed.
Print Assumptions C12_permutation_invariant_all.

(* ---- the tie to C10 / C11 ("for every type system obtained by ... XML loading ...").  Vocabulary of coq/DescrTS.v:
   tsys_of_content l = the type system of the hierarchy model TS.v obtained by replaying, on TypeSystem(
   add_document_annotation_type=False), what the reader does with the created types l (in creation order): create_type for
   each, then create_feature type by type, feature by feature -- an exception of any call is the result;  user_view ts =
   the types of ts that are not predefined, in registration order, as (name, description, supertype, own features);
   builtin_view ts = the predefined ones as (name, supertype, own features);  TS.WFh / TS.WF = the invariants under which
   every query theorem of Props/C10.v / Props/C11.v is stated;  wf_contentb l = unique names, wf_stypeb, no feature name
   repeated along a supertype chain, parents first. ---- *)

(* Type systems loaded from XML are well-formed type systems of the hierarchy model, and both models talk about the same
   thing: for a well-formed descriptor and any admissible order the replay succeeds, its result satisfies WFh and WF (so
   all of C10 and C11 applies to it), the user types read back from it -- names, descriptions, supertypes, own features
   with range, element type, flag, description, reserved name, in creation order -- are exactly the content the
   descriptor-level model computed, and the predefined types are those of a fresh type system. *)
Theorem C12_loaded_WF : forall d order s,
  wf_descrb d = true -> named_descrb d = true -> order_okb order d = true -> ts_of_descr order d = Ok s ->
  exists ts, DescrTS.tsys_of_content (s_types s) = Ok ts /\ TS.WFh ts /\ TS.WF ts /\
             DescrTS.user_view ts = s_types s /\ DescrTS.builtin_view ts = DescrTS.builtin_view TS.init_ts_nodoc.
Proof. exact DescrTSProofs.loaded_WF. Qed.
Print Assumptions C12_loaded_WF.

(* the same for any well-formed content listed parents first (e.g. what the API built) *)
Theorem C12_embedding_ok : forall l, DescrTS.wf_contentb l = true ->
  exists ts, DescrTS.tsys_of_content l = Ok ts /\ TS.WF ts /\
             DescrTS.user_view ts = l /\ DescrTS.builtin_view ts = DescrTS.builtin_view TS.init_ts_nodoc.
Proof. exact DescrTSProofs.embed_ok. Qed.
Print Assumptions C12_embedding_ok.

(* whatever the content, the replay ends in a type system satisfying the invariant (a refused call changes nothing) *)
Theorem C12_embedding_always_WF : forall l, TS.WF (fst (TS.run_ts (DescrTS.ops_of_types l) TS.init_ts_nodoc)).
Proof. exact DescrTSProofs.embed_WF. Qed.
Print Assumptions C12_embedding_always_WF.

(* an instance: is_instance_of, TypeSystem.subsumes and Type.subsumes agree on every type system loaded from XML *)
Theorem C12_loaded_queries_agree : forall d order s,
  wf_descrb d = true -> named_descrb d = true -> order_okb order d = true -> ts_of_descr order d = Ok s ->
  exists ts, DescrTS.tsys_of_content (s_types s) = Ok ts /\
    forall a p, In a ts -> In p ts -> TS.t_name p <> "" ->
    exists r, TS.is_instance_of ts (TS.t_name a) (TS.t_name p) = Ok r /\ TS.ts_subsumes ts (TS.t_name p) (TS.t_name a) = Ok r /\
              TS.subsumes_ty ts p a = Ok r.
Proof. exact DescrTSProofs.loaded_queries_agree. Qed.
Print Assumptions C12_loaded_queries_agree.

(* regression: the writer before commit fa385f5 moved an API-extended DocumentAnnotation on re-emission *)
Theorem C12_reemit_docann_position_old_refuted :
  exists s order s', wf_tsb s = true /\ order_okb order (descr_of_ts_old s) = true /\
    ts_of_descr order (descr_of_ts_old s) = Ok s' /\ descr_of_ts_old s' <> trimmed (descr_of_ts_old s).
Proof. exact reemit_docann_position_old_refuted. Qed.
Print Assumptions C12_reemit_docann_position_old_refuted.

(* regression: the redeclaration check before commit 7fd4ee0 accepted another multiple-references flag *)
Theorem C12_builtin_multi_flag_old_refuted :
  exists t b, find_decl (t_name t) builtins = Some b /\ builtin_same_declb t b = false /\ builtin_check1_old t = Ok true.
Proof. exact builtin_multi_flag_old_refuted. Qed.
Print Assumptions C12_builtin_multi_flag_old_refuted.

(* regression: before commit b4a91fc the writer decided from the feature NAMES alone whether DocumentAnnotation is the
   implicitly added one; a DocumentAnnotation of the user's own whose only feature is called language (here with a
   description, supertype AnnotationBase, language : Integer) was not written and came back as the default one.  The
   witness satisfies today's wf_tsb (whose DocumentAnnotation clause is now only "there is one") and violates the clause the
   premise needed before (docann_okb_names_old); C12_descr_roundtrip covers it today (Example C12_own_docann_roundtrip). *)
Theorem C12_docann_names_only_old_refuted :
  exists s order s', wf_tsb s = true /\ docann_okb_names_old s = false /\
    order_okb order (descr_of_ts_names_old s) = true /\
    ts_of_descr order (descr_of_ts_names_old s) = Ok s' /\ canon s' <> canon (norm_ts s).
Proof. exact docann_names_only_old_refuted. Qed.
Print Assumptions C12_docann_names_only_old_refuted.

(* What stays outside the statements above (modelling limits, no `_partial` theorem is left): str.strip() is modelled for
   ASCII white space; a descriptor that repeats a type name (the code keeps the last declaration with the features of both)
   is excluded by uniq_descrb / wf_descrb; the byte layer (lxml) is below the abstract descriptors, byte equality of
   re-emission is checked on the implementation by the oracle of harness/props/C12.py. *)

(* ------------------------------------------------------------------ non-vacuity *)
(* a type system with a tree below a no-namespace type, mutually recursive ranges, an element type, the three values of
   the flag, features self / type / self_, padded and blank descriptions, an extended DocumentAnnotation *)
Definition ex_ts : tsys := mkTS [
  mkST DOCANN None "uima.tcas.Annotation"
    [mkSF "language" false None "uima.cas.String" None None; mkSF "x" false (Some " d ") "a.B" None None];
  mkST "Top" None "uima.cas.TOP" [mkSF "type_" true None "uima.cas.Integer" None None];
  mkST "a.B" (Some " hello ") "Top" [mkSF "r" false None "z.B" None (Some true); mkSF "value" false None "uima.cas.String" None None];
  mkST "z.B" (Some "  ") "a.B" [mkSF "self_" true None "uima.cas.FSArray" (Some "Top") (Some false); mkSF "back" false None "a.B" None None];
  mkST "b.B" None "uima.tcas.DocumentAnnotation" [mkSF "self_" false None "uima.cas.String" None None]] [].
Definition ex_order : list tname := ["uima.cas.TOP"; "Top"; "uima.tcas.Annotation"; DOCANN; "b.B"; "a.B"; "z.B"].

Example C12_premises_hold_ts : wf_tsb ex_ts = true /\ order_okb ex_order (descr_of_ts ex_ts) = true.
Proof. split; vm_compute; reflexivity. Qed.

(* a descriptor with a subtype before its supertype, a feature referring to a later type, padded names, a redeclared
   built-in in between, and no DocumentAnnotation; two different admissible orders *)
Definition ex_descr : descr := [
  mkT " z.B " (Some " sub ") "a.B" [mkF "self" None " a.B" (Some "Top") (Some false)];
  mkT "uima.cas.Sofa" (Some "the sofa") "uima.cas.TOP"
    [mkF "sofaURI" None "uima.cas.String" None None; mkF "sofaNum" None "uima.cas.Integer" None None;
     mkF "sofaID" None "uima.cas.String" None None; mkF "mimeType" None "uima.cas.String" None (Some false);
     mkF "sofaArray" None "uima.cas.TOP" (Some "uima.cas.TOP") (Some true); mkF "sofaString" None "uima.cas.String" None None];
  mkT "a.B" None "Top" [mkF "r" None "z.B" None None];
  mkT "Top" None "uima.cas.TOP" []].
Example C12_premises_hold_descr :
  wf_descrb ex_descr = true /\ order_okb ["Top"; "a.B"; DOCANN; "z.B"] ex_descr = true
  /\ order_okb [DOCANN; "uima.cas.TOP"; "Top"; "a.B"; "z.B"] (rev ex_descr) = true.
Proof. repeat split; vm_compute; reflexivity. Qed.
Example C12_premises_hold_named : named_descrb ex_descr = true /\ named_descrb (descr_of_ts ex_ts) = true.
Proof. split; vm_compute; reflexivity. Qed.

(* a descriptor in written form *)
Example C12_premises_hold_written :
  wf_descrb (descr_of_ts ex_ts) = true /\ emitted_formb (descr_of_ts ex_ts) = true.
Proof. split; vm_compute; reflexivity. Qed.

(* a built-in redeclared differently: the flag of ArrayBase.elements *)
Example C12_differently :
  builtin_same_declb (mkT "uima.cas.ArrayBase" None "uima.cas.TOP" [mkF "elements" None "uima.cas.TOP" None None])
                     (mkT "uima.cas.ArrayBase" None "uima.cas.TOP" [mkF "elements" None "uima.cas.TOP" None (Some true)]) = false.
Proof. vm_compute. reflexivity. Qed.

(* a descriptor outside wf_descrb that the loader accepts: a.B redefines the inherited feature f equally (Feature.__eq__
   does not look at the flag) and the redefinition is dropped; with another range it is rejected, in both orders *)
Definition ex_redef (r : tname) : descr := [
  mkT "a.B" None "a.A" [mkF "f" None r None None; mkF "g" None "uima.cas.String" None None];
  mkT "a.A" None "uima.tcas.Annotation" [mkF "f" None "uima.cas.Integer" None (Some true)]].
Example C12_redefinition_dropped :
  wf_descrb (ex_redef "uima.cas.Integer") = false /\ uniq_descrb (ex_redef "uima.cas.Integer") = true /\
  order_okb ["a.A"; "a.B"; DOCANN] (ex_redef "uima.cas.Integer") = true /\
  order_okb [DOCANN; "a.A"; "a.B"] (rev (ex_redef "uima.cas.Integer")) = true /\
  ts_of_descr ["a.A"; "a.B"; DOCANN] (ex_redef "uima.cas.Integer") =
    Ok (mkTS [mkST "a.A" None "uima.tcas.Annotation" [mkSF "f" false None "uima.cas.Integer" None (Some true)];
              mkST "a.B" None "a.A" [mkSF "g" false None "uima.cas.String" None None];
              stype_of_decl default_docann] []).
Proof. repeat split; vm_compute; reflexivity. Qed.
Example C12_redefinition_rejected :
  uniq_descrb (ex_redef "uima.cas.String") = true /\
  ts_of_descr ["a.A"; "a.B"; DOCANN] (ex_redef "uima.cas.String") = Err EValue /\
  ts_of_descr [DOCANN; "a.A"; "a.B"] (rev (ex_redef "uima.cas.String")) = Err EValue.
Proof. repeat split; vm_compute; reflexivity. Qed.
Example C12_lax_premise : wf_descr_laxb ex_descr = true /\ wf_ts_laxb ex_ts = true.
Proof. split; vm_compute; reflexivity. Qed.

(* the embedding on the example: the loaded content is a well-formed content listed parents first, and read back it is itself *)
Example C12_embedding_example :
  DescrTS.wf_contentb (s_types (state_of ["Top"; "a.B"; DOCANN; "z.B"] ex_descr)) = true /\
  match DescrTS.tsys_of_content (s_types (state_of ["Top"; "a.B"; DOCANN; "z.B"] ex_descr)) with
  | Ok ts => TS.wfb ts && list_eqb stype_eqb (DescrTS.user_view ts) (s_types (state_of ["Top"; "a.B"; DOCANN; "z.B"] ex_descr))
  | _ => false
  end = true.
Proof. split; vm_compute; reflexivity. Qed.

(* a DocumentAnnotation of the type system's own WITHOUT any feature (TypeSystem(add_document_annotation_type=False) +
   create_type, or a descriptor that redeclares it bare): it satisfies the premises, is written (its feature names are not
   ["language"]), and is read back as declared -- described, without `language`, remembered as redeclared -- not as the default *)
Definition ex_bare : tsys := mkTS [
  mkST "a.B" None "uima.tcas.Annotation" [];
  mkST DOCANN (Some " own ") "uima.tcas.Annotation" [];
  mkST "b.Meta" None DOCANN [mkSF "language" false None "uima.cas.Integer" None None]] [].
Example C12_bare_docann_roundtrip :
  wf_tsb ex_bare = true /\ order_okb [DOCANN; "a.B"; "b.Meta"] (descr_of_ts ex_bare) = true /\
  descr_of_ts ex_bare = [mkT DOCANN (Some " own ") "uima.tcas.Annotation" []; mkT "a.B" None "uima.tcas.Annotation" [];
                         mkT "b.Meta" None DOCANN [mkF "language" None "uima.cas.Integer" None None]] /\
  ts_of_descr [DOCANN; "a.B"; "b.Meta"] (descr_of_ts ex_bare) =
    Ok (mkTS [mkST DOCANN (Some "own") "uima.tcas.Annotation" []; mkST "a.B" None "uima.tcas.Annotation" [];
              mkST "b.Meta" None DOCANN [mkSF "language" false None "uima.cas.Integer" None None]] [DOCANN]).
Proof. repeat split; vm_compute; reflexivity. Qed.

(* a DocumentAnnotation of the user's own whose only feature is called language, declared differently from the implicit one:
   written and read back as declared (commit b4a91fc) *)
Example C12_own_docann_roundtrip :
  wf_tsb ex_docann_own = true /\ order_okb [DOCANN; "a.B"] (descr_of_ts ex_docann_own) = true /\
  exists s', ts_of_descr [DOCANN; "a.B"] (descr_of_ts ex_docann_own) = Ok s' /\
             s_types s' = s_types ex_docann_own /\ s_redecl s' = [DOCANN].
Proof. split; [vm_compute; reflexivity|]. exact docann_own_roundtrip_now. Qed.
