(* Props/C01.v — property C01: XMI save / load is lossless.
   The round trip composes three developments: the writer (Xmi.v / XmiProofs.v: the written document denotes the canonical
   content of the CAS), reachability (ReachProofs.v / ReachSpec.v through XmiWf.v and XmiDocOk.v: the written document is
   closed and complete, for every well-formed input) and the reader (XmiLoad.v / XmiLoadProofs2.v: load_xmi_is_denotation
   under reader_okb).  XmiRtProofs.v shows that the document written for a well-formed CAS satisfies reader_okb.
   Premise: XmiRt.wf_rtb s c (boolean, counted per generated case) = Xmi.wf_inb s c (well-formedness of the input CAS, see
   Props/C04.v) + the schema answers like a TypeSystem (schema_okb, sofa_feat_okb: C10 / C11), defines uima.cas.NULL,
   type names survive the reader's string surgery on "{namespace}tag" (rtname_okb), the CAS has the view _InitialView and
   every indexed structure with a sofa feature is indexed in the view of its own sofa.
   XmiRtTotal.wf_rt_totalb s c = wf_rtb s c + every structure whose type has the feature sofa holds the sofa of a view (what
   Cas.add guarantees for indexed structures; DESIGN.md 4.4 "every serialised annotation has a sofa of this CAS"): the premise
   under which the reader never raises on the writer's output (XmiLoadProofs3 / XmiRtTotalProofs). *)
From Cassis Require Import Base Offsets.
From Cassis Require Import Heap Schema Canon Lex LexProofs Reach ReachProofs ReachSpec XmiDoc Xmi XmiProofs XmiWf XmiDocOk
                           XmiResave XmiLoad XmiRt XmiRtProofs XmiRtTotal XmiRtTotalProofs XmiLoadCas CorrC04 CorrC01 XmiExample.
Open Scope Z_scope.

(* enc_dec_feature_xmi: for every feature declaration and every slot value that is well-typed for it (feat_okb), what the
   writer contributes to the element (attribute or child elements; all eleven branches of the writer, empty collections,
   null elements, "", offsets of annotations converted with the table of their own sofa) is decoded by the format's reading
   of that feature to the canonical value, up to ""/null inside string arrays and lists. *)
Theorem C01_enc_dec_feature_xmi :
  forall (fmt : flt -> string) (parse : string -> option flt),
  (forall x, parse (fmt x) = Some x) -> (forall x, tok_ok (fmt x)) ->
  forall s c ids, memZ 0 ids = false -> (forall vn so, sofa_of_view c vn = Some so -> s_xid so <> 0) ->
  forall tn f fd ct conv,
  feat_okb s c ids tn f fd = true -> (isa s tn T_ANNOTATION = true -> conv_spec c f conv) ->
  enc_feature fmt s c tn f fd = Ok ct ->
  dec_feature' parse s conv (isa s tn T_ANNOTATION) fd (attr_of (fd_xname fd) ct) (kids_of (fd_xname fd) ct)
  = (do nx <- canon_feature s c f fd ;; Ok (norm_feat s fd (snd nx))).
Proof. exact enc_dec_feature_xmi. Qed.
Print Assumptions C01_enc_dec_feature_xmi.

(* Lemma: saving and reading the document back by the independent denotation gives the canonical content of the CAS — same
   sofas and sofa data, same structures under the same xmi:ids with the same types, values and reference targets (ccas is
   keyed by id), same members per view. *)
Theorem C01_xmi_roundtrip_over_denotation :
  forall (fmt : flt -> string) (parse : string -> option flt),
  (forall x, parse (fmt x) = Some x) -> (forall x, tok_ok (fmt x)) ->
  forall s c d c',
  wf_casb s c = true -> save_xmi fmt s c = Ok (d, c') ->
  denote_xmi parse s d = (do x <- canon_xmi s c ;; Ok (norm_xmi s x)).
Proof. exact denote_save_xmi_wf. Qed.
Print Assumptions C01_xmi_roundtrip_over_denotation.

(* The document written for a well-formed CAS satisfies the premise of the reader's theorem C05_load_xmi_is_denotation:
   it is closed (C04_doc_ok), has the _InitialView sofa and distinct view names, its elements are well-formed XML elements
   of defined types named by the UIMA rule, annotations are members of the view of their own sofa only, the ids of cas:NULL
   and the feature structure elements are pairwise distinct. *)
Theorem C01_saved_document_is_readable :
  forall (fmt : flt -> string) (parse : string -> option flt),
  (forall x, parse (fmt x) = Some x) -> (forall x, tok_ok (fmt x)) ->
  forall s c d c1, wf_rtb s c = true -> save_xmi fmt s c = Ok (d, c1) -> reader_okb parse s d = true.
Proof. exact save_reader_ok. Qed.
Print Assumptions C01_saved_document_is_readable.

(* Reader totality on writer output.  The document written for a CAS satisfying wf_rt_totalb satisfies, besides reader_okb,
   the premise total_okb of the reader's totality theorem C05_load_xmi_total: every element has a known type, every attribute
   is the xmi:id or a declared feature and its value lexes back, every element of a type with the feature sofa carries the id
   of a sofa, every reference resolves, cas:NULL is there.  Hence the model of CasXmiDeserializer never raises on what the model
   of CasXmiSerializer emits. *)
Theorem C01_saved_document_is_total :
  forall (fmt : flt -> string) s c d c1,
  wf_rt_totalb s c = true -> save_xmi fmt s c = Ok (d, c1) -> total_okb s d = true.
Proof. exact save_total_ok. Qed.
Print Assumptions C01_saved_document_is_total.
Theorem C01_reader_total_on_saved :
  forall (fmt : flt -> string) (parse : string -> option flt),
  (forall x, parse (fmt x) = Some x) -> (forall x, tok_ok (fmt x)) ->
  forall s c d c1,
  wf_rt_totalb s c = true -> save_xmi fmt s c = Ok (d, c1) -> exists c2, load_xmi parse s false d = Ok c2.
Proof. exact reader_total_on_saved. Qed.
Print Assumptions C01_reader_total_on_saved.

(* xmi_roundtrip through the reader mechanism, unconditional: for every schema and every well-formed CAS, the model of
   CasXmiDeserializer LOADS the document the model of CasXmiSerializer wrote, and the CAS it builds has the canonical content of
   the CAS that was saved (canon_xmi s c = canon_of s c1 (the structures written), C01_canon_is_of_saved_cas): same views and
   sofa data, same feature structures under the same xmi:ids with the same types, feature values (offsets in code points) and
   reference targets, same members per view - up to ""/null inside string arrays and lists. *)
Theorem C01_xmi_roundtrip :
  forall (fmt : flt -> string) (parse : string -> option flt),
  (forall x, parse (fmt x) = Some x) -> (forall x, tok_ok (fmt x)) ->
  forall s c d c1,
  wf_rt_totalb s c = true -> save_xmi fmt s c = Ok (d, c1) ->
  exists c2, load_xmi parse s false d = Ok c2 /\ canon_loaded s c2 = (do x <- canon_xmi s c ;; Ok (norm_xmi s x)).
Proof. exact xmi_roundtrip. Qed.
Print Assumptions C01_xmi_roundtrip.
(* the conditional form (lemma): under wf_rtb alone, IF the reader loads the document the content is the saved one *)
Theorem C01_xmi_roundtrip_if_loaded :
  forall (fmt : flt -> string) (parse : string -> option flt),
  (forall x, parse (fmt x) = Some x) -> (forall x, tok_ok (fmt x)) ->
  forall s c d c1 c2,
  wf_rtb s c = true -> save_xmi fmt s c = Ok (d, c1) -> load_xmi parse s false d = Ok c2 ->
  canon_loaded s c2 = (do x <- canon_xmi s c ;; Ok (norm_xmi s x)).
Proof. exact xmi_roundtrip_load. Qed.
Print Assumptions C01_xmi_roundtrip_if_loaded.
(* wf_rtb alone does not give totality: a referenced-only annotation whose sofa was never set is written without the sofa
   attribute and the reader raises KeyError (sofas[None]); the document satisfies reader_okb all the same *)
Theorem C01_reader_total_wf_rtb_refuted : exists (fmt : flt -> string) (parse : string -> option flt) s c d c1,
  wf_rtb s c = true /\ wf_rt_totalb s c = false /\ save_xmi fmt s c = Ok (d, c1) /\ reader_okb parse s d = true /\
  load_xmi parse s false d = Err EKey.
Proof. exact reader_total_wf_rtb_refuted. Qed.
Print Assumptions C01_reader_total_wf_rtb_refuted.
Theorem C01_canon_is_of_saved_cas :
  forall s c c1 all, written s c = Ok (c1, all) -> canon_xmi s c = canon_of s c1 (sort_ids all).
Proof. exact canon_xmi_after. Qed.
Print Assumptions C01_canon_is_of_saved_cas.

(* xmi_ids_kept: the loaded CAS has exactly the xmi:ids of the structures written (pairwise distinct); these are the ids the
   structures carry after the save; a structure that had an xmi:id before the save still has it afterwards. *)
Theorem C01_xmi_ids_kept :
  forall (fmt : flt -> string) (parse : string -> option flt),
  (forall x, parse (fmt x) = Some x) -> (forall x, tok_ok (fmt x)) ->
  forall s c d c1 c2 cl,
  wf_rtb s c = true -> save_xmi fmt s c = Ok (d, c1) -> load_xmi parse s false d = Ok c2 -> canon_loaded s c2 = Ok cl ->
  exists all, written s c = Ok (c1, all)
    /\ Permutation (map fst (cc_fs cl)) (map fst all) /\ NoDup (map fst all)
    /\ (forall i o, In (i, o) all -> has_id (c_heap c1) o i)
    /\ (forall o i, has_id (c_heap c) o i -> has_id (c_heap c1) o i).
Proof. exact xmi_ids_kept. Qed.
Print Assumptions C01_xmi_ids_kept.

(* xmi_resave_identical, over canonical content: two well-formed CASes with the same canonical content (views and sofa data,
   structures under the same ids with the same types and values, references as ids, members; up to ""/null inside string
   arrays and lists) are saved to the same elements — same namespaces, tags, attributes in the same order, child elements in
   the same order; only the order of the elements within the document may differ (in the writer it follows the ids and the
   order of the views).  Each element is a function of its canonical entry (XmiResave.encc_fs / encc_sofa / encc_view). *)
Theorem C01_xmi_resave_identical :
  forall (fmt : flt -> string) (parse : string -> option flt),
  (forall x, parse (fmt x) = Some x) -> (forall x, tok_ok (fmt x)) ->
  forall s ca cb da db ca' cb',
  wf_inb s ca = true -> wf_inb s cb = true ->
  (do x <- canon_xmi s ca ;; Ok (norm_xmi s x)) = (do x <- canon_xmi s cb ;; Ok (norm_xmi s x)) ->
  save_xmi fmt s ca = Ok (da, ca') -> save_xmi fmt s cb = Ok (db, cb') ->
  Permutation da db.
Proof. exact xmi_resave_identical_eq. Qed.
Print Assumptions C01_xmi_resave_identical.
(* the written document is, up to element order, the document of its own canonical content *)
Theorem C01_saved_document_is_function_of_content :
  forall (fmt : flt -> string) (parse : string -> option flt),
  (forall x, parse (fmt x) = Some x) -> (forall x, tok_ok (fmt x)) ->
  forall s c d c' cc, wf_inb s c = true -> save_xmi fmt s c = Ok (d, c') ->
  (do x <- canon_xmi s c ;; Ok (norm_xmi s x)) = Ok cc -> Permutation d (doc_of_canon fmt s cc).
Proof. exact save_xmi_canon. Qed.
Print Assumptions C01_saved_document_is_function_of_content.
(* after a round trip: any well-formed CAS carrying the content of the loaded CAS is saved to the elements of the document
   that was loaded.  (The reader's result type lcas has no writer model; a CAS with that content stands for it.) *)
Theorem C01_xmi_resave_after_load :
  forall (fmt : flt -> string) (parse : string -> option flt),
  (forall x, parse (fmt x) = Some x) -> (forall x, tok_ok (fmt x)) ->
  forall s c d c1 c2 cb db cb',
  wf_rtb s c = true -> save_xmi fmt s c = Ok (d, c1) -> load_xmi parse s false d = Ok c2 ->
  wf_inb s cb = true -> (do x <- canon_xmi s cb ;; Ok (norm_xmi s x)) = canon_loaded s c2 ->
  save_xmi fmt s cb = Ok (db, cb') -> Permutation db d.
Proof. exact xmi_resave_after_load. Qed.
Print Assumptions C01_xmi_resave_after_load.

(* [S] The round trip of a CAS that was itself loaded.  XmiLoadCas.cas_of_lcas maps the reader's result (objects in the id-keyed
   dict, inline collections as slot values) to a CAS of the writer model (arrays and list chains allocated as objects of their
   own).  PARTIAL: stated under two boolean premises on the mapped CAS - it satisfies wf_rt_totalb and has the canonical content
   of the loaded CAS - which are the conclusion of load_produces_wf, not proved.  Both are evaluated on every generated case
   (CorrC01.check_loaded_cas, 150/150 for seeds 0-3), together with: the model writer saves the mapped CAS to the
   implementation's second to_xmi() document.  Full statement, open:
     load_produces_wf : reader_okb0 parse s d = true -> total_okb s d = true -> loaded_okb parse s d = true ->
       load_xmi parse s false d = Ok lc ->
       exists c2, cas_of_lcas lc = Ok c2 /\ wf_rt_totalb s c2 = true /\
                  (do x <- canon_xmi s c2 ;; Ok (norm_xmi s x)) = (do y <- canon_loaded s lc ;; Ok (norm_xmi s (restrict_reachable y)))
   where loaded_okb would have to add what reader_okb0 does not say and wf_inb needs: type names that survive ns_of_type
   (tname_okb, rtname_okb), kind_agreeb / sofa_decl_okb / is_array_type of the schema, offsets of annotations inside the text of
   their sofa, a sofaArray that is a primitive array, sofa texts that re-encode; and restrict_reachable drops the structures no
   view member reaches (the writer does not write them). *)
Theorem C01_loaded_cas_roundtrip_partial :
  forall (fmt : flt -> string) (parse : string -> option flt),
  (forall x, parse (fmt x) = Some x) -> (forall x, tok_ok (fmt x)) ->
  forall s d lc c2 d2 c3,
  load_xmi parse s false d = Ok lc -> cas_of_lcas lc = Ok c2 -> wf_rt_totalb s c2 = true ->
  (do x <- canon_xmi s c2 ;; Ok (norm_xmi s x)) = (do y <- canon_loaded s lc ;; Ok (norm_xmi s y)) ->
  save_xmi fmt s c2 = Ok (d2, c3) ->
  exists lc2, load_xmi parse s false d2 = Ok lc2 /\ canon_loaded s lc2 = (do y <- canon_loaded s lc ;; Ok (norm_xmi s y)).
Proof. exact loaded_cas_roundtrip. Qed.
Print Assumptions C01_loaded_cas_roundtrip_partial.
(* ... and when the document was the writer's output for a well-formed CAS, saving the loaded CAS gives its elements again *)
Theorem C01_loaded_cas_resave_partial :
  forall (fmt : flt -> string) (parse : string -> option flt),
  (forall x, parse (fmt x) = Some x) -> (forall x, tok_ok (fmt x)) ->
  forall s c d c1 lc c2 d2 c3,
  wf_rtb s c = true -> save_xmi fmt s c = Ok (d, c1) -> load_xmi parse s false d = Ok lc ->
  cas_of_lcas lc = Ok c2 -> wf_inb s c2 = true -> (do x <- canon_xmi s c2 ;; Ok (norm_xmi s x)) = canon_loaded s lc ->
  save_xmi fmt s c2 = Ok (d2, c3) -> Permutation d2 d.
Proof. exact loaded_cas_resave. Qed.
Print Assumptions C01_loaded_cas_resave_partial.

(* the lexical layer underneath: token lists, decimal integers, hex bytes, UTF-8 *)
Theorem C01_tokens_roundtrip : forall l, Forall tok_ok l -> split_ws (join l) = l.
Proof. exact split_join. Qed.
Print Assumptions C01_tokens_roundtrip.
Theorem C01_int_roundtrip : forall z, s2z (z2s z) = Some z /\ tok_ok (z2s z).
Proof. intros z. split; [apply s2z_z2s|apply z2s_tok]. Qed.
Print Assumptions C01_int_roundtrip.
Theorem C01_bytes_roundtrip : forall l, Forall (fun x => 0 <= x < 256) l -> parse_hex (hex_of_bytes l) = Some l.
Proof. exact hex_rt. Qed.
Print Assumptions C01_bytes_roundtrip.
Theorem C01_utf8_roundtrip : forall t, Forall (fun c => (c < 1114112)%N) t -> utf8_decode (utf8_encode t) = Some t.
Proof. exact utf8_rt. Qed.
Print Assumptions C01_utf8_roundtrip.

(* non-vacuity: the example CAS (two views, astral text, a cycle, an inline and a shared FSArray, an empty list, a
   referenced-only annotation) with the type uima.cas.NULL added to its schema satisfies wf_rt_totalb; the document the model
   writes satisfies reader_okb and total_okb, the model reader loads it, and the loaded CAS has the canonical content of the saved one *)
Definition ex_schema_rt : schema := (ex_schema ++ [mkTi "uima.cas.NULL" ["uima.cas.NULL"; "uima.cas.TOP"] []])%list.
Example C01_premises_hold :
  wf_rt_totalb ex_schema_rt ex_cas = true
  /\ (match save_xmi (tab_fmt ex_ftab) ex_schema_rt ex_cas with
      | Ok (d, _) =>
        reader_okb (tab_parse ex_ftab) ex_schema_rt d && total_okb ex_schema_rt d &&
        match load_xmi (tab_parse ex_ftab) ex_schema_rt false d with
        | Ok c2 => match canon_loaded ex_schema_rt c2, canon_xmi ex_schema_rt ex_cas with
                   | Ok x, Ok y => ccas_eqb x (norm_xmi ex_schema_rt y) | _, _ => false end
        | _ => false
        end
      | _ => false end) = true
  (* [S]: the loaded CAS as a CAS of the writer model satisfies wf_rt_totalb and is saved to the same document *)
  /\ (match load_xmi (tab_parse ex_ftab) ex_schema_rt false ex_doc with
      | Ok lc => match cas_of_lcas lc with
                 | Ok c2 => wf_rt_totalb ex_schema_rt c2 &&
                            match save_xmi (tab_fmt ex_ftab) ex_schema_rt c2 with Ok (d2, _) => list_eqb xelem_eqb d2 ex_doc | _ => false end
                 | _ => false end
      | _ => false end) = true.
Proof. vm_compute. repeat split; reflexivity. Qed.
