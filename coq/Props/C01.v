(* Props/C01.v — property C01: XMI save / load is lossless.
   The reader mechanism (CasXmiDeserializer) is modelled by the C05 builder; its theorem load_xmi_is_denotation
   (doc_ok_xmi d -> load_xmi s d = Ok c -> canon_xmi c >>= norm = denote_xmi s d) composes with the theorems below into
   xmi_roundtrip.  Until that lemma is imported here, C01's round trip is stated over the denotation of the document —
   the independent reading of what was written — and named accordingly; that the implementation's reader returns that
   denotation is checked on every run (CorrC01.check_load_is_denotation). *)
From Cassis Require Import Base Offsets.
From Cassis Require Import Heap Schema Canon Lex LexProofs Reach XmiDoc Xmi XmiProofs CorrC04 CorrC01 XmiExample.
Open Scope Z_scope.

(* enc_dec_feature_xmi: for every feature declaration and every slot value that is well-typed for it (feat_okb), what the
   writer contributes to the element (attribute or child elements; all eleven branches of the writer, empty collections,
   null elements, "", offsets of annotations converted with the table of their own sofa) is decoded by the format's reading
   of that feature to the canonical value, up to ""/null inside string arrays and lists. *)
Theorem C01_enc_dec_feature_xmi :
  forall (fmt : flt -> string) (parse : string -> option flt),
  (forall x, parse (fmt x) = Some x) -> (forall x, tok_ok (fmt x)) ->
  forall s c ids, memZ 0 ids = false -> (forall vn so, sofa_of_view c vn = Some so -> s_xid so <> 0) ->
  forall tn f fd ct conv,
  feat_okb s c ids tn f fd = true -> (isa s tn T_ANNOTATION = true -> conv_spec c f conv) ->
  enc_feature fmt s c tn f fd = Ok ct ->
  dec_feature' parse s conv (isa s tn T_ANNOTATION) fd (attr_of (fd_xname fd) ct) (kids_of (fd_xname fd) ct)
  = (do nx <- canon_feature s c f fd ;; Ok (norm_feat s fd (snd nx))).
Proof. exact enc_dec_feature_xmi. Qed.
Print Assumptions C01_enc_dec_feature_xmi.

(* xmi_roundtrip over the denotation: saving and reading the document back (by the independent denotation) gives the
   canonical content of the CAS — same sofas and sofa data, same structures under the same xmi:ids with the same types,
   values and reference targets (ccas is keyed by id, so this includes xmi_ids_kept), same members per view. *)
Theorem C01_xmi_roundtrip_over_denotation :
  forall (fmt : flt -> string) (parse : string -> option flt),
  (forall x, parse (fmt x) = Some x) -> (forall x, tok_ok (fmt x)) ->
  forall s c d c',
  save_xmi fmt s c = Ok (d, c') ->
  (forall all, written s c = Ok (c', all) -> wf_xmib s c' all = true) ->
  denote_xmi parse s d = (do x <- canon_xmi s c ;; Ok (norm_xmi s x)).
Proof. exact denote_save_xmi. Qed.
Print Assumptions C01_xmi_roundtrip_over_denotation.

(* the lexical layer underneath: token lists, decimal integers, hex bytes, UTF-8 *)
Theorem C01_tokens_roundtrip : forall l, Forall tok_ok l -> split_ws (join l) = l.
Proof. exact split_join. Qed.
Print Assumptions C01_tokens_roundtrip.
Theorem C01_int_roundtrip : forall z, s2z (z2s z) = Some z /\ tok_ok (z2s z).
Proof. intros z. split; [apply s2z_z2s|apply z2s_tok]. Qed.
Print Assumptions C01_int_roundtrip.
Theorem C01_bytes_roundtrip : forall l, Forall (fun x => 0 <= x < 256) l -> parse_hex (hex_of_bytes l) = Some l.
Proof. exact hex_rt. Qed.
Print Assumptions C01_bytes_roundtrip.
Theorem C01_utf8_roundtrip : forall t, Forall (fun c => (c < 1114112)%N) t -> utf8_decode (utf8_encode t) = Some t.
Proof. exact utf8_rt. Qed.
Print Assumptions C01_utf8_roundtrip.

(* NOT PROVED HERE (full statements; both are compositions once C05's load_xmi_is_denotation and doc_ok (save c) exist):
     xmi_roundtrip:
       save_xmi fmt s c = Ok (d, c') -> wf -> load_xmi s false d = Ok c2 ->
       (canon_xmi s c2 >>= norm_xmi s) = (canon_xmi s c >>= norm_xmi s)
     xmi_resave_identical:
       ... -> save_xmi fmt s c2 = Ok (d2, c2') -> d2 = d up to attribute order (elements in the same order).
   Both are checked on every generated case against the implementation: CorrC01.check_roundtrip / check_resave. *)

(* non-vacuity: the example CAS (two views, astral text, a cycle, an inline and a shared FSArray, an empty list, a
   referenced-only annotation) satisfies wf_xmib and the round trip over the denotation computes *)
Example C01_premises_hold :
  (match written ex_schema ex_cas with Ok ca => wf_xmib ex_schema (fst ca) (snd ca) | _ => false end) = true
  /\ (match save_xmi (tab_fmt ex_ftab) ex_schema ex_cas with
      | Ok (d, _) => match denote_xmi (tab_parse ex_ftab) ex_schema d, canon_xmi ex_schema ex_cas with
                     | Ok x, Ok y => ccas_eqb x (norm_xmi ex_schema y) | _, _ => false end
      | _ => false end) = true.
Proof. vm_compute. split; reflexivity. Qed.
