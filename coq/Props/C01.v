(* Props/C01.v — property C01 (XMI save / load is lossless). *)
From Cassis Require Import Base Lex LexProofs.
Theorem C01_tokens_roundtrip : forall l, Forall tok_ok l -> split_ws (join l) = l.
Proof. exact split_join. Qed.
Print Assumptions C01_tokens_roundtrip.
