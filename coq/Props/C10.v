(* Props/C10.v — property C10: type hierarchy queries agree with the declared single-inheritance tree.
   Only the property theorems (closed by `exact`), Print Assumptions and non-vacuity examples.
   Model: TS.v (cassis/typesystem.py).  `WFh ts` is the hierarchy invariant (boolean twin `wfhb`, reflection
   C10_wf_reflect); every query theorem is stated for EVERY ts with WFh ts, so that the constructors handled elsewhere
   (descriptor loading C12, merge C13, JSON C02) only have to establish WFh to inherit them.
   `below ts a d`: d is a, or a proper descendant of a, in the declared supertype relation. *)
From Cassis Require Import Base TS TSProofs TSProofs2.

(* ---- the invariant: holds for TypeSystem(), preserved by every operation of every history ---- *)
(* (that init_ts is what TypeSystem() builds now is checked by vm_compute against a run-time dump on every ./check C10) *)
Theorem C10_init_WF : WFh init_ts.
Proof. exact init_WFh. Qed.
Print Assumptions C10_init_WF.

Theorem C10_reachable_WF : forall ops : list tsop, WFh (final_ts ops init_ts).
Proof. exact reachable_WFh. Qed.
Print Assumptions C10_reachable_WF.

(* from any well-formed type system (loaded, merged, ...) onwards *)
Theorem C10_history_preserves_WF : forall (ops : list tsop) (ts : tsys), WFh ts -> WFh (final_ts ops ts).
Proof. exact run_WFh. Qed.
Print Assumptions C10_history_preserves_WF.

Theorem C10_wf_reflect : forall ts, wfhb ts = true <-> WFh ts.
Proof. exact wfhb_reflect. Qed.
Print Assumptions C10_wf_reflect.

(* a refused operation (error kind) changes nothing *)
Theorem C10_refused_unchanged : forall ts o e, snd (step ts o) = RErr e -> fst (step ts o) = ts.
Proof. exact step_refused_unchanged. Qed.
Print Assumptions C10_refused_unchanged.

(* ---- the queries, under the invariant ---- *)
(* a type is among its supertype's children and nowhere else; no duplicates *)
Theorem C10_children_spec : forall ts p, WFh ts -> In p ts ->
  NoDup (t_children p) /\
  forall c, In c (t_children p) <-> exists tc, find_ty ts c = Some tc /\ t_super tc = Some (t_name p).
Proof. exact children_spec. Qed.
Print Assumptions C10_children_spec.

(* descendants = reflexive-transitive closure of children (= of the declared supertype relation), duplicate-free;
   the recursion over _children ends within fuel S (max rank) *)
Theorem C10_descendants_spec : forall ts a, WFh ts -> In a ts ->
  exists l, descendants (desc_fuel ts) ts (t_name a) = Some l /\ NoDup l /\ forall d, In d l <-> below ts (t_name a) d.
Proof. exact descendants_full_spec. Qed.
Print Assumptions C10_descendants_spec.

Theorem C10_below_closure_of_children : forall ts p c d tp, WFh ts ->
  find_ty ts p = Some tp -> In c (t_children tp) -> below ts c d -> below ts p d.
Proof. exact below_children_step. Qed.
Print Assumptions C10_below_closure_of_children.

(* Type.subsumes, including its shortcut for TOP: A subsumes B exactly when A is B or a proper ancestor of B *)
Theorem C10_subsumes_spec : forall ts a b, WFh ts -> In a ts -> In b ts ->
  exists r, subsumes_ty ts a b = Ok r /\ (r = true <-> below ts (t_name a) (t_name b)).
Proof. exact subsumes_ty_spec. Qed.
Print Assumptions C10_subsumes_spec.

Theorem C10_ts_subsumes_spec : forall ts a b ta tb, WFh ts -> find_ty ts a = Some ta -> find_ty ts b = Some tb ->
  exists r, ts_subsumes ts a b = Ok r /\ (r = true <-> below ts a b).
Proof. exact ts_subsumes_spec. Qed.
Print Assumptions C10_ts_subsumes_spec.

(* is_instance_of (recursion on the supertype), TypeSystem.subsumes and Type.subsumes give the same answer *)
Theorem C10_is_instance_of_agrees_with_subsumes : forall ts a p, WFh ts -> In a ts -> In p ts -> t_name p <> "" ->
  exists r, is_instance_of ts (t_name a) (t_name p) = Ok r /\ ts_subsumes ts (t_name p) (t_name a) = Ok r /\ subsumes_ty ts p a = Ok r.
Proof. exact is_instance_of_agrees_with_subsumes. Qed.
Print Assumptions C10_is_instance_of_agrees_with_subsumes.

(* ... also when the two types are named by any spelling get_type accepts (full name or unique dot-free short name):
   for two names resolving to different types, is_instance_of(child, parent) = subsumes(parent, child) = the declared
   relation between the resolved types (the child's name may be short unless it is the root's) ... *)
Theorem C10_is_instance_of_by_name : forall ts sa sp a p, WFh ts ->
  get_type ts sa = Ok a -> get_type ts sp = Ok p -> sp <> EmptyString ->
  t_name a <> t_name p -> (t_name a = TOP -> sa = TOP) ->
  exists r, is_instance_of ts sa sp = Ok r /\ ts_subsumes ts sp sa = Ok r /\ (r = true <-> below ts (t_name p) (t_name a)).
Proof. exact is_instance_of_by_name. Qed.
Print Assumptions C10_is_instance_of_by_name.

(* ... in particular for a registered type and a parent given by its short name *)
Theorem C10_is_instance_of_short_parent : forall ts a p sp, WFh ts -> In a ts ->
  get_type ts sp = Ok p -> sp <> EmptyString -> t_name a <> t_name p ->
  exists r, is_instance_of ts (t_name a) sp = Ok r /\ ts_subsumes ts sp (t_name a) = Ok r /\
            (r = true <-> below ts (t_name p) (t_name a)).
Proof. exact is_instance_of_short_parent. Qed.
Print Assumptions C10_is_instance_of_short_parent.

(* ... and a name get_type refuses (unknown, ambiguous) is refused by is_instance_of on either side *)
Theorem C10_is_instance_of_unresolved_child : forall ts sa sp e,
  get_type ts sa = Err e -> sp <> EmptyString -> sa <> sp -> sa <> TOP -> is_instance_of ts sa sp = Err e.
Proof. exact is_instance_of_unresolved_child. Qed.
Print Assumptions C10_is_instance_of_unresolved_child.

Theorem C10_is_instance_of_unresolved_parent : forall ts sa sp a e,
  get_type ts sa = Ok a -> get_type ts sp = Err e -> sp <> EmptyString -> sa <> TOP -> is_instance_of ts sa sp = Err e.
Proof. exact is_instance_of_unresolved_parent. Qed.
Print Assumptions C10_is_instance_of_unresolved_parent.

(* The side conditions above are needed: is_instance_of compares the two STRINGS before any lookup.  On the type system
   a.A < Annotation, a.B < a.A: two spellings of one type are not instances of each other although subsumes holds; an
   unregistered string is an instance of itself; uima.cas.TOP is silently not an instance of an unknown name nor of
   "TOP"; the child spelled "TOP" raises AttributeError.  (Full-strength statement "is_instance_of = subsumes on all
   names" is refuted by these; a finding, see the report.) *)
Theorem C10_is_instance_of_all_names_refuted :
  wfhb quirk_ts = true /\
  ts_subsumes quirk_ts "A" "a.A" = Ok true /\ is_instance_of quirk_ts "a.A" "A" = Ok false /\
  is_instance_of quirk_ts "A" "a.A" = Ok false /\
  is_instance_of quirk_ts "no.Such" "no.Such" = Ok true /\ ts_subsumes quirk_ts "no.Such" "no.Such" = Err ETypeNotFound /\
  is_instance_of quirk_ts TOP "no.Such" = Ok false /\
  ts_subsumes quirk_ts "TOP" TOP = Ok true /\ is_instance_of quirk_ts TOP "TOP" = Ok false /\
  is_instance_of quirk_ts "TOP" "a.A" = Err EAttribute.
Proof. exact is_instance_of_string_quirks. Qed.
Print Assumptions C10_is_instance_of_all_names_refuted.

(* non-vacuity: short spellings of parent and child, outside the string shortcuts *)
Example C10_is_instance_of_by_name_computes :
  is_instance_of quirk_ts "a.B" "A" = Ok true /\ is_instance_of quirk_ts "B" "Annotation" = Ok true /\
  is_instance_of quirk_ts "a.A" "B" = Ok false /\ is_instance_of quirk_ts "a.B" "TOP" = Ok true /\
  is_instance_of quirk_ts "a.B" "Nope" = Err ETypeNotFound /\ is_instance_of quirk_ts "Nope" "a.B" = Err ETypeNotFound.
Proof. exact is_instance_of_by_name_computes. Qed.

(* the downward (descendants) and the upward (subsumes) implementation describe the same tree *)
Theorem C10_descendants_agree_with_subsumes : forall ts a b, WFh ts -> In a ts -> In b ts ->
  exists l r, descendants (desc_fuel ts) ts (t_name a) = Some l /\ subsumes_ty ts a b = Ok r /\ (In (t_name b) l <-> r = true).
Proof. exact descendants_agree_with_subsumes_ty. Qed.
Print Assumptions C10_descendants_agree_with_subsumes.

(* everything a type refers to is registered: supertype, children, domain / range / element types of its features
   (object identity of the registered Type is observed with `is` by the correspondence harness) *)
Theorem C10_refs_registered : forall ts t, WFh ts -> In t ts ->
  find_ty ts (t_name t) = Some t /\
  (forall s, t_super t = Some s -> registered ts s = true) /\
  (forall c, In c (t_children t) -> registered ts c = true) /\
  (forall f, In f (all_features t) -> feat_refs_ok ts f) /\
  (forall f, In f (t_own t) -> f_dom f = t_name t).
Proof. exact refs_registered. Qed.
Print Assumptions C10_refs_registered.

(* ---- lookup ---- *)
Theorem C10_get_type_full : forall ts n t, WFh ts -> find_ty ts n = Some t -> get_type ts n = Ok t /\ In t ts /\ t_name t = n.
Proof. exact get_type_full_spec. Qed.
Print Assumptions C10_get_type_full.

Theorem C10_get_type_short_unique : forall ts n t, WFh ts -> find_ty ts n = None -> has_dot n = false -> In t ts ->
  short_name (t_name t) = n -> (forall t', In t' ts -> short_name (t_name t') = n -> t' = t) -> get_type ts n = Ok t.
Proof. exact get_type_short_unique. Qed.
Print Assumptions C10_get_type_short_unique.

Theorem C10_get_type_ambiguous_fails : forall ts n t1 t2, find_ty ts n = None -> In t1 ts -> In t2 ts -> t1 <> t2 ->
  short_name (t_name t1) = n -> short_name (t_name t2) = n -> get_type ts n = Err ETypeNotFound.
Proof. exact get_type_ambiguous_fails. Qed.
Print Assumptions C10_get_type_ambiguous_fails.

Theorem C10_get_type_unknown_fails : forall ts n, find_ty ts n = None ->
  (has_dot n = true \/ forall t, In t ts -> short_name (t_name t) <> n) -> get_type ts n = Err ETypeNotFound.
Proof. exact get_type_unknown_fails. Qed.
Print Assumptions C10_get_type_unknown_fails.

(* conversely: whatever get_type returns is registered, under the name asked for or as the only type with that short name *)
Theorem C10_get_type_result : forall ts n t, get_type ts n = Ok t ->
  In t ts /\ (t_name t = n \/ (find_ty ts n = None /\ has_dot n = false /\ short_name (t_name t) = n /\
                               forall t', In t' ts -> short_name (t_name t') = n -> t' = t)).
Proof. exact get_type_ok_inv. Qed.
Print Assumptions C10_get_type_result.

Theorem C10_contains_type_spec : forall ts n,
  contains_type ts n true = registered ts n /\
  (has_dot n = true -> contains_type ts n false = registered ts n) /\
  (contains_type ts n false = true <-> exists t, get_type ts n = Ok t).
Proof. exact contains_type_spec. Qed.
Print Assumptions C10_contains_type_spec.

(* ---- what create_type refuses ---- *)
(* primitive array types (_INHERITANCE_FINAL_TYPES) cannot be subtyped, however the supertype was named ... *)
Theorem C10_final_types_unsubtypable : forall ts name supn desc p, get_type ts supn = Ok p ->
  memb (t_name p) final_types = true -> create_type ts name supn desc = Err EValue.
Proof. exact final_types_unsubtypable. Qed.
Print Assumptions C10_final_types_unsubtypable.

(* ... so no history ever produces a type below one of them *)
Theorem C10_no_final_parent_reachable : forall ops t s,
  In t (final_ts ops init_ts) -> t_super t = Some s -> memb s final_types = false.
Proof. exact reachable_no_final_parent. Qed.
Print Assumptions C10_no_final_parent_reachable.

(* a type name - user or predefined - cannot be defined twice *)
Theorem C10_name_defined_once : forall ts name supn desc, registered ts name = true -> create_type ts name supn desc = Err EValue.
Proof. exact name_defined_once. Qed.
Print Assumptions C10_name_defined_once.

Theorem C10_unknown_supertype_refused : forall ts name supn desc, registered ts name = false ->
  get_type ts supn = Err ETypeNotFound -> create_type ts name supn desc = Err ETypeNotFound.
Proof. exact unknown_supertype_refused. Qed.
Print Assumptions C10_unknown_supertype_refused.

(* ---- regression: create_type before the repairs 0e27307 and cf6436a is refuted ---- *)
Theorem C10_old_final_check_refuted :
  exists ts', create_type_old init_ts "x.MyArr" "StringArray" None = Ok ts' /\
              exists t, find_ty ts' "x.MyArr" = Some t /\ t_super t = Some "uima.cas.StringArray".
Proof. exact old_final_check_refuted. Qed.
Print Assumptions C10_old_final_check_refuted.

Theorem C10_old_predefined_redeclaration_refuted :
  exists ts', create_type_old init_ts "uima.tcas.Annotation" TOP None = Ok ts' /\ ~ WFh ts'.
Proof. exact old_predefined_redeclaration_refuted. Qed.
Print Assumptions C10_old_predefined_redeclaration_refuted.

(* ---- non-vacuity: a history with a five-level chain, two types sharing a short name, a dot-free name, refused
   operations of each kind; the premises hold and the queries compute on it ---- *)
Example C10_premises_hold :
  let ops := [OCreateType "a.A" "Annotation" None; OCreateType "a.B" "a.A" None; OCreateType "b.A" "a.B" None;
              OCreateType "C" "b.A" None; OCreateType "a.D" "a.A" None;
              OCreateType "a.A" TOP None;                     (* duplicate *)
              OCreateType "x.Arr" "StringArray" None;         (* final, by short name *)
              OCreateType "x.N" "no.Such" None; OCreateType "x.M" "A" None;   (* unknown, ambiguous *)
              OCreateFeature "a.A" "f" "uima.cas.Integer" None None None; OInstantiate "C"] in
  let ts := final_ts ops init_ts in
  wfhb ts = true /\
  snd (run_ts ops init_ts) = [ROk; ROk; ROk; ROk; ROk; RErr EValue; RErr EValue; RErr ETypeNotFound; RErr ETypeNotFound; ROk; ROk] /\
  descendants (desc_fuel ts) ts "a.A" = Some ["a.A"; "a.B"; "b.A"; "C"; "a.D"] /\
  ts_subsumes ts "a.A" "C" = Ok true /\ ts_subsumes ts "a.D" "C" = Ok false /\ ts_subsumes ts TOP "C" = Ok true /\
  is_instance_of ts "C" "uima.cas.AnnotationBase" = Ok true /\
  get_type ts "A" = Err ETypeNotFound /\ (exists t, get_type ts "D" = Ok t /\ t_name t = "a.D") /\ contains_type ts "C" false = true.
Proof. vm_compute. repeat split. eexists. split; reflexivity. Qed.

(* ================================================================================================================
   Bridge (coq/Bridge.v, BridgeProofs.v): the flattened view `flatten ts : schema` that every heap-level model (Reach,
   Xmi, XmiLoad, Json, Typecheck, Comparable) takes instead of a TypeSystem answers like the type system itself.
   For a registered type n: the stored chain sch_anc is n, its supertype, ..., uima.cas.TOP (exactly n and its proper
   ancestors, nearest first, no repetition: the walk's fuel is never exhausted); Schema.isa on it is what
   TypeSystem.subsumes, Type.subsumes and TypeSystem.is_instance_of return (none raises); an unregistered name is never
   an ancestor; Schema.is_primitive is TypeSystem.is_primitive. *)
From Cassis Require Import Schema Bridge BridgeProofs.

Theorem C10_flatten_faithful : forall ts n t, WFh ts -> find_ty ts n = Some t ->
  (forall m, In m (sch_anc (flatten ts) n) <-> m = n \/ sbelow ts m n) /\
  hd EmptyString (sch_anc (flatten ts) n) = n /\ last (sch_anc (flatten ts) n) EmptyString = TOP /\
  NoDup (sch_anc (flatten ts) n) /\
  (forall m tm, find_ty ts m = Some tm ->
     ts_subsumes ts m n = Ok (isa (flatten ts) n m) /\ subsumes_ty ts tm t = Ok (isa (flatten ts) n m) /\
     (m <> EmptyString -> is_instance_of ts n m = Ok (isa (flatten ts) n m))) /\
  (forall m, registered ts m = false -> isa (flatten ts) n m = false) /\
  TS.is_primitive ts n = Ok (Schema.is_primitive (flatten ts) n).
Proof. exact flatten_faithful. Qed.
Print Assumptions C10_flatten_faithful.

(* the iff form asked for: isa on the flattened view <-> subsumes = Ok true <-> is_instance_of = Ok true *)
Theorem C10_isa_flatten_subsumes : forall ts n m tn tm, WFh ts -> find_ty ts n = Some tn -> find_ty ts m = Some tm ->
  (isa (flatten ts) n m = true <-> ts_subsumes ts m n = Ok true) /\
  (m <> EmptyString -> (isa (flatten ts) n m = true <-> is_instance_of ts n m = Ok true)).
Proof. exact isa_flatten_subsumes. Qed.
Print Assumptions C10_isa_flatten_subsumes.

(* the chain really is the supertype chain, link by link *)
Theorem C10_flatten_anc_chain : forall ts n t, WFh ts -> find_ty ts n = Some t -> chain ts n (sch_anc (flatten ts) n).
Proof. exact flatten_anc_chain. Qed.
Print Assumptions C10_flatten_anc_chain.

(* any arrangement of {c.name for c in T.descendants} = the types the flattened view calls instances of T *)
Theorem C10_descendants_names_are_types : forall ts T tT types, WFh ts -> find_ty ts T = Some tT ->
  (forall d, In d types <-> In d (desc_names ts T)) ->
  forall n, In n types <-> isa (flatten ts) n T = true.
Proof. exact descendants_names_are_types. Qed.
Print Assumptions C10_descendants_names_are_types.

(* for every history from TypeSystem(): no premise left *)
Theorem C10_flatten_faithful_reachable : forall ops n t, let ts := final_ts ops init_ts in find_ty ts n = Some t ->
  (forall m, In m (sch_anc (flatten ts) n) <-> m = n \/ sbelow ts m n) /\
  hd EmptyString (sch_anc (flatten ts) n) = n /\ last (sch_anc (flatten ts) n) EmptyString = TOP /\
  NoDup (sch_anc (flatten ts) n) /\
  (forall m tm, find_ty ts m = Some tm ->
     ts_subsumes ts m n = Ok (isa (flatten ts) n m) /\ subsumes_ty ts tm t = Ok (isa (flatten ts) n m) /\
     (m <> EmptyString -> is_instance_of ts n m = Ok (isa (flatten ts) n m))) /\
  (forall m, registered ts m = false -> isa (flatten ts) n m = false) /\
  TS.is_primitive ts n = Ok (Schema.is_primitive (flatten ts) n).
Proof. exact flatten_faithful_reachable. Qed.
Print Assumptions C10_flatten_faithful_reachable.

Example C10_flatten_computes :
  let ops := [OCreateType "a.A" "Annotation" None; OCreateType "a.B" "a.A" None; OCreateType "x.S" "uima.cas.String" None] in
  let ts := final_ts ops init_ts in
  sch_anc (flatten ts) "a.B" = ["a.B"; "a.A"; "uima.tcas.Annotation"; "uima.cas.AnnotationBase"; "uima.cas.TOP"] /\
  isa (flatten ts) "a.B" "a.A" = true /\ isa (flatten ts) "a.A" "a.B" = false /\
  Schema.is_primitive (flatten ts) "x.S" = true /\ prim_of (flatten ts) "x.S" = Some "uima.cas.String" /\
  desc_names ts "a.A" = ["a.A"; "a.B"].
Proof. vm_compute. repeat split. Qed.

(* ================================================================================================================
   Merging (coq/C10Merge.v on C13's model Merge.v of merge_typesystems).  The property quantifies over type systems
   "obtained by any sequence of type creation ... and merging": `built` is that closure in the model — TypeSystem(), any
   history of create_type / create_feature / instantiation applied to a built type system, merge_typesystems of any tuple
   of built type systems, nested to any depth (a merge result extended and merged again, one type system taking part in
   several merges).  Every built type system satisfies WFh, so every query theorem above holds of it; the two that the
   re-parenting of merge_typesystems puts at stake are restated on `built` directly.  (XML / JSON loading: C12 / C02
   establish WFh for their constructors.)  The "merge" sub-suite of the check (CorrC10merge.v) evaluates exactly these
   programs on the model and on live objects, re-querying every object after every stage. *)
From Cassis Require Import Merge MergeProofs C10Merge.

Theorem C10_built_WF : forall ts, built ts -> WFh ts.
Proof. exact built_WFh. Qed.
Print Assumptions C10_built_WF.

(* descendants of every type of a built type system is the duplicate-free closure of the declared relation *)
Theorem C10_built_descendants_spec : forall ts a, built ts -> In a ts ->
  exists l, descendants (desc_fuel ts) ts (t_name a) = Some l /\ NoDup l /\ forall d, In d l <-> below ts (t_name a) d.
Proof. exact built_descendants. Qed.
Print Assumptions C10_built_descendants_spec.

(* everything a type of a built type system refers to is registered in that type system *)
Theorem C10_built_refs_registered : forall ts t, built ts -> In t ts ->
  find_ty ts (t_name t) = Some t /\
  (forall s, t_super t = Some s -> registered ts s = true) /\
  (forall c, In c (t_children t) -> registered ts c = true) /\
  (forall f, In f (all_features t) -> feat_refs_ok ts f) /\
  (forall f, In f (t_own t) -> f_dom f = t_name t).
Proof. exact built_refs_registered. Qed.
Print Assumptions C10_built_refs_registered.

(* a merge of built type systems ends within its round bound (it answers, or raises ValueError: C13) *)
Theorem C10_built_merge_terminates : forall inputs, (forall t, In t inputs -> built t) -> merge inputs <> OutOfFuel.
Proof. exact built_merge_terminates. Qed.
Print Assumptions C10_built_merge_terminates.

(* non-vacuity: m.B declared below Annotation by one input and below m.A (which has a feature of its own) by the other is
   moved below m.A; the result, extended by one more type below the moved one, is merged with the second input again *)
Example C10_built_computes :
  let i1 := final_ts [OCreateType "m.A" "uima.tcas.Annotation" None; OCreateType "m.B" "uima.tcas.Annotation" None;
                      OCreateFeature "m.A" "f" "uima.cas.String" None None None] init_ts in
  let i2 := final_ts [OCreateType "m.A" "uima.tcas.Annotation" None; OCreateType "m.B" "m.A" None] init_ts in
  match merge [i1; i2] with
  | Ok r1 => match merge [final_ts [OCreateType "z.N" "m.B" None] r1; i2] with
             | Ok r2 => Some (option_map t_super (find_ty r1 "m.B"), descendants (desc_fuel r2) r2 "m.A", wfhb r2)
             | _ => None end
  | _ => None end
  = Some (Some (Some "m.A"), Some ["m.A"; "m.B"; "z.N"], true).
Proof. vm_compute. reflexivity. Qed.

(* ================================================================================================================
   XML loading (coq/C10Load.v, C10LoadProofs.v on C12's model Descr.v / DescrTS.v of TypeSystemDeserializer).  The property
   quantifies over type systems "obtained by any sequence of type creation, XML loading ... and merging": `obtained` is
   that closure in the model — `built` above plus load_typesystem of any well-formed descriptor (distinct named types,
   declared or built-in supertypes / ranges / element types, no feature declared again along a chain, no type below a final
   array type; any document order, any creation order the toposort contract admits), a loaded type system being extended,
   merged and merged again like any other.  Type names may be dot-free and share their short name with other types.
   Every obtained type system satisfies WFh, so every query theorem above holds of it.  (JSON-embedded type systems: C02.)
   The "xml" sub-suite of the check (CorrC10xml.v) evaluates load_ts + a history on the model and on live objects and runs
   the whole query battery on the result. *)
From Cassis Require Descr DescrTS.
From Cassis Require Import C10Load C10LoadProofs.

Theorem C10_obtained_WF : forall ts, obtained ts -> WFh ts.
Proof. exact obtained_WFh. Qed.
Print Assumptions C10_obtained_WF.

(* the closure under histories and merging is part of it *)
Theorem C10_built_is_obtained : forall ts, built ts -> obtained ts.
Proof. exact built_obtained. Qed.
Print Assumptions C10_built_is_obtained.

(* a well-formed descriptor loads, under every admissible creation order, to a type system satisfying the invariant, and so
   does every history continued from it *)
Theorem C10_loaded_WF : forall order d, loadable order d = true ->
  exists ts, load_ts order d = Ok ts /\ WFh ts /\ forall ops, WFh (final_ts ops ts).
Proof.
  intros order d H. destruct (load_total order d H) as [ts L]. exists ts.
  split; [exact L|]. split; [exact (load_WFh order d ts H L)|].
  intros ops. apply run_WFh. exact (load_WFh order d ts H L).
Qed.
Print Assumptions C10_loaded_WF.

Theorem C10_obtained_descendants_spec : forall ts a, obtained ts -> In a ts ->
  exists l, descendants (desc_fuel ts) ts (t_name a) = Some l /\ NoDup l /\ forall d, In d l <-> below ts (t_name a) d.
Proof. exact obtained_descendants. Qed.
Print Assumptions C10_obtained_descendants_spec.

Theorem C10_obtained_refs_registered : forall ts t, obtained ts -> In t ts ->
  find_ty ts (t_name t) = Some t /\
  (forall s, t_super t = Some s -> registered ts s = true) /\
  (forall c, In c (t_children t) -> registered ts c = true) /\
  (forall f, In f (all_features t) -> feat_refs_ok ts f) /\
  (forall f, In f (t_own t) -> f_dom f = t_name t).
Proof. exact obtained_refs_registered. Qed.
Print Assumptions C10_obtained_refs_registered.

(* non-vacuity: the dot-free type Token declared below org.example.Token (children before parents in the document), a
   subtype declared below the dot-free name; every name is registered, the full name 'Token' resolves to the dot-free
   type, the short name SubToken to its only bearer, and the loaded type system extended by one more type is queried *)
Example C10_loaded_computes :
  let d := [Descr.mkT "org.example.SubToken" None "Token" [];
            Descr.mkT "Token" None "org.example.Token" [Descr.mkF "lemma" None "uima.cas.String" None None];
            Descr.mkT "org.example.Token" None "uima.tcas.Annotation" []] in
  let order := ["uima.tcas.Annotation"; "org.example.Token"; "uima.tcas.DocumentAnnotation"; "Token"; "org.example.SubToken"] in
  loadable order d = true /\
  match load_ts order d with
  | Ok ts0 =>
    let ts := final_ts [OCreateType "q.Token" "SubToken" None] ts0 in
    Some (option_map t_name (match get_type ts0 "Token" with Ok t => Some t | _ => None end),
          option_map t_super (find_ty ts0 "org.example.SubToken"),
          descendants (desc_fuel ts) ts "org.example.Token",
          match get_type ts "Token" with Ok t => Some (t_name t) | _ => None end, wfhb ts)
  | _ => None end
  = Some (Some "Token", Some (Some "Token"),
          Some ["org.example.Token"; "Token"; "org.example.SubToken"; "q.Token"], Some "Token", true).
Proof. vm_compute. split; reflexivity. Qed.
