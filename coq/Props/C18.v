(* Props/C18.v — property C18: feature paths read and write exactly what step-by-step attribute
   access does.  Only the property theorems (closed by `exact`), non-vacuity examples and
   Print Assumptions. *)
From Cassis Require Import Base Paths PathsProofs.
Open Scope string_scope.
Open Scope list_scope.

(* fs.get(path) is the fold of single-step feature access (cur.f when cur is a feature structure whose
   type has feature f, else None) over path.split("."), for every heap (cycles included) and every string *)
Theorem C18_get_spec : forall sch h root path,
  get sch h root path = fold_left (step sch h) (split_dot path) (VRef root).
Proof. exact get_spec. Qed.
Print Assumptions C18_get_spec.

(* a non-None result is exactly a value reached by following declared features one by one *)
Theorem C18_get_reach : forall sch h root path v,
  v <> VNone -> (get sch h root path = v <-> reach sch h (VRef root) (split_dot path) v).
Proof. exact get_reach. Qed.
Print Assumptions C18_get_reach.

(* None as soon as a prefix of the segments yields None, whatever follows *)
Theorem C18_get_none_propagates : forall sch h cur pre post,
  walk sch h cur pre = VNone -> walk sch h cur (pre ++ post) = VNone.
Proof. exact get_none_propagates. Qed.
Print Assumptions C18_get_none_propagates.

(* a segment that names no feature of the structure reached so far yields None; so does any step from a primitive *)
Theorem C18_step_not_feature : forall sch h o ob f,
  hget o h = Some ob -> is_feature sch (o_type ob) f = false -> step sch h (VRef o) f = VNone.
Proof. exact step_not_feature. Qed.
Print Assumptions C18_step_not_feature.

Theorem C18_step_prim : forall sch h s f, step sch h (VPrim s) f = VNone.
Proof. exact step_prim. Qed.
Print Assumptions C18_step_prim.

Theorem C18_getitem_is_get : forall sch h root path, getitem sch h root path = get sch h root path.
Proof. exact getitem_is_get. Qed.
Print Assumptions C18_getitem_is_get.

(* set assigns the last feature on the structure reached by the prefix; every other slot of every object,
   every type and the set of objects are unchanged *)
Theorem C18_set_touches_one_slot : forall sch h root path v h',
  set sch h root path v = (h', None) ->
  exists t, set_target sch h root path = VRef t /\
    slotv h' t (set_last path) = v /\
    (forall o f, (o, f) <> (t, set_last path) -> slotv h' o f = slotv h o f) /\
    (forall o, htype h' o = htype h o) /\ map fst h' = map fst h.
Proof. exact set_touches_one_slot. Qed.
Print Assumptions C18_set_touches_one_slot.

(* ... after which get returns v, when the walk along the prefix does not read the assigned slot *)
Theorem C18_set_then_get : forall sch h root path v h',
  set sch h root path v = (h', None) -> avoidsb sch h root path = true -> get sch h' root path = v.
Proof. exact set_then_get. Qed.
Print Assumptions C18_set_then_get.

(* FULL STATEMENT of the property text ("after which get returns v", no premise):
     forall sch h root path v h', set sch h root path v = (h', None) -> get sch h' root path = v
   is false of any implementation when the prefix passes through the slot assigned (a.next = a;
   a.set("next.next", b); a.next.next is then b.next): refuted below.  What holds without premise: *)
Theorem C18_set_then_get_general : forall sch h root path v h',
  set sch h root path v = (h', None) ->
  get sch h' root path = step sch h' (set_target sch h' root path) (set_last path).
Proof. exact set_then_get_general. Qed.
Print Assumptions C18_set_then_get_general.

Theorem C18_set_then_get_single : forall sch h root name v h',
  dotfreeb name = true -> set sch h root name v = (h', None) -> get sch h' root name = v.
Proof. exact set_then_get_single. Qed.
Print Assumptions C18_set_then_get_single.

Theorem C18_set_then_get_aliasing_refuted :
  exists sch h root path v h', set sch h root path v = (h', None) /\ get sch h' root path <> v.
Proof. exact set_then_get_aliasing_refuted. Qed.
Print Assumptions C18_set_then_get_aliasing_refuted.

(* set succeeds exactly when the prefix reaches a feature structure whose type has the last name as a feature *)
Theorem C18_set_succeeds_iff : forall sch h root path v,
  snd (set sch h root path v) = None <->
  exists t ob, set_target sch h root path = VRef t /\ hget t h = Some ob /\
               is_feature sch (o_type ob) (set_last path) = true.
Proof. exact set_succeeds_iff. Qed.
Print Assumptions C18_set_succeeds_iff.

(* every failure is an AttributeError and leaves the heap as it was *)
Theorem C18_set_failure_unchanged : forall sch h root path v,
  snd (set sch h root path v) <> None -> set sch h root path v = (h, Some EAttribute).
Proof. exact set_failure_unchanged. Qed.
Print Assumptions C18_set_failure_unchanged.

Theorem C18_set_prefix_none_fails : forall sch h root path v,
  set_target sch h root path = VNone -> set sch h root path v = (h, Some EAttribute).
Proof. exact set_prefix_none_fails. Qed.
Print Assumptions C18_set_prefix_none_fails.

Theorem C18_set_not_feature_fails : forall sch h root path v t ob,
  set_target sch h root path = VRef t -> hget t h = Some ob ->
  is_feature sch (o_type ob) (set_last path) = false ->
  set sch h root path v = (h, Some EAttribute).
Proof. exact set_not_feature_fails. Qed.
Print Assumptions C18_set_not_feature_fails.

(* non-string paths are rejected by both entry points, nothing modified *)
Theorem C18_non_string_rejected : forall sch h root p v,
  (forall s, p <> PStr s) ->
  get_arg sch h root p = Err EAttribute /\ set_arg sch h root p v = (h, Some EAttribute).
Proof. exact non_string_rejected. Qed.
Print Assumptions C18_non_string_rejected.

(* the splitter: str.split(".") inverts ".".join on dot-free segments, and join inverts split on every string;
   set's rindex split agrees with it *)
Theorem C18_split_join : forall segs,
  segs <> [] -> forallb dotfreeb segs = true -> split_dot (join_dot segs) = segs.
Proof. exact split_join. Qed.
Print Assumptions C18_split_join.

Theorem C18_join_split : forall s, join_dot (split_dot s) = s.
Proof. exact join_split. Qed.
Print Assumptions C18_join_split.

Theorem C18_rsplit_split : forall s p l, rsplit s = Some (p, l) -> split_dot s = split_dot p ++ [l].
Proof. exact rsplit_split. Qed.
Print Assumptions C18_rsplit_split.

Theorem C18_rsplit_none_split : forall s, rsplit s = None -> split_dot s = [s].
Proof. exact rsplit_none_split. Qed.
Print Assumptions C18_rsplit_none_split.

(* a type system that grows (create_feature only adds names): a path that resolved before resolves to the
   same value afterwards, a set that succeeded does the same assignment afterwards *)
Theorem C18_get_schema_mono : forall s s' h root path,
  sch_le s s' -> get s h root path <> VNone -> get s' h root path = get s h root path.
Proof. exact get_schema_mono. Qed.
Print Assumptions C18_get_schema_mono.

Theorem C18_set_schema_mono : forall s s' h root path v h',
  sch_le s s' -> set s h root path v = (h', None) -> set s' h root path v = (h', None).
Proof. exact set_schema_mono. Qed.
Print Assumptions C18_set_schema_mono.

(* the boolean form of "only adds features" checked on every staged case implies the premise above *)
Theorem C18_sch_leb_sound : forall s s', sch_leb s s' = true -> sch_le s s'.
Proof. exact sch_leb_sound. Qed.
Print Assumptions C18_sch_leb_sound.

(* get and set depend on the type system only through the feature relation at the moment of the call *)
Theorem C18_get_set_schema_ext : forall s s' h root path v,
  (forall t f, is_feature s t f = is_feature s' t f) ->
  get s h root path = get s' h root path /\ set s h root path v = set s' h root path v.
Proof. exact get_set_schema_ext. Qed.
Print Assumptions C18_get_set_schema_ext.

(* a name that becomes a feature later: None / AttributeError before, the slot / an assignment afterwards *)
Theorem C18_late_feature_visible : forall s s' h o ob f,
  hget o h = Some ob -> is_feature s (o_type ob) f = false -> is_feature s' (o_type ob) f = true ->
  step s h (VRef o) f = VNone /\ snd (assign s h (VRef o) f (slot ob f)) = Some EAttribute /\
  step s' h (VRef o) f = slot ob f /\ forall v, snd (assign s' h (VRef o) f v) = None.
Proof. exact late_feature_visible. Qed.
Print Assumptions C18_late_feature_visible.

(* regression (pre a5be5cd): a bare setattr accepted the base-class slots type / xmiID as last name *)
Theorem C18_old_set_refuted :
  exists sch h root path t ob,
    set_target sch h root path = VRef t /\ hget t h = Some ob /\
    is_feature sch (o_type ob) (set_last path) = false /\ set_old_raises sch h root path = false.
Proof. exact set_old_refuted. Qed.
Print Assumptions C18_old_set_refuted.

(* non-vacuity: a two-object cycle with a linked list hanging off it; a four-segment set through the cycle
   satisfies the premise of set_then_get and succeeds; empty segments split as Python does *)
Example C18_premises_hold :
  let sch := [("t.A", ["next"; "b"; "s"]); ("t.B", ["a"; "n"]);
              ("uima.cas.NonEmptyFSList", ["head"; "tail"]); ("uima.cas.EmptyFSList", [])] in
  let h := [(0%N, mkObj "t.A" [("next", VRef 0%N); ("b", VRef 1%N)]);
            (1%N, mkObj "t.B" [("a", VRef 0%N)]);
            (2%N, mkObj "uima.cas.NonEmptyFSList" [("head", VRef 0%N); ("tail", VRef 3%N)]);
            (3%N, mkObj "uima.cas.EmptyFSList" [])] in
  avoidsb sch h 2%N "head.next.b.n" = true /\
  (exists h', set sch h 2%N "head.next.b.n" (VPrim "i:7") = (h', None) /\ get sch h' 0%N "b.a.next.b.n" = VPrim "i:7") /\
  get sch h 2%N "tail.tail" = VNone /\ get sch h 0%N "next.type" = VNone /\
  snd (set sch h 0%N "b.xmiID" (VPrim "i:1")) = Some EAttribute /\
  split_dot "a..b." = ["a"; ""; "b"; ""] /\ rsplit "a..b." = Some ("a..b", "").
Proof. cbv zeta. repeat split; try (vm_compute; reflexivity). eexists. split; vm_compute; reflexivity. Qed.

(* non-vacuity of the growth theorems: "weight" is added to the supertype's features after "next.weight" was
   looked up; the old path gives None and refuses the set, the new schema reads and assigns the slot, and a
   path that resolved before ("next.next") is unchanged *)
Example C18_growth_premises_hold :
  let s := [("t.Node", ["next"])] in
  let s' := [("t.Node", ["weight"; "next"])] in
  let h := [(0%N, mkObj "t.Node" [("next", VRef 1%N); ("weight", VPrim "i:1")]);
            (1%N, mkObj "t.Node" [("next", VRef 0%N); ("weight", VPrim "i:2")])] in
  sch_leb s s' = true /\ sch_le s s' /\ get s h 0%N "next.weight" = VNone /\ snd (set s h 0%N "next.weight" (VPrim "i:9")) = Some EAttribute /\
  get s' h 0%N "next.weight" = VPrim "i:2" /\ snd (set s' h 0%N "next.weight" (VPrim "i:9")) = None /\
  get s h 0%N "next.next" = VRef 0%N /\ get s' h 0%N "next.next" = VRef 0%N.
Proof.
  cbv zeta. split; [vm_compute; reflexivity|]. split; [|repeat split; vm_compute; reflexivity].
  intros t f. unfold is_feature. cbn [alookup].
  destruct (String.eqb t "t.Node"); cbv iota; [|discriminate].
  rewrite !memb_In. cbn [In]. tauto.
Qed.

(* ---- paths of any length, by their segments ---- *)

(* the path spelled by any non-empty list of dot-free segments reads the walk over them ... *)
Theorem C18_get_by_segments : forall sch h root segs,
  segs <> [] -> forallb dotfreeb segs = true ->
  get sch h root (join_dot segs) = walk sch h (VRef root) segs.
Proof. exact get_by_segments. Qed.
Print Assumptions C18_get_by_segments.

(* ... and assigns the last name on what the walk over all the others reaches *)
Theorem C18_set_by_segments : forall sch h root pre last v,
  forallb dotfreeb pre = true -> dotfreeb last = true ->
  set sch h root (join_dot (pre ++ [last])) v = assign sch h (walk sch h (VRef root) pre) last v.
Proof. exact set_by_segments. Qed.
Print Assumptions C18_set_by_segments.

(* the same assignment from the other end: one step along the first segment, then set of the rest on the
   structure reached.  Resolving the prefix in a loop and recursing segment by segment are the same function
   for every length; an implementation may differ from it only by running out of call depth. *)
Theorem C18_set_peel_first : forall sch h root f rest v,
  dotfreeb f = true ->
  set sch h root (f ++ String dot rest)%string v =
  match step sch h (VRef root) f with
  | VRef o => set sch h o rest v
  | _ => (h, Some EAttribute)
  end.
Proof. exact set_peel_first. Qed.
Print Assumptions C18_set_peel_first.

(* ---- features declared with the reserved UIMA names self / type ---- *)

(* in the type system denoted by ANY list of declared feature names (declared "self"/"type" are stored as
   self_/type_), "type" and "self" themselves are features of no type *)
Theorem C18_reserved_not_feature : forall d t,
  is_feature (declared d) t "type" = false /\ is_feature (declared d) t "self" = false.
Proof. exact reserved_not_feature. Qed.
Print Assumptions C18_reserved_not_feature.

(* hence such a segment reads None and is refused as a last name, nothing modified *)
Theorem C18_reserved_segment : forall d h cur v,
  step (declared d) h cur "type" = VNone /\ step (declared d) h cur "self" = VNone /\
  assign (declared d) h cur "type" v = (h, Some EAttribute) /\
  assign (declared d) h cur "self" v = (h, Some EAttribute).
Proof. exact reserved_segment. Qed.
Print Assumptions C18_reserved_segment.

Theorem C18_accessor_feature : forall d t fs f,
  alookup t d = Some fs -> In f fs -> is_feature (declared d) t (accessor f) = true.
Proof. exact accessor_feature. Qed.
Print Assumptions C18_accessor_feature.

(* non-vacuity: a relation type declaring "type", "self" and "next" on a two-node cycle; the renamed
   features are reachable, the bare names read None and cannot be assigned; and a path of 2 001 segments
   round the cycle is read and assigned like a short one *)
Example C18_reserved_and_long_hold :
  let sch := declared [("demo.Relation", ["type"; "self"; "next"])] in
  let h := [(0%N, mkObj "demo.Relation" [("type_", VPrim "s:cause"); ("next", VRef 1%N)]);
            (1%N, mkObj "demo.Relation" [("type_", VPrim "s:effect"); ("next", VRef 0%N)])] in
  let long := join_dot (repeat "next" 2000 ++ ["type_"]) in
  sch = [("demo.Relation", ["type_"; "self_"; "next"])] /\
  get sch h 0%N "next.type_" = VPrim "s:effect" /\ get sch h 0%N "next.type" = VNone /\
  set sch h 0%N "next.type" (VPrim "s:x") = (h, Some EAttribute) /\
  set sch h 0%N "self" (VPrim "s:x") = (h, Some EAttribute) /\
  get sch h 0%N long = VPrim "s:cause" /\
  (exists h', set sch h 0%N long (VPrim "s:x") = (h', None) /\ get sch h' 0%N "type_" = VPrim "s:x" /\
              get sch h' 0%N long = VPrim "s:x").
Proof. cbv zeta. repeat split; try (vm_compute; reflexivity). eexists. repeat split; vm_compute; reflexivity. Qed.
