(* Props/C04.v — property C04, XMI half: written documents are complete, closed under reachability and faithful.
   Only property theorems (closed by `exact`), Print Assumptions and non-vacuity examples.
   Float printing / parsing are external (Python repr / float): the theorems quantify over any pair fmt / parse with the
   contract  parse (fmt x) = Some x  and  fmt x is one blank-free token  (checked by the oracle on every case). *)
From Cassis Require Import Base Offsets.
From Cassis Require Import Heap Schema Canon Lex LexProofs Reach XmiDoc Xmi XmiProofs CorrC04 XmiExample.
Open Scope Z_scope.

(* Faithful: for every schema and every CAS, if the writer succeeds and the CAS after the traversal is well-formed for the
   structures that are written (wf_xmib: boolean, counted by the harness on every case), then the document, read by the
   independent denotation of the XMI format, is exactly the canonical content of the CAS (types by namespace, every
   feature value, element order of collections, offsets in code points, sofa data, view membership), up to ""/null inside
   string arrays and lists. *)
Theorem C04_denote_save_xmi :
  forall (fmt : flt -> string) (parse : string -> option flt),
  (forall x, parse (fmt x) = Some x) -> (forall x, tok_ok (fmt x)) ->
  forall s c d c',
  save_xmi fmt s c = Ok (d, c') ->
  (forall all, written s c = Ok (c', all) -> wf_xmib s c' all = true) ->
  denote_xmi parse s d = (do x <- canon_xmi s c ;; Ok (norm_xmi s x)).
Proof. exact denote_save_xmi. Qed.
Print Assumptions C04_denote_save_xmi.

(* The same for any set of structures to be written: the writer's document for (c, all) denotes canon_of c all. *)
Theorem C04_denote_written :
  forall (fmt : flt -> string) (parse : string -> option flt),
  (forall x, parse (fmt x) = Some x) -> (forall x, tok_ok (fmt x)) ->
  forall s c all d, wf_xmib s c all = true -> write_doc fmt s c all = Ok d ->
  denote_xmi parse s d = (do x <- canon_of s c (sort_ids all) ;; Ok (norm_xmi s x)).
Proof. exact denote_written. Qed.
Print Assumptions C04_denote_written.

(* Namespaces: in every reachable state of the prefix allocator the prefix recorded for a URL is bound to that URL, so every
   element is created in the namespace of its own package — also for packages ending in the same segment or in
   cas / xmi / tcas / type0 (distinct URLs never share a prefix). *)
Theorem C04_prefix_alloc_injective :
  forall st n u st', ns_inv st -> alloc_ns st n = Ok (u, st') -> u = fst (ns_of_type n) /\ ns_inv st'.
Proof. exact prefix_alloc_injective. Qed.
Print Assumptions C04_prefix_alloc_injective.

(* Each element written for a feature structure decodes to that structure's canonical content (per element form of
   "present, faithful"): ordinary structures with all eleven writer branches, and arrays stored as elements of their own. *)
Theorem C04_dec_enc_fs :
  forall (fmt : flt -> string) (parse : string -> option flt),
  (forall x, parse (fmt x) = Some x) -> (forall x, tok_ok (fmt x)) ->
  forall s c ids, memZ 0 ids = false -> (forall vn so, sofa_of_view c vn = Some so -> s_xid so <> 0) ->
  forall g io f e, sofas_track g -> NoDup (map (fun v => s_xid (v_sofa v)) (c_views c)) ->
  hget (c_heap c) (snd io) = Some f -> fs_okb s c ids io = true ->
  enc_fs fmt s c (fst (ns_of_type (o_type f))) (fst io) f = Ok e ->
  dec_fs parse s (map g (c_views c)) e = (do x <- canon_fs s c io ;; Ok (fst x, norm_cfs s (snd x))).
Proof. exact dec_enc_fs. Qed.
Print Assumptions C04_dec_enc_fs.

(* doc_ids_distinct: in the written document cas:NULL has id 0 and the xmi:ids of all elements that carry one (NULL, feature
   structures, sofas) are pairwise distinct; they are exactly 0, the ids of the structures written and the sofa ids. *)
Theorem C04_doc_ids_distinct :
  forall (fmt : flt -> string) s c all d,
  wf_xmib s c all = true -> write_doc fmt s c all = Ok d ->
  exists idl, mapM x_id (filter (fun e => negb (is_view e)) d) = Ok idl /\ NoDup idl
              /\ Permutation idl (0 :: map fst all ++ map (fun v => s_xid (v_sofa v)) (c_views c))
              /\ mapM x_id (filter is_null d) = Ok [0].
Proof. exact doc_ids_distinct. Qed.
Print Assumptions C04_doc_ids_distinct.

(* NOT PROVED for all inputs (evaluated on every generated case instead, on the implementation's document —
   check_doc_ok in CorrC04.v — and on the example below):
     doc_refs_resolve / doc_ok_save_xmi:
       save_xmi fmt s c = Ok (d, c') -> (forall all, written s c = Ok (c', all) -> wf_xmib s c' all = true) ->
       doc_ok_xmi parse s d = true.
   wf_xmib carries the set-level facts about `all` (ids distinct and apart from the sofa ids and 0, every reference /
   element / member / sofa array is in `all`) as boolean premises; that they follow from the traversal is Reach's
   find_all_each_once / find_all_closed (ReachProofs, other builder).  What is missing here is the bookkeeping that the
   canonical content is total (canon_of = Ok under wf_xmib) and that the references it mentions are those ref_okb checked. *)

(* non-vacuity: the example CAS (two views, astral text, cycle, inline FSArray with a null element, shared FSArray, empty
   inline StringList, referenced-only annotation, colliding package suffixes) satisfies the premises; the model writes the
   document cassis wrote; the document is closed and denotes the observed content *)
Example C04_premises_hold :
  (match written ex_schema ex_cas with Ok ca => wf_xmib ex_schema (fst ca) (snd ca) | _ => false end) = true
  /\ (match save_xmi (tab_fmt ex_ftab) ex_schema ex_cas with Ok (d, _) => xdoc_perm_eqb d ex_doc | _ => false end) = true
  /\ doc_ok_xmi (tab_parse ex_ftab) ex_schema ex_doc = true
  /\ (match denote_xmi (tab_parse ex_ftab) ex_schema ex_doc, canon_xmi ex_schema ex_cas with
      | Ok x, Ok y => ccas_eqb x (norm_xmi ex_schema y) && ccas_eqb y ex_canon | _, _ => false end) = true.
Proof. vm_compute. repeat split; reflexivity. Qed.
