(* Props/C04.v — property C04, XMI half: written documents are complete, closed under reachability and faithful.
   Only property theorems (closed by `exact`), Print Assumptions and non-vacuity examples.
   Float printing / parsing are external (Python repr / float): the theorems quantify over any pair fmt / parse with the
   contract  parse (fmt x) = Some x  and  fmt x is one blank-free token  (checked by the oracle on every case). *)
From Cassis Require Import Base Offsets.
From Cassis Require Import Heap Schema Canon Lex LexProofs Reach ReachProofs ReachSpec XmiDoc Xmi XmiProofs XmiWf XmiDocOk CorrC04 XmiExample.
Open Scope Z_scope.

(* The premise of the document-level theorems is well-formedness of the INPUT CAS only (Xmi.wf_casb / wf_inb, boolean, counted
   by the harness on every case): references are live and arrays have an `elements` list (Reach.wf_heapb), members are live,
   explicit xmi:ids are pairwise distinct and below the id generator, no structure claims id 0, sofa ids are distinct, not 0
   and not the id of a structure, view names are distinct, sofa texts are encodable and sofa arrays are primitive arrays, and
   every object has slots of the kind its type declares (obj_inb: type name round-trips through the namespace mapping,
   document names of features distinct, writer branch = format kind, annotations carry the sofa of a view of this CAS and
   offsets inside its text, inline lists acyclic).  wf_inb adds: only subtypes of AnnotationBase have a feature `sofa`.
   Nothing about the set of written structures is assumed: that every written structure has its id, that ids are pairwise
   distinct and apart from sofa ids and 0, that the written set is closed under the writer's successor relation and that
   references of written structures point to written structures is derived from the traversal (XmiWf.wf_written, from
   ReachProofs.find_all_closed / find_all_each_once / find_all_contains_seeds / ids_assigned / find_all_exact). *)
Theorem C04_written_set_from_traversal :
  forall s c c' all, wf_casb s c = true -> written s c = Ok (c', all) -> wf_xmib s c' all = true.
Proof. exact wf_written. Qed.
Print Assumptions C04_written_set_from_traversal.

(* Faithful: for every schema and every well-formed CAS, if the writer succeeds, then the document, read by the independent
   denotation of the XMI format, is exactly the canonical content of the CAS (types by namespace, every feature value,
   element order of collections, offsets in code points, sofa data, view membership), up to ""/null inside string arrays
   and lists. *)
Theorem C04_denote_save_xmi :
  forall (fmt : flt -> string) (parse : string -> option flt),
  (forall x, parse (fmt x) = Some x) -> (forall x, tok_ok (fmt x)) ->
  forall s c d c',
  wf_casb s c = true -> save_xmi fmt s c = Ok (d, c') ->
  denote_xmi parse s d = (do x <- canon_xmi s c ;; Ok (norm_xmi s x)).
Proof. exact denote_save_xmi_wf. Qed.
Print Assumptions C04_denote_save_xmi.

(* Closed (doc_refs_resolve): in the written document cas:NULL has id 0 and occurs once; the ids of cas:NULL, of the sofas
   and of the feature structure elements are pairwise distinct; every reference, element token of an FSArray / FSList,
   sofa attribute of an annotation names an element of the right kind; every View names a sofa, at most one View per
   sofa; every member and every sofaArray names a feature structure element (XmiDoc.doc_ok_xmi). *)
Theorem C04_doc_ok :
  forall (fmt : flt -> string) (parse : string -> option flt),
  (forall x, parse (fmt x) = Some x) -> (forall x, tok_ok (fmt x)) ->
  forall s c d c',
  wf_inb s c = true -> save_xmi fmt s c = Ok (d, c') -> doc_ok_xmi parse s d = true.
Proof. exact doc_ok_save_xmi. Qed.
Print Assumptions C04_doc_ok.

(* Complete: the feature structure elements of the document are, in order, the structures `all` the writer collected
   (ids pairwise distinct: each structure once); every structure reachable from an indexed one through any chain of the
   declarative successor relation (references, TOP-ranged features, list head / tail, FSArray elements, inline FSArray
   members, heads of inline FSList nodes) is among them, under the id it carries after the save; and nothing else is
   written except the byte arrays holding sofa data. *)
Theorem C04_complete :
  forall (fmt : flt -> string) s c d c',
  wf_casb s c = true -> save_xmi fmt s c = Ok (d, c') ->
  exists all, written s c = Ok (c', all)
    /\ mapM x_id (filter is_fs d) = Ok (map fst (sort_ids all))
    /\ NoDup (map fst (sort_ids all)) /\ NoDup (map snd all)
    /\ (forall i o, In (i, o) all -> has_id (c_heap c') o i)
    /\ (forall o, reachable s (c_heap c) (member_seeds c) o -> In o (map snd all))
    /\ (forall o, In o (map snd all) ->
          reachable s (c_heap c) (member_seeds c) o \/ exists v, In v (c_views c) /\ s_arr (v_sofa v) = Some o).
Proof. exact save_xmi_complete. Qed.
Print Assumptions C04_complete.

(* The same for any set of structures to be written: the writer's document for (c, all) denotes canon_of c all. *)
Theorem C04_denote_written :
  forall (fmt : flt -> string) (parse : string -> option flt),
  (forall x, parse (fmt x) = Some x) -> (forall x, tok_ok (fmt x)) ->
  forall s c all d, wf_xmib s c all = true -> write_doc fmt s c all = Ok d ->
  denote_xmi parse s d = (do x <- canon_of s c (sort_ids all) ;; Ok (norm_xmi s x)).
Proof. exact denote_written. Qed.
Print Assumptions C04_denote_written.

(* Namespaces: in every reachable state of the prefix allocator the prefix recorded for a URL is bound to that URL, so every
   element is created in the namespace of its own package — also for packages ending in the same segment or in
   cas / xmi / tcas / type0 (distinct URLs never share a prefix). *)
Theorem C04_prefix_alloc_injective :
  forall st n u st', ns_inv st -> alloc_ns st n = Ok (u, st') -> u = fst (ns_of_type n) /\ ns_inv st'.
Proof. exact prefix_alloc_injective. Qed.
Print Assumptions C04_prefix_alloc_injective.

(* Each element written for a feature structure decodes to that structure's canonical content (per element form of
   "present, faithful"): ordinary structures with all eleven writer branches, and arrays stored as elements of their own. *)
Theorem C04_dec_enc_fs :
  forall (fmt : flt -> string) (parse : string -> option flt),
  (forall x, parse (fmt x) = Some x) -> (forall x, tok_ok (fmt x)) ->
  forall s c ids, memZ 0 ids = false -> (forall vn so, sofa_of_view c vn = Some so -> s_xid so <> 0) ->
  forall g io f e, sofas_track g -> NoDup (map (fun v => s_xid (v_sofa v)) (c_views c)) ->
  hget (c_heap c) (snd io) = Some f -> fs_okb s c ids io = true ->
  enc_fs fmt s c (fst (ns_of_type (o_type f))) (fst io) f = Ok e ->
  dec_fs parse s (map g (c_views c)) e = (do x <- canon_fs s c io ;; Ok (fst x, norm_cfs s (snd x))).
Proof. exact dec_enc_fs. Qed.
Print Assumptions C04_dec_enc_fs.

(* doc_ids_distinct: in the written document cas:NULL has id 0 and the xmi:ids of all elements that carry one (NULL, feature
   structures, sofas) are pairwise distinct; they are exactly 0, the ids of the structures written and the sofa ids. *)
Theorem C04_doc_ids_distinct :
  forall (fmt : flt -> string) s c all d,
  wf_xmib s c all = true -> write_doc fmt s c all = Ok d ->
  exists idl, mapM x_id (filter (fun e => negb (is_view e)) d) = Ok idl /\ NoDup idl
              /\ Permutation idl (0 :: map fst all ++ map (fun v => s_xid (v_sofa v)) (c_views c))
              /\ mapM x_id (filter is_null d) = Ok [0].
Proof. exact doc_ids_distinct. Qed.
Print Assumptions C04_doc_ids_distinct.

(* non-vacuity: the example CAS (two views, astral text, cycle, inline FSArray with a null element, shared FSArray, empty
   inline StringList, referenced-only annotation, colliding package suffixes) satisfies the premises; the model writes the
   document cassis wrote; the document is closed and denotes the observed content *)
Example C04_premises_hold :
  wf_inb ex_schema ex_cas = true
  /\ (match written ex_schema ex_cas with Ok ca => wf_xmib ex_schema (fst ca) (snd ca) | _ => false end) = true
  /\ (match save_xmi (tab_fmt ex_ftab) ex_schema ex_cas with Ok (d, _) => xdoc_perm_eqb d ex_doc | _ => false end) = true
  /\ doc_ok_xmi (tab_parse ex_ftab) ex_schema ex_doc = true
  /\ (match denote_xmi (tab_parse ex_ftab) ex_schema ex_doc, canon_xmi ex_schema ex_cas with
      | Ok x, Ok y => ccas_eqb x (norm_xmi ex_schema y) && ccas_eqb y ex_canon | _, _ => false end) = true.
Proof. vm_compute. repeat split; reflexivity. Qed.

(* ================================================================================================
   JSON half of C04: the statements below are proved in JsonProofs.v / JsonProofs2.v / JsonLoadProofs.v / JsonLex.v and
   collected in PropsJson.v (reading guide there); the sub-suite harness/props/C04json.py runs the JSON cases. *)
From Cassis Require Import JsonDoc Json JsonProofs JsonProofs2 JsonLoadProofs JsonLex.
From Cassis Require PropsJson.
Open Scope list_scope.
Open Scope Z_scope.

Theorem C04_json_denote_save : forall L s mode c d c',
  lex_ok L -> save_json L s mode c = Ok (d, c') -> wf_jsonb s c' = true -> 0 < c_next_id c ->
  denote_json L s d = canon_json s c'.
Proof. exact PropsJson.C04_json_denote_save. Qed.
Print Assumptions C04_json_denote_save.

Theorem C04_json_ids_distinct : forall L s mode c d c',
  lex_ok L -> save_json L s mode c = Ok (d, c') -> wf_jsonb s c' = true -> 0 < c_next_id c ->
  ids_distinctb s c' = true -> doc_ids_distinctb d = true.
Proof. exact PropsJson.C04_json_ids_distinct. Qed.
Print Assumptions C04_json_ids_distinct.

Theorem C04_json_refs_resolve : forall L s mode c d c',
  lex_ok L -> save_json L s mode c = Ok (d, c') -> wf_jsonb s c' = true -> 0 < c_next_id c ->
  refs_wfb s c' = true -> doc_refs_resolveb d = true.
Proof. exact PropsJson.C04_json_refs_resolve. Qed.
Print Assumptions C04_json_refs_resolve.

Theorem C04_json_entries : forall L s mode c d c',
  lex_ok L -> save_json L s mode c = Ok (d, c') -> wf_jsonb s c' = true -> 0 < c_next_id c ->
  exists w (Ev Ef : list entry),
    find_all_fs true s c' = Ok w /\ fs_entries d = Ok (Ev ++ Ef) /\
    map fst Ev = flat_map (fun p => arr_ids c' p ++ [s_xid (v_sofa (snd p))]) (tviews c) /\
    map fst Ef = map fst (found_list c' w).
Proof. exact PropsJson.C04_json_entries. Qed.
Print Assumptions C04_json_entries.

Theorem C04_json_std_lex_ok : lex_ok std_lex.
Proof. exact PropsJson.C04_json_std_lex_ok. Qed.
Print Assumptions C04_json_std_lex_ok.
