(* Props/C04.v — property C04 (XMI half). *)
From Cassis Require Import Base Lex LexProofs.
Theorem C04_tokens_roundtrip : forall l, Forall tok_ok l -> split_ws (join l) = l.
Proof. exact split_join. Qed.
Print Assumptions C04_tokens_roundtrip.
