(* DescrProofs3.v — deepening of C12 (2, 3): the reader on ANY descriptor with unique names.
   load_total        : the supertype walk never runs out of fuel (create_type already refuses a type whose supertype is
                       not there yet), for every descriptor and every order;
   load_reading_all  : under the toposort contract the reader is the declarative reading read_spec (own features of a
                       type = its declared features folded with _add_feature against what is visible at its supertype);
   permutation_invariant_all : any permutation, any two admissible orders: same content, or the same kind of error. *)
From Cassis Require Import Base Descr DescrProofs DescrProofs2.

(* ------------------------------------------------------------------ specification *)
(* the features visible at a name (Type.all_features after the load): a built-in's, or own ++ supertype's, the own
   features of a declared type being its declared features folded with _add_feature against the supertype's *)
Fixpoint vis_feats (fuel : nat) (d2 : descr) (n : tname) : res (list sfeat) :=
  match fuel with
  | O => OutOfFuel
  | S k => if is_builtin n then Ok (builtin_all 8 n) else
           match find_decl n d2 with
           | None => Err EKey
           | Some t => do inh <- vis_feats k d2 (t_super t) ;;
                       do own <- add_feats inh (map sfeat_of_decl (t_feats t)) ;; Ok (own ++ inh)
           end
  end.
Definition own_of (fuel : nat) (d2 : descr) (t : tdecl) : res (list sfeat) :=
  do inh <- vis_feats fuel d2 (t_super t) ;; add_feats inh (map sfeat_of_decl (t_feats t)).
Definition done_type (t : tdecl) (o : list sfeat) : stype := mkST (t_name t) (t_descr t) (t_super t) o.
Fixpoint collect_types (fuel : nat) (d2 : descr) (l : list tdecl) : res (list stype) :=
  match l with
  | [] => Ok []
  | t :: r => do o <- own_of fuel d2 t ;; do r' <- collect_types fuel d2 r ;; Ok (done_type t o :: r')
  end.
Definition check1_okb (t : tdecl) : bool := match builtin_check1 t with Ok _ => true | _ => false end.
(* declarative reading of any descriptor with unique names: KeyError for an unresolved reference; ValueError for a
   built-in redeclared differently, a final supertype, a feature redefined differently; else every declared user type
   (in creation order) with its own features *)
Definition read_spec (order : list tname) (d : descr) : res tsys :=
  let d2 := prep d in
  if negb (resolve_okb d2) then Err EKey else
  if negb (forallb check1_okb d2) then Err EValue else
  if existsb (fun t => memb (t_super t) final_types) (user_decls d2) then Err EValue else
  do st <- collect_types (S (List.length (user_decls d2))) d2 (sel_decls d2 order) ;;
  Ok (mkTS st (spec_redecl d)).
(* two outcomes agree: the same content (types sorted by name, redeclared set), or the same kind of exception *)
Definition res_agree (r1 r2 : res tsys) : Prop :=
  match r1, r2 with
  | Ok s1, Ok s2 => canon s1 = canon s2
  | Err e1, Err e2 => e1 = e2
  | _, _ => False
  end.

(* creation order: every created type is new and its supertype is a built-in or was created before *)
Fixpoint chain_okb (seen : list tname) (c : list tdecl) : bool :=
  match c with
  | [] => true
  | t :: r => negb (memb (t_name t) seen) && (is_builtin (t_super t) || memb (t_super t) seen) && chain_okb (t_name t :: seen) r
  end.

(* ------------------------------------------------------------------ small facts *)
Lemma add_feat_class inh acc f : (exists o, acc = Ok o) \/ acc = Err EValue ->
  (exists o, add_feat inh acc f = Ok o) \/ add_feat inh acc f = Err EValue.
Proof.
  intros [[o ->]| ->]; [|right; reflexivity]. unfold add_feat. cbn [bind].
  destruct (find_sf (sf_name f) o) as [g|].
  - destruct (sf_eqb g f); [left; eauto|right; reflexivity].
  - destruct (find_sf (sf_name f) inh) as [g|]; [destruct (sf_eqb g f)|]; [left; eauto|right; reflexivity|left; eauto].
Qed.

Lemma add_feats_class inh fs : (exists o, add_feats inh fs = Ok o) \/ add_feats inh fs = Err EValue.
Proof.
  unfold add_feats. assert (forall acc, (exists o, acc = Ok o) \/ acc = Err EValue ->
    (exists o, fold_left (add_feat inh) fs acc = Ok o) \/ fold_left (add_feat inh) fs acc = Err EValue) as H.
  { induction fs as [|f r IH]; intros acc Hacc; cbn [fold_left]; [exact Hacc|]. apply IH. apply add_feat_class. exact Hacc. }
  apply H. left. eauto.
Qed.

Lemma all_feats_mono_fuel st : forall k n l, all_feats k st n = Some l -> all_feats (S k) st n = Some l.
Proof.
  induction k as [|k IH]; intros n l H; [discriminate|]. cbn [all_feats] in H. change (all_feats (S (S k)) st n) with
    (if is_builtin n then Some (builtin_all 8 n) else
     match find_st n st with None => None | Some t => match all_feats (S k) st (st_super t) with None => None | Some l0 => Some (st_feats t ++ l0) end end).
  destruct (is_builtin n); [exact H|]. destruct (find_st n st) as [t|]; [|discriminate].
  destruct (all_feats k st (st_super t)) as [l0|] eqn:E; [|discriminate]. rewrite (IH _ _ E). exact H.
Qed.

Lemma all_feats_some_S st k n : all_feats k st n <> None -> all_feats (S k) st n <> None.
Proof. destruct (all_feats k st n) as [l|] eqn:E; [|congruence]. intros _. rewrite (all_feats_mono_fuel st k n l E). discriminate. Qed.

Lemma vis_feats_S d2 : forall k n r, vis_feats k d2 n = r -> r <> OutOfFuel -> vis_feats (S k) d2 n = r.
Proof.
  induction k as [|k IH]; intros n r H Hr; [cbn in H; congruence|]. cbn [vis_feats] in H.
  change (vis_feats (S (S k)) d2 n) with
    (if is_builtin n then Ok (builtin_all 8 n) else
     match find_decl n d2 with None => Err EKey
     | Some t => do inh <- vis_feats (S k) d2 (t_super t) ;; do own <- add_feats inh (map sfeat_of_decl (t_feats t)) ;; Ok (own ++ inh) end).
  destruct (is_builtin n); [exact H|]. destruct (find_decl n d2) as [t|]; [|exact H].
  destruct (vis_feats k d2 (t_super t)) as [inh|e|] eqn:E.
  - rewrite (IH _ _ E) by discriminate. exact H.
  - rewrite (IH _ _ E) by discriminate. exact H.
  - cbn [bind] in H. congruence.
Qed.

Lemma vis_feats_mono d2 k k' n r : vis_feats k d2 n = r -> r <> OutOfFuel -> k <= k' -> vis_feats k' d2 n = r.
Proof. intros H Hr Hle. induction Hle as [|m Hle IH]; [exact H|]. apply vis_feats_S; assumption. Qed.

Lemma vis_feats_ext d1 d2 : (forall m, find_decl m d1 = find_decl m d2) -> forall k n, vis_feats k d1 n = vis_feats k d2 n.
Proof.
  intros H. induction k as [|k IH]; intros n; cbn [vis_feats]; [reflexivity|]. rewrite H.
  destruct (is_builtin n); [reflexivity|]. destruct (find_decl n d2); [|reflexivity]. rewrite IH. reflexivity.
Qed.

Lemma has_decl_snoc n c t : has_decl n (c ++ [t]) = has_decl n c || String.eqb n (t_name t).
Proof. rewrite !has_decl_memb, map_app, memb_app. cbn [map memb]. rewrite orb_false_r. reflexivity. Qed.

Lemma chain_okb_ext c : forall s1 s2, (forall n, memb n s1 = memb n s2) -> chain_okb s1 c = chain_okb s2 c.
Proof.
  induction c as [|t r IH]; intros s1 s2 H; cbn [chain_okb]; [reflexivity|]. rewrite !H. f_equal.
  apply IH. intros n. cbn [memb]. rewrite H. reflexivity.
Qed.

(* ------------------------------------------------------------------ the supertype walk never runs out of fuel *)
Lemma all_feats_S st k n :
  all_feats (S k) st n =
  if is_builtin n then Some (builtin_all 8 n) else
  match find_st n st with
  | None => None
  | Some t => match all_feats k st (st_super t) with None => None | Some l => Some (st_feats t ++ l) end
  end.
Proof. reflexivity. Qed.

Lemma chain_facts c : forall seen, chain_okb seen c = true ->
  NoDup (map t_name c) /\ (forall n, In n (map t_name c) -> ~ In n seen) /\
  (forall t, In t c -> is_builtin (t_super t) = true \/ In (t_super t) seen \/ In (t_super t) (map t_name c)).
Proof.
  induction c as [|t r IH]; intros seen H; cbn [chain_okb map] in *.
  - split; [constructor|]. split; [intros n []|intros t []].
  - rewrite !andb_true_iff in H. destruct H as [[H1 H2] H3]. apply negb_true_iff in H1. apply memb_false_notin in H1.
    destruct (IH _ H3) as [Hnd [Hdis Hsup]]. split; [|split].
    + constructor; [|exact Hnd]. intros Hin. apply (Hdis _ Hin). left. reflexivity.
    + intros n [<-|Hn]; [exact H1|]. intros Hs. apply (Hdis _ Hn). right. exact Hs.
    + intros u [<-|Hu].
      * apply orb_true_iff in H2. destruct H2 as [H2|H2]; [left; exact H2|right; left; apply memb_In; exact H2].
      * destruct (Hsup u Hu) as [H|[[H|H]|H]]; [left; exact H|right; right; left; exact H|right; left; exact H|right; right; right; exact H].
Qed.

Lemma fuel_enough st : forall c seen K,
  chain_okb seen c = true ->
  (forall t, In t c -> exists s, find_st (t_name t) st = Some s /\ st_super s = t_super t) ->
  (forall n, is_builtin n = true \/ In n seen -> all_feats (S K) st n <> None) ->
  forall n, is_builtin n = true \/ In n seen \/ In n (map t_name c) -> all_feats (S (K + List.length c)) st n <> None.
Proof.
  induction c as [|t r IH]; intros seen K Hch Hfind Hseen n Hn.
  - cbn [List.length]. rewrite Nat.add_0_r. apply Hseen. destruct Hn as [H|[H|[]]]; auto.
  - cbn [chain_okb] in Hch. rewrite !andb_true_iff in Hch. destruct Hch as [[H1 H2] H3].
    assert (all_feats (S (S K)) st (t_name t) <> None) as S1.
    { rewrite all_feats_S. destruct (is_builtin (t_name t)); [discriminate|].
      destruct (Hfind t (or_introl eq_refl)) as [s [Es Hs]]. rewrite Es, Hs.
      assert (all_feats (S K) st (t_super t) <> None) as Hx.
      { apply Hseen. apply orb_true_iff in H2. destruct H2 as [H2|H2]; [left; exact H2|right; apply memb_In; exact H2]. }
      destruct (all_feats (S K) st (t_super t)); [discriminate|congruence]. }
    cbn [List.length]. rewrite <- plus_n_Sm. change (S (K + List.length r)) with (S K + List.length r).
    apply (IH (t_name t :: seen) (S K) H3).
    + intros u Hu. apply Hfind. right. exact Hu.
    + intros m [Hm|[<-|Hm]]; [apply all_feats_some_S; apply Hseen; left; exact Hm|exact S1|apply all_feats_some_S; apply Hseen; right; exact Hm].
    + cbn [map In] in Hn. destruct Hn as [H|[H|[H|H]]]; [left; exact H|right; left; right; exact H|right; left; left; exact H|right; right; exact H].
Qed.

(* a state with the names and supertypes of the created types *)
Definition shaped (c : list tdecl) (st : list stype) : Prop :=
  forall m, option_map st_super (find_st m st) = option_map t_super (find_decl m c).

Lemma shaped_blank c : shaped c (map blank c).
Proof. intros m. rewrite (find_st_map blank) by reflexivity. destruct (find_decl m c); reflexivity. Qed.

Lemma shaped_set_feats c st n fs : shaped c st -> shaped c (set_feats n fs st).
Proof.
  intros H m. unfold set_feats. rewrite find_st_map_st.
  - rewrite <- H. destruct (find_st m st) as [t|]; [|reflexivity]. cbn [option_map]. destruct (String.eqb n (st_name t)); reflexivity.
  - intros t. destruct (String.eqb n (st_name t)); reflexivity.
Qed.

Lemma shaped_fuel c st : chain_okb [] c = true -> shaped c st ->
  forall t, In t c -> all_feats (S (List.length c)) st (t_super t) <> None.
Proof.
  intros Hch Hsh t Ht. destruct (chain_facts c [] Hch) as [Hnd [_ Hsup]].
  apply (fuel_enough st c [] 0 Hch).
  - intros u Hu. specialize (Hsh (t_name u)). rewrite find_decl_findk, (findk_nodup t_name c u Hnd Hu) in Hsh.
    destruct (find_st (t_name u) st) as [s|]; [|discriminate]. cbn in Hsh. injection Hsh as Hsh. exists s. auto.
  - intros n [Hn|[]]. rewrite all_feats_S, Hn. discriminate.
  - destruct (Hsup t Ht) as [H|[[]|H]]; auto.
Qed.

Lemma add_all_no_fuel F c : forall todo st, shaped c st ->
  (forall st', shaped c st' -> forall t, In t todo -> all_feats F st' (t_super t) <> None) ->
  add_all F todo st <> OutOfFuel.
Proof.
  induction todo as [|t r IH]; intros st Hsh H; cbn [add_all]; [discriminate|].
  pose proof (H st Hsh t (or_introl eq_refl)) as Ht. destruct (all_feats F st (t_super t)) as [inh|]; [|congruence].
  destruct (add_feats_class inh (map sfeat_of_decl (t_feats t))) as [[o ->]| ->]; cbn [bind]; [|discriminate].
  apply IH; [apply shaped_set_feats; exact Hsh|]. intros st' Hs' u Hu. apply H; [exact Hs'|right; exact Hu].
Qed.

Lemma create_types_chain d2 : forall order acc seen res, (forall n, memb n seen = has_decl n acc) ->
  create_types d2 order acc = Ok res -> exists new, res = acc ++ new /\ chain_okb seen new = true.
Proof.
  induction order as [|n r IH]; intros acc seen res Hseen H; cbn [create_types] in H.
  - injection H as <-. exists []. rewrite app_nil_r. auto.
  - destruct (is_builtin n); [eapply IH; eassumption|].
    destruct (find_decl n d2) as [t|] eqn:Ef; [|discriminate].
    rewrite find_decl_findk in Ef. apply findk_some in Ef. destruct Ef as [_ Hn]. subst n.
    destruct (has_decl (t_name t) acc) eqn:E1; [discriminate|].
    destruct (is_builtin (t_super t) || has_decl (t_super t) acc) eqn:E2; cbn [negb] in H; [|discriminate].
    destruct (memb (t_super t) final_types); [discriminate|].
    destruct (IH (acc ++ [t]) (t_name t :: seen) res) as [new [-> Hch]]; [|exact H|].
    + intros x. cbn [memb]. rewrite has_decl_snoc, Hseen. apply orb_comm.
    + exists (t :: new). rewrite <- app_assoc. split; [reflexivity|]. cbn [chain_okb]. rewrite !Hseen, E1, E2, Hch. reflexivity.
Qed.

Lemma create_types_no_fuel d2 : forall order acc, create_types d2 order acc <> OutOfFuel.
Proof.
  induction order as [|n r IH]; intros acc; cbn [create_types]; [discriminate|].
  destruct (is_builtin n); [apply IH|]. destruct (find_decl n d2) as [t|]; [|discriminate].
  destruct (has_decl n acc); [discriminate|]. destruct (negb _); [discriminate|]. destruct (memb _ _); [discriminate|apply IH].
Qed.

Lemma builtin_check1_true t : builtin_check1 t = Ok true -> is_builtin (t_name t) = true.
Proof. unfold builtin_check1, is_builtin, has_decl. destruct (find_decl (t_name t) builtins); [reflexivity|discriminate]. Qed.
Lemma builtin_check1_false t : builtin_check1 t = Ok false -> is_builtin (t_name t) = false.
Proof.
  unfold builtin_check1, is_builtin, has_decl. destruct (find_decl (t_name t) builtins); [|reflexivity].
  destruct (negb _); [discriminate|]. destruct (_ && _); discriminate.
Qed.

Lemma builtin_check_gen l :
  builtin_check l = if forallb check1_okb l then Ok (map t_name (filter (fun t => is_builtin (t_name t)) l)) else Err EValue.
Proof.
  induction l as [|a l IH]; cbn [builtin_check forallb filter map]; [reflexivity|]. rewrite IH. clear IH.
  destruct (builtin_check1_res a) as [E|[E|E]].
  - assert (check1_okb a = true) as -> by (unfold check1_okb; rewrite E; reflexivity). rewrite E. cbn [bind andb].
    rewrite (builtin_check1_true a E). destruct (forallb check1_okb l); reflexivity.
  - assert (check1_okb a = true) as -> by (unfold check1_okb; rewrite E; reflexivity). rewrite E. cbn [bind andb].
    rewrite (builtin_check1_false a E). destruct (forallb check1_okb l); reflexivity.
  - assert (check1_okb a = false) as -> by (unfold check1_okb; rewrite E; reflexivity). rewrite E. reflexivity.
Qed.

Theorem load_total order d : ts_of_descr order d <> OutOfFuel.
Proof.
  unfold ts_of_descr. cbv zeta. destruct (negb (resolve_okb _)); [discriminate|].
  rewrite builtin_check_gen. destruct (forallb check1_okb _); cbn [bind]; [|discriminate].
  destruct (create_types (with_docann (trim d)) order []) as [created|e|] eqn:Ec; cbn [bind]; [|discriminate|].
  - destruct (create_types_chain _ order [] [] created (fun n => eq_refl) Ec) as [new [-> Hch]]. cbn [app].
    pose proof (add_all_no_fuel (S (List.length new)) new new (map blank new) (shaped_blank new)) as H.
    destruct (add_all (S (List.length new)) new (map blank new)) as [st|e|]; cbn [bind]; try discriminate.
    exfalso. apply H; [|reflexivity]. intros st' Hs' t Ht. apply shaped_fuel; assumption.
  - exfalso. exact (create_types_no_fuel _ _ _ Ec).
Qed.

(* ------------------------------------------------------------------ the reader under the toposort contract, on any descriptor with unique names *)
Lemma resolve_known d2 : resolve_okb d2 = true -> forall t, In t d2 -> known d2 (t_super t) = true.
Proof.
  unfold resolve_okb. rewrite forallb_forall. intros H t Ht. specialize (H t Ht). apply andb_true_iff in H. tauto.
Qed.

Lemma create_types_gen d2 : resolve_okb d2 = true ->
  forall order acc seen, (forall n, memb n seen = has_decl n acc) -> topo_okb d2 order seen = true ->
  create_types d2 order acc =
  if existsb (fun t => memb (t_super t) final_types) (sel_decls d2 order) then Err EValue else Ok (acc ++ sel_decls d2 order).
Proof.
  intros Hres. induction order as [|n r IH]; intros acc seen Hseen Htopo; cbn [create_types sel_decls flat_map].
  - cbn [existsb]. rewrite app_nil_r. reflexivity.
  - cbn [topo_okb] in Htopo. fold (sel_decls d2 r). destruct (is_builtin n) eqn:Eb.
    + cbn [app]. eapply IH; eassumption.
    + destruct (find_decl n d2) as [t|] eqn:Ef; [|discriminate].
      rewrite find_decl_findk in Ef. apply findk_some in Ef. destruct Ef as [Hin Hn]. subst n.
      apply andb_true_iff in Htopo. destruct Htopo as [Htopo H3].
      apply andb_true_iff in Htopo. destruct Htopo as [H1 H2].
      apply negb_true_iff in H1. rewrite Hseen in H1. rewrite H1.
      pose proof (resolve_known d2 Hres t Hin) as Hk.
      assert (is_builtin (t_super t) || has_decl (t_super t) acc = true) as Hs.
      { rewrite <- Hseen. unfold known in Hk.
        destruct (is_builtin (t_super t)); [reflexivity|]. cbn in Hk, H2 |- *. rewrite Hk in H2. cbn in H2.
        rewrite orb_false_r in H2. exact H2. }
      rewrite Hs. cbn [negb app existsb]. destruct (memb (t_super t) final_types); [reflexivity|]. cbn [orb].
      rewrite (IH (acc ++ [t]) (t_name t :: seen)).
      * rewrite <- app_assoc. reflexivity.
      * intros x. cbn [memb]. rewrite has_decl_snoc, Hseen. apply orb_comm.
      * exact H3.
Qed.

Lemma sel_chain d2 : resolve_okb d2 = true -> forall order seen, topo_okb d2 order seen = true ->
  chain_okb seen (sel_decls d2 order) = true.
Proof.
  intros Hres. induction order as [|n r IH]; intros seen Htopo; cbn [sel_decls flat_map]; [reflexivity|].
  cbn [topo_okb] in Htopo. fold (sel_decls d2 r). destruct (is_builtin n) eqn:Eb; [cbn [app]; apply IH; exact Htopo|].
  destruct (find_decl n d2) as [t|] eqn:Ef; [|discriminate].
  rewrite find_decl_findk in Ef. apply findk_some in Ef. destruct Ef as [Hin Hn]. subst n.
  rewrite !andb_true_iff in Htopo. destruct Htopo as [[H1 H2] H3]. cbn [app chain_okb]. rewrite H1, (IH _ H3).
  pose proof (resolve_known d2 Hres t Hin) as Hk. unfold known in Hk.
  destruct (is_builtin (t_super t)); [reflexivity|]. cbn in Hk, H2 |- *. rewrite Hk in H2. cbn in H2.
  rewrite orb_false_r in H2. rewrite H2. reflexivity.
Qed.

(* the types that have received their features *)
Definition doneR (F : nat) (d2 : descr) (t : tdecl) (s : stype) : Prop := exists o, own_of F d2 t = Ok o /\ s = done_type t o.

Lemma done_find F d2 rest : forall c1 done, Forall2 (doneR F d2) c1 done -> forall n, has_decl n c1 = true ->
  exists t o, In t c1 /\ t_name t = n /\ own_of F d2 t = Ok o /\ find_st n (done ++ rest) = Some (done_type t o).
Proof.
  induction 1 as [|t s c1 done [o [Ho ->]] _ IH]; intros n Hn; [discriminate|].
  unfold has_decl, find_decl in Hn. cbn [find] in Hn. cbn [app]. unfold find_st. cbn [find done_type st_name].
  destruct (String.eqb n (t_name t)) eqn:E.
  - apply String.eqb_eq in E. exists t, o. repeat split; auto. left. reflexivity.
  - destruct (IH n Hn) as [u [o' [H1 [H2 [H3 H4]]]]]. exists u, o'. repeat split; auto. right. exact H1.
Qed.

Lemma done_names F d2 : forall c1 done, Forall2 (doneR F d2) c1 done -> map st_name done = map t_name c1.
Proof. induction 1 as [|t s c1 done [o [_ ->]] _ IH]; [reflexivity|]. cbn [map done_type st_name]. rewrite IH. reflexivity. Qed.

Lemma vis_lockstep F d2 c1 done rest :
  Forall2 (doneR F d2) c1 done ->
  (forall t, In t c1 -> find_decl (t_name t) d2 = Some t) ->
  (forall t, In t c1 -> is_builtin (t_super t) || has_decl (t_super t) c1 = true) ->
  forall k, k <= F -> forall n, is_builtin n || has_decl n c1 = true ->
  match all_feats k (done ++ rest) n with
  | Some l => vis_feats k d2 n = Ok l
  | None => vis_feats k d2 n = OutOfFuel
  end.
Proof.
  intros HR Hdecl Hclosed. induction k as [|k IH]; intros Hk n Hn; [reflexivity|].
  rewrite all_feats_S. cbn [vis_feats]. destruct (is_builtin n) eqn:Eb; [reflexivity|]. cbn [orb] in Hn.
  destruct (done_find F d2 rest c1 done HR n Hn) as [t [o [Hin [Hname [Ho Hf]]]]]. rewrite Hf.
  rewrite <- Hname, (Hdecl t Hin). cbn [done_type st_super st_feats].
  assert (k <= F) as Hk' by lia. specialize (IH Hk' (t_super t) (Hclosed t Hin)).
  destruct (all_feats k (done ++ rest) (t_super t)) as [l|].
  - rewrite IH. cbn [bind]. unfold own_of in Ho. rewrite (vis_feats_mono d2 k F _ _ IH) in Ho by (try discriminate; exact Hk').
    cbn [bind] in Ho. rewrite Ho. reflexivity.
  - rewrite IH. reflexivity.
Qed.

Lemma set_feats_done n fs done t rest :
  ~ In n (map st_name done) -> ~ In n (map st_name rest) -> st_name t = n ->
  set_feats n fs (done ++ t :: rest) = done ++ mkST (st_name t) (st_descr t) (st_super t) fs :: rest.
Proof.
  intros H1 H2 Hn. unfold set_feats. rewrite map_app. cbn [map].
  fold (set_feats n fs done). fold (set_feats n fs rest). rewrite !set_feats_other by assumption.
  rewrite Hn, String.eqb_refl. reflexivity.
Qed.

Lemma add_all_gen F d2 : forall c2 c1 done seen,
  NoDup (map t_name (c1 ++ c2)) ->
  (forall t, In t (c1 ++ c2) -> find_decl (t_name t) d2 = Some t) ->
  (forall t, In t c1 -> is_builtin (t_super t) || has_decl (t_super t) c1 = true) ->
  (forall n, memb n seen = has_decl n c1) -> chain_okb seen c2 = true ->
  Forall2 (doneR F d2) c1 done ->
  add_all F c2 (done ++ map blank c2) = (do r <- collect_types F d2 c2 ;; Ok (done ++ r)).
Proof.
  induction c2 as [|t c2 IH]; intros c1 done seen Hnd Hdecl Hclosed Hseen Hch HR; cbn [add_all collect_types map].
  - cbn [bind]. reflexivity.
  - cbn [chain_okb] in Hch. rewrite !andb_true_iff in Hch. destruct Hch as [[Hc1 Hc2] Hc3].
    assert (is_builtin (t_super t) || has_decl (t_super t) c1 = true) as Hsup by (rewrite <- Hseen; exact Hc2).
    pose proof (vis_lockstep F d2 c1 done (blank t :: map blank c2) HR
                  (fun u Hu => Hdecl u (in_or_app _ _ _ (or_introl Hu))) Hclosed F (le_n F) (t_super t) Hsup) as HL.
    unfold own_of. destruct (all_feats F (done ++ blank t :: map blank c2) (t_super t)) as [inh|].
    + rewrite HL. cbn [bind].
      destruct (add_feats inh (map sfeat_of_decl (t_feats t))) as [own|e|] eqn:Eo; cbn [bind]; try reflexivity.
      rewrite map_app in Hnd. cbn [map] in Hnd.
      assert (~ In (t_name t) (map t_name c1) /\ ~ In (t_name t) (map t_name c2)) as [N1 N2].
      { apply NoDup_remove_2 in Hnd. split; intros H; apply Hnd; apply in_or_app; auto. }
      rewrite (set_feats_done (t_name t) own done (blank t) (map blank c2)); [| |rewrite map_st_name_blank; exact N2|reflexivity].
      2:{ rewrite (done_names F d2 c1 done HR). exact N1. }
      cbn [blank st_name st_descr st_super]. fold (done_type t own).
      change (done ++ done_type t own :: map blank c2) with (done ++ [done_type t own] ++ map blank c2). rewrite app_assoc.
      rewrite (IH (c1 ++ [t]) (done ++ [done_type t own]) (t_name t :: seen)).
      * destruct (collect_types F d2 c2) as [r| |]; cbn [bind]; try reflexivity. rewrite <- app_assoc. reflexivity.
      * rewrite <- app_assoc. cbn [app]. rewrite map_app. cbn [map]. exact Hnd.
      * intros u Hu. apply Hdecl. rewrite <- app_assoc in Hu. exact Hu.
      * intros u Hu. apply in_app_or in Hu. rewrite has_decl_snoc. destruct Hu as [Hu|[<-|[]]].
        -- specialize (Hclosed u Hu). apply orb_true_iff in Hclosed. destruct Hclosed as [->| ->]; [reflexivity|]. cbn. apply orb_true_r.
        -- apply orb_true_iff in Hsup. destruct Hsup as [->| ->]; [reflexivity|]. cbn. apply orb_true_r.
      * intros x. cbn [memb]. rewrite has_decl_snoc, Hseen. apply orb_comm.
      * exact Hc3.
      * apply Forall2_app; [exact HR|]. constructor; [|constructor]. exists own. split; [|reflexivity].
        unfold own_of. rewrite HL. cbn [bind]. exact Eo.
    + rewrite HL. reflexivity.
Qed.

Lemma existsb_perm {A} (f : A -> bool) l l' : Permutation l l' -> existsb f l = existsb f l'.
Proof.
  induction 1 as [|x l l' HP IH|x y l|l l' l'' H1 IH1 H2 IH2]; cbn; try congruence.
  destruct (f x), (f y); reflexivity.
Qed.

Theorem load_reading_all order d : uniq_descrb d = true -> order_okb order d = true ->
  ts_of_descr order d = read_spec order d.
Proof.
  intros Hu Hord. unfold uniq_descrb in Hu. apply nodupb_NoDup in Hu.
  unfold order_okb in Hord. apply andb_true_iff in Hord. destruct Hord as [Htopo Hcov].
  unfold ts_of_descr, read_spec. cbv zeta. fold (prep d). set (d2 := prep d) in *.
  destruct (resolve_okb d2) eqn:Hres; cbn [negb]; [|reflexivity].
  rewrite builtin_check_gen. destruct (forallb check1_okb d2); cbn [negb bind]; [|reflexivity].
  rewrite (create_types_gen d2 Hres order [] [] (fun n => eq_refl) Htopo). cbn [app].
  pose proof (sel_decls_perm d2 order Hu Htopo Hcov) as HP.
  rewrite (existsb_perm _ _ _ HP). destruct (existsb _ (user_decls d2)); [reflexivity|]. cbn [bind].
  rewrite (Permutation_length HP).
  change (map blank (sel_decls d2 order)) with ([] ++ map blank (sel_decls d2 order)).
  rewrite (add_all_gen (S (List.length (user_decls d2))) d2 (sel_decls d2 order) [] [] []).
  - destruct (collect_types _ d2 (sel_decls d2 order)); cbn [bind app]; reflexivity.
  - cbn [app]. apply (topo_nodup d2 order []). exact Htopo.
  - cbn [app]. intros t Ht. apply sel_decls_spec in Ht. destruct Ht as [Ht _]. rewrite find_decl_findk. apply findk_nodup; assumption.
  - intros t [].
  - intros n. reflexivity.
  - apply sel_chain; assumption.
  - constructor.
Qed.

(* ------------------------------------------------------------------ the declarative reading does not depend on the order of the declarations *)
Lemma resolve_okb_perm p1 p2 : Permutation p1 p2 -> resolve_okb p1 = resolve_okb p2.
Proof.
  intros HP. unfold resolve_okb. rewrite (forallb_perm _ _ _ HP). apply forallb_ext'. intros t _.
  rewrite (known_perm _ _ _ HP). f_equal. apply forallb_ext'. intros f _. unfold feat_refs_ok.
  rewrite (known_perm _ _ _ HP). destruct (f_elem f); [rewrite (known_perm _ _ _ HP)|]; reflexivity.
Qed.

Definition res3 {A} (r : res A) : Prop := (exists a, r = Ok a) \/ r = Err EValue \/ r = OutOfFuel.

Lemma vis_class d2 : resolve_okb d2 = true -> forall k n, known d2 n = true -> res3 (vis_feats k d2 n).
Proof.
  intros Hres. induction k as [|k IH]; intros n Hn; cbn [vis_feats]; [right; right; reflexivity|].
  unfold known in Hn. destruct (is_builtin n); [left; eauto|]. cbn [orb] in Hn. unfold has_decl in Hn.
  destruct (find_decl n d2) as [t|] eqn:Ef; [|discriminate].
  rewrite find_decl_findk in Ef. apply findk_some in Ef. destruct Ef as [Hin _].
  destruct (IH (t_super t) (resolve_known d2 Hres t Hin)) as [[inh ->]|[->| ->]]; cbn [bind].
  - destruct (add_feats_class inh (map sfeat_of_decl (t_feats t))) as [[o ->]| ->]; cbn [bind]; [left; eauto|right; left; reflexivity].
  - right. left. reflexivity.
  - right. right. reflexivity.
Qed.

Lemma own_class d2 F t : resolve_okb d2 = true -> In t d2 -> res3 (own_of F d2 t).
Proof.
  intros Hres Hin. unfold own_of. destruct (vis_class d2 Hres F (t_super t) (resolve_known d2 Hres t Hin)) as [[inh ->]|[->| ->]]; cbn [bind].
  - destruct (add_feats_class inh (map sfeat_of_decl (t_feats t))) as [[o ->]| ->]; [left; eauto|right; left; reflexivity].
  - right. left. reflexivity.
  - right. right. reflexivity.
Qed.

Definition own_or_nil (F : nat) (d2 : descr) (t : tdecl) : list sfeat := match own_of F d2 t with Ok o => o | _ => [] end.
Definition done_of (F : nat) (d2 : descr) (t : tdecl) : stype := done_type t (own_or_nil F d2 t).

Lemma collect_ok F d2 : forall l r, collect_types F d2 l = Ok r ->
  r = map (done_of F d2) l /\ forall t, In t l -> exists o, own_of F d2 t = Ok o.
Proof.
  induction l as [|t l IH]; intros r H; cbn [collect_types] in H.
  - injection H as <-. split; [reflexivity|intros t []].
  - destruct (own_of F d2 t) as [o| |] eqn:Eo; cbn [bind] in H; try discriminate.
    destruct (collect_types F d2 l) as [r'| |]; cbn [bind] in H; try discriminate. injection H as <-.
    destruct (IH r' eq_refl) as [-> Hall]. split.
    + cbn [map]. f_equal. unfold done_of, own_or_nil. rewrite Eo. reflexivity.
    + intros u [<-|Hu]; [eauto|apply Hall; exact Hu].
Qed.

Lemma collect_all_ok F d2 : forall l, (forall t, In t l -> exists o, own_of F d2 t = Ok o) ->
  collect_types F d2 l = Ok (map (done_of F d2) l).
Proof.
  induction l as [|t l IH]; intros H; cbn [collect_types map]; [reflexivity|].
  destruct (H t (or_introl eq_refl)) as [o Eo]. unfold done_of at 1, own_or_nil. rewrite Eo. cbn [bind].
  rewrite IH by (intros u Hu; apply H; right; exact Hu). reflexivity.
Qed.

Lemma collect_class F d2 : forall l, (forall t, In t l -> res3 (own_of F d2 t)) -> res3 (collect_types F d2 l).
Proof.
  induction l as [|t l IH]; intros H; cbn [collect_types]; [left; eauto|].
  destruct (H t (or_introl eq_refl)) as [[o ->]|[->| ->]]; cbn [bind]; [|right; left; reflexivity|right; right; reflexivity].
  destruct (IH (fun u Hu => H u (or_intror Hu))) as [[r ->]|[->| ->]]; cbn [bind]; [left; eauto|right; left; reflexivity|right; right; reflexivity].
Qed.

Lemma collect_ext F p1 p2 : (forall m, find_decl m p1 = find_decl m p2) -> forall l, collect_types F p1 l = collect_types F p2 l.
Proof.
  intros H. induction l as [|t l IH]; cbn [collect_types]; [reflexivity|].
  unfold own_of. rewrite (vis_feats_ext p1 p2 H), IH. reflexivity.
Qed.

Lemma collect_perm_agree F d2 L1 L2 : Permutation L1 L2 -> (forall t, In t L1 -> res3 (own_of F d2 t)) ->
  match collect_types F d2 L1, collect_types F d2 L2 with
  | Ok r1, Ok r2 => Permutation r1 r2
  | Err e1, Err e2 => e1 = e2
  | OutOfFuel, _ | _, OutOfFuel => True
  | _, _ => False
  end.
Proof.
  intros HP Hcl.
  assert (forall t, In t L2 -> res3 (own_of F d2 t)) as Hcl2
    by (intros t Ht; apply Hcl; eapply Permutation_in; [apply Permutation_sym; exact HP|exact Ht]).
  destruct (collect_types F d2 L1) as [r1|e1|] eqn:E1; destruct (collect_types F d2 L2) as [r2|e2|] eqn:E2; try exact I.
  - destruct (collect_ok F d2 L1 r1 E1) as [-> _]. destruct (collect_ok F d2 L2 r2 E2) as [-> _]. apply Permutation_map. exact HP.
  - destruct (collect_ok F d2 L1 r1 E1) as [_ Hall]. rewrite collect_all_ok in E2; [discriminate|].
    intros t Ht. apply Hall. eapply Permutation_in; [apply Permutation_sym; exact HP|exact Ht].
  - destruct (collect_ok F d2 L2 r2 E2) as [_ Hall]. rewrite collect_all_ok in E1; [discriminate|].
    intros t Ht. apply Hall. eapply Permutation_in; [exact HP|exact Ht].
  - pose proof (collect_class F d2 L1 Hcl) as C1. pose proof (collect_class F d2 L2 Hcl2) as C2. rewrite E1 in C1. rewrite E2 in C2.
    destruct C1 as [[? C1]|[C1|C1]]; try discriminate. destruct C2 as [[? C2]|[C2|C2]]; try discriminate. congruence.
Qed.

Lemma read_spec_agree d1 d2 o1 o2 :
  Permutation d1 d2 -> uniq_descrb d1 = true -> order_okb o1 d1 = true -> order_okb o2 d2 = true ->
  read_spec o1 d1 <> OutOfFuel -> read_spec o2 d2 <> OutOfFuel -> res_agree (read_spec o1 d1) (read_spec o2 d2).
Proof.
  intros HP Hu H1 H2 N1 N2. pose proof (prep_perm _ _ HP) as HPP.
  unfold uniq_descrb in Hu. apply nodupb_NoDup in Hu.
  assert (NoDup (map t_name (prep d2))) as Hu2 by (eapply Permutation_NoDup; [apply Permutation_map; exact HPP|exact Hu]).
  unfold order_okb in H1, H2. apply andb_true_iff in H1. destruct H1 as [Ht1 Hc1]. apply andb_true_iff in H2. destruct H2 as [Ht2 Hc2].
  pose proof (sel_decls_perm _ _ Hu Ht1 Hc1) as S1. pose proof (sel_decls_perm _ _ Hu2 Ht2 Hc2) as S2.
  assert (Permutation (user_decls (prep d1)) (user_decls (prep d2))) as HU by (unfold user_decls; apply filter_perm; exact HPP).
  assert (Permutation (sel_decls (prep d1) o1) (sel_decls (prep d2) o2)) as HS by (rewrite S1, S2; exact HU).
  unfold read_spec in *. cbv zeta in *.
  rewrite <- (resolve_okb_perm _ _ HPP) in *. destruct (resolve_okb (prep d1)) eqn:Hres; cbn [negb] in *; [|reflexivity].
  rewrite <- (forallb_perm check1_okb _ _ HPP) in *. destruct (forallb check1_okb (prep d1)); cbn [negb] in *; [|reflexivity].
  rewrite <- (existsb_perm _ _ _ HU) in *. destruct (existsb _ (user_decls (prep d1))); [reflexivity|].
  rewrite <- (Permutation_length HU) in *.
  rewrite <- (collect_ext _ (prep d1) (prep d2)) in * by (intros m; rewrite !find_decl_findk; apply findk_perm; assumption).
  pose proof (collect_perm_agree (S (List.length (user_decls (prep d1)))) (prep d1) _ _ HS) as HA.
  destruct (collect_types _ (prep d1) (sel_decls (prep d1) o1)) as [r1|e1|] eqn:E1;
    destruct (collect_types _ (prep d1) (sel_decls (prep d2) o2)) as [r2|e2|] eqn:E2; cbn [bind] in *; try congruence.
  - assert (Permutation r1 r2) as Hr.
    { apply HA. intros t Ht. apply own_class; [exact Hres|]. apply sel_decls_spec in Ht. tauto. }
    unfold res_agree, canon, content. cbn [s_types s_redecl]. f_equal.
    + apply sort_by_perm_eq; [exact Hr|]. destruct (collect_ok _ _ _ _ E1) as [-> _]. rewrite map_map. cbn [done_of done_type st_name].
      apply (topo_nodup (prep d1) o1 []). exact Ht1.
    + unfold sort_names. apply sort_by_perm_eq; [apply spec_redecl_perm; exact HP|]. rewrite map_id. apply spec_redecl_nodup. exact Hu.
  - exfalso. apply HA. intros t Ht. apply own_class; [exact Hres|]. apply sel_decls_spec in Ht. tauto.
  - exfalso. apply HA. intros t Ht. apply own_class; [exact Hres|]. apply sel_decls_spec in Ht. tauto.
  - cbn [res_agree]. f_equal. apply HA. intros t Ht. apply own_class; [exact Hres|]. apply sel_decls_spec in Ht. tauto.
Qed.

Lemma uniq_descrb_perm d1 d2 : Permutation d1 d2 -> uniq_descrb d1 = true -> uniq_descrb d2 = true.
Proof.
  intros HP H. unfold uniq_descrb in *. apply nodupb_NoDup. apply nodupb_NoDup in H.
  eapply Permutation_NoDup; [apply Permutation_map; apply prep_perm; exact HP|exact H].
Qed.

(* Permutation invariance for every descriptor (with unique names): accepted ones load to the same content -- including
   those where an equal redefinition of an inherited feature is silently dropped --, rejected ones raise the same kind
   of exception, whatever the admissible creation orders. *)
Theorem permutation_invariant_all d1 d2 o1 o2 :
  Permutation d1 d2 -> uniq_descrb d1 = true -> order_okb o1 d1 = true -> order_okb o2 d2 = true ->
  res_agree (ts_of_descr o1 d1) (ts_of_descr o2 d2).
Proof.
  intros HP Hu H1 H2. pose proof (load_total o1 d1) as N1. pose proof (load_total o2 d2) as N2.
  rewrite (load_reading_all o1 d1 Hu H1) in *. rewrite (load_reading_all o2 d2 (uniq_descrb_perm _ _ HP Hu) H2) in *.
  apply read_spec_agree; assumption.
Qed.

(* ------------------------------------------------------------------ fuel sufficiency follows from the toposort contract *)
Lemma wf_descr_lax_of d : wf_descrb d = true -> wf_descr_laxb d = true.
Proof.
  unfold wf_descrb, wf_descr_laxb. cbv zeta. rewrite !andb_true_iff. intros [[H1 H2] H3]. repeat split; auto.
  unfold noclashb, noclash_laxb in *. rewrite forallb_forall in *. intros t Ht. specialize (H3 t Ht).
  unfold noclash1, noclash1_lax in *. apply andb_true_iff in H3. destruct H3 as [-> H3]. cbn [andb].
  destruct (all_feats _ _ (st_super t)); [exact H3|reflexivity].
Qed.

Theorem fuel_from_order d order : wf_descr_laxb d = true -> order_okb order d = true -> wf_descrb d = true.
Proof.
  unfold wf_descr_laxb, wf_descrb. cbv zeta. rewrite !andb_true_iff. intros [[H1 H2] H3] Hord. repeat split; auto.
  pose proof H1 as Hnd. apply nodupb_NoDup in Hnd.
  unfold order_okb in Hord. apply andb_true_iff in Hord. destruct Hord as [Htopo Hcov].
  pose proof (sel_decls_perm _ _ Hnd Htopo Hcov) as HP.
  pose proof (sel_chain _ (resolve_of_wf _ H2) order [] Htopo) as Hch.
  assert (NoDup (map t_name (sel_decls (prep d) order))) as Hndc by (apply (topo_nodup (prep d) order []); exact Htopo).
  assert (shaped (sel_decls (prep d) order) (map stype_of_decl (user_decls (prep d)))) as Hsh.
  { intros m. rewrite (find_st_map stype_of_decl) by reflexivity.
    assert (find_decl m (sel_decls (prep d) order) = find_decl m (user_decls (prep d))) as ->
      by (rewrite !find_decl_findk; apply findk_perm; assumption).
    destruct (find_decl m (user_decls (prep d))); reflexivity. }
  unfold noclashb, noclash_laxb in *. rewrite forallb_forall in *. intros s Hs. specialize (H3 s Hs).
  apply in_map_iff in Hs. destruct Hs as [t [<- Ht]].
  pose proof (shaped_fuel _ _ Hch Hsh t (Permutation_in _ (Permutation_sym HP) Ht)) as Hf.
  rewrite (Permutation_length HP) in Hf. rewrite map_length in *.
  unfold noclash1, noclash1_lax in *. cbn [stype_of_decl st_super st_feats] in *.
  destruct (all_feats _ _ (t_super t)); [exact H3|congruence].
Qed.

(* ------------------------------------------------------------------ the same for type systems: the fuel bound inside wf_tsb follows from
   the toposort contract on the written descriptor *)
Lemma all_feats_none_shape a b : (forall m, option_map st_super (find_st m a) = option_map st_super (find_st m b)) ->
  forall k n, all_feats k a n = None -> all_feats k b n = None.
Proof.
  intros H. induction k as [|k IH]; intros n; [reflexivity|]. rewrite !all_feats_S. destruct (is_builtin n); [discriminate|].
  specialize (H n). destruct (find_st n a) as [x|]; destruct (find_st n b) as [y|]; cbn [option_map] in H; try discriminate; [|reflexivity].
  injection H as H. rewrite H. destruct (all_feats k a (st_super y)) as [l|] eqn:E; [discriminate|]. intros _. rewrite (IH _ E). reflexivity.
Qed.

Section TsFuel.
  Variable s : tsys.
  Hypothesis Hwf : wf_ts_laxb s = true.
  Variable da : stype.
  Hypothesis Hda : find_st DOCANN (s_types s) = Some da.
  Hypothesis Hin : In da (s_types s).
  Hypothesis Hname : st_name da = DOCANN.
  Hypothesis Hdef : memb DOCANN (emit_names s) = false -> norm_type da = stype_of_decl default_docann.
  Local Notation types := (s_types s).
  Local Notation U := (map stype_of_decl (user_decls (PE s da))).

  Lemma tf_find m : find_st m U = option_map norm_type (find_st m types).
  Proof. apply r2_find_st; assumption. Qed.

  Lemma tf_strel_1 m : strel (find_st m U) (find_st m types).
  Proof. rewrite tf_find. destruct (find_st m types) as [x|]; cbn; [|exact I]. split; [reflexivity|]. rewrite map_map. apply incl_refl. Qed.
  Lemma tf_strel_2 m : strel (find_st m types) (find_st m U).
  Proof. rewrite tf_find. destruct (find_st m types) as [x|]; cbn; [|exact I]. split; [reflexivity|]. rewrite map_map. apply incl_refl. Qed.

  Lemma tf_length : List.length U = List.length types.
  Proof. rewrite (Permutation_length (r2_content_perm s Hwf da Hda Hin Hname Hdef)), map_length. reflexivity. Qed.

  (* lax in, lax out *)
  Lemma tf_noclash_lax : noclash_laxb U = true.
  Proof.
    unfold noclash_laxb. rewrite tf_length.
    rewrite (forallb_perm _ _ _ (r2_content_perm s Hwf da Hda Hin Hname Hdef)), forallb_map.
    destruct (rt_parts s Hwf) as [_ [_ [Hnc _]]]. unfold noclash_laxb in Hnc.
    rewrite forallb_forall in *. intros t Ht. specialize (Hnc t Ht). unfold noclash1_lax in *.
    cbn [norm_type st_feats st_super]. apply andb_true_iff in Hnc. destruct Hnc as [H1 H2].
    assert (map sf_name (map norm_feat (st_feats t)) = map sf_name (st_feats t)) as En by (rewrite map_map; reflexivity).
    rewrite En, H1. cbn [andb].
    destruct (all_feats (S (List.length types)) U (st_super t)) as [inh'|] eqn:E'; [|reflexivity].
    destruct (all_feats_mono types U tf_strel_2 _ _ _ E') as [inh [E Hi]]. rewrite E in H2.
    destruct (all_feats_mono U types tf_strel_1 _ _ _ E) as [inh'' [E'' Hi'']]. rewrite E' in E''. injection E'' as <-.
    rewrite forallb_map. rewrite forallb_forall in *. intros f Hf. specialize (H2 f Hf). cbn [norm_feat sf_name].
    destruct (find_sf (sf_name f) inh) eqn:Ef; [discriminate|]. rewrite (find_sf_none_incl _ _ _ Ef Hi''). reflexivity.
  Qed.

  (* strict on the written descriptor gives strict on the type system *)
  Lemma tf_noclash_back : noclashb U = true -> noclashb types = true.
  Proof.
    intros HU. destruct (rt_parts s Hwf) as [_ [_ [Hnc _]]]. unfold noclashb, noclash_laxb in *.
    rewrite forallb_forall in *. intros t Ht. specialize (Hnc t Ht).
    assert (In (norm_type t) U) as Hu.
    { eapply Permutation_in; [apply Permutation_sym; exact (r2_content_perm s Hwf da Hda Hin Hname Hdef)|]. apply in_map. exact Ht. }
    specialize (HU _ Hu). rewrite tf_length in HU. unfold noclash1, noclash1_lax in *. cbn [norm_type st_super st_feats] in HU.
    apply andb_true_iff in HU. destruct HU as [_ HU]. apply andb_true_iff in Hnc. destruct Hnc as [-> Hnc]. cbn [andb].
    destruct (all_feats (S (List.length types)) types (st_super t)) as [inh|] eqn:E; [exact Hnc|]. exfalso.
    rewrite (all_feats_none_shape types U) in HU; [discriminate| |exact E].
    intros m. rewrite tf_find. destruct (find_st m types); reflexivity.
  Qed.
End TsFuel.

Lemma wf_written_lax s : wf_ts_laxb s = true -> wf_descr_laxb (descr_of_ts s) = true.
Proof.
  intros Hwf. destruct (rt_da s Hwf) as [da [Hda [Hin [Hname Hdef]]]].
  unfold wf_descr_laxb. cbv zeta. rewrite (rt_prep s Hwf da Hda Hin Hname). rewrite !andb_true_iff. repeat split.
  - apply nodupb_NoDup. apply r2_nodup; assumption.
  - apply r2_wf_all; assumption.
  - apply tf_noclash_lax; assumption.
Qed.

Theorem ts_fuel_from_order s order : wf_ts_laxb s = true -> order_okb order (descr_of_ts s) = true -> wf_tsb s = true.
Proof.
  intros Hwf Hord. pose proof (fuel_from_order _ order (wf_written_lax s Hwf) Hord) as HD.
  destruct (rt_da s Hwf) as [da [Hda [Hin [Hname Hdef]]]].
  apply wf_descr_parts in HD. destruct HD as [_ [_ HD]]. rewrite (rt_prep s Hwf da Hda Hin Hname) in HD.
  pose proof (tf_noclash_back s Hwf da Hda Hin Hname Hdef HD) as Hnc.
  unfold wf_ts_laxb in Hwf. unfold wf_tsb. rewrite !andb_true_iff in *. destruct Hwf as [[[[[H1 H2] _] H4] H5] H6]. repeat split; auto.
Qed.
