(* TS.v — executable model of cassis/typesystem.py: Type, Feature, TypeSystem (definitions only; proofs in TSProofs.v).

   What is modelled, as the code does it (file:line of /repo/cassis/typesystem.py at cf6436a):
     Type._children / children / descendants (722-733)      t_children (names, insertion order), descendants (fuel)
     Type.subsumes (740-760)                                subsumes_ty: TOP shortcut, then the `while cur` walk up
     Type._features / _inherited_features / all_features    t_own / t_inh (dicts keyed by name, insertion order), all_features =
       (690-719)                                            unique_everseen over own ++ inherited with Feature.__eq__
     Feature.__eq__ (518-540)                               feat_eqb: name, description, range name, element name (None = TOP);
                                                            the multipleReferencesAllowed flag is NOT compared (the code compares
                                                            self with self), neither are domain and the reserved-name flag
     Type.get_feature (606-623)                             get_feature: own table first, then inherited
     Type._add_feature (625-687)                            add_rec (mechanism form: checks, append, rebuild constructor, recursion
                                                            into _children with inherited=True) and add_feature (functional form:
                                                            the same checks, then `spread` over all types at once)
     Type.__attrs_post_init__ / __call__ (575-604)          t_ctor_fn (field names captured by the lazy lambda at the last rebuild),
                                                            t_ctor (the cached generated class = its field names; reset to None at
                                                            every rebuild since 6a1a95b), instantiate
     TypeSystem.__init__ (788-878)                          builtin_ops run from the bare TOP: init_ts (with DocumentAnnotation),
                                                            init_ts_nodoc (add_document_annotation_type=False)
     TypeSystem.create_type (904-940)                       create_type: duplicate check (any registered name), supertype resolved
                                                            with get_type (short names allowed), final check on the RESOLVED name,
                                                            child link, inherited := supertype.all_features via _add_feature
     TypeSystem.get_type / contains_type (883-902,942-970)  get_type (full name, else unique short name when dot-free), contains_type
     TypeSystem.is_instance_of / subsumes / is_primitive    is_instance_of (string form, incl. its quirks), ts_subsumes, is_primitive
     TypeSystem.create_feature (1085-1134)                  create_feature: self/type -> self_/type_, references resolved by get_type

   Conventions.  A type system is the list of its types in registration order (`TypeSystem._types`).  Types refer to
   each other by full name; inside ONE type system every reference is resolved through get_type when it is stored, so
   "is the object registered under its name" becomes "is registered" here (theorem refs_registered) and is observed on
   the implementation by identity (`is`) in the correspondence.  Identity across several type systems (merge) is not
   represented in this file.  t_rank is a ghost (rank (supertype t) < rank t): no query result depends on it; it only
   supplies the fuel of the recursive queries and the measure of the proofs.
   Exceptions are `res`; a failing operation of a history leaves the state unchanged (run_ts).

   PUBLIC DEFINITIONS (for Merge / Descr / Json / Cas models; theorems about them are in TSProofs.v, Props/C10.v, Props/C11.v)
     data        feat (mkFeat name reserved dom range elem multi desc), ty (mkTy ...), tsys = list ty, top_ty, init_ts,
                 init_ts_nodoc, builtin_ops, predefined_types, primitive_types, final_types, TOP
     lookup      find_ty, registered, get_type (short names), get_type_exact, contains_type, short_name, has_dot
     hierarchy   children, descendants + desc_fuel, ancestors + ancestors_of, walks_up, is_below, subsumes_ty, ts_subsumes,
                 is_instance_of, is_primitive, is_primitive_array, is_array
     features    feat_eqb (Feature.__eq__), feat_same (all fields), find_feat, all_features, feature_names, get_feature
     operations  create_type, make_feature, create_feature (functional form; add_feature / spread), create_feature_mech
                 (add_rec), instantiate, ctor_accepts; building blocks add_child, inherit_all, new_type, with_own, with_inh,
                 rebuild_ctor, set_ctor, upd_ty
     histories   tsop (OCreateType | OCreateFeature | OInstantiate), opres, step, step_mech, run_ts, run_ts_mech, final_ts
     invariant   below, sbelow, WFh (hierarchy), WFf (features), WF = WFh /\ WFf; boolean twins wfhb, wffb, wfb
                 (TSProofs: wfhb_reflect, wfb_reflect; run_WFh, run_WF: preserved from ANY well-formed ts)
   A constructor of type systems defined elsewhere (merge, descriptor or JSON loading) inherits every query theorem by
   establishing WFh (C10) / WF (C11) of its result; re-parenting has to move the child link, bump the ghost ranks of the
   moved subtree and re-inherit features (the helper lemmas WFh_map / keeps_shape cover updates that keep the hierarchy). *)
From Cassis Require Import Base.

Definition TOP : tname := "uima.cas.TOP".
Definition ANNOTATION : tname := "uima.tcas.Annotation".
Definition DOCUMENT_ANNOTATION : tname := "uima.tcas.DocumentAnnotation".

(* _PREDEFINED_TYPES, _PRIMITIVE_TYPES, _INHERITANCE_FINAL_TYPES (= _PRIMITIVE_ARRAY_TYPES); compared with the code's sets on every run *)
Definition predefined_types : list tname :=
  ["uima.cas.TOP"; "uima.cas.NULL"; "uima.cas.Boolean"; "uima.cas.Byte"; "uima.cas.Short"; "uima.cas.Integer"; "uima.cas.Long";
   "uima.cas.Float"; "uima.cas.Double"; "uima.cas.String"; "uima.cas.ArrayBase"; "uima.cas.FSArray"; "uima.cas.FloatArray";
   "uima.cas.IntegerArray"; "uima.cas.StringArray"; "uima.cas.ListBase"; "uima.cas.FSList"; "uima.cas.EmptyFSList";
   "uima.cas.NonEmptyFSList"; "uima.cas.FloatList"; "uima.cas.EmptyFloatList"; "uima.cas.NonEmptyFloatList"; "uima.cas.IntegerList";
   "uima.cas.EmptyIntegerList"; "uima.cas.NonEmptyIntegerList"; "uima.cas.StringList"; "uima.cas.EmptyStringList";
   "uima.cas.NonEmptyStringList"; "uima.cas.BooleanArray"; "uima.cas.ByteArray"; "uima.cas.ShortArray"; "uima.cas.LongArray";
   "uima.cas.DoubleArray"; "uima.cas.Sofa"; "uima.cas.AnnotationBase"; "uima.tcas.Annotation"].
Definition primitive_types : list tname :=
  ["uima.cas.Boolean"; "uima.cas.Byte"; "uima.cas.Short"; "uima.cas.Integer"; "uima.cas.Long"; "uima.cas.Float"; "uima.cas.Double"; "uima.cas.String"].
Definition final_types : list tname :=
  ["uima.cas.FloatArray"; "uima.cas.IntegerArray"; "uima.cas.BooleanArray"; "uima.cas.ByteArray"; "uima.cas.ShortArray";
   "uima.cas.LongArray"; "uima.cas.DoubleArray"; "uima.cas.StringArray"].

(* ------------------------------------------------------------------------------------------------ features *)
Record feat := mkFeat {
  f_name : fname;               (* after the reserved-name renaming *)
  f_reserved : bool;            (* Feature._has_reserved_name *)
  f_dom : tname; f_range : tname; f_elem : option tname;
  f_multi : option bool; f_desc : option string }.

Definition ostr_eqb (a b : option string) : bool :=
  match a, b with None, None => true | Some x, Some y => String.eqb x y | _, _ => false end.
Definition elem_name (f : feat) : tname := match f_elem f with Some e => e | None => TOP end.
(* Feature.__eq__ as written *)
Definition feat_eqb (a b : feat) : bool :=
  String.eqb (f_name a) (f_name b) && ostr_eqb (f_desc a) (f_desc b) && String.eqb (f_range a) (f_range b)
  && String.eqb (elem_name a) (elem_name b).
(* dict lookup by feature name *)
Definition named (n : fname) (g : feat) : bool := String.eqb (f_name g) n.
Definition find_feat (n : fname) (l : list feat) : option feat := find (named n) l.
(* more_itertools.unique_everseen on unhashable items: keep an element unless an earlier kept one == it *)
Fixpoint uniq_seen (seen : list feat) (l : list feat) : list feat :=
  match l with
  | [] => []
  | x :: r => if existsb (fun s => feat_eqb s x) seen then uniq_seen seen r else x :: uniq_seen (x :: seen) r
  end.

(* ------------------------------------------------------------------------------------------------ types *)
Record ty := mkTy {
  t_name : tname;
  t_super : option tname;          (* Type.supertype (None only for TOP) *)
  t_desc : option string;
  t_children : list tname;         (* Type._children, insertion order *)
  t_own : list feat;               (* Type._features *)
  t_inh : list feat;               (* Type._inherited_features *)
  t_ctor : option (list fname);    (* Type._constructor: the cached generated class, as its feature field names *)
  t_ctor_fn : list fname;          (* field names captured by Type._constructor_fn at the last __attrs_post_init__ *)
  t_rank : nat }.                  (* ghost *)
Definition tsys := list ty.

Definition find_ty (ts : tsys) (n : tname) : option ty := find (fun t => String.eqb (t_name t) n) ts.
Definition registered (ts : tsys) (n : tname) : bool := match find_ty ts n with Some _ => true | None => false end.
Definition max_rank (ts : tsys) : nat := fold_right (fun t m => Nat.max (t_rank t) m) 0 ts.
Definition type_names (ts : tsys) : list tname := map t_name ts.

(* Type.all_features (the cache _cached_all_features is reset at every _add_feature on the type and is not modelled) *)
Definition all_features (t : ty) : list feat := uniq_seen [] (t_own t ++ t_inh t).
Definition feature_names (t : ty) : list fname := map f_name (all_features t).
(* Type.get_feature *)
Definition get_feature (t : ty) (n : fname) : option feat :=
  match find_feat n (t_own t) with Some f => Some f | None => find_feat n (t_inh t) end.

(* ------------------------------------------------------------------------------------------------ names *)
Definition dot : Ascii.ascii := Ascii.ascii_of_nat 46.
Fixpoint has_dot (s : string) : bool :=
  match s with EmptyString => false | String c r => Ascii.eqb c dot || has_dot r end.
(* name.split(".")[-1] *)
Fixpoint short_name (s : string) : string :=
  match s with
  | EmptyString => EmptyString
  | String c r => if has_dot r then short_name r else if Ascii.eqb c dot then r else String c r
  end.

(* TypeSystem.get_type(name, match_exactly=False): unknown and ambiguous both raise TypeNotFoundError *)
Definition short_matches (ts : tsys) (n : string) : list ty := filter (fun t => String.eqb (short_name (t_name t)) n) ts.
Definition get_type (ts : tsys) (n : string) : res ty :=
  match find_ty ts n with
  | Some t => Ok t
  | None => if has_dot n then Err ETypeNotFound
            else match short_matches ts n with [t] => Ok t | _ => Err ETypeNotFound end
  end.
Definition get_type_exact (ts : tsys) (n : string) : res ty :=
  match find_ty ts n with Some t => Ok t | None => Err ETypeNotFound end.
(* TypeSystem.contains_type(name, match_exactly) *)
Definition contains_type (ts : tsys) (n : string) (exact : bool) : bool :=
  if has_dot n || exact then registered ts n
  else match get_type ts n with Ok _ => true | _ => false end.

(* ------------------------------------------------------------------------------------------------ hierarchy queries *)
Fixpoint concat_opt {A} (l : list (option (list A))) : option (list A) :=
  match l with
  | [] => Some []
  | None :: _ => None
  | Some x :: r => match concat_opt r with Some y => Some (x ++ y) | None => None end
  end.
(* Type.descendants: yield self, then for each child yield from child.descendants.  None = fuel exhausted (or a
   child name that is not registered, which the object graph cannot exhibit). *)
Fixpoint descendants (fuel : nat) (ts : tsys) (n : tname) : option (list tname) :=
  match fuel with
  | O => None
  | S k => match find_ty ts n with
           | None => None
           | Some t => option_map (cons n) (concat_opt (map (descendants k ts) (t_children t)))
           end
  end.
Definition desc_fuel (ts : tsys) : nat := S (max_rank ts).
Definition children (ts : tsys) (n : tname) : option (list tname) := option_map t_children (find_ty ts n).

(* the `while cur:` loop of Type.subsumes, from other_type upwards *)
Fixpoint walks_up (fuel : nat) (ts : tsys) (a b : tname) : option bool :=
  match fuel with
  | O => None
  | S k => if String.eqb a b then Some true else
           match find_ty ts b with
           | None => Some false
           | Some t => match t_super t with None => Some false | Some s => walks_up k ts a s end
           end
  end.
(* Type.subsumes(self = a, other = b) on two registered types *)
Definition subsumes_ty (ts : tsys) (a b : ty) : res bool :=
  if String.eqb (t_name a) TOP then Ok true
  else match walks_up (S (t_rank b)) ts (t_name a) (t_name b) with Some r => Ok r | None => OutOfFuel end.
(* TypeSystem.subsumes(parent, child) with names (short names resolve) *)
Definition ts_subsumes (ts : tsys) (p c : string) : res bool :=
  do tp <- get_type ts p;; do tc <- get_type ts c;; subsumes_ty ts tp tc.

(* TypeSystem.is_instance_of on Type objects: cur is a Type, parent is a Type *)
Fixpoint iio_walk (fuel : nat) (ts : tsys) (cur parent : tname) : res bool :=
  match fuel with
  | O => OutOfFuel
  | S k => if String.eqb cur parent then Ok true
           else if String.eqb cur TOP then Ok false
           else match find_ty ts cur with
                | None => Err EAttribute
                | Some t => match t_super t with None => Err EAttribute (* None.name *) | Some s => iio_walk k ts s parent end
                end
  end.
(* TypeSystem.is_instance_of(type_, parent) with two strings, as written: the strings are compared before anything is
   looked up (so an unregistered name is an instance of itself, and a short name is not an instance of its own full name) *)
Definition is_instance_of (ts : tsys) (a p : string) : res bool :=
  if String.eqb p "" then Ok false
  else if String.eqb a p then Ok true
  else if String.eqb a TOP then Ok false
  else do ta <- get_type ts a;; do tp <- get_type ts p;;
       match t_super ta with
       | None => Err EAttribute
       | Some s => iio_walk (S (t_rank ta)) ts s (t_name tp)
       end.

(* is_primitive(type_): TOP -> False, in _PRIMITIVE_TYPES -> True, else recurse on the supertype *)
Fixpoint prim_walk (fuel : nat) (ts : tsys) (n : tname) : res bool :=
  match fuel with
  | O => OutOfFuel
  | S k => if String.eqb n TOP then Ok false
           else if memb n primitive_types then Ok true
           else match find_ty ts n with
                | None => Err EAttribute
                | Some t => match t_super t with None => Err EAttribute | Some s => prim_walk k ts s end
                end
  end.
Definition is_primitive (ts : tsys) (n : string) : res bool :=
  do t <- get_type ts n;; prim_walk (S (t_rank t)) ts (t_name t).
(* is_primitive_array / is_array look at the name only *)
Definition is_primitive_array (n : string) : bool := negb (String.eqb n TOP) && memb n final_types.
Definition is_array (n : string) : bool := is_primitive_array n || String.eqb n "uima.cas.FSArray".

(* a is b or an ancestor of b, decided with the upward walk (used by the functional form of add_feature) *)
Definition is_below (ts : tsys) (a d : tname) : bool :=
  match find_ty ts d with
  | Some td => match walks_up (S (t_rank td)) ts a d with Some true => true | _ => false end
  | None => false
  end.

(* ------------------------------------------------------------------------------------------------ state updates *)
Definition set_children (l : list tname) (t : ty) : ty :=
  mkTy (t_name t) (t_super t) (t_desc t) l (t_own t) (t_inh t) (t_ctor t) (t_ctor_fn t) (t_rank t).
(* __attrs_post_init__: capture the current field names, drop the cached class *)
Definition rebuild_ctor (t : ty) : ty :=
  mkTy (t_name t) (t_super t) (t_desc t) (t_children t) (t_own t) (t_inh t) None (feature_names t) (t_rank t).
Definition with_own (f : feat) (t : ty) : ty :=
  rebuild_ctor (mkTy (t_name t) (t_super t) (t_desc t) (t_children t) (t_own t ++ [f]) (t_inh t) (t_ctor t) (t_ctor_fn t) (t_rank t)).
Definition with_inh (f : feat) (t : ty) : ty :=
  rebuild_ctor (mkTy (t_name t) (t_super t) (t_desc t) (t_children t) (t_own t) (t_inh t ++ [f]) (t_ctor t) (t_ctor_fn t) (t_rank t)).
Definition set_ctor (c : option (list fname)) (t : ty) : ty :=
  mkTy (t_name t) (t_super t) (t_desc t) (t_children t) (t_own t) (t_inh t) c (t_ctor_fn t) (t_rank t).
(* replace the type registered under n *)
Definition upd_ty (ts : tsys) (n : tname) (g : ty -> ty) : tsys :=
  map (fun t => if String.eqb (t_name t) n then g t else t) ts.

(* ------------------------------------------------------------------------------------------------ create_type *)
(* supertype._children[name] = new_type *)
Definition add_child (sup name : tname) (t : ty) : ty :=
  if String.eqb (t_name t) sup
  then (if memb name (t_children t) then t else set_children (t_children t ++ [name]) t)
  else t.
(* `for feature in supertype.all_features: new_type._add_feature(feature, inherited=True)` on the fresh type
   (no own features, no children): a second feature of the same name is skipped when == and raises otherwise *)
Fixpoint inherit_all (acc : list feat) (l : list feat) : res (list feat) :=
  match l with
  | [] => Ok acc
  | f :: r => match find_feat (f_name f) acc with
              | Some g => if feat_eqb g f then inherit_all acc r else Err EValue
              | None => inherit_all (acc ++ [f]) r
              end
  end.
Definition new_type (name : tname) (p : ty) (desc : option string) (inh : list feat) : ty :=
  rebuild_ctor (mkTy name (Some (t_name p)) desc [] [] inh None [] (S (t_rank p))).
Definition create_type (ts : tsys) (name supn : string) (desc : option string) : res tsys :=
  if registered ts name then Err EValue                              (* "Type with name [..] already exists!" *)
  else do p <- get_type ts supn;;                                    (* TypeNotFoundError *)
       if memb (t_name p) final_types then Err EValue                (* inheritance final, decided on the resolved type *)
       else if String.eqb name TOP
            then Ok (ts ++ [rebuild_ctor (mkTy name (Some (t_name p)) desc [] [] [] None [] (S (t_rank p)))])
            else do inh <- inherit_all [] (all_features p);;
                 Ok (map (add_child (t_name p) name) ts ++ [new_type name p desc inh]).

(* ------------------------------------------------------------------------------------------------ _add_feature *)
Definition conflicts (l : list feat) (f : feat) : bool := existsb (fun g => named (f_name f) g && negb (feat_eqb g f)) l.
Inductive outcome := Added (ts : tsys) | Unchanged | Raises (e : err) | Fuel.

(* FUNCTIONAL FORM.  The three checks of the code in their order (own table, inherited table, then - since 55f6f03 - the
   own tables of all descendants before anything is changed); then the feature reaches the domain's own table and the
   inherited table of every type below the domain that does not inherit a feature of that name yet. *)
Definition spread (ts : tsys) (dom : tname) (f : feat) (d : ty) : ty :=
  if String.eqb (t_name d) dom then with_own f d
  else if is_below ts dom (t_name d) && (match find_feat (f_name f) (t_inh d) with None => true | Some _ => false end)
       then with_inh f d
       else d.
Definition add_feature (ts : tsys) (dom : tname) (f : feat) : outcome :=
  match find_ty ts dom with
  | None => Raises ETypeNotFound
  | Some t =>
    match find_feat (f_name f) (t_own t) with
    | Some g => if feat_eqb g f then Unchanged else Raises EValue     (* "already exists ... redefined differently" (else: warning) *)
    | None =>
      match find_feat (f_name f) (t_inh t) with
      | Some g => if feat_eqb g f then Unchanged else Raises EValue   (* "already exists in parent ... redefined" (else: warning) *)
      | None =>
        if existsb (fun d => is_below ts dom (t_name d) && conflicts (t_own d) f) ts
        then Raises EValue                                            (* a subtype defines it differently: nothing is changed *)
        else Added (map (spread ts dom f) ts)
      end
    end
  end.

(* MECHANISM FORM: Type._add_feature(feature, inherited) as written, recursion into _children on fuel.  A raise inside
   the recursion would leave the code's state half updated; the model returns the error only (TSProofs: cannot happen
   when the invariant holds; the correspondence evaluates both forms on every case). *)
Fixpoint add_rec (fuel : nat) (ts : tsys) (n : tname) (f : feat) (inherited : bool) : res tsys :=
  match fuel with
  | O => OutOfFuel
  | S k =>
    match find_ty ts n with
    | None => Err ETypeNotFound
    | Some t =>
      match find_feat (f_name f) (if inherited then t_inh t else t_own t) with
      | Some g => if feat_eqb g f then Ok ts else Err EValue
      | None =>
        match find_feat (f_name f) (t_inh t) with
        | Some g => if feat_eqb g f then Ok ts else Err EValue
        | None =>
          do _ <- (if inherited
                   then match find_feat (f_name f) (t_own t) with
                        | Some g => if feat_eqb g f then Ok tt else Err EValue
                        | None => Ok tt
                        end
                   else match descendants (desc_fuel ts) ts n with
                        | None => OutOfFuel
                        | Some ds => if existsb (fun d => match find_ty ts d with Some td => conflicts (t_own td) f | None => false end) ds
                                     then Err EValue else Ok tt
                        end);;
          let ts1 := upd_ty ts n (if inherited then with_inh f else with_own f) in
          fold_left (fun acc c => do s <- acc;; add_rec k s c f true) (t_children t) (Ok ts1)
        end
      end
    end
  end.
Definition add_feature_mech (ts : tsys) (dom : tname) (f : feat) : res tsys := add_rec (desc_fuel ts) ts dom f false.

(* ------------------------------------------------------------------------------------------------ create_feature *)
Definition reserved_name (n : fname) : bool := String.eqb n "self" || String.eqb n "type".
Definition opt_get_type (ts : tsys) (o : option string) : res (option tname) :=
  match o with None => Ok None | Some n => do t <- get_type ts n;; Ok (Some (t_name t)) end.
(* builds the Feature object of create_feature: names resolved by get_type in the order domain, range, element *)
Definition make_feature (ts : tsys) (dom : string) (name : fname) (range : string) (elem : option string)
                        (multi : option bool) (desc : option string) : res feat :=
  let res_flag := reserved_name name in
  let name' := if res_flag then (name ++ "_")%string else name in
  do td <- get_type ts dom;; do tr <- get_type ts range;; do te <- opt_get_type ts elem;;
  Ok (mkFeat name' res_flag (t_name td) (t_name tr) te multi desc).
Definition create_feature (ts : tsys) dom name range elem multi desc : outcome :=
  match make_feature ts dom name range elem multi desc with
  | Ok f => add_feature ts (f_dom f) f
  | Err e => Raises e
  | OutOfFuel => Fuel
  end.
Definition create_feature_mech (ts : tsys) dom name range elem multi desc : res tsys :=
  do f <- make_feature ts dom name range elem multi desc;; add_feature_mech ts (f_dom f) f.

(* ------------------------------------------------------------------------------------------------ instantiation *)
(* Type.__call__: build the class from the captured field names unless one is cached; returns the new state and the
   feature keywords the class accepts (besides the structural `type` and `xmiID`) *)
Definition instantiate (ts : tsys) (n : string) : res (tsys * list fname) :=
  do t <- get_type ts n;;
  let fields := match t_ctor t with Some l => l | None => t_ctor_fn t end in
  Ok (upd_ty ts (t_name t) (set_ctor (Some fields)), fields).
Definition ctor_accepts (ts : tsys) (n : string) (kw : fname) : res bool :=
  do r <- instantiate ts n;; Ok (memb kw (snd r)).

(* ------------------------------------------------------------------------------------------------ histories *)
Inductive tsop :=
| OCreateType (name sup : string) (desc : option string)
| OCreateFeature (dom : string) (name : fname) (range : string) (elem : option string) (multi : option bool) (desc : option string)
| OInstantiate (n : string).
Inductive opres := ROk | RErr (e : err) | RFuel.
Definition opres_eqb (a b : opres) : bool :=
  match a, b with ROk, ROk => true | RErr x, RErr y => err_eqb x y | RFuel, RFuel => true | _, _ => false end.

(* one operation; a failing operation leaves the type system as it was *)
Definition step (ts : tsys) (o : tsop) : tsys * opres :=
  match o with
  | OCreateType n s d => match create_type ts n s d with Ok ts' => (ts', ROk) | Err e => (ts, RErr e) | OutOfFuel => (ts, RFuel) end
  | OCreateFeature dom n r e m d =>
      match create_feature ts dom n r e m d with
      | Added ts' => (ts', ROk) | Unchanged => (ts, ROk) | Raises e => (ts, RErr e) | Fuel => (ts, RFuel) end
  | OInstantiate n => match instantiate ts n with Ok (ts', _) => (ts', ROk) | Err e => (ts, RErr e) | OutOfFuel => (ts, RFuel) end
  end.
(* the same with the mechanism form of _add_feature *)
Definition step_mech (ts : tsys) (o : tsop) : tsys * opres :=
  match o with
  | OCreateFeature dom n r e m d =>
      match create_feature_mech ts dom n r e m d with Ok ts' => (ts', ROk) | Err e => (ts, RErr e) | OutOfFuel => (ts, RFuel) end
  | _ => step ts o
  end.
Fixpoint run_with (stp : tsys -> tsop -> tsys * opres) (ops : list tsop) (ts : tsys) : tsys * list opres :=
  match ops with
  | [] => (ts, [])
  | o :: r => let '(ts1, x) := stp ts o in let '(ts2, xs) := run_with stp r ts1 in (ts2, x :: xs)
  end.
Definition run_ts := run_with step.
Definition run_ts_mech := run_with step_mech.
Definition final_ts (ops : list tsop) (ts : tsys) : tsys := fst (run_ts ops ts).

(* ------------------------------------------------------------------------------------------------ initial state *)
Definition top_ty : ty := mkTy TOP None None [] [] [] None [] 0.
Definition CT (n s : string) : tsop := OCreateType n s None.
Definition CF (dom n r : string) (m : option bool) : tsop := OCreateFeature dom n r None m None.
(* TypeSystem.__init__, statement by statement *)
Definition builtin_ops_nodoc : list tsop :=
  [CT "uima.cas.NULL" TOP;
   CT "uima.cas.Boolean" TOP; CT "uima.cas.Byte" TOP; CT "uima.cas.Short" TOP; CT "uima.cas.Integer" TOP; CT "uima.cas.Long" TOP;
   CT "uima.cas.Float" TOP; CT "uima.cas.Double" TOP; CT "uima.cas.String" TOP;
   CT "uima.cas.ArrayBase" TOP; CF "uima.cas.ArrayBase" "elements" TOP (Some true);
   CT "uima.cas.FSArray" "uima.cas.ArrayBase"; CT "uima.cas.BooleanArray" "uima.cas.ArrayBase"; CT "uima.cas.ByteArray" "uima.cas.ArrayBase";
   CT "uima.cas.ShortArray" "uima.cas.ArrayBase"; CT "uima.cas.LongArray" "uima.cas.ArrayBase"; CT "uima.cas.DoubleArray" "uima.cas.ArrayBase";
   CT "uima.cas.FloatArray" "uima.cas.ArrayBase"; CT "uima.cas.IntegerArray" "uima.cas.ArrayBase"; CT "uima.cas.StringArray" "uima.cas.ArrayBase";
   CT "uima.cas.ListBase" TOP; CT "uima.cas.FSList" "uima.cas.ListBase"; CT "uima.cas.EmptyFSList" "uima.cas.FSList";
   CT "uima.cas.NonEmptyFSList" "uima.cas.FSList";
   CF "uima.cas.NonEmptyFSList" "head" TOP (Some true); CF "uima.cas.NonEmptyFSList" "tail" "uima.cas.FSList" (Some true);
   CT "uima.cas.FloatList" "uima.cas.ListBase"; CT "uima.cas.EmptyFloatList" "uima.cas.FloatList"; CT "uima.cas.NonEmptyFloatList" "uima.cas.FloatList";
   CF "uima.cas.NonEmptyFloatList" "head" "uima.cas.Float" None; CF "uima.cas.NonEmptyFloatList" "tail" "uima.cas.FloatList" (Some true);
   CT "uima.cas.IntegerList" "uima.cas.ListBase"; CT "uima.cas.EmptyIntegerList" "uima.cas.IntegerList"; CT "uima.cas.NonEmptyIntegerList" "uima.cas.IntegerList";
   CF "uima.cas.NonEmptyIntegerList" "head" "uima.cas.Integer" None; CF "uima.cas.NonEmptyIntegerList" "tail" "uima.cas.IntegerList" (Some true);
   CT "uima.cas.StringList" "uima.cas.ListBase"; CT "uima.cas.EmptyStringList" "uima.cas.StringList"; CT "uima.cas.NonEmptyStringList" "uima.cas.StringList";
   CF "uima.cas.NonEmptyStringList" "head" "uima.cas.String" None; CF "uima.cas.NonEmptyStringList" "tail" "uima.cas.StringList" (Some true);
   CT "uima.cas.Sofa" TOP;
   CF "uima.cas.Sofa" "sofaNum" "uima.cas.Integer" None; CF "uima.cas.Sofa" "sofaID" "uima.cas.String" None;
   CF "uima.cas.Sofa" "mimeType" "uima.cas.String" None; CF "uima.cas.Sofa" "sofaArray" TOP (Some true);
   CF "uima.cas.Sofa" "sofaString" "uima.cas.String" None; CF "uima.cas.Sofa" "sofaURI" "uima.cas.String" None;
   CT "uima.cas.AnnotationBase" TOP; CF "uima.cas.AnnotationBase" "sofa" "uima.cas.Sofa" None;
   CT ANNOTATION "uima.cas.AnnotationBase"; CF ANNOTATION "begin" "uima.cas.Integer" None; CF ANNOTATION "end" "uima.cas.Integer" None].
Definition builtin_ops : list tsop :=
  builtin_ops_nodoc ++ [CT DOCUMENT_ANNOTATION ANNOTATION; CF DOCUMENT_ANNOTATION "language" "uima.cas.String" None].
(* TypeSystem() and TypeSystem(add_document_annotation_type=False) *)
Definition init_ts : tsys := final_ts builtin_ops [top_ty].
Definition init_ts_nodoc : tsys := final_ts builtin_ops_nodoc [top_ty].

(* ================================================================================================ specification *)
(* d is a, or a proper descendant of a, in the declared supertype relation *)
Inductive below (ts : tsys) (a : tname) : tname -> Prop :=
| below_refl : below ts a a
| below_step d td s : find_ty ts d = Some td -> t_super td = Some s -> below ts a s -> below ts a d.
(* a is a proper ancestor of d *)
Definition sbelow (ts : tsys) (a d : tname) : Prop :=
  exists td s, find_ty ts d = Some td /\ t_super td = Some s /\ below ts a s.

Definition feat_refs_ok (ts : tsys) (f : feat) : Prop :=
  registered ts (f_dom f) = true /\ registered ts (f_range f) = true /\
  match f_elem f with Some e => registered ts e = true | None => True end.

(* hierarchy part of the invariant (C10) *)
Record WFh (ts : tsys) : Prop := {
  wf_nodup : NoDup (map t_name ts);
  wf_top : exists t, find_ty ts TOP = Some t /\ t_super t = None;
  wf_root : forall t, In t ts -> t_super t = None -> t_name t = TOP;
  wf_super : forall t s, In t ts -> t_super t = Some s -> exists p, find_ty ts s = Some p /\ t_rank p < t_rank t;
  wf_children : forall p c, In p ts ->
      (In c (t_children p) <-> exists tc, find_ty ts c = Some tc /\ t_super tc = Some (t_name p));
  wf_children_nodup : forall p, In p ts -> NoDup (t_children p);
  wf_refs : forall t f, In t ts -> In f (t_own t ++ t_inh t) -> feat_refs_ok ts f;
  wf_own_dom : forall t f, In t ts -> In f (t_own t) -> f_dom f = t_name t
}.
(* feature part of the invariant (C11) *)
Record WFf (ts : tsys) : Prop := {
  (* every inherited feature is (the very object of) an own feature of a proper ancestor ... *)
  wf_inh_sound : forall t f, In t ts -> In f (t_inh t) ->
      exists a ta, sbelow ts a (t_name t) /\ find_ty ts a = Some ta /\ In f (t_own ta);
  (* ... and every own feature of a proper ancestor is inherited, up to Feature.__eq__ *)
  wf_inh_complete : forall t a ta g, In t ts -> sbelow ts a (t_name t) -> find_ty ts a = Some ta -> In g (t_own ta) ->
      exists f, In f (t_inh t) /\ feat_eqb f g = true;
  (* no type sees two different definitions under one feature name *)
  wf_one_def : forall t f g, In t ts -> In f (t_own t ++ t_inh t) -> In g (t_own t ++ t_inh t) ->
      f_name f = f_name g -> feat_eqb f g = true;
  (* the lazily built constructor captures exactly the effective feature names; a cached class is never stale *)
  wf_ctor : forall t, In t ts -> t_ctor_fn t = feature_names t /\ (t_ctor t = None \/ t_ctor t = Some (feature_names t))
}.
Definition WF (ts : tsys) : Prop := WFh ts /\ WFf ts.

(* ------------------------------------------------------------------------------------------------ boolean twins *)
Fixpoint nodupb (l : list string) : bool :=
  match l with [] => true | x :: r => negb (memb x r) && nodupb r end.
Definition obool_eqb (a b : option bool) : bool :=
  match a, b with None, None => true | Some x, Some y => Bool.eqb x y | _, _ => false end.
(* structural equality of features (all fields) *)
Definition feat_same (a b : feat) : bool :=
  String.eqb (f_name a) (f_name b) && Bool.eqb (f_reserved a) (f_reserved b) && String.eqb (f_dom a) (f_dom b)
  && String.eqb (f_range a) (f_range b) && ostr_eqb (f_elem a) (f_elem b) && obool_eqb (f_multi a) (f_multi b)
  && ostr_eqb (f_desc a) (f_desc b).
Definition feat_refs_okb (ts : tsys) (f : feat) : bool :=
  registered ts (f_dom f) && registered ts (f_range f) && match f_elem f with Some e => registered ts e | None => true end.
Definition super_is (n : tname) (t : ty) : bool := match t_super t with Some s => String.eqb s n | None => false end.
Definition wfhb (ts : tsys) : bool :=
  nodupb (map t_name ts)
  && match find_ty ts TOP with Some t => match t_super t with None => true | Some _ => false end | None => false end
  && forallb (fun t => match t_super t with
                       | None => String.eqb (t_name t) TOP
                       | Some s => match find_ty ts s with Some p => Nat.ltb (t_rank p) (t_rank t) | None => false end
                       end) ts
  && forallb (fun p => nodupb (t_children p)
                       && forallb (fun c => match find_ty ts c with Some tc => super_is (t_name p) tc | None => false end) (t_children p)
                       && forallb (fun tc => negb (super_is (t_name p) tc) || memb (t_name tc) (t_children p)) ts) ts
  && forallb (fun t => forallb (feat_refs_okb ts) (t_own t ++ t_inh t)
                       && forallb (fun f => String.eqb (f_dom f) (t_name t)) (t_own t)) ts.
(* the proper ancestors of a type, nearest first (walk along supertype) *)
Fixpoint ancestors (fuel : nat) (ts : tsys) (n : tname) : list tname :=
  match fuel with
  | O => []
  | S k => match find_ty ts n with
           | None => []
           | Some t => match t_super t with None => [] | Some s => s :: ancestors k ts s end
           end
  end.
Definition ancestors_of (ts : tsys) (t : ty) : list tname := ancestors (S (t_rank t)) ts (t_name t).
Definition list_str_eqb (a b : list string) : bool := list_eqb String.eqb a b.
Definition wffb (ts : tsys) : bool :=
  forallb (fun t =>
    let anc := ancestors_of ts t in
    forallb (fun f => existsb (fun a => match find_ty ts a with Some ta => existsb (feat_same f) (t_own ta) | None => false end) anc) (t_inh t)
    && forallb (fun a => match find_ty ts a with
                         | Some ta => forallb (fun g => existsb (fun f => feat_eqb f g) (t_inh t)) (t_own ta)
                         | None => true end) anc
    && forallb (fun f => forallb (fun g => negb (String.eqb (f_name f) (f_name g)) || feat_eqb f g) (t_own t ++ t_inh t)) (t_own t ++ t_inh t)
    && list_str_eqb (t_ctor_fn t) (feature_names t)
    && match t_ctor t with None => true | Some l => list_str_eqb l (feature_names t) end) ts.
Definition wfb (ts : tsys) : bool := wfhb ts && wffb ts.
