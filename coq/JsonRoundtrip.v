(* JsonRoundtrip.v — C02 json_roundtrip without premises about the document or the canonical content: what the reader builds from
   the document the writer produced is the canonical content of the CAS the save left behind, for every CAS whose state after the
   save satisfies the boolean premises (JsonDocOk.doc_ok_save_json discharges doc_ok_json, canon_json_after_save the
   definedness of canon_json). *)
From Cassis Require Import Base Heap Schema Canon Reach JsonDoc Json JsonProofs JsonProofs2 JsonLoadProofs JsonWf JsonDocOk.
Open Scope Z_scope.

Theorem json_roundtrip_wf L s mode c d c' :
  lex_ok L -> save_json L s mode c = Ok (d, c') ->
  wf_jsonb s c' = true -> ids_distinctb s c' = true -> refs_wfb s c' = true -> typed_jsonb s c' = true -> 0 < c_next_id c ->
  initial_view_in c' = true ->
  exists cc, canon_json s c' = Ok cc /\ load_json L s d = Ok cc.
Proof.
  intros HL Hs Hwf Hid Hrw Hty Hpos Hiv.
  destruct (canon_json_after_save L s mode c d c' HL Hs Hwf Hpos) as (cc & Hc & _).
  exists cc. split; [exact Hc|].
  exact (json_roundtrip L s mode c d c' cc HL Hs Hwf Hpos (doc_ok_save_json L s mode c d c' HL Hs Hwf Hpos Hid Hrw Hty) Hiv Hc).
Qed.

(* C02, identity of the loaded objects (d94ad6a): the reader makes one object per entry of the written document that is not a sofa;
   every holder of an id (feature, FSArray element, view member, sofaArray of one or several sofas) takes its object from the
   id-keyed dict, so structures shared in the CAS that was saved are shared in the CAS that is loaded *)
Theorem json_roundtrip_objects L s mode c d c' es :
  lex_ok L -> save_json L s mode c = Ok (d, c') ->
  wf_jsonb s c' = true -> ids_distinctb s c' = true -> refs_wfb s c' = true -> typed_jsonb s c' = true -> 0 < c_next_id c ->
  fs_entries d = Ok es ->
  exists made, load_made L s d = Ok made /\ NoDup made /\ Permutation.Permutation made (map fst (filter not_sofa es)).
Proof.
  intros HL Hs Hwf Hid Hrw Hty Hpos Hes.
  destruct (canon_json_after_save L s mode c d c' HL Hs Hwf Hpos) as (cc & _ & Hden).
  exact (load_json_one_object_per_entry L s d cc es (doc_ok_save_json L s mode c d c' HL Hs Hwf Hpos Hid Hrw Hty) Hden Hes).
Qed.

(* ---- the mechanisms before d1bc860 / d94ad6a, refuted on one CAS: three views; the byte array 5 (id 32) holds the data of the
   first two sofas and is indexed in the second view, the id-less byte array 6 holds the data of the third ---- *)
Definition shared_cas : cas :=
  mkCas [mkView (mkSofa 1 1 "_InitialView" None None None (Some 5%N)) [];
         mkView (mkSofa 2 2 "view1" None None None (Some 5%N)) [5%N];
         mkView (mkSofa 3 3 "view2" None (Some "application/octet-stream") None (Some 6%N)) []]
        [(5%N, mkFs "uima.cas.ByteArray" (Some 32) [("elements", VList [VInt 255])]);
         (6%N, mkFs "uima.cas.ByteArray" None [("elements", VList [VInt 1; VInt 2])])] 40.

(* the repaired writer lists every structure once, all premises of the C02 theorems hold for this CAS, the reader makes one
   object per entry and returns the content of the CAS *)
Lemma shared_cas_ok :
  match save_json std_lex builtin_schema MNone shared_cas with
  | Ok (d, c') =>
      wf_jsonb builtin_schema c' = true /\ ids_distinctb builtin_schema c' = true /\ refs_wfb builtin_schema c' = true /\
      typed_jsonb builtin_schema c' = true /\ initial_view_in c' = true /\
      doc_ids_distinctb d = true /\ doc_ok_json std_lex builtin_schema d = true /\
      option_map (fun es => map fst es) (match fs_entries d with Ok es => Some es | _ => None end) = Some [32; 1; 2; 40; 3] /\
      load_made std_lex builtin_schema d = Ok [32; 40] /\
      load_json std_lex builtin_schema d = canon_json builtin_schema c'
  | _ => False
  end.
Proof. vm_compute. repeat split; reflexivity. Qed.

(* before d1bc860: the array was written in front of each of the two sofas and once more by the traversal loop -- three entries
   under the id 32; the document is not a well-formed JSON-CAS document although the CAS satisfies every premise *)
Theorem old_writer_lists_array_again_refuted :
  exists s c d c', save_json_old std_lex s MNone c = Ok (d, c') /\
    wf_jsonb s c' = true /\ ids_distinctb s c' = true /\ refs_wfb s c' = true /\ typed_jsonb s c' = true /\ 0 < c_next_id c /\
    (match fs_entries d with Ok es => map fst es | _ => [] end) = [32; 1; 32; 2; 40; 3; 32] /\
    doc_ids_distinctb d = false /\ doc_ok_json std_lex s d = false.
Proof.
  exists builtin_schema, shared_cas.
  destruct (save_json_old std_lex builtin_schema MNone shared_cas) as [[d c']| |] eqn:E; [|vm_compute in E; discriminate..].
  exists d, c'. split; [reflexivity|]. vm_compute in E. inversion E; subst d c'. vm_compute. repeat split; reflexivity.
Qed.

(* before d94ad6a: the second pass parsed the byte array fetched ahead for a sofa into a second object -- on the (well-formed)
   document the repaired writer produces for this CAS two objects are made under the id 32 and two under 40: the sofas hold the
   first ones, the dict (hence the view member 32 of view1) the second ones; the sharing is lost, while the content by id is the
   same, which is why the loss was invisible to a comparison by id *)
Theorem old_reader_second_object_refuted :
  exists s d, doc_ok_json std_lex s d = true /\
    load_made_old std_lex s d = Ok [32; 40; 32; 40] /\ load_made std_lex s d = Ok [32; 40] /\
    load_json_old std_lex s d = load_json std_lex s d.
Proof.
  exists builtin_schema.
  destruct (save_json std_lex builtin_schema MNone shared_cas) as [[d c']| |] eqn:E; [|vm_compute in E; discriminate..].
  exists d. vm_compute in E. inversion E; subst d c'. vm_compute. repeat split; reflexivity.
Qed.
