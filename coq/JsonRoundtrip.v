(* JsonRoundtrip.v — C02 json_roundtrip without premises about the document or the canonical content: what the reader builds from
   the document the writer produced is the canonical content of the CAS the save left behind, for every CAS whose state after the
   save satisfies the boolean premises (JsonDocOk.doc_ok_save_json discharges doc_ok_json, canon_json_after_save the
   definedness of canon_json). *)
From Cassis Require Import Base Heap Schema Canon Reach JsonDoc Json JsonProofs JsonProofs2 JsonLoadProofs JsonWf JsonDocOk.
Open Scope Z_scope.

Theorem json_roundtrip_wf L s mode c d c' :
  lex_ok L -> save_json L s mode c = Ok (d, c') ->
  wf_jsonb s c' = true -> ids_distinctb s c' = true -> refs_wfb s c' = true -> typed_jsonb s c' = true -> 0 < c_next_id c ->
  initial_view_in c' = true ->
  exists cc, canon_json s c' = Ok cc /\ load_json L s d = Ok cc.
Proof.
  intros HL Hs Hwf Hid Hrw Hty Hpos Hiv.
  destruct (canon_json_after_save L s mode c d c' HL Hs Hwf Hpos) as (cc & Hc & _).
  exists cc. split; [exact Hc|].
  exact (json_roundtrip L s mode c d c' cc HL Hs Hwf Hpos (doc_ok_save_json L s mode c d c' HL Hs Hwf Hpos Hid Hrw Hty) Hiv Hc).
Qed.
