(* CorrC10merge.v — correspondence harness for the "merge" sub-suite of C10: type systems obtained by merging (and by
   creating types in / merging again what was merged), with all objects of a case ALIVE across its stages.
   A case is a tuple of input type systems (each a history applied once to a fresh TypeSystem()) and a program of stages
   run on those very objects:
     SMerge args   merge_typesystems over objects[args] is appended to the object table (the same object may take part in
                   several merges, a merge result may be an argument of a later merge)
     SOp obj o r   create_type / create_feature applied IN PLACE to objects[obj], with the observed outcome r
   and, before the first stage and after every stage (or only at the end), the hierarchy queries of EVERY object of the
   table as the implementation answered them at that moment.  The model has no objects, only values: an entry changes
   only when a stage names it.  check_case evaluates the program (Merge.merge_with on fn_form; C13's correspondence ties
   the two forms together) and compares every observation of every object at every observed moment with the model's
   value of that entry — a query answered from state left behind by an earlier stage (a cache filled before a type was
   moved, a Feature shared with another type system and rewritten by a later merge) disagrees here.
   Sets of names travel as bit masks over the case's own list of queried names plus the length of the full answer. *)
From Cassis Require Import Base TS Merge CorrC10.

Inductive stage := SMerge (args : list nat) | SOp (obj : nat) (o : tsop) (r : opres).

Record oobs := mkObs {
  o_users : list string;        (* get_types(built_in=True) minus the built-in names, as a set *)
  o_names : list string;        (* registered full names queried (users + some built-in); pairs row-major *)
  o_sub_ts : N; o_sub_ty : N; o_iio : N;
  o_super : list (option string);
  o_children : list N; o_children_len : list N;       (* mask over o_names; number of children *)
  o_desc : list N; o_desc_len : list N;               (* mask over o_names; number of items yielded by descendants *)
  o_ident : bool                (* every reachable Type object is the one registered in THIS type system *)
}.
Inductive ores := RErrK (e : err) | RObs (i : nat).
(* c_rows: one row per observed moment (None = not observed then): per object of the table an index into c_table *)
Record mcase := mkMCase {
  c_inputs : list (list tsop * list opres);
  c_prog : list stage;
  c_table : list oobs;
  c_rows : list (option (list ores))
}.

Definition nmask (names l : list string) : N := bits (map (fun n => memb n l) names).
Definition oostr_eqb := list_eqb ostr_eqb.

Definition resbits_eqb (l : list (res bool)) (m : N) : bool := forallb is_okb l && N.eqb (bits (map is_true l)) m.
Definition desc_eqb (names : list string) (d : option (list string)) (m len : N) : bool :=
  match d with Some l => N.eqb (nmask names l) m && N.eqb (N.of_nat (List.length l)) len | None => false end.
Fixpoint forallb3 {A B C} (f : A -> B -> C -> bool) (a : list A) (b : list B) (c : list C) : bool :=
  match a, b, c with
  | [], [], [] => true
  | x :: a', y :: b', z :: c' => f x y z && forallb3 f a' b' c'
  | _, _, _ => false
  end.
Definition obs_ok (ts : tsys) (o : oobs) : bool :=
  let ns := o_names o in
  let ps := pairs_of ns in
  forallb (registered ts) ns
  && same_set (skipn (List.length init_ts) (map t_name ts)) (o_users o)
  (* no query may run out of fuel or raise on registered names; every query is evaluated once *)
  && resbits_eqb (map (fun p => ts_subsumes ts (fst p) (snd p)) ps) (o_sub_ts o)
  && resbits_eqb (map (fun p => sub_ty_names ts (fst p) (snd p)) ps) (o_sub_ty o)
  && resbits_eqb (map (fun p => is_instance_of ts (snd p) (fst p)) ps) (o_iio o)
  && oostr_eqb (map (fun n => t_super (ty_of ts n)) ns) (o_super o)
  && nlist_eqb (map (fun n => nmask ns (t_children (ty_of ts n))) ns) (o_children o)
  && nlist_eqb (map (fun n => N.of_nat (List.length (t_children (ty_of ts n)))) ns) (o_children_len o)
  && forallb3 (fun n m len => desc_eqb ns (descendants (desc_fuel ts) ts n) m len) ns (o_desc o) (o_desc_len o)
  && o_ident o && forallb (fun t => forallb (feat_refs_okb ts) (t_own t ++ t_inh t)) ts.

Definition val_ok (table : list oobs) (v : res tsys) (r : ores) : bool :=
  match v, r with
  | Ok ts, RObs i => match nth_error table i with Some o => obs_ok ts o | None => false end
  | Err e, RErrK e' => err_eqb e e'
  | _, _ => false
  end.
Definition ores_eqb (a b : ores) : bool :=
  match a, b with RErrK x, RErrK y => err_eqb x y | RObs i, RObs j => Nat.eqb i j | _, _ => false end.
(* an entry that no stage touched since the last observed moment and whose observation is the previous one again was
   compared then (the model's value is the same): only touched entries and CHANGED observations are evaluated *)
Fixpoint row_from (table : list oobs) (dirty : list nat) (j : nat) (st : list (res tsys)) (prev l : list ores) : bool :=
  match st, l with
  | [], [] => true
  | v :: st', r :: l' =>
    (if negb (existsb (Nat.eqb j) dirty) && match prev with p :: _ => ores_eqb p r | [] => false end
     then true else val_ok table v r)
    && row_from table dirty (S j) st' (tl prev) l'
  | _, _ => false
  end.
Fixpoint sequence {A} (l : list (res A)) : res (list A) :=
  match l with [] => Ok [] | x :: r => do a <- x;; do b <- sequence r;; Ok (a :: b) end.
(* a failed merge stays in the table as its error; naming it later gives EIndex (the harness skips such a stage alike) *)
Definition arg (st : list (res tsys)) (i : nat) : res tsys :=
  match nth_error st i with Some (Ok ts) => Ok ts | _ => Err EIndex end.
Definition merge_val (st : list (res tsys)) (args : list nat) : res tsys :=
  do tss <- sequence (map (arg st) args);;
  do m <- merge_with fn_form tss;;
  if Nat.eqb (foreign_refs m) 0 then Ok (m_ts m) else Err ERuntime.
Fixpoint set_nth {A} (l : list A) (i : nat) (x : A) : list A :=
  match l, i with [], _ => [] | _ :: r, O => x :: r | y :: r, S k => y :: set_nth r k x end.

(* one stage: the new table, the entry it touched, and whether the observed outcome of an in-place operation is the
   model's and the new value satisfies the hierarchy invariant (C10Merge.built_WFh says it always does) *)
Definition wf_val (v : res tsys) : bool := match v with Ok ts => wfhb ts | Err _ => true | OutOfFuel => false end.
Definition do_stage (st : list (res tsys)) (s : stage) : list (res tsys) * nat * bool :=
  match s with
  | SMerge args => let v := merge_val st args in (st ++ [v], List.length st, wf_val v)
  | SOp obj o r =>
    match arg st obj with
    | Ok ts => let '(ts', r') := step ts o in (set_nth st obj (Ok ts'), obj, opres_eqb r r' && wfhb ts')
    | _ => (st, obj, opres_eqb r (RErr EIndex))
    end
  end.
Fixpoint run_prog (table : list oobs) (st : list (res tsys)) (dirty : list nat) (prev : list ores)
                  (prog : list stage) (rows : list (option (list ores))) : bool :=
  match prog, rows with
  | [], [] => true
  | s :: p, row :: rs =>
    let '(st', touched, ok) := do_stage st s in
    ok && match row with
          | None => run_prog table st' (touched :: dirty) prev p rs
          | Some l => row_from table (touched :: dirty) 0 st' prev l && run_prog table st' [] l p rs
          end
  | _, _ => false
  end.
Definition start (c : mcase) : list (res tsys) := map (fun i => Ok (final_ts (fst i) init_ts)) (c_inputs c).
Definition check_mcase (c : mcase) : bool :=
  forallb (fun i => list_eqb opres_eqb (snd (run_ts (fst i) init_ts)) (snd i)) (c_inputs c)
  && match c_rows c with
     | [] => false
     | None :: rows => run_prog (c_table c) (start c) (seq 0 (List.length (c_inputs c))) [] (c_prog c) rows
     | Some l :: rows => row_from (c_table c) (seq 0 (List.length (c_inputs c))) 0 (start c) [] l
                         && run_prog (c_table c) (start c) [] l (c_prog c) rows
     end.

(* premises of C10_built_WF for the objects of the case: every input satisfies the hierarchy invariant (that every merge
   result and every extended type system does, too, is part of check_mcase: wf_val) *)
Definition premises_m (c : mcase) : bool := forallb wf_val (start c).
