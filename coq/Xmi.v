(* Xmi.v — model of the XMI writer, cassis/xmi.py CasXmiSerializer (serialize, _serialize_feature_structure with its
   branch order, _serialize_ref, _serialize_sofa, _serialize_view, _collect_list_elements, _serialize_primitive_array /
   _list, namespace URL from the package and prefix allocation), on abstract documents (XmiDoc.xdoc); and, independent
   of the writer, the canonical content of a CAS as the XMI format sees it (`canon_xmi`) and the boolean
   well-formedness premises of the codec theorems (`wf_xmib`).
   External: float printing (_serialize_float_value = Python repr, upper-cased) is the Section parameter `fmt_flt`.
   Not modelled (below the abstract document): XML escaping, prefix spelling in the bytes, pretty printing, the sink.
   The offset converter of a sofa is taken as a function of its current text (C03: conv_tracks_text).
   Definitions only; proofs are in XmiProofs.v. *)
From Coq Require Import Ascii.
From Cassis Require Import Base Offsets.
From Cassis Require Import Heap Schema Canon Lex Reach XmiDoc.
Open Scope Z_scope.

(* ---- namespace prefix allocation (xmi.py:559-587, after 3003d85) ---- *)
Record nsst := mkNs {
  ns_map : list (string * string);        (* self._nsmap: prefix -> url *)
  ns_url2p : list (string * string);      (* self._urls_to_prefixes *)
  ns_dup : list (string * Z) }.           (* self._duplicate_namespaces (defaultdict(int)) *)
Definition ns_init : nsst := mkNs [("xmi", NS_XMI); ("cas", NS_CAS)] [] [].
Definition amem {V} (k : string) (l : list (string * V)) : bool := match alookup k l with Some _ => true | None => false end.
(* while new_prefix in self._nsmap: suffix = dup[raw]; dup[raw] += 1; new_prefix = raw + str(suffix) *)
Fixpoint fresh_prefix (fuel : nat) (nsmap : list (string * string)) (raw cur : string) (dup : list (string * Z))
  : res (string * list (string * Z)) :=
  if amem cur nsmap then
    match fuel with
    | O => OutOfFuel
    | S k => let suffix := match alookup raw dup with Some z => z | None => 0 end in
             fresh_prefix k nsmap raw (raw ++ z2s suffix) (aset raw (suffix + 1) dup)
    end
  else Ok (cur, dup).
(* the last component of the package *)
Definition raw_prefix_of (pkg : string) : string := match rsplit_dot pkg with Some (_, q) => q | None => pkg end.
Definition pkg_of_type (n : tname) : string :=
  match rsplit_dot n with Some (p, _) => p | None => NO_NS end.
(* returns the namespace the element is created in: self._nsmap[self._urls_to_prefixes[url]] *)
Definition alloc_ns (st : nsst) (n : tname) : res (string * nsst) :=
  let url := fst (ns_of_type n) in
  do st' <- (if amem url (ns_url2p st) then Ok st else
             do pd <- fresh_prefix (S (List.length (ns_map st))) (ns_map st) (raw_prefix_of (pkg_of_type n))
                                   (raw_prefix_of (pkg_of_type n)) (ns_dup st) ;;
             Ok (mkNs (aset (fst pd) url (ns_map st)) (aset url (fst pd) (ns_url2p st)) (snd pd))) ;;
  match alookup url (ns_url2p st') with
  | Some p => match alookup p (ns_map st') with Some u => Ok (u, st') | None => Err EKey end
  | None => Err EKey
  end.

(* ---- the structures that are written (xmi.py serialize, after bab0472) ----
   feature_structures = list(cas._find_all_fs()); every sofa's sofaArray that is not among them (by identity) is appended,
   getting an id from the generator when it has none. *)
Fixpoint add_sofa_arrays (vs : list cview) (h : heap) (next : Z) (all : list (xid * oid)) : res (heap * Z * list (xid * oid)) :=
  match vs with
  | [] => Ok (h, next, all)
  | v :: r =>
    match s_arr (v_sofa v) with
    | None => add_sofa_arrays r h next all
    | Some o =>
      if memN o (map snd all) then add_sofa_arrays r h next all else
      match hget h o with
      | None => Err EAttribute
      | Some f =>
        match o_id f with
        | Some i => add_sofa_arrays r h next (all ++ [(i, o)])
        | None => add_sofa_arrays r (hset h o (set_id f next)) (next + 1) (all ++ [(next, o)])
        end
      end
    end
  end.
Definition written (s : schema) (c : cas) : res (cas * list (xid * oid)) :=
  do w <- find_all_fs false s c ;;
  do r <- add_sofa_arrays (c_views c) (w_heap w) (w_next w) (w_all w) ;;
  Ok (mkCas (c_views c) (fst (fst r)) (snd (fst r)), snd r).

(* ---- values ---- *)
Definition sofa_of_view (c : cas) (n : string) : option sofa :=
  option_map v_sofa (find (fun v => String.eqb (s_name (v_sofa v)) n) (c_views c)).
(* str(fs.xmiID) of a referenced object; an id-less object prints as "None" *)
Definition id_str (h : heap) (o : oid) : res string :=
  match hget h o with
  | Some f => Ok (match o_id f with Some j => z2s j | None => "None" end)
  | None => Err EAttribute
  end.
(* _serialize_ref *)
Definition ser_ref (h : heap) (v : val) : res string :=
  match v with VNone => Ok "0" | VRef o => id_str h o | _ => Err EAttribute end.
(* child.text = e *)
Definition str_text (v : val) : res string := match v with VNone => Ok "" | VStr s => Ok s | _ => Err EType end.

Section Flt.
Variable fmt_flt : flt -> string.        (* _serialize_float_value *)

(* _serialize_primitive_array(type_name, values) *)
Definition ser_prim_array (tn : tname) (l : list val) : res string :=
  if String.eqb tn "uima.cas.BooleanArray" then
    do ts <- mapM (fun v => match v with VBool b => Ok (b2s b) | _ => Err EType end) l ;; Ok (join ts)
  else if String.eqb tn "uima.cas.ByteArray" then
    do ts <- mapM (fun v => match v with VInt x => Ok (hex_byte x) | _ => Err EType end) l ;; Ok (concat_s ts)
  else if String.eqb tn "uima.cas.DoubleArray" || String.eqb tn "uima.cas.FloatArray" then
    do ts <- mapM (fun v => match v with VFlt x => Ok (fmt_flt x) | _ => Err EType end) l ;; Ok (join ts)
  else
    do ts <- mapM (fun v => match v with VInt x => Ok (z2s x) | VStr s => Ok s | VNone => Ok "None" | _ => Err EType end) l ;;
    Ok (join ts).
(* _collect_list_elements: walk head/tail while the node has a `head`; a node met twice raises *)
Fixpoint collect_list (fuel : nat) (s : schema) (h : heap) (seen : list oid) (v : val) : res (list val) :=
  match fuel with
  | O => OutOfFuel
  | S k =>
    match v with
    | VRef o =>
      match hget h o with
      | Some f =>
        if has_feat s (o_type f) "head" then
          if memN o seen then Err EValue
          else do r <- collect_list k s h (o :: seen) (slot f "tail") ;; Ok (slot f "head" :: r)
        else Ok []
      | None => Err EAttribute
      end
    | _ => Ok []
    end
  end.
Definition list_elems (s : schema) (h : heap) (v : val) : res (list val) :=
  collect_list (S (List.length h)) s h [] v.
(* _serialize_primitive_list *)
Definition ser_prim_list (l : list val) : res string :=
  do ts <- mapM (fun v => match v with VFlt x => Ok (fmt_flt x) | VInt x => Ok (z2s x) | VStr s => Ok s
                                   | VNone => Ok "None" | VBool b => Ok (if b then "True" else "False") | _ => Err EType end) l ;;
  Ok (join ts).
Definition elements_val (h : heap) (v : val) : res val :=       (* value.elements *)
  match v with
  | VRef a => match hget h a with Some af => Ok (slot af "elements") | None => Err EAttribute end
  | _ => Err EAttribute
  end.

(* what one feature contributes to the element: attributes and child elements *)
Definition contrib := (list (string * string) * list (string * string))%type.
Definition c_none : contrib := ([], []).
Definition c_attr (n v : string) : contrib := ([(n, v)], []).
Definition c_kids (n : string) (l : list string) : contrib := ([], map (fun t => (n, t)) l).

(* the if / elif chain of xmi.py:645-685 as a classification: which branch a feature declaration takes *)
Inductive wkind := WStrArr | WStrList | WPrimArr | WPrimList | WFsArr | WFsList | WSofa | WBool | WFlt | WPrim | WRef.
Definition wbranch (s : schema) (fd : fdecl) : wkind :=
  let r := fd_range fd in
  let single := negb (fd_multi fd) in
  if isa s r T_STRING_ARRAY && single then WStrArr
  else if isa s r T_STRING_LIST && single then WStrList
  else if is_prim_array_name r && single then WPrimArr
  else if is_prim_list_name r && single then WPrimList
  else if String.eqb r T_FS_ARRAY && single then WFsArr
  else if String.eqb r T_FS_LIST && single then WFsList
  else if String.eqb (fd_xname fd) "sofa" then WSofa
  else if String.eqb r "uima.cas.Boolean" then WBool
  else if String.eqb r "uima.cas.Double" || String.eqb r "uima.cas.Float" then WFlt
  else if is_primitive s r then WPrim
  else WRef.
(* _collect_list_elements(type_name, value): `if type_name not in _LIST_TYPES: raise ValueError` *)
Definition list_elems_of (s : schema) (h : heap) (r : tname) (v : val) : res (list val) :=
  if is_list_name r then list_elems s h v else Err EValue.

Definition enc_value (s : schema) (c : cas) (n : string) (r : tname) (k : wkind) (v : val) : res contrib :=
  let h := c_heap c in
  match k with
  | WStrArr =>
    do ev <- elements_val h v ;;
    match ev with
    | VNone => Ok c_none
    | VList [] => Ok (c_attr n "")
    | VList l => do ts <- mapM str_text l ;; Ok (c_kids n ts)
    | _ => Err EType
    end
  | WStrList =>
    do l <- list_elems_of s h r v ;;
    match l with
    | [] => Ok (c_attr n "")
    | _ => do ts <- mapM str_text l ;; Ok (c_kids n ts)
    end
  | WPrimArr =>
    do ev <- elements_val h v ;;
    match ev with
    | VNone => Ok c_none
    | VList l => do a <- ser_prim_array r l ;; Ok (c_attr n a)
    | _ => Err EType
    end
  | WPrimList => do l <- list_elems_of s h r v ;; do a <- ser_prim_list l ;; Ok (c_attr n a)
  | WFsArr =>
    do ev <- elements_val h v ;;
    match ev with
    | VNone => Ok c_none
    | VList l => do ts <- mapM (ser_ref h) l ;; Ok (c_attr n (join ts))
    | _ => Err EType
    end
  | WFsList => do l <- list_elems_of s h r v ;; do ts <- mapM (ser_ref h) l ;; Ok (c_attr n (join ts))
  | WSofa =>
    match v with
    | VSofa vn => match sofa_of_view c vn with Some so => Ok (c_attr n (z2s (s_xid so))) | None => Err EAttribute end
    | _ => Err EAttribute
    end
  | WBool => match v with VBool b => Ok (c_attr n (b2s b)) | _ => Err EType end
  | WFlt => match v with VFlt x => Ok (c_attr n (fmt_flt x)) | _ => Err EType end
  | WPrim =>
    match v with
    | VInt z => Ok (c_attr n (z2s z)) | VStr x => Ok (c_attr n x)
    | VBool b => Ok (c_attr n (if b then "True" else "False"))
    | _ => Err EType
    end
  | WRef => match v with VRef o => do a <- id_str h o ;; Ok (c_attr n a) | _ => Err EAttribute end
  end.

(* code points -> UTF-16 code units with the converter of the annotation's own sofa (fs.sofa._offset_converter) *)
Definition conv_out (s : schema) (c : cas) (tn : tname) (f : fsobj) (n : string) (v0 : val) : res val :=
  if isa s tn T_ANNOTATION && (String.eqb n "begin" || String.eqb n "end") then
    match slot f "sofa" with
    | VSofa vn =>
      match sofa_of_view c vn with
      | Some so => Ok (match v0, s_text so with VInt z, Some t => VInt (py2ext (mk_conv t) z) | _, _ => v0 end)
      | None => Err EAttribute
      end
    | _ => Err EAttribute
    end
  else Ok v0.

Definition enc_feature (s : schema) (c : cas) (tn : tname) (f : fsobj) (fd : fdecl) : res contrib :=
  if memb (fd_name fd) ["xmiID"; "type"] then Ok c_none else      (* _COMMON_FIELD_NAMES *)
  let n := fd_xname fd in                                         (* reserved-name stripping *)
  let v0 := slot f (fd_name fd) in
  match v0 with
  | VNone => Ok c_none                                            (* `if value is None: continue` *)
  | _ => do v <- conv_out s c tn f n v0 ;; enc_value s c n (fd_range fd) (wbranch s fd) v
  end.

(* _serialize_feature_structure, given the namespace the element ends up in *)
Definition enc_fs (s : schema) (c : cas) (ns : string) (i : xid) (f : fsobj) : res xelem :=
  let h := c_heap c in
  let tn := o_type f in
  let tag := snd (ns_of_type tn) in
  let idattr := (A_ID, z2s i) in
  if is_prim_array_name tn || String.eqb tn T_FS_ARRAY then
    match slot f "elements" with
    | VNone => Ok (mkX ns tag [idattr] [])
    | VList l =>
      if isa s tn T_STRING_ARRAY then
        do ts <- mapM str_text l ;;
        Ok (mkX ns tag (idattr :: match l with [] => [("elements", "")] | _ => [] end) (map (fun t => ("elements", t)) ts))
      else if String.eqb tn T_FS_ARRAY then
        do ts <- mapM (ser_ref h) l ;; Ok (mkX ns tag [idattr; ("elements", join ts)] [])
      else do a <- ser_prim_array tn l ;; Ok (mkX ns tag [idattr; ("elements", a)] [])
    | _ => Err EType
    end
  else
    match sch_find s tn with
    | None => Err ETypeNotFound
    | Some ti =>
      do cs <- mapM (enc_feature s c tn f) (ti_feats ti) ;;
      Ok (mkX ns tag (idattr :: flat_map fst cs) (flat_map snd cs))
    end.

Fixpoint enc_all (s : schema) (c : cas) (st : nsst) (l : list (xid * oid)) : res (list xelem) :=
  match l with
  | [] => Ok []
  | (i, o) :: r =>
    match hget (c_heap c) o with
    | None => Err EAttribute
    | Some f =>
      do ns_st <- alloc_ns st (o_type f) ;;
      do e <- enc_fs s c (fst ns_st) i f ;;
      do es <- enc_all s c (snd ns_st) r ;;
      Ok (e :: es)
    end
  end.

Definition null_elem : xelem := mkX NS_CAS "NULL" [(A_ID, "0")] [].
Definition opt_attr (n : string) (o : option string) : list (string * string) :=
  match o with Some v => [(n, v)] | None => [] end.
(* _serialize_sofa (after bab0472: sofaURI and sofaArray are written too) *)
Definition enc_sofa (h : heap) (so : sofa) : res xelem :=
  do arr <- match s_arr so with None => Ok None | Some o => do a <- id_str h o ;; Ok (Some a) end ;;
  Ok (mkX NS_CAS "Sofa"
      ([(A_ID, z2s (s_xid so)); ("sofaNum", z2s (s_num so)); ("sofaID", s_name so)]
         ++ opt_attr "mimeType" (s_mime so) ++ opt_attr "sofaString" (option_map utf8_encode (s_text so))
         ++ opt_attr "sofaURI" (s_uri so) ++ opt_attr "sofaArray" arr)%list []).
(* _serialize_view: members sorted numerically *)
Definition member_id (h : heap) (o : oid) : res Z :=
  match hget h o with
  | Some f => match o_id f with Some j => Ok j | None => Err EValue end     (* int("None") *)
  | None => Err EAttribute
  end.
Definition enc_view (h : heap) (v : cview) : res xelem :=
  do ms <- mapM (member_id h) (v_members v) ;;
  Ok (mkX NS_CAS "View" [("sofa", z2s (s_xid (v_sofa v))); ("members", join (map z2s (zsort ms)))] []).

(* CasXmiSerializer.serialize: cas:NULL, the structures to write sorted by id, the sofas, the views *)
Definition save_xmi (s : schema) (c : cas) : res (xdoc * cas) :=
  do ca <- written s c ;;
  let c' := fst ca in
  do fss <- enc_all s c' ns_init (sort_ids (snd ca)) ;;
  do sofas <- mapM (fun v => enc_sofa (c_heap c') (v_sofa v)) (c_views c') ;;
  do vs <- mapM (enc_view (c_heap c')) (c_views c') ;;
  Ok ((null_elem :: fss ++ sofas ++ vs)%list, c').

End Flt.

(* ---- canonical content, independent of the writer: what scen.canon(cas, "xmi") observes ---- *)
Definition ref_id (h : heap) (o : oid) : res cval :=
  match hget h o with
  | Some f => match o_id f with Some j => Ok (CRef j) | None => Err EValue end
  | None => Err EAttribute
  end.
Fixpoint cv (c : cas) (v : val) : res cval :=
  match v with
  | VNone => Ok CNull | VInt z => Ok (CInt z) | VFlt x => Ok (CFlt x) | VBool b => Ok (CBool b) | VStr x => Ok (CStr x)
  | VRef o => ref_id (c_heap c) o
  | VSofa n => match sofa_of_view c n with Some so => Ok (CRef (s_xid so)) | None => Err EAttribute end
  | VList l => do l' <- (fix go (l : list val) : res (list cval) :=
                           match l with [] => Ok [] | x :: r => do y <- cv c x ;; do ys <- go r ;; Ok (y :: ys) end) l ;;
               Ok (CColl "" l')
  end.
(* the members of a list value: heads along the tail chain (stops at a node seen before) *)
Definition inline_fd (fd : fdecl) : bool := negb (fd_multi fd) && (is_array_name (fd_range fd) || is_list_name (fd_range fd)).
Definition canon_feature (s : schema) (c : cas) (f : fsobj) (fd : fdecl) : res (fname * cval) :=
  let v := slot f (fd_name fd) in
  do x <- (if inline_fd fd then
             match v with
             | VNone => Ok CNull
             | _ =>
               if is_array_name (fd_range fd) then
                 do ev <- elements_val (c_heap c) v ;;
                 match ev with
                 | VList l => do l' <- mapM (cv c) l ;; Ok (CColl (fd_range fd) l')
                 | _ => Ok (CColl (fd_range fd) [])
                 end
               else
                 do hs <- list_heads (S (List.length (c_heap c))) s (c_heap c) [] v ;;
                 do l' <- mapM (cv c) hs ;; Ok (CColl (fd_range fd) l')
             end
           else cv c v) ;;
  Ok (fd_xname fd, x).
Definition canon_fs (s : schema) (c : cas) (io : xid * oid) : res (xid * cfs) :=
  match hget (c_heap c) (snd io) with
  | None => Err EAttribute
  | Some f =>
    match sch_find s (o_type f) with
    | None => Err ETypeNotFound
    | Some ti => do fs <- mapM (canon_feature s c f) (ti_feats ti) ;; Ok (fst io, mkCfs (o_type f) (sort_s fs))
    end
  end.
Definition canon_sofa (c : cas) (v : cview) : res csofa :=
  let so := v_sofa v in
  do ms <- mapM (member_id (c_heap c)) (v_members v) ;;
  do arr <- match s_arr so with
            | None => Ok None
            | Some o => do r <- ref_id (c_heap c) o ;; Ok (match r with CRef j => Some j | _ => None end)
            end ;;
  Ok (mkCsofa (s_xid so) (s_num so) (s_name so) (s_text so) (s_mime so) (s_uri so) arr (zsort ms)).
(* content of a CAS whose structures to be written are `all` (id, object) *)
Definition canon_of (s : schema) (c : cas) (all : list (xid * oid)) : res ccas :=
  do sofas <- mapM (canon_sofa c) (c_views c) ;;
  do fss <- mapM (canon_fs s c) all ;;
  Ok (mkCcas (sort_by cs_id sofas) (sort_by fst fss)).
Definition canon_xmi (s : schema) (c : cas) : res ccas :=
  do ca <- written s c ;; canon_of s (fst ca) (sort_ids (snd ca)).

(* ---- boolean well-formedness premises of the codec theorems (DESIGN.md section 4.4, wf_casb for XMI) ----
   `all` is the list (id, object) of the structures that are written and `c` the CAS after the traversal (`written`).
   The parts that speak about `all` as a set (ids distinct and apart from sofa ids, every reference / element / member
   is in `all`) are what Reach's find_all_each_once / find_all_closed establish; they are kept boolean here so that the
   codec theorems do not depend on the shape of those lemmas and the harness can count them. *)
Definition str_or_none (v : val) : bool := match v with VNone | VStr _ => true | _ => false end.
Definition ref_okb (h : heap) (ids : list Z) (v : val) : bool :=
  match v with
  | VNone => true
  | VRef o => match hget h o with
              | Some f => match o_id f with Some j => memZ j ids | None => false end
              | None => false end
  | _ => false
  end.
Definition prim_elem_okb (r : tname) (v : val) : bool :=
  if String.eqb r "uima.cas.BooleanArray" then match v with VBool _ => true | _ => false end
  else if String.eqb r "uima.cas.ByteArray" then match v with VInt x => (0 <=? x) && (x <? 256) | _ => false end
  else if String.eqb r "uima.cas.DoubleArray" || String.eqb r "uima.cas.FloatArray" || String.eqb r "uima.cas.FloatList"
       then match v with VFlt _ => true | _ => false end
  else if String.eqb r "uima.cas.IntegerArray" || String.eqb r "uima.cas.ShortArray" || String.eqb r "uima.cas.LongArray"
          || String.eqb r "uima.cas.IntegerList" then match v with VInt _ => true | _ => false end
  else false.
Definition is_coll_wkind (k : wkind) : bool :=
  match k with WStrArr | WStrList | WPrimArr | WPrimList | WFsArr | WFsList => true | _ => false end.
(* the writer's branch and the format's feature kind name the same encoding *)
Definition kind_agreeb (s : schema) (fd : fdecl) : bool :=
  Bool.eqb (inline_fd fd) (is_coll_wkind (wbranch s fd)) &&
  match wbranch s fd, fkind_of s fd with
  | WStrArr, FStrColl => String.eqb (fd_range fd) T_STRING_ARRAY
  | WStrList, FStrColl => String.eqb (fd_range fd) T_STRING_LIST
  | WPrimArr, FTokColl _ | WPrimArr, FBytes => is_prim_array_name (fd_range fd)
  | WPrimList, FTokColl _ => is_prim_list_name (fd_range fd)
  | WFsArr, FIdColl => String.eqb (fd_range fd) T_FS_ARRAY
  | WFsList, FIdColl => String.eqb (fd_range fd) T_FS_LIST
  | WSofa, FRef | WRef, FRef => true
  | WBool, FPrim PBool | WFlt, FPrim PFlt | WPrim, FPrim PInt | WPrim, FPrim PStr => true
  | _, _ => false
  end.
(* the value of a set slot has the shape its declaration promises *)
Definition value_okb (s : schema) (c : cas) (ids : list Z) (fd : fdecl) (v : val) : bool :=
  let h := c_heap c in
  let r := fd_range fd in
  match wbranch s fd with
  | WStrArr => match elements_val h v with Ok (VList l) => forallb str_or_none l | _ => false end
  | WStrList => match list_elems_of s h r v with Ok l => forallb str_or_none l | _ => false end
  | WPrimArr => match elements_val h v with Ok (VList l) => forallb (prim_elem_okb r) l | _ => false end
  | WPrimList => match list_elems_of s h r v with Ok l => forallb (prim_elem_okb r) l | _ => false end
  | WFsArr => match elements_val h v with Ok (VList l) => forallb (ref_okb h ids) l | _ => false end
  | WFsList => match list_elems_of s h r v with Ok l => forallb (ref_okb h ids) l | _ => false end
  | WSofa => match v with VSofa n => match sofa_of_view c n with Some _ => true | None => false end | _ => false end
  | WBool => match v with VBool _ => true | _ => false end
  | WFlt => match v with VFlt _ => true | _ => false end
  | WPrim => match fkind_of s fd, v with FPrim PInt, VInt _ | FPrim PStr, VStr _ => true | _, _ => false end
  | WRef => match v with VRef _ => ref_okb h ids v | _ => false end
  end.
(* offsets of an annotation: integers inside the text of its own sofa *)
Definition offset_okb (s : schema) (c : cas) (tn : tname) (f : fsobj) (fd : fdecl) (v : val) : bool :=
  if isa s tn T_ANNOTATION && (String.eqb (fd_xname fd) "begin" || String.eqb (fd_xname fd) "end") then
    match fkind_of s fd, v, slot f "sofa" with
    | FPrim PInt, VInt z, VSofa vn =>
      match sofa_of_view c vn with
      | Some so => match s_text so with Some t => (0 <=? z) && (z <=? Z.of_nat (List.length t)) | None => true end
      | None => false
      end
    | _, _, _ => false
    end
  else true.
Definition feat_okb (s : schema) (c : cas) (ids : list Z) (tn : tname) (f : fsobj) (fd : fdecl) : bool :=
  negb (memb (fd_name fd) ["xmiID"; "type"]) && kind_agreeb s fd &&
  let v := slot f (fd_name fd) in
  match v with
  | VNone => true
  | _ => value_okb s c ids fd v && offset_okb s c tn f fd v
  end.
Fixpoint nodups (l : list string) : bool := match l with [] => true | x :: r => negb (memb x r) && nodups r end.
Definition tname_okb (tn : tname) : bool :=
  let nt := ns_of_type tn in
  opt_eqb String.eqb (type_of_elem (fst nt) (snd nt)) (Some tn)
  && negb (String.eqb (fst nt) NS_CAS && memb (snd nt) ["NULL"; "Sofa"; "View"]).
Definition array_elem_okb (tn : tname) (h : heap) (ids : list Z) (v : val) : bool :=
  if String.eqb tn T_STRING_ARRAY then str_or_none v
  else if String.eqb tn T_FS_ARRAY then ref_okb h ids v
  else prim_elem_okb tn v.
Definition fs_okb (s : schema) (c : cas) (ids : list Z) (io : xid * oid) : bool :=
  match hget (c_heap c) (snd io) with
  | None => false
  | Some f =>
    let tn := o_type f in
    opt_eqb Z.eqb (o_id f) (Some (fst io)) && tname_okb tn &&
    match sch_find s tn with
    | None => false
    | Some ti =>
      nodups (map fd_xname (ti_feats ti)) && negb (memb A_ID (map fd_xname (ti_feats ti))) &&
      if is_array_name tn then
        forallb (fun fd => String.eqb (fd_name fd) (fd_xname fd) && negb (inline_fd fd)) (ti_feats ti) &&
        memb "elements" (map fd_xname (ti_feats ti)) &&
        Bool.eqb (isa s tn T_STRING_ARRAY) (String.eqb tn T_STRING_ARRAY) &&
        match slot f "elements" with
        | VNone => true
        | VList l => forallb (array_elem_okb tn (c_heap c) ids) l
        | _ => false
        end &&
        forallb (fun fd => String.eqb (fd_xname fd) "elements" || match slot f (fd_name fd) with VNone => true | _ => false end)
                (ti_feats ti)
      else forallb (feat_okb s c ids tn f) (ti_feats ti) &&
           (* an annotation type has the feature `sofa` of AnnotationBase, written by the sofa branch *)
           (if isa s tn T_ANNOTATION
            then existsb (fun fd => String.eqb (fd_name fd) "sofa" && String.eqb (fd_xname fd) "sofa"
                                    && match wbranch s fd with WSofa => true | _ => false end) (ti_feats ti)
            else true)
    end
  end.
Definition text_okb (t : text) : bool := opt_eqb (list_eqb N.eqb) (utf8_decode (utf8_encode t)) (Some t).
Definition view_okb (c : cas) (ids : list Z) (v : cview) : bool :=
  let so := v_sofa v in
  match s_arr so with Some o => ref_okb (c_heap c) ids (VRef o) | None => true end
  && match s_text so with Some t => text_okb t | None => true end
  && forallb (fun o => ref_okb (c_heap c) ids (VRef o)) (v_members v).
Definition wf_xmib (s : schema) (c : cas) (all : list (xid * oid)) : bool :=
  let ids := map fst all in
  let sofa_ids := map (fun v => s_xid (v_sofa v)) (c_views c) in
  nodupZ (0 :: sofa_ids ++ ids)%list
  && nodups (map (fun v => s_name (v_sofa v)) (c_views c))
  && forallb (view_okb c ids) (c_views c)
  && forallb (fs_okb s c ids) all.

(* ---- well-formedness of the INPUT CAS (DESIGN.md section 4.4 wf_casb) ----
   Everything below is checked on the CAS as given, before the traversal: per object the local shape of its slots (the
   `*_inb` predicates are fs_okb / feat_okb / value_okb with "the target has an id that is written" replaced by "the
   target is a live object"), plus the facts about ids that no traversal can repair.  What wf_xmib says about the written
   set (closure, every written structure has its id, ids pairwise distinct and apart from sofa ids and 0, references of
   written structures point to written structures) is DERIVED from these and ReachProofs in XmiWf.v (wf_written). *)
(* only the sofa feature of AnnotationBase is called sofa (python and document name), and it is written by the sofa branch *)
Definition sofa_decl_okb (s : schema) (fd : fdecl) : bool :=
  if String.eqb (fd_name fd) "sofa" || String.eqb (fd_xname fd) "sofa"
  then String.eqb (fd_name fd) "sofa" && String.eqb (fd_xname fd) "sofa" && match wbranch s fd with WSofa => true | _ => false end
  else true.
Definition value_inb (s : schema) (c : cas) (fd : fdecl) (v : val) : bool :=
  let h := c_heap c in
  match wbranch s fd with
  | WFsArr =>
    match v with
    | VRef a => match hget h a with
                | Some af => has_feat s (o_type af) "elements"
                             && match slot af "elements" with VList l => forallb (okval h) l | _ => false end
                | None => false
                end
    | _ => false
    end
  | WFsList => match list_elems_of s h (fd_range fd) v with Ok l => forallb (okval h) l | _ => false end
  | WRef => match v with VRef o => live h o | _ => false end
  | _ => value_okb s c [] fd v                (* no reference involved: the id list is not consulted *)
  end.
Definition feat_inb (s : schema) (c : cas) (tn : tname) (f : fsobj) (fd : fdecl) : bool :=
  negb (memb (fd_name fd) ["xmiID"; "type"]) && kind_agreeb s fd && sofa_decl_okb s fd &&
  let v := slot f (fd_name fd) in
  match v with
  | VNone => true
  | _ => value_inb s c fd v && offset_okb s c tn f fd v
  end.
Definition array_elem_inb (tn : tname) (h : heap) (v : val) : bool :=
  if String.eqb tn T_STRING_ARRAY then str_or_none v
  else if String.eqb tn T_FS_ARRAY then okval h v
  else prim_elem_okb tn v.
Definition obj_inb (s : schema) (c : cas) (f : fsobj) : bool :=
  let tn := o_type f in
  tname_okb tn &&
  match sch_find s tn with
  | None => false
  | Some ti =>
    nodups (map fd_xname (ti_feats ti)) && negb (memb A_ID (map fd_xname (ti_feats ti))) &&
    (* only the built-in array types derive from ArrayBase: the traversal and the writer agree on what an array is *)
    match is_array_type ti with Ok b => Bool.eqb b (is_array_name tn) | _ => false end &&
    if is_array_name tn then
      forallb (fun fd => String.eqb (fd_name fd) (fd_xname fd) && negb (inline_fd fd)) (ti_feats ti) &&
      memb "elements" (map fd_xname (ti_feats ti)) &&
      Bool.eqb (isa s tn T_STRING_ARRAY) (String.eqb tn T_STRING_ARRAY) &&
      match slot f "elements" with
      | VNone => true
      | VList l => forallb (array_elem_inb tn (c_heap c)) l
      | _ => false
      end &&
      forallb (fun fd => String.eqb (fd_xname fd) "elements" || match slot f (fd_name fd) with VNone => true | _ => false end)
              (ti_feats ti)
    else forallb (feat_inb s c tn f) (ti_feats ti) &&
         (if isa s tn T_ANNOTATION
          then existsb (fun fd => String.eqb (fd_name fd) "sofa" && String.eqb (fd_xname fd) "sofa"
                                  && match wbranch s fd with WSofa => true | _ => false end) (ti_feats ti)
          else true)
  end.
(* a view: the text is encodable, the sofa array (if any) is a live primitive array (sofa data is bytes, not structures) *)
Definition view_inb (c : cas) (v : cview) : bool :=
  let so := v_sofa v in
  match s_arr so with
  | Some o => match hget (c_heap c) o with Some f => is_prim_array_name (o_type f) | None => false end
  | None => true
  end
  && match s_text so with Some t => text_okb t | None => true end.
Definition wf_casb (s : schema) (c : cas) : bool :=
  let h := c_heap c in
  let sofa_ids := map (fun v => s_xid (v_sofa v)) (c_views c) in
  (0 <? c_next_id c)
  (* Reach: every value the traversal considers is None or a live reference; members are live; explicit ids are pairwise
     distinct and below the id generator (or nothing is left to generate) *)
  && wf_heapb false s h && seeds_liveb h (member_seeds c) && ids_okb h (c_next_id c)
  (* no structure claims the id of cas:NULL *)
  && forallb (fun p => negb (is_null_id (snd p))) h
  (* sofa ids: distinct, not 0, below the generator, not the explicit id of a structure *)
  && nodupZ sofa_ids
  && forallb (fun i => negb (i =? 0) && (i <? c_next_id c) && negb (memZ i (explicit_ids h))) sofa_ids
  && nodups (map (fun v => s_name (v_sofa v)) (c_views c))
  && forallb (view_inb c) (c_views c)
  && forallb (fun p => obj_inb s c (snd p)) h.
(* only subtypes of AnnotationBase have a feature called sofa (Cas.add overwrites any attribute of that name: a declared
   precondition of the library), and a feature of that name is the sofa reference *)
Definition type_sofa_okb (s : schema) (tn : tname) : bool :=
  forallb (fun fd => sofa_decl_okb s fd && (negb (String.eqb (fd_xname fd) "sofa") || isa s tn T_ANNOTATION_BASE)) (sch_feats s tn).
Definition wf_inb (s : schema) (c : cas) : bool :=
  wf_casb s c && forallb (fun p => type_sofa_okb s (o_type (snd p))) (c_heap c).
