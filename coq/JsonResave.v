(* JsonResave.v — C02 json_resave_equal: the document the JSON writer produces is a function of the canonical content, of the
   order of the views, and of (schema, mode).  Every entry of %FEATURE_STRUCTURES is `encc_fs` of its canonical entry (offsets
   of annotations through the converter of the text of their own sofa, special floats under '#' keys, references under '@' keys,
   byte arrays in base64, empty arrays without %ELEMENTS, null features omitted), every sofa entry `encc_sofa` and every view
   entry `encc_view` of its csofa; %TYPES is ser_types of the types of the structures found, in id order.  `doc_of_canon`
   rebuilds the whole document; `save_json_canon` says the writer's document IS that document.  Hence two CASes with the same
   canonical content saved in the same mode write the same document when their views are in the same order
   (json_resave_equal: d1 = d2, so jcanon d1 = jcanon d2 and json_equiv d1 d2 = true), and documents that differ only in the
   order of the sofa / byte-array prefix of %FEATURE_STRUCTURES and of the members of %VIEWS otherwise (json_resave_equal_perm).
   The XMI counterpart is XmiResave.v. *)
From Coq Require Import Ascii ZifyBool Permutation.
From Cassis Require Import Base Heap Schema Canon Reach ReachProofs ReachSpec JsonDoc Json JsonProofs JsonProofs2 JsonWf JsonDocOk.
From Cassis Require Offsets.
Open Scope Z_scope.

(* ================================================================================================================ *)
(* the encoder from canonical values                                                                                 *)
(* ================================================================================================================ *)

Definition encc_ref (x : cval) : json := match x with CRef i => JInt i | _ => JNull end.
Definition encc_float (x : cval) : json :=
  match x with
  | CFlt f => match special_flt f with Some sp => JStr sp | None => JFlt f end
  | CInt z => JInt z
  | _ => JNull end.
Definition encc_plain (x : cval) : json :=
  match x with CInt z => JInt z | CBool b => JBool b | CStr t => JStr t | CFlt f => JFlt f | _ => JNull end.
Definition cbyte (x : cval) : Z := match x with CInt z => z | _ => 0 end.
Definition encc_elements (L : lex) (t : tname) (l : list cval) : json :=
  if String.eqb t T_BYTE_ARRAY then JStr (b64_enc L (map cbyte l))
  else if String.eqb t T_DOUBLE_ARRAY || String.eqb t T_FLOAT_ARRAY then JArr (map encc_float l)
  else if String.eqb t T_FS_ARRAY then JArr (map encc_ref l)
  else JArr (map encc_plain l).

Definition encc_value (s : schema) (fd : fdecl) (x : cval) : list (string * json) :=
  let n := fd_xname fd in
  if String.eqb (fd_range fd) T_FLOAT || String.eqb (fd_range fd) T_DOUBLE then
    match x with
    | CFlt xx => match special_flt xx with Some sp => [(numkey n, JStr sp)] | None => [(n, JFlt xx)] end
    | CInt z => [(n, JInt z)]
    | _ => []
    end
  else if is_primitive s (fd_range fd) then [(n, encc_plain x)]
  else [(refkey n, encc_ref x)].
Definition conv_cval (conv : Z -> Z) (x : cval) : cval := match x with CInt z => CInt (conv z) | _ => x end.
(* offs: the value is an offset of an annotation, written in UTF-16 code units; a null feature is omitted *)
Definition encc_feature (s : schema) (conv : Z -> Z) (offs : bool) (fd : fdecl) (x : cval) : list (string * json) :=
  match x with CNull => [] | _ => encc_value s fd (if offs then conv_cval conv x else x) end.

Definition cf_get (cf : cfs) (n : string) : cval := match alookup n (cf_feats cf) with Some x => x | None => CNull end.
(* the converter of the annotation's own sofa, found through the canonical `sofa` value *)
Definition conv_canon (sofas : list csofa) (cf : cfs) : Z -> Z :=
  match cf_get cf "sofa" with
  | CRef sid => match find (fun cs => Z.eqb (cs_id cs) sid) sofas with
                | Some cs => p2e_text (cs_text cs)
                | None => fun z => z end
  | _ => fun z => z
  end.
Definition encc_fs (L : lex) (s : schema) (sofas : list csofa) (p : xid * cfs) : list (string * json) :=
  let cf := snd p in
  let t := cf_type cf in
  let base := [(K_ID, JInt (fst p)); (K_TYPE, JStr t)] in
  if is_array_name t then
    match cf_get cf "elements" with
    | CColl _ (x :: r) => base ++ [(K_ELEMENTS, encc_elements L t (x :: r))]
    | _ => base
    end
  else base ++ List.concat (map (fun fd => encc_feature s (conv_canon sofas cf) (isa s t T_ANNOTATION && is_offset_name (fd_xname fd)) fd
                                                        (cf_get cf (fd_xname fd))) (sch_feats s t)).

Definition encc_sofa (L : lex) (cs : csofa) : list (string * json) :=
  [(K_ID, JInt (cs_id cs)); (K_TYPE, JStr T_SOFA); ("sofaNum", JInt (cs_num cs)); ("sofaID", JStr (cs_name cs))]
  ++ opt_member "mimeType" JStr (cs_mime cs) ++ opt_member (refkey "sofaArray") JInt (cs_arr cs)
  ++ opt_member "sofaString" (fun t => JStr (txt_enc L t)) (cs_text cs) ++ opt_member "sofaURI" JStr (cs_uri cs).
Definition encc_view (cs : csofa) : string * json :=
  (cs_name cs, JObj [(K_SOFA, JInt (cs_id cs)); (K_MEMBERS, JArr (map JInt (cs_members cs)))]).

(* the document: `order` = the names of the views in Cas.sofas order.  Per view its byte array (if any) and its sofa, then
   the structures that are not sofa byte arrays in id order (cc_fs is sorted by id); %TYPES from the types of the latter *)
Definition arr_ids_of (cc : ccas) : list xid := flat_map (fun cs => match cs_arr cs with Some a => [a] | None => [] end) (cc_sofas cc).
Definition found_of (cc : ccas) : list (xid * cfs) := filter (fun p => negb (zmem (fst p) (arr_ids_of cc))) (cc_fs cc).
(* per view: its byte array unless an earlier view has written it (seen: the ids of the arrays written so far), its sofa *)
Fixpoint view_prefixes (L : lex) (s : schema) (cc : ccas) (seen : list xid) (vs : list csofa) : res (list (list json)) :=
  match vs with
  | [] => Ok []
  | cs :: r =>
    match cs_arr cs with
    | Some a =>
        if zmem a seen then do rest <- view_prefixes L s cc seen r ;; Ok ([JObj (encc_sofa L cs)] :: rest)
        else match zlookup a (cc_fs cc) with
             | Some cf => do rest <- view_prefixes L s cc (seen ++ [a]) r ;;
                          Ok ([JObj (encc_fs L s (cc_sofas cc) (a, cf)); JObj (encc_sofa L cs)] :: rest)
             | None => Err EKey end
    | None => do rest <- view_prefixes L s cc seen r ;; Ok ([JObj (encc_sofa L cs)] :: rest)
    end
  end.
Definition doc_of_canon (L : lex) (s : schema) (mode : tsmode) (order : list string) (cc : ccas) : res json :=
  do vs <- mapM (fun n => match find (fun cs => String.eqb (cs_name cs) n) (cc_sofas cc) with Some cs => Ok cs | None => Err EKey end) order ;;
  do pre <- view_prefixes L s cc [] vs ;;
  do types <- ser_types s mode (map (fun p => cf_type (snd p)) (found_of cc)) ;;
  Ok (JObj (types ++ [(K_FS, JArr (List.concat pre ++ map (fun p => JObj (encc_fs L s (cc_sofas cc) p)) (found_of cc)));
                      (K_VIEWS, JObj (map encc_view vs))])).

(* ================================================================================================================ *)
(* values                                                                                                            *)
(* ================================================================================================================ *)

Lemma mapM_pair_map {A B C} (enc : A -> res B) (cv : A -> res C) (g : C -> B) l :
  (forall a j x, In a l -> enc a = Ok j -> cv a = Ok x -> j = g x) ->
  forall js xs, mapM enc l = Ok js -> mapM cv l = Ok xs -> js = map g xs.
Proof.
  induction l as [|a t IH]; intros H js xs Hj Hx; cbn [mapM] in Hj, Hx; [inversion Hj; inversion Hx; reflexivity|].
  apply bind_Ok in Hj as (j & Ej & Hj). apply bind_Ok in Hj as (js' & Ejs & Hj). inversion Hj; subst js.
  apply bind_Ok in Hx as (x & Ex & Hx). apply bind_Ok in Hx as (xs' & Exs & Hx). inversion Hx; subst xs.
  cbn [map]. rewrite (H a j x (or_introl eq_refl) Ej Ex), (IH (fun a' j' x' Hin => H a' j' x' (or_intror Hin)) js' xs' Ejs Exs). reflexivity.
Qed.

Lemma plain_canon c v j x : plain_json v = Ok j -> cv_atom c v = Ok x -> j = encc_plain x.
Proof.
  destruct v; cbn [plain_json cv_atom]; try discriminate; try (intros [= <-] [= <-]; reflexivity).
  destruct (special_flt x0); [discriminate|]. intros [= <-] [= <-]. reflexivity.
Qed.
Lemma ref_canon c v j x : ref_json c v = Ok j -> cv_atom c v = Ok x -> j = encc_ref x.
Proof.
  unfold ref_json. destruct v; cbn [ref_id cv_atom bind]; try discriminate.
  - intros [= <-] [= <-]. reflexivity.
  - destruct (hget (c_heap c) o) as [f|]; cbn [bind]; [|discriminate]. intros [= <-] [= <-]. destruct (o_id f); reflexivity.
  - destruct (find_sofa c n) as [sf|]; cbn [bind]; [|discriminate]. intros [= <-] [= <-]. reflexivity.
Qed.
Lemma float_canon c v j x : float_json v = Ok j -> cv_atom c v = Ok x -> j = encc_float x.
Proof. destruct v; cbn [float_json cv_atom]; try discriminate; intros [= <-] [= <-]; reflexivity. Qed.
Lemma byte_canon c v z x : byte_of v = Ok z -> cv_atom c v = Ok x -> z = cbyte x.
Proof. destruct v; cbn [byte_of cv_atom]; try discriminate. destruct (byte_okb z0); [|discriminate]. intros [= <-] [= <-]. reflexivity. Qed.

Lemma enc_elements_canon L c t l j els : enc_elements L c t l = Ok j -> mapM (cv_atom c) l = Ok els -> j = encc_elements L t els.
Proof.
  unfold enc_elements, encc_elements. intros Hj Hx. destruct (String.eqb t T_BYTE_ARRAY).
  - apply bind_Ok in Hj as (bs & Ebs & Hj). inversion Hj. do 2 f_equal.
    exact (mapM_pair_map byte_of (cv_atom c) cbyte l (fun a z x _ => byte_canon c a z x) bs els Ebs Hx).
  - destruct (String.eqb t T_DOUBLE_ARRAY || String.eqb t T_FLOAT_ARRAY).
    + apply bind_Ok in Hj as (js & Ejs & Hj). inversion Hj. f_equal.
      exact (mapM_pair_map float_json (cv_atom c) encc_float l (fun a z x _ => float_canon c a z x) js els Ejs Hx).
    + destruct (String.eqb t T_FS_ARRAY).
      * apply bind_Ok in Hj as (js & Ejs & Hj). inversion Hj. f_equal.
        exact (mapM_pair_map (ref_json c) (cv_atom c) encc_ref l (fun a z x _ => ref_canon c a z x) js els Ejs Hx).
      * apply bind_Ok in Hj as (js & Ejs & Hj). inversion Hj. f_equal.
        exact (mapM_pair_map plain_json (cv_atom c) encc_plain l (fun a z x _ => plain_canon c a z x) js els Ejs Hx).
Qed.

Lemma enc_value_canon c s fd v1 ms x : enc_value c s fd v1 = Ok ms -> cv_atom c v1 = Ok x -> ms = encc_value s fd x.
Proof.
  unfold enc_value, encc_value. destruct (String.eqb (fd_range fd) T_FLOAT || String.eqb (fd_range fd) T_DOUBLE).
  - destruct v1; try discriminate; cbn [cv_atom]; intros [= <-] [= <-]; reflexivity.
  - destruct (is_primitive s (fd_range fd)).
    + intros H Hx. apply bind_Ok in H as (j & Ej & H). inversion H. rewrite (plain_canon c v1 j x Ej Hx). reflexivity.
    + intros H Hx. apply bind_Ok in H as (j & Ej & H). inversion H. rewrite (ref_canon c v1 j x Ej Hx). reflexivity.
Qed.
(* what the writer accepts in a feature slot is not a list *)
Lemma enc_value_atom c s fd v1 ms : enc_value c s fd v1 = Ok ms -> match v1 with VList _ => False | _ => True end.
Proof.
  unfold enc_value. destruct v1; try exact (fun _ => I).
  destruct (String.eqb (fd_range fd) T_FLOAT || String.eqb (fd_range fd) T_DOUBLE); [discriminate|].
  destruct (is_primitive s (fd_range fd)); cbn; discriminate.
Qed.

Lemma enc_value_ref_nonprim c s fd o ms : enc_value c s fd (VRef o) = Ok ms -> is_primitive s (fd_range fd) = false.
Proof.
  unfold enc_value. destruct (String.eqb (fd_range fd) T_FLOAT || String.eqb (fd_range fd) T_DOUBLE); [discriminate|].
  destruct (is_primitive s (fd_range fd)); [cbn; discriminate|reflexivity].
Qed.

(* one feature.  Premises: a reference held in the slot goes to a structure that carries an id; `conv` is the converter of the
   annotation's own sofa *)
Lemma enc_feature_canon c s t f fd ms x conv :
  enc_feature c s t f fd = Ok ms -> cv_json c (slot f (fd_name fd)) = Ok x ->
  (is_primitive s (fd_range fd) = false -> forall o, slot f (fd_name fd) = VRef o -> exists fo i, hget (c_heap c) o = Some fo /\ o_id fo = Some i) ->
  (isa s t T_ANNOTATION = true -> forall n sf, slot f "sofa" = VSofa n -> find_sofa c n = Some sf -> forall z, conv z = p2e_text (s_text sf) z) ->
  ms = encc_feature s conv (isa s t T_ANNOTATION && is_offset_name (fd_xname fd)) fd x.
Proof.
  intros Henc Hx Href Hconv. unfold enc_feature in Henc. set (v := slot f (fd_name fd)) in *.
  destruct (is_vnone v) eqn:Evn.
  { destruct v; try discriminate. cbn in Hx. inversion Hx. inversion Henc. reflexivity. }
  apply bind_Ok in Henc as (v1 & Edoc & Henc). pose proof (enc_value_atom _ _ _ _ _ Henc) as Hat.
  unfold doc_val in Edoc. unfold encc_feature.
  destruct (isa s t T_ANNOTATION && is_offset_name (fd_xname fd)) eqn:Eoff.
  - destruct (slot f "sofa") as [| | | | | | |n] eqn:Eso; try discriminate. destruct (find_sofa c n) as [sf|] eqn:Efs; [|discriminate].
    inversion Edoc; subst v1. clear Edoc. destruct v as [|z|q|b|q|o|q|q] eqn:Ev; try discriminate; try contradiction; cbn [cv_json cv_atom] in Hx.
    + inversion Hx; subst x. cbn [conv_cval]. apply andb_true_iff in Eoff. rewrite (Hconv (proj1 Eoff) n sf eq_refl Efs z).
      exact (enc_value_canon c s fd _ ms _ Henc eq_refl).
    + inversion Hx; subst x. exact (enc_value_canon c s fd _ ms _ Henc eq_refl).
    + inversion Hx; subst x. exact (enc_value_canon c s fd _ ms _ Henc eq_refl).
    + inversion Hx; subst x. exact (enc_value_canon c s fd _ ms _ Henc eq_refl).
    + destruct (Href (enc_value_ref_nonprim _ _ _ _ _ Henc) o eq_refl) as (fo & i & Hg & Hi). cbn [ref_id] in Hx. rewrite Hg, Hi in Hx. cbn [bind] in Hx. inversion Hx; subst x.
      apply (enc_value_canon c s fd _ ms _ Henc). cbn [cv_atom ref_id]. rewrite Hg, Hi. reflexivity.
    + cbn [ref_id] in Hx. destruct (find_sofa c q) as [sf'|] eqn:Efs'; [|discriminate]. cbn [bind] in Hx. inversion Hx; subst x.
      apply (enc_value_canon c s fd _ ms _ Henc). cbn [cv_atom ref_id]. rewrite Efs'. reflexivity.
  - inversion Edoc; subst v1. clear Edoc. destruct v as [|z|q|b|q|o|q|q] eqn:Ev; try discriminate; try contradiction; cbn [cv_json cv_atom] in Hx.
    + inversion Hx; subst x. exact (enc_value_canon c s fd _ ms _ Henc eq_refl).
    + inversion Hx; subst x. exact (enc_value_canon c s fd _ ms _ Henc eq_refl).
    + inversion Hx; subst x. exact (enc_value_canon c s fd _ ms _ Henc eq_refl).
    + inversion Hx; subst x. exact (enc_value_canon c s fd _ ms _ Henc eq_refl).
    + destruct (Href (enc_value_ref_nonprim _ _ _ _ _ Henc) o eq_refl) as (fo & i & Hg & Hi). cbn [ref_id] in Hx. rewrite Hg, Hi in Hx. cbn [bind] in Hx. inversion Hx; subst x.
      apply (enc_value_canon c s fd _ ms _ Henc). cbn [cv_atom ref_id]. rewrite Hg, Hi. reflexivity.
    + cbn [ref_id] in Hx. destruct (find_sofa c q) as [sf'|] eqn:Efs'; [|discriminate]. cbn [bind] in Hx. inversion Hx; subst x.
      apply (enc_value_canon c s fd _ ms _ Henc). cbn [cv_atom ref_id]. rewrite Efs'. reflexivity.
Qed.

(* ================================================================================================================ *)
(* one structure                                                                                                     *)
(* ================================================================================================================ *)

Lemma finsert_perm x l : Permutation (finsert x l) (x :: l).
Proof.
  induction l as [|y r IH]; cbn [finsert]; [apply Permutation_refl|].
  destruct (String.leb (fst x) (fst y)); [apply Permutation_refl|]. eapply Permutation_trans; [apply perm_skip; exact IH|apply perm_swap].
Qed.
Lemma sort_feats_perm l : Permutation (sort_feats l) l.
Proof.
  unfold sort_feats. induction l as [|x r IH]; cbn [fold_right]; [constructor|].
  eapply Permutation_trans; [apply finsert_perm|constructor; exact IH].
Qed.
Lemma Forall2_map_eq {A B} (F : A -> B) l l' : Forall2 (fun a b => b = F a) l l' -> l' = map F l.
Proof. induction 1 as [|a b l l' E HF IH]; [reflexivity|]. cbn [map]. rewrite E, IH. reflexivity. Qed.
Lemma Forall2_impl_in {A B} (R S : A -> B -> Prop) l l' : Forall2 R l l' -> (forall a b, In a l -> R a b -> S a b) -> Forall2 S l l'.
Proof.
  induction 1 as [|a b l l' Hab _ IH]; intros H; constructor; [apply H; [left; reflexivity|exact Hab]|].
  apply IH. intros x y Hx. apply H. right. exact Hx.
Qed.

(* the sofa table of the canonical content resolves the sofas of the CAS to their texts *)
Definition sofas_of (c : cas) (sofas : list csofa) : Prop :=
  forall n sf, find_sofa c n = Some sf -> exists cs, find (fun cs => Z.eqb (cs_id cs) (s_xid sf)) sofas = Some cs /\ cs_text cs = s_text sf.

Lemma enc_fs_canon L s c f i m cf sofas :
  o_id f = Some i -> obj_okb s c f = true -> enc_fs L s c f = Ok m -> canon_fs s c f = Ok cf -> sofas_of c sofas ->
  (is_array_name (o_type f) = false -> forall ti fd o, sch_find s (o_type f) = Some ti -> In fd (ti_feats ti) ->
     is_primitive s (fd_range fd) = false -> slot f (fd_name fd) = VRef o -> exists fo j, hget (c_heap c) o = Some fo /\ o_id fo = Some j) ->
  m = encc_fs L s sofas (i, cf).
Proof.
  intros Hid Hok Henc Hcan Hsof Href. unfold obj_okb in Hok. apply andb_true_iff in Hok. destruct Hok as [_ Hok].
  unfold enc_fs in Henc. unfold canon_fs in Hcan. unfold encc_fs. set (t := o_type f) in *.
  destruct (sch_find s t) as [ti|] eqn:Eti; [|discriminate]. unfold id_json in Henc. rewrite Hid in Henc.
  destruct (is_array_name t) eqn:Earr.
  - destruct (slot f "elements") as [| | | | | |l|] eqn:Esl; try discriminate. cbn [cv_json] in Hcan.
    apply bind_Ok in Hcan as (v & Ev & Hcan). apply bind_Ok in Ev as (els & Eels & Ev). inversion Ev; subst v. inversion Hcan; subst cf.
    cbn [snd fst cf_type]. rewrite Earr. unfold cf_get. cbn [cf_feats alookup]. rewrite String.eqb_refl.
    destruct l as [|x r].
    + cbn [mapM] in Eels. inversion Eels; subst els. cbn [nonempty_list] in Henc. inversion Henc. reflexivity.
    + cbn [nonempty_list] in Henc. apply bind_Ok in Henc as (j & Ej & Henc). inversion Henc; subst m.
      assert (Hne : exists y ys, els = y :: ys).
      { cbn [mapM] in Eels. apply bind_Ok in Eels as (y & _ & Eels). apply bind_Ok in Eels as (ys & _ & Eels). inversion Eels. eauto. }
      destruct Hne as (y & ys & ->). rewrite (enc_elements_canon L c t (x :: r) j (y :: ys) Ej Eels). reflexivity.
  - apply bind_Ok in Henc as (mss & Ems & Henc). inversion Henc; subst m. clear Henc.
    apply bind_Ok in Hcan as (fv & Efv & Hcan). inversion Hcan; subst cf. clear Hcan. cbn [snd fst cf_type]. rewrite Earr.
    apply andb_true_iff in Hok. destruct Hok as [Hok Hann]. apply andb_true_iff in Hok. destruct Hok as [Hnames Hnd].
    rewrite forallb_forall in Hnames. apply snodup_NoDup in Hnd. specialize (Href eq_refl).
    unfold sch_feats. rewrite Eti.
    pose proof (mapM_Forall2 _ _ _ Ems) as F2. pose proof (mapM_Forall2 _ _ _ Efv) as G2.
    (* the canonical value of a feature, by name *)
    assert (Hkeys : map fst fv = map fd_xname (ti_feats ti)).
    { clear - G2. induction G2 as [|fd p l l' E _ IH]; [reflexivity|]. cbn [map]. rewrite IH. f_equal.
      apply bind_Ok in E as (v & _ & E). inversion E. reflexivity. }
    assert (Hget : forall fd, In fd (ti_feats ti) -> cv_json c (slot f (fd_name fd)) = Ok (cf_get (mkCfs t (sort_feats fv)) (fd_xname fd))).
    { intros fd Hfd. destruct (Forall2_In_l _ _ _ fd G2 Hfd) as (p & Hp & E). apply bind_Ok in E as (v & Ev & E). inversion E; subst p.
      rewrite Ev. f_equal. unfold cf_get. cbn [cf_feats].
      assert (NDk : NoDup (map fst fv)) by (rewrite Hkeys; exact Hnd).
      rewrite <- (alookup_perm (fd_xname fd) fv (sort_feats fv) NDk (Permutation_sym (sort_feats_perm fv))).
      rewrite (alookup_nodup (fd_xname fd) v fv NDk Hp). reflexivity. }
    (* the converter *)
    assert (Hconv : forall n sf, slot f "sofa" = VSofa n -> find_sofa c n = Some sf -> isa s t T_ANNOTATION = true ->
              forall z, conv_canon sofas (mkCfs t (sort_feats fv)) z = p2e_text (s_text sf) z).
    { intros n sf Eso Efs Eann z. rewrite Eann, Eso, Efs in Hann. apply andb_true_iff in Hann. destruct Hann as [_ Hx].
      destruct (xfind (ti_feats ti) "begin"); [|discriminate]. destruct (xfind (ti_feats ti) "end"); [|discriminate].
      destruct (xfind (ti_feats ti) "sofa") as [fso|] eqn:Es; [|discriminate].
      rewrite !andb_true_iff in Hx. destruct Hx as (((_ & _) & Hns) & _). apply String.eqb_eq in Hns.
      destruct (xfind_in _ _ _ Es) as [Hsin Hsx]. pose proof (Hget fso Hsin) as Hg. rewrite Hns, Eso, Hsx in Hg.
      cbn [cv_json cv_atom ref_id] in Hg. rewrite Efs in Hg. cbn [bind] in Hg. inversion Hg as [Hg'].
      unfold conv_canon. rewrite <- Hg'. destruct (Hsof n sf Efs) as (cs & -> & ->). reflexivity. }
    assert (Hmss : mss = map (fun fd => encc_feature s (conv_canon sofas (mkCfs t (sort_feats fv))) (isa s t T_ANNOTATION && is_offset_name (fd_xname fd)) fd
                                                        (cf_get (mkCfs t (sort_feats fv)) (fd_xname fd))) (ti_feats ti)).
    { apply Forall2_map_eq. apply (Forall2_impl_in _ _ _ _ F2). intros fd ms Hfd E.
      apply (enc_feature_canon c s t f fd ms _ _ E (Hget fd Hfd)); [intros Hnp o Ho; exact (Href ti fd o eq_refl Hfd Hnp Ho)|].
      intros Eann n sf Eso Efs z. exact (Hconv n sf Eso Efs Eann z). }
    rewrite Hmss. reflexivity.
Qed.

(* ================================================================================================================ *)
(* sorting by id                                                                                                     *)
(* ================================================================================================================ *)

Section SortBy.
  Context {A : Type} (key : A -> Z).
  Lemma insert_by_head x T : Forall (fun z => key x <= key z) T -> insert_by key x T = x :: T.
  Proof. destruct T as [|y r]; [reflexivity|]. intros H. inversion H; subst. cbn [insert_by]. destruct (key x <=? key y) eqn:E; [reflexivity|lia]. Qed.
  Lemma insert_by_keys_perm x S : Permutation (map key (insert_by key x S)) (key x :: map key S).
  Proof. change (key x :: map key S) with (map key (x :: S)). apply (Permutation_map key). apply insert_by_is_perm. Qed.
  Lemma insert_by_sorted x S : StronglySorted Z.le (map key S) -> StronglySorted Z.le (map key (insert_by key x S)).
  Proof.
    induction S as [|y r IH]; intros H; cbn [insert_by map]; [repeat constructor|]. cbn [map] in H. inversion H as [|? ? Hr Hy]; subst.
    destruct (key x <=? key y) eqn:E; cbn [map].
    - constructor; [exact H|]. constructor; [lia|]. rewrite Forall_forall in Hy |- *. intros z Hz. specialize (Hy z Hz). lia.
    - constructor; [apply IH; exact Hr|]. rewrite Forall_forall in Hy |- *. intros z Hz.
      apply (Permutation_in _ (insert_by_keys_perm x r)) in Hz. destruct Hz as [<-|Hz]; [lia|apply Hy; exact Hz].
  Qed.
  Lemma sort_by_sorted l : StronglySorted Z.le (map key (sort_by key l)).
  Proof. unfold sort_by. induction l as [|x r IH]; cbn [fold_right map]; [constructor|apply insert_by_sorted; exact IH]. Qed.
  Lemma sort_by_of_sorted l : StronglySorted Z.le (map key l) -> sort_by key l = l.
  Proof.
    unfold sort_by. induction l as [|x r IH]; intros H; [reflexivity|]. cbn [map] in H. inversion H as [|? ? Hr Hx]; subst.
    cbn [fold_right]. rewrite (IH Hr). apply insert_by_head. rewrite Forall_forall in Hx |- *. intros z Hz. apply Hx. apply in_map. exact Hz.
  Qed.
  Lemma filter_insert_by (p : A -> bool) x S : StronglySorted Z.le (map key S) ->
    filter p (insert_by key x S) = if p x then insert_by key x (filter p S) else filter p S.
  Proof.
    induction S as [|y r IH]; intros H; cbn [insert_by filter]; [destruct (p x); reflexivity|]. cbn [map] in H. inversion H as [|? ? Hr Hy]; subst.
    destruct (key x <=? key y) eqn:E.
    - cbn [filter]. destruct (p x); [|reflexivity]. symmetry. apply insert_by_head. rewrite Forall_forall in Hy |- *.
      intros z Hz. assert (Hz' : In z (y :: r)) by (destruct (p y); [destruct Hz as [<-|Hz]; [left; reflexivity|right]|right]; apply filter_In in Hz; tauto).
      destruct Hz' as [<-|Hz']; [lia|]. specialize (Hy (key z) (in_map key _ _ Hz')). lia.
    - cbn [filter]. rewrite (IH Hr). destruct (p y), (p x); try reflexivity. cbn [insert_by]. rewrite E. reflexivity.
  Qed.
  Lemma filter_sort_by (p : A -> bool) l : filter p (sort_by key l) = sort_by key (filter p l).
  Proof.
    induction l as [|x r IH]; [reflexivity|]. change (sort_by key (x :: r)) with (insert_by key x (sort_by key r)).
    rewrite (filter_insert_by p x _ (sort_by_sorted r)), IH. cbn [filter]. destruct (p x); reflexivity.
  Qed.
End SortBy.
Lemma sort_ids_eq l : sort_ids l = sort_by fst l.
Proof.
  unfold sort_ids, sort_by. induction l as [|x r IH]; [reflexivity|]. cbn [fold_right]. rewrite IH. generalize (fold_right (insert_by fst) [] r).
  intros m. induction m as [|y m' IHm]; [reflexivity|]. cbn [insert_id insert_by]. rewrite IHm. reflexivity.
Qed.

(* ================================================================================================================ *)
(* sofa and view entries                                                                                             *)
(* ================================================================================================================ *)

Lemma enc_sofa_canon L c v ms cs :
  enc_sofa L c (v_sofa v) = Ok ms -> canon_sofa c v = Ok cs ->
  (forall o, s_arr (v_sofa v) = Some o -> exists f i, hget (c_heap c) o = Some f /\ o_id f = Some i) ->
  ms = encc_sofa L cs.
Proof.
  unfold enc_sofa, canon_sofa, encc_sofa. intros He Hc Ha.
  apply bind_Ok in Hc as (arr & Earr & Hc). apply bind_Ok in Hc as (mids & _ & Hc). inversion Hc; subst cs. clear Hc.
  cbn [cs_id cs_num cs_name cs_mime cs_arr cs_text cs_uri].
  apply bind_Ok in He as (am & Eam & He). inversion He; subst ms. clear He. do 5 f_equal.
  destruct (s_arr (v_sofa v)) as [o|].
  - destruct (Ha o eq_refl) as (f & i & Hg & Hi). cbn [ref_id] in Earr. rewrite Hg, Hi in Earr. inversion Earr; subst arr.
    unfold ref_json, ref_id in Eam. rewrite Hg, Hi in Eam. cbn [bind] in Eam. inversion Eam; subst am. reflexivity.
  - inversion Earr; inversion Eam. reflexivity.
Qed.
Lemma view_json_canon c v mids cs : member_ids (c_heap c) (v_members v) = Ok mids -> canon_sofa c v = Ok cs -> vjson v mids = encc_view cs.
Proof.
  unfold canon_sofa. intros Hm Hc. apply bind_Ok in Hc as (arr & _ & Hc). rewrite Hm in Hc. cbn [bind] in Hc. inversion Hc. reflexivity.
Qed.

(* ================================================================================================================ *)
(* generic list facts                                                                                                *)
(* ================================================================================================================ *)

Lemma mapM_app_inv {A B} (f : A -> res B) a b r : mapM f (a ++ b) = Ok r -> exists r1 r2, mapM f a = Ok r1 /\ mapM f b = Ok r2 /\ r = r1 ++ r2.
Proof.
  rewrite mapM_app. intros H. apply bind_Ok in H as (r1 & E1 & H). apply bind_Ok in H as (r2 & E2 & H). inversion H. eauto.
Qed.
Lemma Forall2_map_l {A B C} (g : A -> B) (R : B -> C -> Prop) l r : Forall2 R (map g l) r -> Forall2 (fun a c => R (g a) c) l r.
Proof. revert r. induction l as [|a t IH]; intros r H; inversion H; subst; constructor; auto. Qed.
Lemma Forall2_shared {A B C} (R : A -> B -> Prop) (S : A -> C -> Prop) (T : B -> C -> Prop) l lb lc :
  Forall2 R l lb -> Forall2 S l lc -> (forall x y z, In x l -> R x y -> S x z -> T y z) -> Forall2 T lb lc.
Proof.
  intros H. revert lc. induction H as [|a b l lb Hab HF IH]; intros lc HS HT; inversion HS as [|? z ? lc' Haz HS']; subst; constructor.
  - apply (HT a b z); [left; reflexivity|exact Hab|exact Haz].
  - apply IH; [exact HS'|]. intros x y z0 Hx. apply HT. right. exact Hx.
Qed.
Lemma Forall2_mapM {A B} (f : A -> res B) l r : Forall2 (fun a b => f a = Ok b) l r -> mapM f l = Ok r.
Proof. induction 1 as [|a b l r E _ IH]; [reflexivity|]. cbn [mapM]. rewrite E, IH. reflexivity. Qed.
Lemma app_tail2 {A} (l l' : list A) a b a' b' : l ++ [a; b] = l' ++ [a'; b'] -> l = l' /\ a = a' /\ b = b'.
Proof.
  change [a; b] with ([a] ++ [b]). change [a'; b'] with ([a'] ++ [b']). rewrite !app_assoc. intros H.
  apply app_inj_tail in H. destruct H as [H ->]. apply app_inj_tail in H. destruct H as [-> ->]. auto.
Qed.
Lemma filter_none {A} (p : A -> bool) l : (forall x, In x l -> p x = false) -> filter p l = [].
Proof. induction l as [|x r IH]; intros H; [reflexivity|]. cbn [filter]. rewrite (H x (or_introl eq_refl)). apply IH. intros y Hy. apply H. right. exact Hy. Qed.
Lemma filter_all {A} (p : A -> bool) l : (forall x, In x l -> p x = true) -> filter p l = l.
Proof. induction l as [|x r IH]; intros H; [reflexivity|]. cbn [filter]. rewrite (H x (or_introl eq_refl)). f_equal. apply IH. intros y Hy. apply H. right. exact Hy. Qed.
Lemma find_by_name n (l : list csofa) x : NoDup (map cs_name l) -> In x l -> cs_name x = n -> find (fun y => String.eqb (cs_name y) n) l = Some x.
Proof.
  intros ND Hi <-. induction l as [|y r IH]; [destruct Hi|]. cbn [map] in ND. inversion ND as [|? ? Hn ND']; subst.
  cbn [find]. destruct Hi as [->|Hi]; [rewrite String.eqb_refl; reflexivity|].
  destruct (String.eqb (cs_name y) (cs_name x)) eqn:E; [|apply IH; assumption]. apply String.eqb_eq in E. exfalso. apply Hn. rewrite E. apply in_map. exact Hi.
Qed.
Lemma find_by_csid i (l : list csofa) x : NoDup (map cs_id l) -> In x l -> cs_id x = i -> find (fun y => Z.eqb (cs_id y) i) l = Some x.
Proof.
  intros ND Hi <-. induction l as [|y r IH]; [destruct Hi|]. cbn [map] in ND. inversion ND as [|? ? Hn ND']; subst.
  cbn [find]. destruct Hi as [->|Hi]; [rewrite Z.eqb_refl; reflexivity|].
  destruct (Z.eqb (cs_id y) (cs_id x)) eqn:E; [|apply IH; assumption]. apply Z.eqb_eq in E. exfalso. apply Hn. rewrite E. apply in_map. exact Hi.
Qed.
Lemma canon_item_inv s c o p : canon_item s c o = Ok p -> exists f cf, hget (c_heap c) o = Some f /\ o_id f = Some (fst p) /\ canon_fs s c f = Ok cf /\ snd p = cf.
Proof.
  unfold canon_item. destruct (hget (c_heap c) o) as [f|]; [|discriminate]. destruct (o_id f) as [i|] eqn:Ei; [|discriminate].
  intros H. apply bind_Ok in H as (cf & Ecf & H). inversion H; subst p. exists f, cf. cbn [fst snd]. repeat split; assumption.
Qed.
Lemma canon_fs_type s c f cf : canon_fs s c f = Ok cf -> cf_type cf = o_type f.
Proof.
  unfold canon_fs. destruct (sch_find s (o_type f)); [|discriminate]. destruct (is_array_name (o_type f)); intros H.
  - apply bind_Ok in H as (v & _ & H). inversion H. reflexivity.
  - apply bind_Ok in H as (fv & _ & H). inversion H. reflexivity.
Qed.
Lemma NoDup_app_disjoint {A} (a b : list A) x : NoDup (a ++ b) -> In x a -> In x b -> False.
Proof.
  induction a as [|y r IH]; intros ND Ha Hb; [destruct Ha|]. cbn [app] in ND. inversion ND as [|? ? Hn ND']; subst.
  destruct Ha as [->|Ha]; [apply Hn; apply in_or_app; right; exact Hb|exact (IH ND' Ha Hb)].
Qed.

(* ================================================================================================================ *)
(* the writer's document is the document of the canonical content                                                    *)
(* ================================================================================================================ *)

Lemma canon_items_ids s c l r : mapM (canon_item s c) l = Ok r ->
  map fst r = flat_map (fun o => match hget (c_heap c) o with
                                 | Some f => match o_id f with Some i => [i] | None => [] end
                                 | None => [] end) l.
Proof.
  revert r. induction l as [|o t IH]; intros r H; cbn [mapM] in H; [inversion H; reflexivity|].
  apply bind_Ok in H as (p & Ep & H). apply bind_Ok in H as (ps & Eps & H). inversion H; subst r. cbn [map flat_map].
  destruct (canon_item_inv _ _ _ _ Ep) as (f & cf & -> & -> & _). rewrite (IH ps Eps). reflexivity.
Qed.

Lemma Forall2_keys {A B} (R : A -> B -> Prop) (ka : A -> Z) (kb : B -> Z) l r :
  Forall2 R l r -> (forall a b, In a l -> R a b -> kb b = ka a) -> map kb r = map ka l.
Proof.
  induction 1 as [|a b l r Hab _ IH]; intros H; [reflexivity|]. cbn [map]. rewrite (H a b (or_introl eq_refl) Hab), IH; [reflexivity|].
  intros x y Hx. apply H. right. exact Hx.
Qed.
Lemma Forall2_map_r_eq {A B C} (R : A -> B -> Prop) (g : A -> C) (h : B -> C) l r :
  Forall2 R l r -> (forall a b, In a l -> R a b -> h b = g a) -> map h r = map g l.
Proof.
  induction 1 as [|a b l r Hab _ IH]; intros H; [reflexivity|]. cbn [map]. rewrite (H a b (or_introl eq_refl) Hab), IH; [reflexivity|].
  intros x y Hx. apply H. right. exact Hx.
Qed.
Lemma NoDup_app_r {A} (a b : list A) : NoDup (a ++ b) -> NoDup b.
Proof. induction a as [|x r IH]; intros H; [exact H|]. cbn [app] in H. inversion H; subst. apply IH. assumption. Qed.
Lemma canon_sofa_arr c v cs : canon_sofa c v = Ok cs ->
  cs_arr cs = match s_arr (v_sofa v) with None => None | Some o => match hget (c_heap c) o with Some f => o_id f | None => None end end /\
  cs_text cs = s_text (v_sofa v).
Proof.
  unfold canon_sofa. intros H. apply bind_Ok in H as (arr & Ea & H). apply bind_Ok in H as (ms & _ & H). inversion H; subst cs. cbn [cs_arr cs_text].
  split; [|reflexivity]. destruct (s_arr (v_sofa v)) as [o|]; [|inversion Ea; reflexivity]. cbn [ref_id] in Ea.
  destruct (hget (c_heap c) o); [|discriminate]. inversion Ea. reflexivity.
Qed.
Lemma Forall2_map_l_rev {A B C} (g : A -> B) (R : B -> C -> Prop) l r : Forall2 (fun a c => R (g a) c) l r -> Forall2 R (map g l) r.
Proof. induction 1; cbn [map]; constructor; auto. Qed.
Lemma Forall2_map_r_rev {A B C} (g : C -> B) (R : A -> B -> Prop) l r : Forall2 (fun a c => R a (g c)) l r -> Forall2 R l (map g r).
Proof. induction 1; cbn [map]; constructor; auto. Qed.

(* ---- %TYPES does not depend on predefined types among the used types (the type of a byte array the views loop wrote still
   counts for used_types; uima.cas.ByteArray is predefined, and transitive_closure skips predefined types) ---- *)
Inductive dropP : list tname -> list tname -> nat -> Prop :=
| dp_nil : dropP [] [] 0
| dp_keep x l l' d : dropP l l' d -> dropP (x :: l) (x :: l') d
| dp_drop x l l' d : is_predefined x = true -> dropP l l' d -> dropP (x :: l) l' (S d).
Lemma dropP_refl z : dropP z z 0.
Proof. induction z; constructor; assumption. Qed.
Lemma dropP_app l l' d z : dropP l l' d -> dropP (l ++ z) (l' ++ z) d.
Proof. induction 1; cbn [app]; [apply dropP_refl|constructor; assumption|constructor; assumption]. Qed.
Lemma dropP_len l l' d : dropP l l' d -> (List.length l = List.length l' + d)%nat.
Proof. induction 1; cbn [List.length]; lia. Qed.
Lemma dropP_filter {A} (ty : A -> tname) (q : A -> bool) l :
  (forall x, In x l -> q x = false -> is_predefined (ty x) = true) -> exists d, dropP (map ty l) (map ty (filter q l)) d.
Proof.
  induction l as [|x r IH]; intros H; [exists 0%nat; constructor|].
  destruct IH as (d & HD); [intros y Hy; apply H; right; exact Hy|]. cbn [map filter]. destruct (q x) eqn:E.
  - exists d. cbn [map]. constructor. exact HD.
  - exists (S d). constructor; [apply H; [left; reflexivity|exact E]|exact HD].
Qed.
Lemma tclosure_drop s : forall n open open' d vis r, dropP open open' d -> tclosure n s vis open = Ok r ->
  (d <= n)%nat /\ tclosure (n - d) s vis open' = Ok r.
Proof.
  induction n as [|k IH]; intros open open' d vis r HD H.
  - destruct open as [|t rest]; cbn [tclosure] in H; [|discriminate]. inversion HD; subst. split; [lia|]. exact H.
  - destruct open as [|t rest].
    { inversion HD; subst. split; [lia|]. exact H. }
    inversion HD as [|x l l' d0 HD'|x l l' d0 Hp HD']; subst.
    + cbn [tclosure] in H. destruct (memb t vis) eqn:Ev.
      { destruct (IH _ _ _ _ _ HD' H) as [Hle E]. split; [lia|]. replace (S k - d)%nat with (S (k - d)) by lia. cbn [tclosure]. rewrite Ev. exact E. }
      destruct (is_predefined t) eqn:Ep.
      { destruct (IH _ _ _ _ _ HD' H) as [Hle E]. split; [lia|]. replace (S k - d)%nat with (S (k - d)) by lia. cbn [tclosure]. rewrite Ev, Ep. exact E. }
      destruct (sch_find s t) as [ti|] eqn:Et; [|discriminate].
      destruct (IH _ _ _ _ _ (dropP_app _ _ _ _ HD') H) as [Hle E]. split; [lia|]. replace (S k - d)%nat with (S (k - d)) by lia.
      cbn [tclosure]. rewrite Ev, Ep, Et. exact E.
    + cbn [tclosure] in H. rewrite Hp in H. assert (H' : tclosure k s vis rest = Ok r) by (destruct (memb t vis); exact H).
      destruct (IH _ _ _ _ _ HD' H') as [Hle E]. split; [lia|]. replace (S k - S d0)%nat with (k - d0)%nat by lia. exact E.
Qed.
Lemma ser_types_drop s mode used used' d t : dropP used used' d -> ser_types s mode used = Ok t -> ser_types s mode used' = Ok t.
Proof.
  intros HD H. destruct mode; [exact H| |exact H].
  unfold ser_types in *. unfold types_to_include in *.
  destruct (tclosure (closure_fuel s used) s [] used) as [names| |] eqn:E; cbn [bind] in H; try discriminate.
  destruct (tclosure_drop s _ _ _ _ _ _ HD E) as [Hle E'].
  assert (Hf : (closure_fuel s used - d)%nat = closure_fuel s used').
  { unfold closure_fuel. rewrite (dropP_len _ _ _ HD). lia. }
  rewrite Hf in E'. rewrite E'. cbn [bind]. exact H.
Qed.

Lemma flat_map_inj {A B} (g : A -> list B) l : NoDup (flat_map g l) ->
  forall x y i, In x l -> In y l -> In i (g x) -> In i (g y) -> x = y.
Proof.
  induction l as [|a t IH]; intros ND x y i Hx Hy Hix Hiy; [destruct Hx|]. cbn [flat_map] in ND.
  destruct Hx as [<-|Hx], Hy as [<-|Hy]; [reflexivity| | |exact (IH (NoDup_app_r _ _ ND) x y i Hx Hy Hix Hiy)].
  - exfalso. apply (NoDup_app_disjoint _ _ i ND Hix). apply in_flat_map. exists y. split; assumption.
  - exfalso. apply (NoDup_app_disjoint _ _ i ND Hiy). apply in_flat_map. exists x. split; assumption.
Qed.

(* the writer's document is the document of the canonical content of the CAS it leaves behind, with the views in the order of
   that CAS *)
Theorem save_json_canon L s mode c d c2 cc :
  lex_ok L -> save_json L s mode c = Ok (d, c2) -> wf_jsonb s c2 = true -> 0 < c_next_id c ->
  ids_distinctb s c2 = true -> refs_wfb s c2 = true -> canon_json s c2 = Ok cc ->
  doc_of_canon L s mode (map (fun v => s_name (v_sofa v)) (c_views c2)) cc = Ok d.
Proof.
  intros HL Hsave Hwf Hpos Hid Hrw Hcan.
  (* the writer, once more, for %TYPES *)
  pose proof Hsave as Hsave0. unfold save_json in Hsave0. apply bind_Ok in Hsave0 as ([[[[c1 sofa_fs] views0] wr0] w0] & Esf & Hsave0).
  cbv beta iota in Hsave0. apply bind_Ok in Hsave0 as (fss0 & Efss0 & Hsave0). apply bind_Ok in Hsave0 as (used & Eused & Hsave0).
  apply bind_Ok in Hsave0 as (types0 & Ety & Hsave0). injection Hsave0 as Hd0 Hc2.
  destruct (save_found_stable L s c c1 sofa_fs views0 wr0 w0 Hpos Esf) as (_ & _ & Ew0). rewrite Hc2 in Ew0, Eused.
  destruct (save_json_parts L s mode c d c2 HL Hsave Hwf Hpos)
    as (w & types & outs & fss & Ev & Ef & sofas0 & Ew & Hheap & Hviews & Hty & Hd & Houts & Efss & HV & HF & Hfound & Harrs & Hn & Hi).
  rewrite Ew in Ew0. inversion Ew0; subst w0. clear Ew0.
  assert (Htypes : types0 = types).
  { rewrite <- Hd0 in Hd. inversion Hd as [Hl]. exact (proj1 (app_tail2 _ _ _ _ _ _ Hl)). }
  subst types0. clear Hd0 Hty.
  assert (Htv : tviews c = tviews c2) by (unfold tviews; rewrite Hviews; reflexivity).
  rewrite Htv in Houts. rewrite <- Hviews in Harrs.
  unfold refs_wfb in Hrw. rewrite Ew in Hrw. rewrite !andb_true_iff in Hrw. destruct Hrw as [[Hnonull Harrsch] Hsofaslot].
  pose proof (mapM_Forall2 _ _ _ Houts) as FO.
  (* the canonical content *)
  unfold canon_json in Hcan. rewrite Ew in Hcan. cbn [bind] in Hcan. unfold canon_of, listed in Hcan.
  change (fun o : oid => match hget (c_heap c2) o with
                         | Some f => match o_id f with Some i => do cf <- canon_fs s c2 f ;; Ok (i, cf) | None => Err EValue end
                         | None => Err EAttribute end) with (canon_item s c2) in Hcan.
  fold (found_list c2 w) in Hcan.
  apply bind_Ok in Hcan as (items & Eitems & Hcan). apply bind_Ok in Hcan as (sofas & Esofas & Hcan). inversion Hcan; subst cc. clear Hcan.
  destruct (mapM_app_inv _ _ _ _ Eitems) as (rs1 & rs2 & E1 & E2 & ->). clear Eitems.
  pose proof (mapM_Forall2 _ _ _ Esofas) as FS.
  pose proof (Forall2_map_l snd (fun o p => canon_item s c2 o = Ok p) _ _ (mapM_Forall2 _ _ _ E2)) as F2. cbv beta in F2.
  (* ids *)
  assert (Hfound' : forall io, In io (found_list c2 w) -> found_okP s c2 io) by (intros io Hio; apply Hfound; exact (in_found_list c2 w io Hio)).
  assert (Hids2 : map fst rs2 = map fst (found_list c2 w)).
  { apply (Forall2_keys _ fst fst _ _ F2). intros io p Hio E. destruct (canon_item_inv _ _ _ _ E) as (f & cf & Hg & Hi' & _).
    destruct (Hfound' io Hio) as (f' & Hg' & _ & Hi''). rewrite Hg in Hg'. inversion Hg'; subst f'. rewrite Hi' in Hi''. inversion Hi'' as [H0]. exact H0. }
  assert (Hids1 : map fst rs1 = flat_map (arr_id c2) (sofa_arrays_once c2)) by exact (canon_items_ids _ _ _ _ E1).
  unfold ids_distinctb in Hid. rewrite Ew in Hid. apply znodup_iff in Hid. apply NoDup_app_r in Hid.
  assert (Hnd : NoDup (map fst (rs1 ++ rs2))).
  { rewrite map_app, Hids1, Hids2.
    eapply Permutation_NoDup; [|exact Hid]. eapply Permutation_trans; [apply Permutation_app_comm|].
    apply Permutation_app_head. apply Permutation_map. unfold found_list, unwritten. apply filter_perm. apply Permutation_sym. apply sort_ids_is_perm. }
  assert (Hsa_in : forall o, In o (sofa_arrays_once c2) <-> In o (sofa_arrays c2)).
  { intros o. rewrite <- !omem_In, sofa_arrays_once_mem. reflexivity. }
  (* two sofa byte arrays with the same id are the same object *)
  assert (Harr_inj : forall o o' i, In o (sofa_arrays c2) -> In o' (sofa_arrays c2) -> In i (arr_id c2 o) -> In i (arr_id c2 o') -> o = o').
  { intros o o' i Ho Ho'. apply (flat_map_inj (arr_id c2) (sofa_arrays_once c2) (NoDup_app_r _ _ Hid)); apply Hsa_in; assumption. }
  assert (Hsa_v : forall o, In o (sofa_arrays c2) <-> exists v, In v (c_views c2) /\ s_arr (v_sofa v) = Some o).
  { intros o. unfold sofa_arrays. rewrite in_flat_map. split; intros (v & Hv & H); exists v; (split; [exact Hv|]).
    - destruct (s_arr (v_sofa v)) as [o'|]; [|destruct H]. destruct H as [->|[]]. reflexivity.
    - rewrite H. left. reflexivity. }
  (* the sofas *)
  assert (Hnames : NoDup (map cs_name sofas)).
  { rewrite (Forall2_map_r_eq _ (fun v => s_name (v_sofa v)) cs_name _ _ FS (fun a b _ H => proj1 (proj2 (proj2 (canon_sofa_fields c2 a b H))))).
    apply snodup_NoDup. rewrite map_map in Hn. exact Hn. }
  assert (Hcsids : NoDup (map cs_id sofas)).
  { rewrite (Forall2_map_r_eq _ (fun v => s_xid (v_sofa v)) cs_id _ _ FS (fun a b _ H => proj1 (canon_sofa_fields c2 a b H))).
    apply znodup_NoDup. rewrite map_map in Hi. exact Hi. }
  set (SL := sort_by cs_id sofas). assert (PSL : Permutation SL sofas) by apply sort_by_is_perm.
  set (CC := mkCcas SL (sort_by fst (rs1 ++ rs2))).
  assert (InSL : forall cs, In cs sofas -> In cs SL) by (intros cs H; eapply Permutation_in; [apply Permutation_sym; exact PSL|exact H]).
  assert (HSO : sofas_of c2 SL).
  { intros n sf Hfs. destruct (find_sofa_in _ _ _ Hfs) as (v & Hv & -> & _). destruct (Forall2_In_l _ _ _ v FS Hv) as (cs & Hcs & Ec).
    destruct (canon_sofa_fields _ _ _ Ec) as (Ei & _). exists cs. split; [|exact (proj2 (canon_sofa_arr _ _ _ Ec))].
    apply find_by_csid; [eapply Permutation_NoDup; [apply Permutation_map, Permutation_sym, PSL|exact Hcsids]|exact (InSL cs Hcs)|exact Ei]. }
  assert (Hvs : mapM (fun n => match find (fun cs => String.eqb (cs_name cs) n) SL with Some cs => Ok cs | None => Err EKey end)
                     (map (fun v => s_name (v_sofa v)) (c_views c2)) = Ok sofas).
  { apply Forall2_mapM. apply Forall2_map_l_rev. apply (Forall2_impl_in _ _ _ _ FS). intros v cs Hv Ec.
    destruct (Forall2_In_l _ _ _ v FS Hv) as (cs' & Hcs & Ec'). rewrite Ec in Ec'. inversion Ec'; subst cs'.
    rewrite (find_by_name (s_name (v_sofa v)) SL cs); [reflexivity| |exact (InSL cs Hcs)|exact (proj1 (proj2 (proj2 (canon_sofa_fields _ _ _ Ec))))].
    eapply Permutation_NoDup; [apply Permutation_map, Permutation_sym, PSL|exact Hnames]. }
  (* which canonical entries are sofa byte arrays *)
  assert (Harrids : forall a, In a (arr_ids_of CC) <-> In a (map fst rs1)).
  { intros a. unfold arr_ids_of. cbn [cc_sofas CC]. rewrite Hids1. split; intros H; apply in_flat_map in H; apply in_flat_map.
    - destruct H as (cs & Hcs & Ha). apply (Permutation_in _ PSL) in Hcs. destruct (Forall2_In_r _ _ _ _ FS Hcs) as (v & Hv & Ec).
      pose proof (proj1 (canon_sofa_arr _ _ _ Ec)) as Ea. rewrite Ea in Ha.
      destruct (s_arr (v_sofa v)) as [o|] eqn:Eo; [|destruct Ha]. exists o. split; [apply Hsa_in, Hsa_v; exists v; split; assumption|].
      unfold arr_id. destruct (hget (c_heap c2) o) as [f|]; [|destruct Ha]. destruct (o_id f); exact Ha.
    - destruct H as (o & Ho & Ha). apply Hsa_in, Hsa_v in Ho. destruct Ho as (v & Hv & Eo).
      destruct (Forall2_In_l _ _ _ v FS Hv) as (cs & Hcs & Ec). exists cs. split; [exact (InSL cs Hcs)|].
      rewrite (proj1 (canon_sofa_arr _ _ _ Ec)), Eo. unfold arr_id in Ha.
      destruct (hget (c_heap c2) o) as [f|]; [|destruct Ha]. destruct (o_id f); exact Ha. }
  assert (Hfound_of : found_of CC = rs2).
  { unfold found_of. cbn [cc_fs CC]. rewrite filter_sort_by, filter_app, (filter_none _ rs1), (filter_all _ rs2), app_nil_l.
    - apply sort_by_of_sorted.
      assert (E : map fst rs2 = map fst (sort_by fst (unwritten (sofa_arrays c2) (w_all w)))).
      { rewrite Hids2. unfold found_list, unwritten. rewrite sort_ids_eq, filter_sort_by. reflexivity. }
      exact (eq_ind_r (StronglySorted Z.le) (sort_by_sorted fst _) E).
    - intros p Hp. apply negb_true_iff. destruct (zmem (fst p) (arr_ids_of CC)) eqn:E; [|first [reflexivity|exact E]]. apply zmem_In, Harrids in E. exfalso.
      apply (NoDup_app_disjoint (map fst rs1) (map fst rs2) (fst p)); [rewrite <- map_app; exact Hnd|exact E|apply in_map; exact Hp].
    - intros p Hp. apply negb_false_iff. apply zmem_In. apply Harrids. apply in_map. exact Hp. }
  (* the structures found *)
  assert (Hfss : fss = map (fun p => JObj (encc_fs L s SL p)) rs2).
  { apply Forall2_map_eq. apply (Forall2_shared _ _ _ _ _ _ F2 (mapM_Forall2 _ _ _ Efss)). intros io p j Hio Ep Ej.
    destruct (Hfound' io Hio) as (f & Hg & Hok & Hio'). unfold fs_at in Ej. rewrite Hg in Ej. cbn [bind] in Ej.
    apply bind_Ok in Ej as (m & Em & Ej). inversion Ej; subst j. f_equal.
    destruct (canon_item_inv _ _ _ _ Ep) as (f' & cf & Hg' & Hip & Ecf & Esnd). rewrite Hg in Hg'. inversion Hg'; subst f'.
    rewrite Hio' in Hip. inversion Hip as [Hfst]. destruct p as [ip cfp]. cbn [fst snd] in *. subst cfp ip.
    apply (enc_fs_canon L s c2 f (fst io) m cf SL Hio' Hok Em Ecf HSO).
    intros Harr ti fd o Hti Hfd Hnp Hsl. apply (in_found_list c2 w) in Hio. destruct io as [i0 o0]. cbn [fst snd] in *.
    destruct (ref_resolves_feature s c2 w Ew Hheap Hnonull Harrsch Hsofaslot i0 o0 f ti fd o Hio Hg Hti Harr Hfd Hnp Hsl) as (i' & Er & _).
    unfold ref_json, ref_id in Er. destruct (hget (c_heap c2) o) as [fo|] eqn:Ego; [|discriminate]. cbn [bind] in Er.
    destruct (o_id fo) as [j|] eqn:Ejo; [|discriminate]. exists fo, j. split; [reflexivity|exact Ejo]. }
  (* %TYPES: the used types are those of everything the traversal found, the byte arrays the views loop wrote included *)
  set (ty := fun io : xid * oid => match hget (c_heap c2) (snd io) with Some f => o_type f | None => ""%string end).
  assert (Hused : used = map ty (sort_ids (w_all w))).
  { apply Forall2_map_eq. apply (Forall2_impl_in _ _ _ _ (mapM_Forall2 _ _ _ Eused)). intros io t _ Et. unfold fs_at in Et. unfold ty.
    destruct (hget (c_heap c2) (snd io)); [|discriminate]. cbn [bind] in Et. inversion Et. reflexivity. }
  assert (Hused2 : map (fun p => cf_type (snd p)) rs2 = map ty (found_list c2 w)).
  { apply (Forall2_map_r_eq _ ty (fun p => cf_type (snd p)) _ _ F2). intros io p _ Ep.
    destruct (canon_item_inv _ _ _ _ Ep) as (f & cf & Hg & _ & Ecf & Esnd). unfold ty. rewrite Hg, Esnd. exact (canon_fs_type _ _ _ _ Ecf). }
  assert (Hty2 : ser_types s mode (map (fun p => cf_type (snd p)) rs2) = Ok types).
  { destruct (dropP_filter ty (fun io => negb (omem (snd io) (sofa_arrays c2))) (sort_ids (w_all w))) as (dd & HD).
    - intros io _ Hq. apply negb_false_iff, omem_In, Hsa_v in Hq. destruct Hq as (v & Hv & Eo).
      destruct (Harrs v _ Hv Eo) as (f & i & Hg & [Ht _] & _). unfold ty. rewrite Hg. apply String.eqb_eq in Ht. rewrite Ht. reflexivity.
    - rewrite Hused2. rewrite Hused in Ety. exact (ser_types_drop s mode _ _ dd types HD Ety). }
  (* the views loop *)
  assert (Hper : forall vs wr sofas' outs',
            Forall2 (fun v cs => canon_sofa c2 v = Ok cs) vs sofas' ->
            Forall2 (fun p out => view_out L s c2 p = Ok out) (tag_views wr vs) outs' ->
            (forall v, In v vs -> In v (c_views c2)) -> (forall o, In o wr -> In o (sofa_arrays c2)) ->
            view_prefixes L s CC (flat_map (arr_id c2) wr) sofas' = Ok (map fst outs') /\ map snd outs' = map encc_view sofas').
  { induction vs as [|v r IH]; intros wr sofas' outs' FS' FO' Hvs' Hwr.
    - assert (Hs' : sofas' = []) by (inversion FS'; reflexivity). assert (Ho' : outs' = []) by (cbn [tag_views] in FO'; inversion FO'; reflexivity).
      rewrite Hs', Ho'. split; reflexivity.
    - destruct sofas' as [|cs sr]; [inversion FS'|]. cbn [tag_views] in FO'. destruct outs' as [|out outr]; [inversion FO'|].
      assert (FS2 : canon_sofa c2 v = Ok cs /\ Forall2 (fun v cs => canon_sofa c2 v = Ok cs) r sr) by (inversion FS'; split; assumption).
      destruct FS2 as [Ec FSr].
      assert (FO2 : view_out L s c2 (wr, v) = Ok out /\ Forall2 (fun p out => view_out L s c2 p = Ok out) (tag_views (wr ++ arr_of (wr, v)) r) outr)
        by (inversion FO'; split; assumption).
      destruct FO2 as [Eo FOr]. clear FS' FO'.
      pose proof (Hvs' v (or_introl eq_refl)) as Hv.
      destruct (view_out_inv _ _ _ _ _ Eo) as (mids & arrs & ms & Emids & Ea & Es & ->). cbn [fst snd] in *.
      assert (Hai : forall o, s_arr (v_sofa v) = Some o -> exists f i, hget (c_heap c2) o = Some f /\ o_id f = Some i).
      { intros o Eo'. destruct (Harrs v o Hv Eo') as (f & i & Hg & _ & Hi'). exists f, i. split; assumption. }
      pose proof (enc_sofa_canon L c2 v ms cs Es Ec Hai) as Hms.
      pose proof (view_json_canon c2 v mids cs Emids Ec) as Hvj.
      destruct (canon_sofa_arr _ _ _ Ec) as [Earr _].
      assert (Hrest : forall x, In x r -> In x (c_views c2)) by (intros x Hx; apply Hvs'; right; exact Hx).
      cbn [view_prefixes map fst snd]. unfold arr_out in Ea. unfold arr_of in FOr. cbn [fst snd] in Ea, FOr.
      destruct (s_arr (v_sofa v)) as [o|] eqn:Eo'.
      + destruct (Harrs v o Hv Eo') as (f & i & Eg & [Ht Hok] & Hi'). rewrite Eg, Hi' in Earr. rewrite Earr.
        assert (Hoin : In o (sofa_arrays c2)) by (apply Hsa_v; exists v; split; assumption).
        assert (Hio : arr_id c2 o = [i]) by (unfold arr_id; rewrite Eg, Hi'; reflexivity).
        assert (Hmem : zmem i (flat_map (arr_id c2) wr) = omem o wr).
        { destruct (omem o wr) eqn:Eow.
          - apply zmem_In. apply in_flat_map. exists o. split; [apply omem_In; exact Eow|rewrite Hio; left; reflexivity].
          - destruct (zmem i (flat_map (arr_id c2) wr)) eqn:Ez; [|reflexivity]. exfalso. apply zmem_In, in_flat_map in Ez.
            destruct Ez as (o' & Ho' & Hi''). assert (o' = o) by (apply (Harr_inj o' o i (Hwr o' Ho') Hoin Hi''); rewrite Hio; left; reflexivity).
            subst o'. apply omem_In in Ho'. congruence. }
        rewrite Hmem. destruct (omem o wr) eqn:Eow.
        * inversion Ea; subst arrs. rewrite app_nil_r in FOr. destruct (IH wr sr outr FSr FOr Hrest Hwr) as [A B].
          rewrite A. cbn [bind app]. rewrite Hms, B, Hvj. split; reflexivity.
        * rewrite Eg in Ea. apply bind_Ok in Ea as (m & Em & Ea). inversion Ea; subst arrs.
          destruct (mapM_In_l _ _ _ E1 o (proj2 (Hsa_in o) Hoin)) as (p & Hp & Ep). destruct (canon_item_inv _ _ _ _ Ep) as (f' & cf & Eg'' & Hip & Ecf & Esnd).
          rewrite Eg in Eg''. inversion Eg''; subst f'. rewrite Hi' in Hip. inversion Hip as [Hfst]. destruct p as [ip cfp]. cbn [fst snd] in *. subst cfp ip.
          assert (Hz : zlookup i (sort_by fst (rs1 ++ rs2)) = Some cf).
          { rewrite (zlookup_perm i _ (rs1 ++ rs2)); [apply zlookup_nodup; [exact Hnd|apply in_or_app; left; exact Hp]| |apply sort_by_is_perm].
            eapply Permutation_NoDup; [apply Permutation_map, Permutation_sym, sort_by_is_perm|exact Hnd]. }
          change (cc_fs CC) with (sort_by fst (rs1 ++ rs2)). rewrite Hz. change (cc_sofas CC) with SL.
          assert (Hm : m = encc_fs L s SL (i, cf)).
          { apply (enc_fs_canon L s c2 f i m cf SL Hi' Hok Em Ecf HSO). intros Hna. apply String.eqb_eq in Ht. rewrite Ht in Hna. discriminate. }
          destruct (IH (wr ++ [o]) sr outr FSr FOr Hrest) as [A B].
          { intros o' Ho'. apply in_app_or in Ho'. destruct Ho' as [Ho'|[<-|[]]]; [exact (Hwr o' Ho')|exact Hoin]. }
          rewrite flat_map_app in A. cbn [flat_map] in A. rewrite Hio, app_nil_r in A. cbv beta iota.
          match goal with |- context [view_prefixes L s CC ?x sr] => replace (view_prefixes L s CC x sr) with (@Ok (list (list json)) (map fst outr)) by (symmetry; exact A) end. cbn [bind app]. rewrite Hm, Hms, B, Hvj. split; reflexivity.
      + rewrite Earr. inversion Ea; subst arrs. rewrite app_nil_r in FOr. destruct (IH wr sr outr FSr FOr Hrest Hwr) as [A B].
        rewrite A. cbn [bind app]. rewrite Hms, B, Hvj. split; reflexivity. }
  destruct (Hper (c_views c2) [] sofas outs FS FO (fun v H => H) (fun o (H : In o []) => match H with end)) as [Hpre Hvj].
  cbn [flat_map] in Hpre.
  (* the document *)
  unfold doc_of_canon. fold CC. change (cc_sofas CC) with SL. rewrite Hvs. cbn [bind].
  match goal with |- context [view_prefixes L s CC ?x sofas] => replace (view_prefixes L s CC x sofas) with (@Ok (list (list json)) (map fst outs)) by (symmetry; exact Hpre) end.
  cbn [bind]. rewrite Hfound_of, Hty2. cbn [bind]. rewrite Hd, <- Hfss, Hvj. reflexivity.
Qed.

(* ================================================================================================================ *)
(* re-serialisation                                                                                                  *)
(* ================================================================================================================ *)

Definition view_names (c : cas) : list string := map (fun v => s_name (v_sofa v)) (c_views c).
Definition same_view_orderb (c c' : cas) : bool := list_eqb String.eqb (view_names c) (view_names c').
Lemma list_eqb_string a b : list_eqb String.eqb a b = true -> a = b.
Proof.
  revert b. induction a as [|x r IH]; intros [|y r']; cbn [list_eqb]; try discriminate; [reflexivity|].
  intros H. apply andb_true_iff in H. destruct H as [A B]. apply String.eqb_eq in A. subst. f_equal. apply IH. exact B.
Qed.

(* C02 json_resave_equal: two CASes with the same canonical content and the same order of views, saved in the same mode, give
   the same document — the same JSON value, even with the same order of members inside every object *)
Theorem json_resave_equal L s mode c1 d1 c1' c2 d2 c2' :
  lex_ok L ->
  save_json L s mode c1 = Ok (d1, c1') -> wf_jsonb s c1' = true -> ids_distinctb s c1' = true -> refs_wfb s c1' = true -> 0 < c_next_id c1 ->
  save_json L s mode c2 = Ok (d2, c2') -> wf_jsonb s c2' = true -> ids_distinctb s c2' = true -> refs_wfb s c2' = true -> 0 < c_next_id c2 ->
  canon_json s c1' = canon_json s c2' -> same_view_orderb c1' c2' = true ->
  d1 = d2 /\ jcanon d1 = jcanon d2.
Proof.
  intros HL S1 W1 I1 R1 P1 S2 W2 I2 R2 P2 E Ho.
  destruct (canon_json_after_save L s mode c1 d1 c1' HL S1 W1 P1) as (cc & C1 & _).
  assert (C2 : canon_json s c2' = Ok cc) by (rewrite <- E; exact C1).
  pose proof (save_json_canon L s mode c1 d1 c1' cc HL S1 W1 P1 I1 R1 C1) as D1.
  pose proof (save_json_canon L s mode c2 d2 c2' cc HL S2 W2 P2 I2 R2 C2) as D2.
  apply list_eqb_string in Ho. unfold view_names in Ho. rewrite Ho, D2 in D1. inversion D1. split; reflexivity.
Qed.

(* without the premise on the order of the views: the two documents have the same %TYPES, the same structures in the same
   order after the sofa prefix, and differ at most in the order of that prefix (per view: its byte array, its sofa) and in the
   order of the members of %VIEWS *)
Lemma Permutation_concat {A} (l l' : list (list A)) : Permutation l l' -> Permutation (List.concat l) (List.concat l').
Proof.
  induction 1; cbn [List.concat]; try (constructor; fail).
  - apply Permutation_app_head. assumption.
  - rewrite !app_assoc. apply Permutation_app_tail. apply Permutation_app_comm.
  - eapply Permutation_trans; eassumption.
Qed.
Lemma canon_view_names s c cc : canon_json s c = Ok cc -> Permutation (map cs_name (cc_sofas cc)) (view_names c).
Proof.
  unfold canon_json, canon_of. intros H. apply bind_Ok in H as (w & _ & H). apply bind_Ok in H as (items & _ & H).
  apply bind_Ok in H as (sofas & Es & H). inversion H; subst cc. cbn [cc_sofas].
  eapply Permutation_trans; [apply Permutation_map, sort_by_is_perm|]. unfold view_names.
  rewrite (Forall2_map_r_eq _ (fun v => s_name (v_sofa v)) cs_name _ _ (mapM_Forall2 _ _ _ Es)
             (fun a b _ H => proj1 (proj2 (proj2 (canon_sofa_fields c a b H))))). apply Permutation_refl.
Qed.
(* what the views loop contributes, whatever the order of the views: every sofa once, every sofa byte array once *)
Fixpoint zdedup (seen l : list xid) : list xid :=
  match l with
  | [] => []
  | a :: r => if zmem a seen then zdedup seen r else a :: zdedup (seen ++ [a]) r
  end.
Lemma zdedup_In x l : forall seen, In x (zdedup seen l) <-> In x l /\ ~ In x seen.
Proof.
  induction l as [|a r IH]; intros seen; cbn [zdedup]; [cbn [In]; tauto|].
  destruct (zmem a seen) eqn:E.
  - rewrite IH. apply zmem_In in E. cbn [In]. split; [tauto|]. intros [[<-|H] Hn]; [contradiction|tauto].
  - assert (Hn : ~ In a seen) by (intros H; apply zmem_In in H; congruence).
    cbn [In]. rewrite IH, in_app_iff. cbn [In]. split.
    + intros [<-|[H1 H2]]; [tauto|]. split; [tauto|]. intros H. apply H2. left. exact H.
    + intros [[<-|H1] H2]; [left; reflexivity|]. destruct (Z.eq_dec a x) as [->|Hne]; [left; reflexivity|right]. split; [exact H1|]. intros [H|[H|[]]]; [tauto|congruence].
Qed.
Lemma zdedup_NoDup l : forall seen, NoDup (zdedup seen l).
Proof.
  induction l as [|a r IH]; intros seen; cbn [zdedup]; [constructor|]. destruct (zmem a seen); [apply IH|].
  constructor; [|apply IH]. intros H. apply zdedup_In in H. destruct H as [_ H]. apply H. apply in_or_app. right. left. reflexivity.
Qed.
Lemma zdedup_perm l l' : Permutation l l' -> Permutation (zdedup [] l) (zdedup [] l').
Proof.
  intros P. apply NoDup_Permutation; [apply zdedup_NoDup|apply zdedup_NoDup|]. intros x. rewrite !zdedup_In.
  split; intros [H Hn]; (split; [|exact Hn]); [eapply Permutation_in; [exact P|exact H]|eapply Permutation_in; [apply Permutation_sym; exact P|exact H]].
Qed.
Definition arr_entry (L : lex) (s : schema) (cc : ccas) (a : xid) : json :=
  match zlookup a (cc_fs cc) with Some cf => JObj (encc_fs L s (cc_sofas cc) (a, cf)) | None => JNull end.
Definition arrs_of (vs : list csofa) : list xid := flat_map (fun cs => match cs_arr cs with Some a => [a] | None => [] end) vs.
Lemma prefixes_content L s cc : forall vs seen pre, view_prefixes L s cc seen vs = Ok pre ->
  Permutation (List.concat pre) (map (fun cs => JObj (encc_sofa L cs)) vs ++ map (arr_entry L s cc) (zdedup seen (arrs_of vs))).
Proof.
  induction vs as [|cs r IH]; intros seen pre H; cbn [view_prefixes] in H.
  - inversion H. constructor.
  - unfold arrs_of. cbn [flat_map map]. fold (arrs_of r). destruct (cs_arr cs) as [a|].
    + cbn [app zdedup]. destruct (zmem a seen).
      * apply bind_Ok in H as (rest & Er & H). inversion H; subst pre. cbn [List.concat app]. constructor. exact (IH _ _ Er).
      * cbn [map]. unfold arr_entry at 1. destruct (zlookup a (cc_fs cc)) as [cf|] eqn:Ez; [|discriminate].
        apply bind_Ok in H as (rest & Er & H). inversion H; subst pre. cbn [List.concat app].
        eapply Permutation_trans; [apply perm_swap|]. constructor.
        eapply Permutation_trans; [|apply Permutation_middle]. constructor. exact (IH _ _ Er).
    + cbn [app]. apply bind_Ok in H as (rest & Er & H). inversion H; subst pre. cbn [List.concat app]. constructor. exact (IH _ _ Er).
Qed.

Theorem json_resave_equal_perm L s mode c1 d1 c1' c2 d2 c2' :
  lex_ok L ->
  save_json L s mode c1 = Ok (d1, c1') -> wf_jsonb s c1' = true -> ids_distinctb s c1' = true -> refs_wfb s c1' = true -> 0 < c_next_id c1 ->
  save_json L s mode c2 = Ok (d2, c2') -> wf_jsonb s c2' = true -> ids_distinctb s c2' = true -> refs_wfb s c2' = true -> 0 < c_next_id c2 ->
  canon_json s c1' = canon_json s c2' ->
  exists types pre1 pre2 fss vs1 vs2,
    d1 = JObj (types ++ [(K_FS, JArr (pre1 ++ fss)); (K_VIEWS, JObj vs1)]) /\
    d2 = JObj (types ++ [(K_FS, JArr (pre2 ++ fss)); (K_VIEWS, JObj vs2)]) /\
    Permutation pre1 pre2 /\ Permutation vs1 vs2.
Proof.
  intros HL S1 W1 I1 R1 P1 S2 W2 I2 R2 P2 E.
  destruct (canon_json_after_save L s mode c1 d1 c1' HL S1 W1 P1) as (cc & C1 & _).
  assert (C2 : canon_json s c2' = Ok cc) by (rewrite <- E; exact C1).
  pose proof (save_json_canon L s mode c1 d1 c1' cc HL S1 W1 P1 I1 R1 C1) as D1.
  pose proof (save_json_canon L s mode c2 d2 c2' cc HL S2 W2 P2 I2 R2 C2) as D2.
  assert (Po : Permutation (view_names c1') (view_names c2')).
  { eapply Permutation_trans; [apply Permutation_sym; exact (canon_view_names s c1' cc C1)|exact (canon_view_names s c2' cc C2)]. }
  unfold view_names in Po. unfold doc_of_canon in D1, D2.
  apply bind_Ok in D1 as (vs1 & V1 & D1). apply bind_Ok in D1 as (pre1 & Q1 & D1). apply bind_Ok in D1 as (types & T1 & D1).
  apply bind_Ok in D2 as (vs2 & V2 & D2). apply bind_Ok in D2 as (pre2 & Q2 & D2). apply bind_Ok in D2 as (types' & T2 & D2).
  rewrite T1 in T2. inversion T2; subst types'. inversion D1 as [H1]. inversion D2 as [H2].
  destruct (mapM_perm _ _ _ Po vs1 V1) as (vs2' & V2' & Pv). rewrite V2 in V2'. inversion V2'; subst vs2'.
  exists types, (List.concat pre1), (List.concat pre2), (map (fun p => JObj (encc_fs L s (cc_sofas cc) p)) (found_of cc)),
         (map encc_view vs1), (map encc_view vs2).
  split; [reflexivity|]. split; [reflexivity|]. split; [|apply Permutation_map; exact Pv].
  eapply Permutation_trans; [exact (prefixes_content L s cc vs1 [] pre1 Q1)|].
  eapply Permutation_trans; [|apply Permutation_sym; exact (prefixes_content L s cc vs2 [] pre2 Q2)].
  apply Permutation_app; [apply Permutation_map; exact Pv|]. apply Permutation_map. apply zdedup_perm.
  unfold arrs_of. apply Permutation_flat_map. exact Pv.
Qed.

(* the same, as the boolean equivalence of JSON values modulo member order *)
Lemma json_eqb_refl : forall j, json_eqb j j = true.
Proof.
  fix IH 1. intros j. destruct j as [| b | z | x | t | l | l]; cbn [json_eqb].
  - reflexivity.
  - destruct b; reflexivity.
  - apply Z.eqb_refl.
  - apply String.eqb_refl.
  - apply String.eqb_refl.
  - induction l as [|x r IHl]; [reflexivity|]. rewrite (IH x). exact IHl.
  - induction l as [|[k v] r IHl]; [reflexivity|]. rewrite String.eqb_refl, (IH v). exact IHl.
Qed.
Theorem json_resave_equiv L s mode c1 d1 c1' c2 d2 c2' :
  lex_ok L ->
  save_json L s mode c1 = Ok (d1, c1') -> wf_jsonb s c1' = true -> ids_distinctb s c1' = true -> refs_wfb s c1' = true -> 0 < c_next_id c1 ->
  save_json L s mode c2 = Ok (d2, c2') -> wf_jsonb s c2' = true -> ids_distinctb s c2' = true -> refs_wfb s c2' = true -> 0 < c_next_id c2 ->
  canon_json s c1' = canon_json s c2' -> same_view_orderb c1' c2' = true ->
  json_equiv d1 d2 = true.
Proof.
  intros HL S1 W1 I1 R1 P1 S2 W2 I2 R2 P2 E Ho.
  destruct (json_resave_equal L s mode c1 d1 c1' c2 d2 c2' HL S1 W1 I1 R1 P1 S2 W2 I2 R2 P2 E Ho) as [_ H].
  unfold json_equiv. rewrite H. apply json_eqb_refl.
Qed.
