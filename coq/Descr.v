(* Descr.v — model of the type system XML writer and reader of cassis/typesystem.py on ABSTRACT descriptors:
   TypeSystemSerializer.serialize/_serialize_type/_serialize_feature  (descr_of_ts)
   TypeSystemDeserializer.deserialize                                 (ts_of_descr order)
   with TypeSystem.create_type / create_feature / Type._add_feature as far as the reader drives them.
   The byte layer (lxml escaping, namespaces, white space between elements) is below the model: the harness
   lifts bytes to abstract descriptors with xml.etree.  Definitions only; proofs are in DescrProofs.v. *)
From Cassis Require Import Base.
From Coq Require Import Ascii.

(* ------------------------------------------------------------------ abstract descriptors (the XML content) *)
(* featureDescription: name, description, rangeTypeName, elementType, multipleReferencesAllowed.
   An absent element and an element without text are both None (this is what every XML parser returns). *)
Record fdecl := mkF { f_name : fname; f_descr : option string; f_range : tname;
                      f_elem : option tname; f_multi : option bool }.
(* typeDescription: name, description, supertypeName, features *)
Record tdecl := mkT { t_name : tname; t_descr : option string; t_super : tname; t_feats : list fdecl }.
Definition descr := list tdecl.

(* ------------------------------------------------------------------ type system content *)
(* Feature objects as the TypeSystem holds them: the Python-level name ("self_" for a feature declared as
   "self") and Feature._has_reserved_name. *)
Record sfeat := mkSF { sf_name : fname; sf_res : bool; sf_descr : option string; sf_range : tname;
                       sf_elem : option tname; sf_multi : option bool }.
(* a user type: name, description, supertype name, own features (Type._features, insertion order) *)
Record stype := mkST { st_name : tname; st_descr : option string; st_super : tname; st_feats : list sfeat }.
(* s_types: the entries of TypeSystem._types whose name is not in _PREDEFINED_TYPES, in dict order
   (uima.tcas.DocumentAnnotation is one of them);  s_redecl: TypeSystem._predefined_types (a set: no repetition) *)
Record tsys := mkTS { s_types : list stype; s_redecl : list tname }.

(* ------------------------------------------------------------------ strings: str.strip(), sorted() *)
(* ASCII white space of str.strip(); identifiers and descriptions do not begin or end with non-ASCII white space
   (assumption of the harness generators). *)
Definition is_ws (c : ascii) : bool :=
  let n := N_of_ascii c in (((9 <=? n) && (n <=? 13)) || ((28 <=? n) && (n <=? 32)))%N.
Fixpoint lstrip (s : string) : string :=
  match s with EmptyString => EmptyString | String c r => if is_ws c then lstrip r else s end.
Fixpoint rstrip (s : string) : string :=
  match s with
  | EmptyString => EmptyString
  | String c r => match rstrip r with
                  | EmptyString => if is_ws c then EmptyString else String c EmptyString
                  | r' => String c r'
                  end
  end.
Definition strip (s : string) : string := rstrip (lstrip s).

(* sorted(xs, key=...) on string keys: stable insertion sort, code point order = byte order of UTF-8 *)
Fixpoint insert_by {A} (key : A -> string) (x : A) (l : list A) : list A :=
  match l with
  | [] => [x]
  | y :: r => if String.leb (key x) (key y) then x :: y :: r else y :: insert_by key x r
  end.
Definition sort_by {A} (key : A -> string) (l : list A) : list A := fold_right (insert_by key) [] l.
Definition sort_names (l : list string) : list string := sort_by (fun x => x) l.

Fixpoint nodupb (l : list string) : bool :=
  match l with [] => true | x :: r => negb (memb x r) && nodupb r end.
Definition opt_eqb (a b : option string) : bool :=
  match a, b with None, None => true | Some x, Some y => String.eqb x y | _, _ => false end.
Definition optb_eqb (a b : option bool) : bool :=
  match a, b with None, None => true | Some x, Some y => Bool.eqb x y | _, _ => false end.

(* ------------------------------------------------------------------ the built-in types (TypeSystem.__init__) *)
(* own declarations of the 36 names of _PREDEFINED_TYPES; compared on every run with a fresh TypeSystem() *)
Definition builtins : descr := [
  mkT "uima.cas.TOP" None "" [];
  mkT "uima.cas.NULL" None "uima.cas.TOP" [];
  mkT "uima.cas.Boolean" None "uima.cas.TOP" [];
  mkT "uima.cas.Byte" None "uima.cas.TOP" [];
  mkT "uima.cas.Short" None "uima.cas.TOP" [];
  mkT "uima.cas.Integer" None "uima.cas.TOP" [];
  mkT "uima.cas.Long" None "uima.cas.TOP" [];
  mkT "uima.cas.Float" None "uima.cas.TOP" [];
  mkT "uima.cas.Double" None "uima.cas.TOP" [];
  mkT "uima.cas.String" None "uima.cas.TOP" [];
  mkT "uima.cas.ArrayBase" None "uima.cas.TOP" [mkF "elements" None "uima.cas.TOP" None (Some true)];
  mkT "uima.cas.FSArray" None "uima.cas.ArrayBase" [];
  mkT "uima.cas.BooleanArray" None "uima.cas.ArrayBase" [];
  mkT "uima.cas.ByteArray" None "uima.cas.ArrayBase" [];
  mkT "uima.cas.ShortArray" None "uima.cas.ArrayBase" [];
  mkT "uima.cas.LongArray" None "uima.cas.ArrayBase" [];
  mkT "uima.cas.DoubleArray" None "uima.cas.ArrayBase" [];
  mkT "uima.cas.FloatArray" None "uima.cas.ArrayBase" [];
  mkT "uima.cas.IntegerArray" None "uima.cas.ArrayBase" [];
  mkT "uima.cas.StringArray" None "uima.cas.ArrayBase" [];
  mkT "uima.cas.ListBase" None "uima.cas.TOP" [];
  mkT "uima.cas.FSList" None "uima.cas.ListBase" [];
  mkT "uima.cas.EmptyFSList" None "uima.cas.FSList" [];
  mkT "uima.cas.NonEmptyFSList" None "uima.cas.FSList" [mkF "head" None "uima.cas.TOP" None (Some true); mkF "tail" None "uima.cas.FSList" None (Some true)];
  mkT "uima.cas.FloatList" None "uima.cas.ListBase" [];
  mkT "uima.cas.EmptyFloatList" None "uima.cas.FloatList" [];
  mkT "uima.cas.NonEmptyFloatList" None "uima.cas.FloatList" [mkF "head" None "uima.cas.Float" None None; mkF "tail" None "uima.cas.FloatList" None (Some true)];
  mkT "uima.cas.IntegerList" None "uima.cas.ListBase" [];
  mkT "uima.cas.EmptyIntegerList" None "uima.cas.IntegerList" [];
  mkT "uima.cas.NonEmptyIntegerList" None "uima.cas.IntegerList" [mkF "head" None "uima.cas.Integer" None None; mkF "tail" None "uima.cas.IntegerList" None (Some true)];
  mkT "uima.cas.StringList" None "uima.cas.ListBase" [];
  mkT "uima.cas.EmptyStringList" None "uima.cas.StringList" [];
  mkT "uima.cas.NonEmptyStringList" None "uima.cas.StringList" [mkF "head" None "uima.cas.String" None None; mkF "tail" None "uima.cas.StringList" None (Some true)];
  mkT "uima.cas.Sofa" None "uima.cas.TOP" [mkF "sofaNum" None "uima.cas.Integer" None None; mkF "sofaID" None "uima.cas.String" None None; mkF "mimeType" None "uima.cas.String" None None; mkF "sofaArray" None "uima.cas.TOP" None (Some true); mkF "sofaString" None "uima.cas.String" None None; mkF "sofaURI" None "uima.cas.String" None None];
  mkT "uima.cas.AnnotationBase" None "uima.cas.TOP" [mkF "sofa" None "uima.cas.Sofa" None None];
  mkT "uima.tcas.Annotation" None "uima.cas.AnnotationBase" [mkF "begin" None "uima.cas.Integer" None None; mkF "end" None "uima.cas.Integer" None None]
].
(* _INHERITANCE_FINAL_TYPES *)
Definition final_types : list tname :=
  ["uima.cas.BooleanArray"; "uima.cas.ByteArray"; "uima.cas.DoubleArray"; "uima.cas.FloatArray";
   "uima.cas.IntegerArray"; "uima.cas.LongArray"; "uima.cas.ShortArray"; "uima.cas.StringArray"].

Definition DOCANN : tname := "uima.tcas.DocumentAnnotation".
(* TypeSystem._add_document_annotation_type / the default the reader adds *)
Definition default_docann : tdecl :=
  mkT DOCANN None "uima.tcas.Annotation" [mkF "language" None "uima.cas.String" None None].

Definition find_decl (n : tname) (d : descr) : option tdecl := find (fun t => String.eqb n (t_name t)) d.
Definition has_decl (n : tname) (d : descr) : bool :=
  match find_decl n d with Some _ => true | None => false end.
Definition is_builtin (n : tname) : bool := has_decl n builtins.        (* n in _PREDEFINED_TYPES *)
Definition find_st (n : tname) (st : list stype) : option stype := find (fun t => String.eqb n (st_name t)) st.
Definition find_sf (n : fname) (l : list sfeat) : option sfeat := find (fun f => String.eqb n (sf_name f)) l.

(* ------------------------------------------------------------------ structural equality (for comparisons) *)
Definition opt_str_eqb := opt_eqb.
Definition fdecl_eqb (a b : fdecl) : bool :=
  String.eqb (f_name a) (f_name b) && opt_eqb (f_descr a) (f_descr b) && String.eqb (f_range a) (f_range b)
  && opt_eqb (f_elem a) (f_elem b) && optb_eqb (f_multi a) (f_multi b).
Definition tdecl_eqb (a b : tdecl) : bool :=
  String.eqb (t_name a) (t_name b) && opt_eqb (t_descr a) (t_descr b) && String.eqb (t_super a) (t_super b)
  && list_eqb fdecl_eqb (t_feats a) (t_feats b).
Definition sfeat_eqb (a b : sfeat) : bool :=
  String.eqb (sf_name a) (sf_name b) && Bool.eqb (sf_res a) (sf_res b) && opt_eqb (sf_descr a) (sf_descr b)
  && String.eqb (sf_range a) (sf_range b) && opt_eqb (sf_elem a) (sf_elem b) && optb_eqb (sf_multi a) (sf_multi b).
Definition stype_eqb (a b : stype) : bool :=
  String.eqb (st_name a) (st_name b) && opt_eqb (st_descr a) (st_descr b) && String.eqb (st_super a) (st_super b)
  && list_eqb sfeat_eqb (st_feats a) (st_feats b).
Definition tsys_eqb (a b : tsys) : bool :=
  list_eqb stype_eqb (s_types a) (s_types b) && list_eqb String.eqb (s_redecl a) (s_redecl b).

(* ------------------------------------------------------------------ writer: TypeSystemSerializer *)
(* an element whose text is "" is read back as an element without text *)
Definition emit_d (x : option string) : option string :=
  match x with Some EmptyString => None | _ => x end.
Definition drop_last (s : string) : string := substring 0 (String.length s - 1) s.     (* feature_name[:-1] *)
(* _serialize_feature: reserved-name stripping; multipleReferencesAllowed / elementType only when not None *)
Definition emit_feat (f : sfeat) : fdecl :=
  mkF (if sf_res f then drop_last (sf_name f) else sf_name f) (emit_d (sf_descr f)) (sf_range f) (sf_elem f) (sf_multi f).
Definition emit_type (t : stype) : tdecl :=
  mkT (st_name t) (emit_d (st_descr t)) (st_super t) (map emit_feat (st_feats t)).
(* typesystem.get_type(predefined_type_name) for a name of _predefined_types: the built-in's own declaration, or
   the DocumentAnnotation of the type system *)
Definition emit_redecl (s : tsys) (n : tname) : list tdecl :=
  match find_decl n builtins with
  | Some b => [b]
  | None => match find_st n (s_types s) with Some t => [emit_type t] | None => [] end
  end.
(* serialize (after commits fa385f5, b4a91fc): redeclared_type_names = _predefined_types, plus DocumentAnnotation when
   it is not declared exactly like the implicitly added one (is_default_document_annotation: no description, supertype
   uima.tcas.Annotation, one own feature `language` of range uima.cas.String without description, element type or flag);
   these are written first, sorted; then every other user type, sorted by full name; the second loop always skips
   DocumentAnnotation *)
(* (= stype_of_decl default_docann; a feature called `language` never carries the reserved-name flag) *)
Definition default_docann_st : stype :=
  mkST DOCANN None "uima.tcas.Annotation" [mkSF "language" false None "uima.cas.String" None None].
Definition is_default_docann (t : stype) : bool := stype_eqb t default_docann_st.
Definition docann_extended (s : tsys) : bool :=
  match find_st DOCANN (s_types s) with
  | Some t => negb (is_default_docann t)
  | None => false
  end.
(* the test before commit b4a91fc (kept for the regression witness): the feature names alone *)
Definition docann_extended_names_old (s : tsys) : bool :=
  match find_st DOCANN (s_types s) with
  | Some t => negb (list_eqb String.eqb (map sf_name (st_feats t)) ["language"])
  | None => false
  end.
Definition emit_names (s : tsys) : list tname :=
  if docann_extended s && negb (memb DOCANN (s_redecl s)) then DOCANN :: s_redecl s else s_redecl s.
Definition descr_of_ts (s : tsys) : descr :=
  flat_map (emit_redecl s) (sort_names (emit_names s))
  ++ map emit_type (filter (fun t => negb (String.eqb (st_name t) DOCANN)) (sort_by st_name (s_types s))).

Definition emit_names_names_old (s : tsys) : list tname :=
  if docann_extended_names_old s && negb (memb DOCANN (s_redecl s)) then DOCANN :: s_redecl s else s_redecl s.
Definition descr_of_ts_names_old (s : tsys) : descr :=
  flat_map (emit_redecl s) (sort_names (emit_names_names_old s))
  ++ map emit_type (filter (fun t => negb (String.eqb (st_name t) DOCANN)) (sort_by st_name (s_types s))).

(* the writer before commit fa385f5 (kept for the regression witness): an extended DocumentAnnotation that is not in
   _predefined_types was written by the second loop, at its sorted place among the user types *)
Definition skip_docann_old (s : tsys) (t : stype) : bool :=
  String.eqb (st_name t) DOCANN &&
  (memb DOCANN (s_redecl s) || list_eqb String.eqb (map sf_name (st_feats t)) ["language"]).
Definition descr_of_ts_old (s : tsys) : descr :=
  flat_map (emit_redecl s) (sort_names (s_redecl s))
  ++ map emit_type (filter (fun t => negb (skip_docann_old s t)) (sort_by st_name (s_types s))).

(* ------------------------------------------------------------------ reader: TypeSystemDeserializer *)
(* _get_elem_as_str: text.strip(); an element without text stays None *)
Definition trim_d (x : option string) : option string := option_map strip x.
Definition trim_feat (f : fdecl) : fdecl :=
  mkF (strip (f_name f)) (trim_d (f_descr f)) (strip (f_range f)) (option_map strip (f_elem f)) (f_multi f).
Definition trim_type (t : tdecl) : tdecl :=
  mkT (strip (t_name t)) (trim_d (t_descr t)) (strip (t_super t)) (map trim_feat (t_feats t)).
Definition trim (d : descr) : descr := map trim_type d.
(* "if _DOCUMENT_ANNOTATION_TYPE not in types": the default one is appended to the dict *)
Definition with_docann (d : descr) : descr := if has_decl DOCANN d then d else d ++ [default_docann].
Definition prep (d : descr) : descr := with_docann (trim d).

(* supertype fill-in and resolve_type: a name is a built-in or a key of `types`, else KeyError *)
Definition known (d2 : descr) (n : tname) : bool := is_builtin n || has_decl n d2.
Definition feat_refs_ok (d2 : descr) (f : fdecl) : bool :=
  known d2 (f_range f) && match f_elem f with None => true | Some e => known d2 e end.
Definition resolve_okb (d2 : descr) : bool :=
  forallb (fun t => known d2 (t_super t) && forallb (feat_refs_ok d2) (t_feats t)) d2.

(* Feature.__eq__ as written: name, description, range name, element type name (None = TOP); the
   multiple-references flag is NOT compared (line 536 compares self with self) *)
Definition elem_or_top (e : option tname) : tname := match e with Some x => x | None => "uima.cas.TOP" end.
Definition fd_eqb (a b : fdecl) : bool :=
  String.eqb (f_name a) (f_name b) && opt_eqb (f_descr a) (f_descr b) && String.eqb (f_range a) (f_range b)
  && String.eqb (elem_or_top (f_elem a)) (elem_or_top (f_elem b)).
Definition sf_eqb (a b : sfeat) : bool :=
  String.eqb (sf_name a) (sf_name b) && opt_eqb (sf_descr a) (sf_descr b) && String.eqb (sf_range a) (sf_range b)
  && String.eqb (elem_or_top (sf_elem a)) (elem_or_top (sf_elem b)).

(* redeclared built-in: same supertype, sorted(features) == sorted(pt.features) and (commit 7fd4ee0) the same
   bool(multipleReferencesAllowed) feature by feature, else ValueError;  the description of the type is not looked at;
   Ok true = accepted and remembered in _predefined_types, Ok false = not a built-in name *)
Definition multi_refs (fs : list fdecl) : list bool :=
  map (fun f => match f_multi f with Some b => b | None => false end) fs.
Definition builtin_check1 (t : tdecl) : res bool :=
  match find_decl (t_name t) builtins with
  | None => Ok false
  | Some b =>
    if negb (String.eqb (t_super t) (t_super b)) then Err EValue
    else if list_eqb fd_eqb (sort_by f_name (t_feats t)) (sort_by f_name (t_feats b))
            && list_eqb Bool.eqb (multi_refs (sort_by f_name (t_feats t))) (multi_refs (sort_by f_name (t_feats b)))
         then Ok true
    else Err EValue
  end.
Fixpoint builtin_check (d2 : descr) : res (list tname) :=
  match d2 with
  | [] => Ok []
  | t :: r => do b <- builtin_check1 t ;; do l <- builtin_check r ;; Ok (if b then t_name t :: l else l)
  end.

(* "for type_name in toposort_flatten(type_dependencies, sort=False)": built-in names are skipped, the others are
   created with TypeSystem.create_type (existing name: ValueError; supertype not yet in the type system:
   TypeNotFoundError; final supertype: ValueError).  `created` = created_types, in creation order. *)
Fixpoint create_types (d2 : descr) (order : list tname) (created : list tdecl) : res (list tdecl) :=
  match order with
  | [] => Ok created
  | n :: r =>
    if is_builtin n then create_types d2 r created else
    match find_decl n d2 with
    | None => Err EKey
    | Some t =>
      if has_decl n created then Err EValue
      else if negb (is_builtin (t_super t) || has_decl (t_super t) created) then Err ETypeNotFound
      else if memb (t_super t) final_types then Err EValue
      else create_types d2 r (created ++ [t])
    end
  end.

(* create_feature: reserved names get an underscore and the flag *)
Definition pyname (n : fname) : fname * bool :=
  if String.eqb n "self" || String.eqb n "type" then ((n ++ "_")%string, true) else (n, false).
Definition sfeat_of_decl (f : fdecl) : sfeat :=
  mkSF (fst (pyname (f_name f))) (snd (pyname (f_name f))) (f_descr f) (f_range f) (f_elem f) (f_multi f).
Definition stype_of_decl (t : tdecl) : stype :=
  mkST (t_name t) (t_descr t) (t_super t) (map sfeat_of_decl (t_feats t)).

(* Type.all_features of a built-in type / of a type of the state: own features, then the supertype's.
   This is what Type._inherited_features of a subtype holds once every ancestor has received its features
   (the reader adds features in creation order, parents first). *)
Fixpoint builtin_all (fuel : nat) (n : tname) : list sfeat :=
  match fuel with
  | O => []
  | S k => match find_decl n builtins with
           | None => []
           | Some b => map sfeat_of_decl (t_feats b) ++ builtin_all k (t_super b)
           end
  end.
Fixpoint all_feats (fuel : nat) (st : list stype) (n : tname) : option (list sfeat) :=
  match fuel with
  | O => None
  | S k =>
    if is_builtin n then Some (builtin_all 8 n) else
    match find_st n st with
    | None => None
    | Some t => match all_feats k st (st_super t) with
                | None => None
                | Some l => Some (st_feats t ++ l)
                end
    end
  end.

(* Type._add_feature on a type without subtypes that define features yet: an equal redefinition (own or
   inherited) is dropped with a warning, a different one raises ValueError, a new name is appended *)
Definition add_feat (inh : list sfeat) (own : res (list sfeat)) (f : sfeat) : res (list sfeat) :=
  do o <- own ;;
  match find_sf (sf_name f) o with
  | Some g => if sf_eqb g f then Ok o else Err EValue
  | None => match find_sf (sf_name f) inh with
            | Some g => if sf_eqb g f then Ok o else Err EValue
            | None => Ok (o ++ [f])
            end
  end.
Definition add_feats (inh : list sfeat) (fs : list sfeat) : res (list sfeat) := fold_left (add_feat inh) fs (Ok []).

Definition blank (t : tdecl) : stype := mkST (t_name t) (t_descr t) (t_super t) [].
Definition set_feats (n : tname) (fs : list sfeat) (st : list stype) : list stype :=
  map (fun t => if String.eqb n (st_name t) then mkST (st_name t) (st_descr t) (st_super t) fs else t) st.
(* "for t in created_types: for f in features[t.name]: ts.create_feature(...)" *)
Fixpoint add_all (fuel : nat) (todo : list tdecl) (st : list stype) : res (list stype) :=
  match todo with
  | [] => Ok st
  | t :: r =>
    match all_feats fuel st (t_super t) with
    | None => OutOfFuel
    | Some inh => do own <- add_feats inh (map sfeat_of_decl (t_feats t)) ;;
                  add_all fuel r (set_feats (t_name t) own st)
    end
  end.

Definition redecl_of (d1 : descr) (checked : list tname) : list tname :=
  (if has_decl DOCANN d1 then [DOCANN] else []) ++ checked.

(* load_typesystem.  `order` stands for the result of toposort_flatten (an external library): any list that
   satisfies order_okb below. *)
Definition ts_of_descr (order : list tname) (d : descr) : res tsys :=
  let d1 := trim d in
  let d2 := with_docann d1 in
  if negb (resolve_okb d2) then Err EKey else
  do checked <- builtin_check d2 ;;
  do created <- create_types d2 order [] ;;
  do st <- add_all (S (List.length created)) created (map blank created) ;;
  Ok (mkTS st (redecl_of d1 checked)).

(* contract of toposort_flatten on {type: {supertype}}: every element is a built-in name or a declared name; no
   declared name twice; every declared name occurs; a supertype that is declared comes before its subtypes *)
Fixpoint topo_okb (d2 : descr) (order seen : list tname) : bool :=
  match order with
  | [] => true
  | n :: r =>
    if is_builtin n then topo_okb d2 r seen else
    match find_decl n d2 with
    | None => false
    | Some t => negb (memb n seen)
                && (is_builtin (t_super t) || memb (t_super t) seen || negb (has_decl (t_super t) d2))
                && topo_okb d2 r (n :: seen)
    end
  end.
Definition order_okb (order : list tname) (d : descr) : bool :=
  topo_okb (prep d) order [] && forallb (fun t => is_builtin (t_name t) || memb (t_name t) order) (prep d).

(* ------------------------------------------------------------------ declarative content and specification *)
(* the content of a type system: its user types sorted by name *)
Definition tsdecl := list stype.
Definition content (s : tsys) : tsdecl := sort_by st_name (s_types s).
Definition canon (s : tsys) : tsys := mkTS (content s) (sort_names (s_redecl s)).

(* what a loaded description is, given what was held before writing *)
Definition norm_d (x : option string) : option string := trim_d (emit_d x).
Definition norm_feat (f : sfeat) : sfeat :=
  mkSF (sf_name f) (sf_res f) (norm_d (sf_descr f)) (sf_range f) (sf_elem f) (sf_multi f).
Definition norm_type (t : stype) : stype :=
  mkST (st_name t) (norm_d (st_descr t)) (st_super t) (map norm_feat (st_feats t)).
(* what a re-emitted descriptor is: trimmed, and an empty description is an absent one *)
Definition renorm_feat (f : fdecl) : fdecl :=
  mkF (f_name f) (emit_d (f_descr f)) (f_range f) (f_elem f) (f_multi f).
Definition renorm_type (t : tdecl) : tdecl :=
  mkT (t_name t) (emit_d (t_descr t)) (t_super t) (map renorm_feat (t_feats t)).
Definition trimmed (d : descr) : descr := map renorm_type (trim d).

(* declarative reading of a well-formed descriptor: every declared user type, in creation order *)
Definition spec_types (order : list tname) (d2 : descr) : list stype :=
  flat_map (fun n => if is_builtin n then [] else
                     match find_decl n d2 with Some t => [stype_of_decl t] | None => [] end) order.
Definition spec_redecl (d : descr) : list tname :=
  redecl_of (trim d) (map t_name (filter (fun t => is_builtin (t_name t)) (prep d))).
Definition state_of (order : list tname) (d : descr) : tsys := mkTS (spec_types order (prep d)) (spec_redecl d).

(* ------------------------------------------------------------------ boolean well-formedness (theorem premises) *)
Definition trimmedb (s : string) : bool := String.eqb (strip s) s && negb (String.eqb s "").
Definition opt_trimmedb (x : option string) : bool := match x with None => true | Some s => trimmedb s end.

(* own feature names do not repeat and do not meet a feature of an ancestor *)
Definition noclash1 (fuel : nat) (st : list stype) (t : stype) : bool :=
  nodupb (map sf_name (st_feats t)) &&
  match all_feats fuel st (st_super t) with
  | None => false
  | Some inh => forallb (fun f => match find_sf (sf_name f) inh with None => true | Some _ => false end) (st_feats t)
  end.
Definition noclashb (st : list stype) : bool := forallb (noclash1 (S (List.length st)) st) st.

(* descriptors *)
Definition wf_fdeclb (d2 : descr) (f : fdecl) : bool :=
  negb (String.eqb (f_name f) "") && feat_refs_ok d2 f.
Definition wf_tdeclb (d2 : descr) (t : tdecl) : bool :=
  known d2 (t_super t) && forallb (wf_fdeclb d2) (t_feats t) &&
  (if is_builtin (t_name t)
   then match builtin_check1 t with Ok true => true | _ => false end
   else negb (memb (t_super t) final_types)).
Definition user_decls (d2 : descr) : descr := filter (fun t => negb (is_builtin (t_name t))) d2.
(* a well-formed descriptor: unique names, closed references, built-ins redeclared acceptably, no inheritance from
   a final type, no feature declared again along a supertype chain *)
Definition wf_descrb (d : descr) : bool :=
  let d2 := prep d in
  nodupb (map t_name d2) && forallb (wf_tdeclb d2) d2 && noclashb (map stype_of_decl (user_decls d2)).

(* a descriptor in the form the writer produces: first the redeclared built-ins and DocumentAnnotation, sorted,
   then the other types, sorted; built-ins are redeclared with their own declaration *)
Definition is_redecl_name (n : tname) : bool := is_builtin n || String.eqb n DOCANN.
Definition key_ltb (a b : tdecl) : bool :=
  (is_redecl_name (t_name a) && negb (is_redecl_name (t_name b)))
  || (Bool.eqb (is_redecl_name (t_name a)) (is_redecl_name (t_name b)) && String.ltb (t_name a) (t_name b)).
Fixpoint sortedb {A} (ltb : A -> A -> bool) (l : list A) : bool :=
  match l with
  | [] => true
  | x :: r => forallb (ltb x) r && sortedb ltb r
  end.
Definition exact_builtinb (t : tdecl) : bool :=
  match find_decl (t_name t) builtins with None => true | Some b => tdecl_eqb t b end.
Definition emitted_formb (d : descr) : bool :=
  sortedb key_ltb (trim d) && forallb exact_builtinb (trim d).

(* type systems *)
Definition reserved_okb (f : sfeat) : bool :=
  if sf_res f then String.eqb (sf_name f) "self_" || String.eqb (sf_name f) "type_"
  else negb (String.eqb (sf_name f) "self" || String.eqb (sf_name f) "type") && trimmedb (sf_name f).
Definition knownst (st : list stype) (n : tname) : bool :=
  is_builtin n || match find_st n st with Some _ => true | None => false end.
Definition wf_sfeatb (st : list stype) (f : sfeat) : bool :=
  reserved_okb f && trimmedb (sf_range f) && knownst st (sf_range f)
  && match sf_elem f with None => true | Some e => trimmedb e && knownst st e end.
Definition wf_stypeb (st : list stype) (t : stype) : bool :=
  trimmedb (st_name t) && negb (is_builtin (st_name t)) && trimmedb (st_super t) && knownst st (st_super t)
  && negb (memb (st_super t) final_types) && forallb (wf_sfeatb st) (st_feats t).
(* the type system has a DocumentAnnotation (the reader always adds one).  Since commit b4a91fc nothing more is asked:
   the writer leaves it out only when it IS the one the reader puts back (DescrProofs.default_docann_eq).  Before, the
   premise had to ask that a DocumentAnnotation with feature names ["language"] be the default one (docann_okb_names_old). *)
Definition docann_okb (s : tsys) : bool :=
  match find_st DOCANN (s_types s) with
  | None => false                                              (* TypeSystem() always has one *)
  | Some _ => true
  end.
Definition docann_okb_names_old (s : tsys) : bool :=
  match find_st DOCANN (s_types s) with
  | None => false
  | Some t => if negb (docann_extended_names_old s) && negb (memb DOCANN (s_redecl s))
              then stype_eqb (norm_type t) (stype_of_decl default_docann) else true
  end.
Definition wf_tsb (s : tsys) : bool :=
  nodupb (map st_name (s_types s)) && forallb (wf_stypeb (s_types s)) (s_types s) && noclashb (s_types s)
  && nodupb (s_redecl s)
  && forallb (fun n => (is_builtin n && negb (String.eqb n "uima.cas.TOP")) || String.eqb n DOCANN) (s_redecl s)
  && docann_okb s.
(* _predefined_types after the round trip: DocumentAnnotation joins it when it was written *)
Definition redecl_after (s : tsys) : list tname := emit_names s.
Definition norm_ts (s : tsys) : tsys := mkTS (map norm_type (s_types s)) (redecl_after s).

(* ------------------------------------------------------------------ what "redeclared identically" means (specification) *)
(* same supertype and, feature by feature after sorting by name: same name, description, range, element type
   (absent = uima.cas.TOP) and multiple-references flag (absent = false).  The description of the type is free. *)
Definition fd_full_eqb (a b : fdecl) : bool :=
  fd_eqb a b && Bool.eqb (match f_multi a with Some x => x | None => false end)
                         (match f_multi b with Some x => x | None => false end).
Definition builtin_same_declb (t b : tdecl) : bool :=
  String.eqb (t_super t) (t_super b)
  && list_eqb fd_full_eqb (sort_by f_name (t_feats t)) (sort_by f_name (t_feats b)).

(* the redeclaration check before commit 7fd4ee0 (kept for the regression witness): Feature.__eq__ alone *)
Definition builtin_check1_old (t : tdecl) : res bool :=
  match find_decl (t_name t) builtins with
  | None => Ok false
  | Some b =>
    if negb (String.eqb (t_super t) (t_super b)) then Err EValue
    else if list_eqb fd_eqb (sort_by f_name (t_feats t)) (sort_by f_name (t_feats b)) then Ok true
    else Err EValue
  end.

(* ================================================================== deepening: premises and specifications added for
   C12_load_preserves_wf, C12_reemit_fixpoint, C12_load_total, C12_fuel_from_order, C12_permutation_invariant_all *)
(* every typeDescription has a name with text (an element <name/> without text is outside the model: the reader
   raises AttributeError on None.strip()) *)
Definition named_descrb (d : descr) : bool := forallb (fun t => negb (String.eqb (t_name t) "")) (prep d).
(* the typeDescriptions have distinct names after trimming (the reader keeps them in a dict: the model reads the first
   one of a name, the code the last one with the features of both; descriptors with a repeated name are outside the model) *)
Definition uniq_descrb (d : descr) : bool := nodupb (map t_name (prep d)).
(* well-formedness WITHOUT the fuel of the supertype walk: where the walk of noclash1 runs out of fuel nothing is asked.
   (On a supertype cycle no order satisfies order_okb; DescrProofs3.fuel_from_order: wf_descr_laxb + order_okb -> wf_descrb.) *)
Definition noclash1_lax (fuel : nat) (st : list stype) (t : stype) : bool :=
  nodupb (map sf_name (st_feats t)) &&
  match all_feats fuel st (st_super t) with
  | None => true
  | Some inh => forallb (fun f => match find_sf (sf_name f) inh with None => true | Some _ => false end) (st_feats t)
  end.
Definition noclash_laxb (st : list stype) : bool := forallb (noclash1_lax (S (List.length st)) st) st.
Definition wf_descr_laxb (d : descr) : bool :=
  let d2 := prep d in
  nodupb (map t_name d2) && forallb (wf_tdeclb d2) d2 && noclash_laxb (map stype_of_decl (user_decls d2)).
Definition wf_ts_laxb (s : tsys) : bool :=
  nodupb (map st_name (s_types s)) && forallb (wf_stypeb (s_types s)) (s_types s) && noclash_laxb (s_types s)
  && nodupb (s_redecl s)
  && forallb (fun n => (is_builtin n && negb (String.eqb n "uima.cas.TOP")) || String.eqb n DOCANN) (s_redecl s)
  && docann_okb s.
