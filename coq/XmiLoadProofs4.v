(* XmiLoadProofs4.v — C05, fourth wave: the presentation theorems for the two remaining ways a document reaches the
   reader.
   (A) lenient loading.  A document written against a richer type system contains elements of types the reader's type
       system does not define; with lenient=True they are skipped.  The content of the loaded CAS is the denotation of
       the document without those elements (drop_unknown), whatever the order of the elements: nothing an unknown
       element carries (attributes, nested child elements) reaches its neighbours.  Built on lenient_is_filter
       (XmiLoadProofs.v) and load_xmi_is_denotation_gen / load_xmi_total_denotation.
   (B) the spellings of an empty view.  A View element without members may be omitted (ps_omit), written with
       members="" or written without a members attribute at all: all three denote and load alike. *)
From Coq Require Import Ascii ZifyBool.
From Cassis Require Import Base Heap Schema Canon Lex XmiDoc XmiLoad XmiLoadProofs XmiLoadProofs2 XmiLoadProofs3.
Open Scope Z_scope.
Open Scope list_scope.

Section Wave4.
Variable pf : string -> option flt.

(* ---- strict loading, documents with or without an _InitialView sofa ---- *)
Theorem load_order_independent_gen s d d' c c' :
  reader_okb0 pf s d = true -> reader_okb0 pf s d' = true -> attrs_nodupb d = true -> presentation_equiv d d' ->
  load_xmi pf s false d = Ok c -> load_xmi pf s false d' = Ok c' -> canon_loaded s c' = canon_loaded s c.
Proof.
  intros H1 H2 Ha He L1 L2.
  rewrite (load_xmi_is_denotation_gen pf s d c H1 L1), (load_xmi_is_denotation_gen pf s d' c' H2 L2).
  assert (Hd : doc_ok_xmi pf s d = true) by (unfold reader_okb0 in H1; rewrite !andb_true_iff in H1; tauto).
  destruct (denote_xmi_presentation_invariant pf s d d' Hd Ha He) as (E & _). rewrite E. reflexivity.
Qed.

(* ---- (A) lenient loading ---- *)
Lemma canon_loaded_flag s c b :
  canon_loaded s (mkLc (lc_views c) (lc_objs c) (lc_next_id c) (lc_next_sofa c) b) = canon_loaded s c.
Proof. reflexivity. Qed.

Lemma lenient_load_inv s d c : dropped_ids_okb s d = true -> load_xmi pf s true d = Ok c ->
  exists c0, load_xmi pf s false (drop_unknown s d) = Ok c0 /\ canon_loaded s c = canon_loaded s c0.
Proof.
  intros H E. rewrite (lenient_is_filter pf s d H) in E.
  destruct (load_xmi pf s false (drop_unknown s d)) as [c0| |]; cbn [with_lenient] in E; try discriminate.
  exists c0. split; [reflexivity|]. inversion E. apply canon_loaded_flag.
Qed.

(* the lenient reader computes the denotation of the document without the elements of undefined types *)
Theorem load_lenient_is_denotation s d c :
  dropped_ids_okb s d = true -> reader_okb0 pf s (drop_unknown s d) = true -> load_xmi pf s true d = Ok c ->
  canon_loaded s c = res_map with_initial (denote_xmi pf s (drop_unknown s d)).
Proof.
  intros Hi Hok Hl. destruct (lenient_load_inv s d c Hi Hl) as (c0 & L0 & ->).
  exact (load_xmi_is_denotation_gen pf s (drop_unknown s d) c0 Hok L0).
Qed.

Theorem load_lenient_total s d :
  dropped_ids_okb s d = true -> reader_okb0 pf s (drop_unknown s d) = true -> total_okb s (drop_unknown s d) = true ->
  exists c, load_xmi pf s true d = Ok c /\ canon_loaded s c = res_map with_initial (denote_xmi pf s (drop_unknown s d)).
Proof.
  intros Hi Hok Ht. destruct (load_xmi_total_denotation pf s (drop_unknown s d) Hok Ht) as (c0 & L0 & C0).
  rewrite (lenient_is_filter pf s d Hi), L0. cbn [with_lenient]. eexists. split; [reflexivity|].
  rewrite canon_loaded_flag. exact C0.
Qed.

(* permuting the elements of the document permutes the filtered document *)
Lemma dropped_ids_perm s d d' : Permutation d d' -> Permutation (dropped_ids s d) (dropped_ids s d').
Proof. intros H. unfold dropped_ids. apply Permutation_flat_map, filter_perm, H. Qed.
Lemma drop_members_ext ids ids' e : (forall m, memZ m ids = memZ m ids') -> drop_members ids e = drop_members ids' e.
Proof.
  intros H. unfold drop_members. destruct (is_view e); [|reflexivity]. f_equal. apply map_ext. intros kv.
  destruct (String.eqb (fst kv) "members"); [|reflexivity]. f_equal. f_equal. apply filter_ext. intros t.
  unfold keep_tok. destruct (s2z t); [rewrite H|]; reflexivity.
Qed.
Lemma drop_unknown_perm s d d' : Permutation d d' -> Permutation (drop_unknown s d) (drop_unknown s d').
Proof.
  intros H. unfold drop_unknown.
  rewrite (map_ext _ _ (fun e => drop_members_ext (dropped_ids s d') (dropped_ids s d) e
             (fun m => memZ_perm m _ _ (Permutation_sym (dropped_ids_perm s d d' H))))).
  apply Permutation_map, filter_perm, H.
Qed.
Lemma dropped_ids_okb_perm s d d' : Permutation d d' -> dropped_ids_okb s d = dropped_ids_okb s d'.
Proof. intros H. unfold dropped_ids_okb. apply forallb_perm, filter_perm, H. Qed.

(* the content a lenient load produces does not depend on where the elements stand - in particular not on where the
   skipped elements stand relative to the others *)
Theorem load_lenient_order_independent s d d' c c' :
  dropped_ids_okb s d = true ->
  reader_okb0 pf s (drop_unknown s d) = true -> reader_okb0 pf s (drop_unknown s d') = true ->
  attrs_nodupb (drop_unknown s d) = true -> Permutation d d' ->
  load_xmi pf s true d = Ok c -> load_xmi pf s true d' = Ok c' -> canon_loaded s c' = canon_loaded s c.
Proof.
  intros Hi H1 H2 Ha Hp L1 L2.
  assert (Hi' : dropped_ids_okb s d' = true) by (rewrite <- (dropped_ids_okb_perm s d d' Hp); exact Hi).
  rewrite (load_lenient_is_denotation s d c Hi H1 L1), (load_lenient_is_denotation s d' c' Hi' H2 L2).
  assert (Hd : doc_ok_xmi pf s (drop_unknown s d) = true) by (unfold reader_okb0 in H1; rewrite !andb_true_iff in H1; tauto).
  assert (He : presentation_equiv (drop_unknown s d) (drop_unknown s d')).
  { eapply pe_step; [apply ps_perm, drop_unknown_perm, Hp|apply pe_refl]. }
  destruct (denote_xmi_presentation_invariant pf s _ _ Hd Ha He) as (E & _). rewrite E. reflexivity.
Qed.

(* leniency does not change what a document without unknown elements loads to *)
Theorem load_lenient_same_as_strict s d c c' : forallb (fun e => negb (unknown s e)) d = true ->
  load_xmi pf s true d = Ok c -> load_xmi pf s false d = Ok c' -> canon_loaded s c = canon_loaded s c'.
Proof.
  intros H L1 L2. rewrite (leniency_noninterference pf s d H), L2 in L1. cbn [with_lenient] in L1. inversion L1.
  apply canon_loaded_flag.
Qed.

(* ---- (B) the spellings of an empty view ---- *)
Theorem empty_view_spelling_denote s d1 e e' d2 : empty_view e -> empty_view e' ->
  doc_ok_xmi pf s (d1 ++ e :: d2) = true -> attrs_nodupb (d1 ++ e :: d2) = true ->
  doc_ok_xmi pf s (d1 ++ e' :: d2) = true -> attrs_nodupb (d1 ++ e' :: d2) = true ->
  denote_xmi pf s (d1 ++ e' :: d2) = denote_xmi pf s (d1 ++ e :: d2)
  /\ denote_xmi pf s (d1 ++ d2) = denote_xmi pf s (d1 ++ e :: d2).
Proof.
  intros He He' H1 A1 H2 A2.
  assert (P1 : presentation_equiv (d1 ++ e :: d2) (d1 ++ d2)) by (eapply pe_step; [apply ps_omit, He|apply pe_refl]).
  assert (P2 : presentation_equiv (d1 ++ e' :: d2) (d1 ++ d2)) by (eapply pe_step; [apply ps_omit, He'|apply pe_refl]).
  destruct (denote_xmi_presentation_invariant pf s _ _ H1 A1 P1) as (E1 & _).
  destruct (denote_xmi_presentation_invariant pf s _ _ H2 A2 P2) as (E2 & _).
  split; congruence.
Qed.

Theorem empty_view_spelling_load s d1 e e' d2 c c' : empty_view e -> empty_view e' ->
  reader_okb0 pf s (d1 ++ e :: d2) = true -> attrs_nodupb (d1 ++ e :: d2) = true ->
  reader_okb0 pf s (d1 ++ e' :: d2) = true -> attrs_nodupb (d1 ++ e' :: d2) = true ->
  load_xmi pf s false (d1 ++ e :: d2) = Ok c -> load_xmi pf s false (d1 ++ e' :: d2) = Ok c' ->
  canon_loaded s c' = canon_loaded s c.
Proof.
  intros He He' H1 A1 H2 A2 L1 L2.
  rewrite (load_xmi_is_denotation_gen pf s _ c H1 L1), (load_xmi_is_denotation_gen pf s _ c' H2 L2).
  assert (D1 : doc_ok_xmi pf s (d1 ++ e :: d2) = true) by (unfold reader_okb0 in H1; rewrite !andb_true_iff in H1; tauto).
  assert (D2 : doc_ok_xmi pf s (d1 ++ e' :: d2) = true) by (unfold reader_okb0 in H2; rewrite !andb_true_iff in H2; tauto).
  destruct (empty_view_spelling_denote s d1 e e' d2 He He' D1 A1 D2 A2) as (E & _). rewrite E. reflexivity.
Qed.
End Wave4.
