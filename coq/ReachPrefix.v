(* ReachPrefix.v — C15, fourth wave: the one loop of the XMI writer that is neither a walk over the reference graph nor a
   structural fold: the search for a free namespace prefix in CasXmiSerializer._serialize_feature_structure
   (cassis/xmi.py 596-613).

       if url not in self._urls_to_prefixes:
           new_prefix = raw_prefix                                   # last component of the package of the type
           while new_prefix in self._nsmap:
               suffix = self._duplicate_namespaces[raw_prefix]        # defaultdict(int): the counter of THIS raw prefix
               self._duplicate_namespaces[raw_prefix] += 1
               new_prefix = raw_prefix + str(suffix)
           self._nsmap[new_prefix] = url
           self._urls_to_prefixes[url] = new_prefix

   It runs once per package met while the feature structures are written in the order of their ids; _nsmap starts with the
   prefixes xmi and cas, _urls_to_prefixes starts empty (so the first structure of a built-in uima.cas type registers cas0
   for the url that cas already stands for).  The loop ends because the counter it reads is the counter it increments:
   the candidates raw, raw+str(c), raw+str(c+1), ... are pairwise different and _nsmap is finite (ReachPrefixProofs.v).
   Definitions only; loops on explicit fuel, OutOfFuel is a distinct result. *)
From Cassis Require Import Base.
From Coq Require Import DecimalString DecimalNat Decimal.
Local Open Scope string_scope.

(* str(n) for a non-negative int *)
Definition show (n : nat) : string := NilEmpty.string_of_uint (Nat.to_uint n).

(* collections.defaultdict(int): a missing key reads as 0 *)
Definition counters := list (string * nat).
Fixpoint cget (d : counters) (k : string) : nat :=
  match d with [] => 0 | (k', v) :: r => if String.eqb k k' then v else cget r k end.
Fixpoint cbump (d : counters) (k : string) : counters :=
  match d with
  | [] => [(k, 1)]
  | (k', v) :: r => if String.eqb k k' then (k', S v) :: r else (k', v) :: cbump r k
  end.

(* the while loop: ns = the prefixes in _nsmap, cand = new_prefix *)
Fixpoint search (fuel : nat) (ns : list string) (d : counters) (raw cand : string) : res (string * counters) :=
  match fuel with
  | O => OutOfFuel
  | S f => if memb cand ns then search f ns (cbump d raw) raw (raw ++ show (cget d raw)) else Ok (cand, d)
  end.
(* one more round than there are prefixes, and one for the exit test *)
Definition prefix_fuel (ns : list string) : nat := S (S (List.length ns)).
Definition free_prefix (ns : list string) (d : counters) (raw : string) : res (string * counters) :=
  search (prefix_fuel ns) ns d raw raw.

(* the three tables of the serializer *)
Record nsstate := mkNs {
  ns_map : list (string * string);          (* _nsmap: prefix -> url, insertion order *)
  ns_urls : list (string * string);         (* _urls_to_prefixes: url -> prefix *)
  ns_dup : counters }.                      (* _duplicate_namespaces *)
Definition ns_init : nsstate :=
  mkNs [("xmi", "http://www.omg.org/XMI"); ("cas", "http:///uima/cas.ecore")] [] [].

(* one feature structure whose type lives in the package with last component raw and namespace url *)
Definition assign (st : nsstate) (raw url : string) : res nsstate :=
  match alookup url (ns_urls st) with
  | Some _ => Ok st
  | None => do pd <- free_prefix (akeys (ns_map st)) (ns_dup st) raw;;
            Ok (mkNs (ns_map st ++ [(fst pd, url)])%list (ns_urls st ++ [(url, fst pd)])%list (snd pd))
  end.
Fixpoint assign_all (st : nsstate) (elems : list (string * string)) : res nsstate :=
  match elems with
  | [] => Ok st
  | (raw, url) :: r => do st' <- assign st raw url;; assign_all st' r
  end.

(* ---- the loop that does not end: the suffix is read from the counter of the CANDIDATE just tried (a defaultdict entry
   that nothing increments) while the counter of the raw prefix is incremented *)
Fixpoint search_stuck (fuel : nat) (ns : list string) (d : counters) (raw cand : string) : res (string * counters) :=
  match fuel with
  | O => OutOfFuel
  | S f => if memb cand ns then search_stuck f ns (cbump d raw) raw (raw ++ show (cget d cand)) else Ok (cand, d)
  end.
