(* XmiLoadC17Proofs.v — C17, second wave: the entry point does not let the kind of source or `trusted` reach the
   lenient flag; a lenient load leaves the id generators exactly where the strict load of the filtered document leaves
   them, so every later add / create_view hands out the same numbers. *)
From Coq Require Import ZifyBool.
From Cassis Require Import Base Heap Schema Canon Lex XmiDoc XmiLoad XmiLoadProofs XmiLoadC17.
Open Scope Z_scope.

Theorem entry_is_load pf src s lenient trusted d : load_entry pf src s lenient trusted d = load_xmi pf s lenient d.
Proof. destruct src; reflexivity. Qed.

Theorem entry_source_trusted_irrelevant pf src src' s lenient t t' d :
  load_entry pf src s lenient t d = load_entry pf src' s lenient t' d.
Proof. rewrite !entry_is_load. reflexivity. Qed.

(* the three statements about load_xmi, for every source kind and every value of trusted *)
Theorem entry_strict_raises pf src s trusted d st :
  pass1 pf s true p1_init d = Ok st -> existsb (unknown s) d = true ->
  load_entry pf src s false trusted d = Err ETypeNotFound.
Proof. intros H1 H2. rewrite entry_is_load. exact (load_strict_raises pf s d st H1 H2). Qed.

Theorem entry_lenient_is_filter pf src src' s t t' d : dropped_ids_okb s d = true ->
  load_entry pf src s true t d = with_lenient true (load_entry pf src' s false t' (drop_unknown s d)).
Proof. intros H. rewrite !entry_is_load. exact (lenient_is_filter pf s d H). Qed.

Lemma gens_with_lenient b r ops : handed_out (with_lenient b r) ops = handed_out r ops.
Proof. destruct r; reflexivity. Qed.

(* whatever is done after the load - adds of new structures through any handle, new views - receives the same xmi:ids
   and sofaNums from the lenient CAS as from the CAS of the filtered document *)
Theorem lenient_same_ids_later pf s d ops : dropped_ids_okb s d = true ->
  handed_out (load_xmi pf s true d) ops = handed_out (load_xmi pf s false (drop_unknown s d)) ops.
Proof. intros H. rewrite (lenient_is_filter pf s d H). apply gens_with_lenient. Qed.

Theorem lenient_same_gens pf s d c : dropped_ids_okb s d = true -> load_xmi pf s true d = Ok c ->
  exists c', load_xmi pf s false (drop_unknown s d) = Ok c' /\ gens_of c = gens_of c'.
Proof.
  intros H E. rewrite (lenient_is_filter pf s d H) in E.
  destruct (load_xmi pf s false (drop_unknown s d)) as [c'| |]; cbn in E; try discriminate.
  exists c'. split; [reflexivity|]. inversion E. reflexivity.
Qed.

Theorem noninterference_same_ids_later pf s d ops : forallb (fun e => negb (unknown s e)) d = true ->
  handed_out (load_xmi pf s true d) ops = handed_out (load_xmi pf s false d) ops.
Proof. intros H. rewrite (leniency_noninterference pf s d H). apply gens_with_lenient. Qed.

(* the generator: consecutive numbers, an add takes one xmi:id, a new view one xmi:id and one sofaNum *)
Lemma run_ops_length g ops : List.length (run_ops g ops) = List.length ops.
Proof. revert g; induction ops as [|o r IH]; intros g; [reflexivity|]. cbn [run_ops]. destruct (op_step g o) eqn:E. cbn. now rewrite IH. Qed.

Theorem ids_fresh g ops1 o ops2 out :
  nth_error (run_ops g (ops1 ++ o :: ops2)) (List.length ops1) = Some out ->
  hd 0 out = g_id g + Z.of_nat (List.length ops1).
Proof.
  revert g; induction ops1 as [|p r IH]; intros g; cbn [app run_ops List.length nth_error].
  - destruct (op_step g o) eqn:E. cbn. intros H; inversion H; subst. destruct o; cbn in E; inversion E; cbn; lia.
  - destruct (op_step g p) as [g' out'] eqn:E. cbn [nth_error]. intros H. rewrite (IH g' H).
    destruct p; cbn in E; inversion E; cbn; lia.
Qed.

(* ---- third wave: one TypeSystem object, several loads, types created in between ---- *)
Lemma session_app pf ops1 : forall s ops2,
  session pf s (ops1 ++ ops2) = (session pf s ops1 ++ session pf (types_after s ops1) ops2)%list.
Proof.
  induction ops1 as [|o r IH]; intros s ops2; [reflexivity|].
  destruct o as [src b t d|ti]; cbn [app session types_after]; rewrite IH; reflexivity.
Qed.

(* whatever the object served before - loads, lenient or strict, of any documents, while it defined fewer types - a
   load gives what the reader gives for the types the object defines at that moment *)
Theorem session_last_load pf s ops src b t d :
  session pf s (ops ++ [SLoad src b t d]) = (session pf s ops ++ [load_xmi pf (types_after s ops) b d])%list.
Proof. rewrite session_app. cbn [session]. rewrite entry_is_load. reflexivity. Qed.

Lemma sch_find_app s s' n :
  sch_find (s ++ s') n = match sch_find s n with Some t => Some t | None => sch_find s' n end.
Proof. induction s as [|t r IH]; [reflexivity|]. cbn [app sch_find]. destruct (String.eqb n (ti_name t)); [reflexivity|exact IH]. Qed.

Lemma types_after_extends s ops : exists s', types_after s ops = (s ++ s')%list.
Proof.
  revert s; induction ops as [|o r IH]; intros s; [exists []; now rewrite app_nil_r|].
  destruct o as [src b t d|ti]; cbn [types_after]; [apply IH|].
  destruct (IH (create_type s ti)) as [s' E]. exists (ti :: s'). rewrite E. unfold create_type. now rewrite <- app_assoc.
Qed.

(* a type never gets lost: what is of a defined type stays so, whatever is loaded or created afterwards *)
Theorem known_stays_known s ops e : unknown s e = false -> unknown (types_after s ops) e = false.
Proof.
  destruct (types_after_extends s ops) as [s' ->]. unfold unknown. destruct (is_other e); [|reflexivity]. cbn [andb].
  rewrite sch_find_app. destruct (sch_find s _); [reflexivity|discriminate].
Qed.

(* create_type makes the name known, from the next lookup on *)
Theorem created_is_known s ti ops n : n = ti_name ti -> sch_find (types_after (create_type s ti) ops) n <> None.
Proof.
  intros ->. destruct (types_after_extends (create_type s ti) ops) as [s' ->]. unfold create_type.
  rewrite !sch_find_app. destruct (sch_find s (ti_name ti)); [discriminate|]. cbn [sch_find]. rewrite String.eqb_refl. discriminate.
Qed.

(* the three statements about load_xmi, at any point of a session, for the types defined at that point *)
Theorem session_lenient_is_filter pf s ops src t d : let s' := types_after s ops in
  dropped_ids_okb s' d = true ->
  session pf s (ops ++ [SLoad src true t d])
  = (session pf s ops ++ [with_lenient true (load_xmi pf s' false (drop_unknown s' d))])%list.
Proof. intros s' H. rewrite session_last_load. fold s'. rewrite (lenient_is_filter pf s' d H). reflexivity. Qed.

Theorem session_strict_raises pf s ops src t d st : let s' := types_after s ops in
  pass1 pf s' true p1_init d = Ok st -> existsb (unknown s') d = true ->
  session pf s (ops ++ [SLoad src false t d]) = (session pf s ops ++ [Err ETypeNotFound])%list.
Proof. intros s' H1 H2. rewrite session_last_load. fold s'. rewrite (load_strict_raises pf s' d st H1 H2). reflexivity. Qed.

(* once every element of the document is of a defined type - because the missing types have been created in the
   meantime - the flag no longer matters, although an earlier load of the same object dropped or refused them *)
Theorem session_all_defined_flag_irrelevant pf s ops src src' t t' d : let s' := types_after s ops in
  forallb (fun e => negb (unknown s' e)) d = true ->
  session pf s (ops ++ [SLoad src true t d; SLoad src' false t' d])
  = (session pf s ops ++ [with_lenient true (load_xmi pf s' false d); load_xmi pf s' false d])%list.
Proof.
  intros s' H. rewrite session_app. cbn [session]. rewrite !entry_is_load. fold s'.
  rewrite (leniency_noninterference pf s' d H). reflexivity.
Qed.

(* ---- fourth wave: the loaded CAS works with the SUPPLIED type system, whatever it defines ---- *)
Theorem loaded_ts_is_supplied s dflt : loaded_ts s dflt = s.
Proof. reflexivity. Qed.

(* a strictly loaded CAS refuses, through every handle, a structure of a type the supplied type system does not define -
   whatever a default type system would define, and also when the supplied one defines nothing of its own *)
Theorem loaded_strict_refuses pf s dflt src t d c path tn :
  load_entry pf src s false t d = Ok c -> contains_exact s tn = false -> loaded_add s dflt c path tn = Err ERuntime.
Proof.
  intros H N. rewrite entry_is_load in H. unfold loaded_add. rewrite loaded_ts_is_supplied.
  apply strict_add_refuses; [exact (lenient_persists pf s false d c path H)|exact N].
Qed.

Theorem loaded_lenient_accepts pf s dflt src t d c path tn :
  load_entry pf src s true t d = Ok c -> loaded_add s dflt c path tn = Ok tt.
Proof.
  intros H. rewrite entry_is_load in H. unfold loaded_add.
  apply lenient_add_accepts. exact (lenient_persists pf s true d c path H).
Qed.

Theorem loaded_strict_accepts_own pf s dflt src t d c path tn :
  load_entry pf src s false t d = Ok c -> contains_exact s tn = true -> loaded_add s dflt c path tn = Ok tt.
Proof. intros _ N. unfold loaded_add. rewrite loaded_ts_is_supplied. apply strict_add_accepts_own. exact N. Qed.
