(* SelectProofs.v — the per-view per-type sorted index refines a bag per view, over all histories of
   add / add_all / remove / create_view / get_view / create_type / select / select_all; Type.descendants
   computes the reflexive-transitive closure of the supertype map on every reachable type tree. *)
From Cassis Require Import Base Index IndexProofs Select.
From Coq Require Import ZifyBool.
Open Scope Z_scope.

(* ================================================================== small list facts *)

Lemma NoDup_snoc {A} (l : list A) x : NoDup l -> ~ In x l -> NoDup (l ++ [x]).
Proof.
  induction 1 as [|a r Hn Hnd IH]; cbn [app]; intros Hx; [constructor; [intros []|constructor]|].
  constructor.
  - rewrite in_app_iff. intros [H|[H|[]]]; [contradiction|]. apply Hx. left. symmetry. exact H.
  - apply IH. intros H. apply Hx. right. exact H.
Qed.

Lemma NoDup_app_intro {A} (a b : list A) :
  NoDup a -> NoDup b -> (forall x, In x a -> ~ In x b) -> NoDup (a ++ b).
Proof.
  induction 1 as [|x r Hn Hnd IH]; cbn [app]; intros Hb Hd; [exact Hb|].
  constructor.
  - rewrite in_app_iff. intros [H|H]; [contradiction|]. apply (Hd x (or_introl eq_refl) H).
  - apply IH; [exact Hb|]. intros y Hy. apply Hd. right. exact Hy.
Qed.

Lemma bool_eq_iff (a b : bool) : (a = true <-> b = true) -> a = b.
Proof. destruct a, b; intros [H1 H2]; try reflexivity; [symmetry; apply H1|apply H2]; reflexivity. Qed.

Lemma filter_all {A} (f : A -> bool) l : (forall x, In x l -> f x = true) -> filter f l = l.
Proof.
  induction l as [|a r IH]; cbn [filter]; intros H; [reflexivity|].
  rewrite (H a (or_introl eq_refl)). f_equal. apply IH. intros x Hx. apply H. right. exact Hx.
Qed.

Lemma flat_map_map_in {A B C} (g : A -> B) (f : B -> list C) l : flat_map f (map g l) = flat_map (fun x => f (g x)) l.
Proof. induction l as [|a r IH]; cbn [map flat_map]; [reflexivity|]. rewrite IH. reflexivity. Qed.

Lemma map_flat_map {A B C} (g : B -> C) (f : A -> list B) l : map g (flat_map f l) = flat_map (fun x => map g (f x)) l.
Proof. induction l as [|a r IH]; cbn [map flat_map]; [reflexivity|]. rewrite map_app, IH. reflexivity. Qed.

(* ================================================================== the type tree *)

Lemma snodupb_NoDup l : snodupb l = true -> NoDup l.
Proof.
  induction l as [|x r IH]; cbn [snodupb]; intros H; [constructor|].
  apply andb_true_iff in H. destruct H as [H1 H2]. constructor; [|apply IH; exact H2].
  intros Hin. apply memb_In in Hin. rewrite Hin in H1. discriminate.
Qed.
Lemma NoDup_snodupb l : NoDup l -> snodupb l = true.
Proof.
  induction 1 as [|x r Hn Hnd IH]; cbn [snodupb]; [reflexivity|]. rewrite IH, andb_true_r.
  destruct (memb x r) eqn:E; [|reflexivity]. apply memb_In in E. contradiction.
Qed.

Lemma same_set_sound a b : same_set a b = true -> NoDup a /\ forall x, In x a <-> In x b.
Proof.
  unfold same_set. intros H. apply andb_true_iff in H. destruct H as [H H3]. apply andb_true_iff in H. destruct H as [H1 H2].
  split; [apply snodupb_NoDup; exact H1|]. rewrite forallb_forall in H2, H3.
  intros x. split; intros Hx; apply memb_In; [apply H2|apply H3]; exact Hx.
Qed.
Lemma same_set_complete a b : Permutation a b -> NoDup b -> same_set a b = true.
Proof.
  intros Hp Hnd. unfold same_set. rewrite NoDup_snodupb.
  2:{ eapply Permutation_NoDup; [symmetry; exact Hp|exact Hnd]. }
  cbn [andb]. apply andb_true_iff. split; apply forallb_forall; intros x Hx; apply memb_In.
  - eapply Permutation_in; eassumption.
  - eapply Permutation_in; [symmetry; eassumption|exact Hx].
Qed.

Lemma wf_names_NoDup tr : wf_tree tr -> NoDup (names tr).
Proof.
  induction tr as [|[n p] r IH]; cbn [wf_tree names map fst]; intros H; [constructor|].
  destruct H as (H1 & _ & H3). constructor; [exact H1|apply IH; exact H3].
Qed.

Lemma alookup_In_names {V} (x : string) (tr : list (string * V)) v : alookup x tr = Some v -> In x (map fst tr).
Proof.
  induction tr as [|[n p] r IH]; cbn [alookup map fst]; intros H; [discriminate|].
  destruct (String.eqb x n) eqn:E; [left; symmetry; apply String.eqb_eq; exact E|right; apply IH; exact H].
Qed.
Lemma alookup_None_names {V} (x : string) (tr : list (string * V)) : alookup x tr = None <-> ~ In x (map fst tr).
Proof.
  induction tr as [|[n p] r IH]; cbn [alookup map fst In]; [tauto|].
  destruct (String.eqb x n) eqn:E.
  - apply String.eqb_eq in E. split; [discriminate|]. intros H. exfalso. apply H. left. symmetry. exact E.
  - apply String.eqb_neq in E. rewrite IH. split; [intros H [H1|H1]; [apply E; symmetry; exact H1|exact (H H1)]|tauto].
Qed.
Lemma alookup_In_pair {V} (x : string) (l : list (string * V)) v :
  NoDup (map fst l) -> In (x, v) l -> alookup x l = Some v.
Proof.
  induction l as [|[n p] r IH]; cbn [alookup map fst In]; intros Hnd Hin; [contradiction|].
  inversion Hnd as [|? ? Hn Hnd']; subst. destruct Hin as [Hin|Hin].
  - inversion Hin; subst. rewrite String.eqb_refl. reflexivity.
  - destruct (String.eqb x n) eqn:E; [|apply IH; assumption].
    apply String.eqb_eq in E. subst n. exfalso. apply Hn. apply (in_map fst) in Hin. exact Hin.
Qed.
Lemma alookup_pair_In {V} (x : string) (l : list (string * V)) v : alookup x l = Some v -> In (x, v) l.
Proof.
  induction l as [|[n p] r IH]; cbn [alookup In]; intros H; [discriminate|].
  destruct (String.eqb x n) eqn:E; [|right; apply IH; exact H].
  apply String.eqb_eq in E. inversion H; subst. left. reflexivity.
Qed.

Lemma parent_in tr x p : wf_tree tr -> parent tr x = Some p -> In p (names tr).
Proof.
  unfold parent. induction tr as [|[n q] r IH]; cbn [wf_tree alookup names map fst]; intros W H; [discriminate|].
  destruct W as (W1 & W2 & W3). destruct (String.eqb x n).
  - subst q. right. exact W2.
  - right. apply IH; assumption.
Qed.
Lemma parent_self_in tr x p : parent tr x = Some p -> In x (names tr).
Proof.
  unfold parent. destruct (alookup x tr) eqn:E; [|discriminate]. intros _. eapply alookup_In_names. exact E.
Qed.

Lemma rank_le tr x : (rank tr x <= List.length tr)%nat.
Proof.
  induction tr as [|[n q] r IH]; cbn [rank List.length]; [lia|]. destruct (String.eqb n x); lia.
Qed.
Lemma parent_rank tr x p : wf_tree tr -> parent tr x = Some p -> (rank tr p < rank tr x)%nat.
Proof.
  induction tr as [|[n q] r IH]; intros W H; [discriminate|].
  pose proof (parent_in _ _ _ W H) as Hp.
  destruct W as (W1 & W2 & W3). unfold parent in H. cbn [alookup] in H. cbn [rank].
  destruct (String.eqb x n) eqn:E.
  - apply String.eqb_eq in E. subst x q. rewrite String.eqb_refl.
    destruct (String.eqb n p) eqn:E2; [apply String.eqb_eq in E2; subst p; contradiction|].
    pose proof (rank_le r p). lia.
  - rewrite String.eqb_sym in E. rewrite E.
    assert (Hpr : In p (names r)) by (apply (parent_in r x p W3); exact H).
    destruct (String.eqb n p) eqn:E2; [apply String.eqb_eq in E2; subst p; contradiction|].
    apply IH; assumption.
Qed.

Lemma sub_trans tr a b c : sub tr a b -> sub tr b c -> sub tr a c.
Proof. induction 1 as [|a p T Hp Hs IH]; intros H; [exact H|]. eapply sub_up; [exact Hp|apply IH; exact H]. Qed.
Lemma sub_rank tr a T : wf_tree tr -> sub tr a T -> (rank tr T <= rank tr a)%nat.
Proof.
  intros W. induction 1 as [|a p T Hp Hs IH]; [lia|]. pose proof (parent_rank _ _ _ W Hp). lia.
Qed.
Lemma sub_parent_absurd tr c a : wf_tree tr -> parent tr c = Some a -> sub tr a c -> False.
Proof. intros W Hp Hs. pose proof (parent_rank _ _ _ W Hp). pose proof (sub_rank _ _ _ W Hs). lia. Qed.
Lemma sub_chain tr d x y : sub tr d x -> sub tr d y -> sub tr x y \/ sub tr y x.
Proof.
  induction 1 as [|d p x Hp Hs IH]; intros Hy; [left; exact Hy|].
  inversion Hy as [|? p' ? Hp' Hs']; subst.
  - right. eapply sub_up; eassumption.
  - rewrite Hp in Hp'. inversion Hp'; subst p'. apply IH. exact Hs'.
Qed.
Lemma siblings_disjoint tr a c1 c2 d : wf_tree tr ->
  parent tr c1 = Some a -> parent tr c2 = Some a -> sub tr d c1 -> sub tr d c2 -> c1 = c2.
Proof.
  intros W H1 H2 S1 S2.
  destruct (sub_chain _ _ _ _ S1 S2) as [H|H]; inversion H as [|? p ? Hp Hs]; subst; try reflexivity.
  - rewrite H1 in Hp. inversion Hp; subst p. exfalso. eapply sub_parent_absurd; [exact W|exact H2|exact Hs].
  - rewrite H2 in Hp. inversion Hp; subst p. exfalso. eapply sub_parent_absurd; [exact W|exact H1|exact Hs].
Qed.

(* children bookkeeping = supertype map *)
Lemma children_In tr a c : In c (children tr a) <-> In (c, Some a) tr.
Proof.
  induction tr as [|[n p] r IH]; cbn [children In]; [tauto|].
  rewrite in_app_iff, IH. split.
  - intros [H|H]; [right; exact H|left].
    destruct p as [q|]; cbn [opt_is] in H; [|contradiction].
    destruct (String.eqb q a) eqn:E; [|contradiction]. apply String.eqb_eq in E. destruct H as [H|[]]. subst. reflexivity.
  - intros [H|H]; [right|left; exact H]. inversion H; subst. cbn [opt_is]. rewrite String.eqb_refl. left. reflexivity.
Qed.
Lemma children_parent tr a c : wf_tree tr -> (In c (children tr a) <-> parent tr c = Some a).
Proof.
  intros W. rewrite children_In. unfold parent. split.
  - intros H. rewrite (alookup_In_pair c tr (Some a) (wf_names_NoDup _ W) H). reflexivity.
  - intros H. destruct (alookup c tr) as [q|] eqn:E; [|discriminate]. subst q. apply alookup_pair_In. exact E.
Qed.
Lemma children_NoDup tr a : wf_tree tr -> NoDup (children tr a).
Proof.
  induction tr as [|[n p] r IH]; cbn [children wf_tree]; intros W; [constructor|].
  destruct W as (W1 & W2 & W3). destruct (opt_is p a); [|rewrite app_nil_r; apply IH; exact W3].
  apply NoDup_snoc; [apply IH; exact W3|]. intros H. apply children_In in H. apply W1.
  apply (in_map fst) in H. exact H.
Qed.

Lemma concat_opt_some {A} (f : tname -> option (list A)) cs :
  (forall c, In c cs -> f c <> None) -> concat_opt (map f cs) <> None.
Proof.
  induction cs as [|c r IH]; cbn [map concat_opt]; intros H; [discriminate|].
  destruct (f c) eqn:E; [|exfalso; apply (H c); [left; reflexivity|exact E]].
  destruct (concat_opt (map f r)) eqn:E2; [discriminate|].
  exfalso. apply IH; [|reflexivity]. intros c' Hc'. apply H. right. exact Hc'.
Qed.
Lemma concat_opt_In {A} (f : tname -> option (list A)) cs l x :
  concat_opt (map f cs) = Some l -> (In x l <-> exists c lc, In c cs /\ f c = Some lc /\ In x lc).
Proof.
  revert l. induction cs as [|c r IH]; cbn [map concat_opt]; intros l H.
  - inversion H; subst. split; [contradiction|]. intros (c & lc & Hc & _). contradiction.
  - destruct (f c) as [lc|] eqn:E; [|discriminate].
    destruct (concat_opt (map f r)) as [lr|] eqn:E2; [|discriminate].
    inversion H; subst. rewrite in_app_iff. rewrite (IH lr eq_refl). split.
    + intros [Hx|(c' & lc' & Hc' & Hf & Hx)].
      * exists c, lc. cbn [In]. auto.
      * exists c', lc'. cbn [In]. auto.
    + intros (c' & lc' & [<-|Hc'] & Hf & Hx).
      * left. congruence.
      * right. exists c', lc'. auto.
Qed.
Lemma concat_opt_NoDup {A} (f : tname -> option (list A)) cs l :
  concat_opt (map f cs) = Some l -> NoDup cs ->
  (forall c lc, In c cs -> f c = Some lc -> NoDup lc) ->
  (forall c1 c2 l1 l2 x, In c1 cs -> In c2 cs -> f c1 = Some l1 -> f c2 = Some l2 -> In x l1 -> In x l2 -> c1 = c2) ->
  NoDup l.
Proof.
  revert l. induction cs as [|c r IH]; cbn [map concat_opt]; intros l H Hnd H1 H2.
  - inversion H; constructor.
  - destruct (f c) as [lc|] eqn:E; [|discriminate].
    destruct (concat_opt (map f r)) as [lr|] eqn:E2; [|discriminate].
    inversion H; subst. inversion Hnd as [|? ? Hn Hnd']; subst.
    apply NoDup_app_intro.
    + apply (H1 c lc); [left; reflexivity|exact E].
    + apply (IH lr eq_refl Hnd').
      * intros c' lc' Hc'. apply H1. right. exact Hc'.
      * intros c1 c2 l1 l2 x Hc1 Hc2. apply H2; right; assumption.
    + intros x Hx Hxr. apply (concat_opt_In f r lr x E2) in Hxr. destruct Hxr as (c' & lc' & Hc' & Hf & Hx').
      assert (c = c') by (eapply (H2 c c' lc lc' x); cbn [In]; auto). subst c'. contradiction.
Qed.

Lemma desc_S k tr t : desc (S k) tr t = option_map (cons t) (concat_opt (map (desc k tr) (children tr t))).
Proof. reflexivity. Qed.

(* termination: fuel above (number of types - rank) suffices *)
Lemma desc_total tr : wf_tree tr -> forall k t, (List.length tr - rank tr t < k)%nat -> desc k tr t <> None.
Proof.
  intros W. induction k as [|k IH]; intros t Hk; [lia|]. rewrite desc_S.
  assert (Hc : concat_opt (map (desc k tr) (children tr t)) <> None).
  { apply concat_opt_some. intros c Hc. apply (children_parent _ _ _ W) in Hc.
    apply IH. pose proof (parent_rank _ _ _ W Hc). pose proof (rank_le tr c). lia. }
  destruct (concat_opt (map (desc k tr) (children tr t))); [discriminate|contradiction].
Qed.
Lemma desc_head k tr a l : desc k tr a = Some l -> In a l.
Proof.
  destruct k; [discriminate|]. rewrite desc_S. destruct (concat_opt _); cbn [option_map]; intros H; inversion H. left. reflexivity.
Qed.
Lemma desc_sound tr : wf_tree tr -> forall k a l, desc k tr a = Some l -> forall d, In d l -> sub tr d a.
Proof.
  intros W. induction k as [|k IH]; intros a l H d Hd; [discriminate|]. rewrite desc_S in H.
  destruct (concat_opt (map (desc k tr) (children tr a))) as [lc|] eqn:Ec; [|discriminate].
  inversion H; subst l. destruct Hd as [<-|Hd]; [apply sub_refl|].
  apply (concat_opt_In _ _ _ _ Ec) in Hd. destruct Hd as (c & lcc & Hc & Hdc & Hx).
  apply (children_parent _ _ _ W) in Hc.
  eapply sub_trans; [eapply IH; eassumption|]. eapply sub_up; [exact Hc|apply sub_refl].
Qed.
Lemma desc_closed tr : wf_tree tr -> forall k a l, desc k tr a = Some l ->
  forall s d, In s l -> parent tr d = Some s -> In d l.
Proof.
  intros W. induction k as [|k IH]; intros a l H s d Hs Hd; [discriminate|]. rewrite desc_S in H.
  destruct (concat_opt (map (desc k tr) (children tr a))) as [lc|] eqn:Ec; [|discriminate].
  inversion H; subst l. right. apply (concat_opt_In _ _ _ _ Ec).
  destruct Hs as [<-|Hs].
  - assert (Hc : In d (children tr a)) by (apply (children_parent _ _ _ W); exact Hd).
    destruct (desc k tr d) as [ld|] eqn:Ed.
    + exists d, ld. repeat split; auto. eapply desc_head. exact Ed.
    + exfalso. revert Ec Hc Ed. clear. revert lc.
      induction (children tr a) as [|c r IHr]; cbn [map concat_opt In]; intros lc Ec Hc Ed; [contradiction|].
      destruct (desc k tr c) eqn:E1; [|discriminate].
      destruct (concat_opt (map (desc k tr) r)) eqn:E2; [|discriminate].
      destruct Hc as [->|Hc]; [congruence|]. eapply IHr; eauto.
  - apply (concat_opt_In _ _ _ _ Ec) in Hs. destruct Hs as (c & lcc & Hc & Hdc & Hx).
    exists c, lcc. repeat split; auto. eapply IH; eassumption.
Qed.
Lemma desc_complete tr : wf_tree tr -> forall k a l, desc k tr a = Some l -> forall d, sub tr d a -> In d l.
Proof.
  intros W k a l H d Hs. induction Hs as [|d p a Hp Hs IH].
  - eapply desc_head. exact H.
  - eapply desc_closed; [exact W|exact H|apply IH; exact H|exact Hp].
Qed.
Lemma desc_NoDup tr : wf_tree tr -> forall k a l, desc k tr a = Some l -> NoDup l.
Proof.
  intros W. induction k as [|k IH]; intros a l H; [discriminate|]. rewrite desc_S in H.
  destruct (concat_opt (map (desc k tr) (children tr a))) as [lc|] eqn:Ec; [|discriminate].
  inversion H; subst l. constructor.
  - intros Hin. apply (concat_opt_In _ _ _ _ Ec) in Hin. destruct Hin as (c & lcc & Hc & Hdc & Hx).
    apply (children_parent _ _ _ W) in Hc.
    eapply sub_parent_absurd; [exact W|exact Hc|]. eapply desc_sound; eassumption.
  - eapply concat_opt_NoDup; [exact Ec|apply children_NoDup; exact W| |].
    + intros c lcc _ Hdc. eapply IH. exact Hdc.
    + intros c1 c2 l1 l2 x Hc1 Hc2 Hd1 Hd2 Hx1 Hx2.
      apply (children_parent _ _ _ W) in Hc1, Hc2.
      eapply siblings_disjoint; [exact W|exact Hc1|exact Hc2|eapply desc_sound; eassumption|eapply desc_sound; eassumption].
Qed.

(* Type.descendants computes the subtype closure, each name once *)
Theorem descendants_spec tr T : wf_tree tr ->
  exists D, descendants tr T = Some D /\ NoDup D /\ forall a, In a D <-> sub tr a T.
Proof.
  intros W. unfold descendants. destruct (desc (S (List.length tr)) tr T) as [D|] eqn:E.
  - exists D. split; [reflexivity|]. split; [eapply desc_NoDup; eassumption|].
    intros a. split; [eapply desc_sound; eassumption|eapply desc_complete; eassumption].
  - exfalso. eapply (desc_total tr W); [|exact E]. lia.
Qed.

Lemma subb_fuel_spec tr T : wf_tree tr -> forall k a, (rank tr a < k)%nat -> (subb_fuel k tr a T = true <-> sub tr a T).
Proof.
  intros W. induction k as [|k IH]; intros a Hk; [lia|]. cbn [subb_fuel]. rewrite orb_true_iff. split.
  - intros [H|H]; [apply String.eqb_eq in H; subst; apply sub_refl|].
    destruct (parent tr a) as [p|] eqn:Ep; [|discriminate].
    eapply sub_up; [exact Ep|]. apply IH; [|exact H]. pose proof (parent_rank _ _ _ W Ep). lia.
  - intros H. inversion H as [|? p ? Hp Hs]; subst; [left; apply String.eqb_refl|right].
    rewrite Hp. apply IH; [|exact Hs]. pose proof (parent_rank _ _ _ W Hp). lia.
Qed.
Theorem subb_spec tr a T : wf_tree tr -> (subb tr a T = true <-> sub tr a T).
Proof. intros W. unfold subb. apply subb_fuel_spec; [exact W|]. pose proof (rank_le tr a). lia. Qed.

(* name resolution *)
Lemma resolve_in tr s T : resolve tr s = Ok T -> In T (names tr).
Proof.
  unfold resolve, has_type. destruct (memb s (names tr)) eqn:E.
  - intros H. inversion H; subst. apply memb_In. exact E.
  - destruct (has_dot s); [discriminate|].
    destruct (filter (fun n => String.eqb (short_name n) s) (names tr)) as [|n [|n' r]] eqn:Ef; try discriminate.
    intros H. inversion H; subst.
    assert (Hin : In T (filter (fun n => String.eqb (short_name n) s) (names tr))) by (rewrite Ef; left; reflexivity).
    apply filter_In in Hin. tauto.
Qed.
Lemma resolve_sel_in tr q T : resolve_sel tr q = Ok T -> In T (names (sel_tree tr q)).
Proof.
  destruct q as [t|s|cts t]; cbn [resolve_sel sel_tree]; [|apply resolve_in|].
  - unfold has_type. destruct (memb t (names tr)) eqn:E; [|discriminate]. intros H. inversion H; subst. apply memb_In. exact E.
  - unfold has_type. destruct (memb t (names (foreign_tree cts))) eqn:E; [|discriminate].
    intros H. inversion H; subst. apply memb_In. exact E.
Qed.
Lemma resolve_full tr T : has_type tr T = true -> resolve tr T = Ok T.
Proof. unfold resolve. intros ->. reflexivity. Qed.
Lemma resolve_short tr s T : has_type tr s = false -> has_dot s = false ->
  filter (fun n => String.eqb (short_name n) s) (names tr) = [T] -> resolve tr s = Ok T.
Proof. unfold resolve. intros -> -> ->. reflexivity. Qed.

Lemma create_type_wf tr n sup tr' : wf_tree tr -> create_type tr n sup = Ok tr' -> wf_tree tr'.
Proof.
  unfold create_type. intros W.
  destruct (has_type tr n) eqn:En; [discriminate|].
  destruct (resolve tr sup) as [p| |] eqn:Er; cbn [bind]; try discriminate.
  destruct (memb p final_types); [discriminate|].
  intros H. inversion H; subst. cbn [wf_tree]. repeat split; [|eapply resolve_in; exact Er|exact W].
  intros Hin. apply memb_In in Hin. unfold has_type in En. congruence.
Qed.

(* every other TypeSystem object holds a well-formed tree too, whatever create_type calls were made on it *)
Lemma root_tree_wf : wf_tree root_tree.
Proof. cbn [root_tree wf_tree names map]. repeat split. intros []. Qed.
Lemma foreign_step_wf tr c : wf_tree tr -> wf_tree (foreign_step tr c).
Proof.
  intros W. unfold foreign_step. destruct (create_type tr (fst c) (snd c)) as [tr'| |] eqn:E; try exact W.
  eapply create_type_wf; eassumption.
Qed.
Lemma fold_foreign_wf cts : forall tr, wf_tree tr -> wf_tree (fold_left foreign_step cts tr).
Proof. induction cts as [|c r IH]; cbn [fold_left]; intros tr W; [exact W|]. apply IH. apply foreign_step_wf. exact W. Qed.
Theorem foreign_tree_wf cts : wf_tree (foreign_tree cts).
Proof. apply fold_foreign_wf. exact root_tree_wf. Qed.
Lemma sel_tree_wf tr q : wf_tree tr -> wf_tree (sel_tree tr q).
Proof. intros W. destruct q; cbn [sel_tree]; try exact W. apply foreign_tree_wf. Qed.

(* creating a type leaves the subtype relation among the existing types as it was *)
Lemma parent_cons_old n q tr x : In x (names tr) -> ~ In n (names tr) -> parent ((n, q) :: tr) x = parent tr x.
Proof.
  intros Hx Hn. unfold parent. cbn [alookup]. destruct (String.eqb x n) eqn:E; [|reflexivity].
  apply String.eqb_eq in E. subst. contradiction.
Qed.
Lemma sub_cons_old n q tr a T : wf_tree ((n, q) :: tr) -> In a (names tr) -> (sub ((n, q) :: tr) a T <-> sub tr a T).
Proof.
  intros W Ha. destruct W as (W1 & W2 & W3). split.
  - intros H. induction H as [|a p T Hp Hs IH]; [apply sub_refl|].
    rewrite (parent_cons_old _ _ _ _ Ha W1) in Hp. eapply sub_up; [exact Hp|]. apply IH. eapply parent_in; eassumption.
  - intros H. induction H as [|a p T Hp Hs IH]; [apply sub_refl|].
    eapply sub_up; [rewrite (parent_cons_old _ _ _ _ Ha W1); exact Hp|]. apply IH. eapply parent_in; eassumption.
Qed.

(* ================================================================== one view: the index refines the bag *)

Definition idx_inv (idx : index) (bag : list fs) : Prop :=
  NoDup (akeys idx) /\ forall t, sorted (idx_get t idx) /\ Permutation (idx_get t idx) (keys_of t bag).

Lemma akeys_aset {V} k (v : V) l : akeys (aset k v l) = if memb k (akeys l) then akeys l else akeys l ++ [k].
Proof.
  unfold akeys. induction l as [|[k' v'] r IH]; cbn [aset map fst memb]; [reflexivity|].
  destruct (String.eqb k k') eqn:E; cbn [map fst orb]; [reflexivity|].
  rewrite IH. destruct (memb k (map fst r)); reflexivity.
Qed.
Lemma NoDup_akeys_aset {V} k (v : V) l : NoDup (akeys l) -> NoDup (akeys (aset k v l)).
Proof.
  intros H. rewrite akeys_aset. destruct (memb k (akeys l)) eqn:E; [exact H|].
  apply NoDup_snoc; [exact H|]. intros Hin. apply memb_In in Hin. congruence.
Qed.
Lemma idx_get_aset t t' l idx : idx_get t (aset t' l idx) = if String.eqb t t' then l else idx_get t idx.
Proof. unfold idx_get. rewrite alookup_aset. destruct (String.eqb t t'); reflexivity. Qed.
Lemma idx_inv_empty : idx_inv [] [].
Proof. split; [constructor|]. intros t. split; [constructor|reflexivity]. Qed.

Lemma keys_of_app t b f : keys_of t (b ++ [f]) = keys_of t b ++ (if is_type t f then [fs_key f] else []).
Proof. unfold keys_of. rewrite filter_app, map_app. cbn [filter]. destruct (is_type t f); reflexivity. Qed.
Lemma keys_of_cons t g b : keys_of t (g :: b) = (if is_type t g then [fs_key g] else []) ++ keys_of t b.
Proof. unfold keys_of. cbn [filter]. destruct (is_type t g); reflexivity. Qed.
Lemma keys_of_perm t l l' : Permutation l l' -> Permutation (keys_of t l) (keys_of t l').
Proof. intros H. unfold keys_of. apply Permutation_map. apply filter_perm. exact H. Qed.
Lemma keys_of_In t bag k : In k (keys_of t bag) <-> exists g, In g bag /\ f_type g = t /\ fs_key g = k.
Proof.
  unfold keys_of. rewrite in_map_iff. split.
  - intros (g & Hk & Hg). apply filter_In in Hg. destruct Hg as [Hg Ht]. unfold is_type in Ht. apply String.eqb_eq in Ht. eauto.
  - intros (g & Hg & Ht & Hk). exists g. split; [exact Hk|]. apply filter_In. split; [exact Hg|]. unfold is_type. apply String.eqb_eq. exact Ht.
Qed.

(* Cas.add *)
Lemma add_inv idx bag f : idx_inv idx bag -> idx_inv (idx_add (f_type f) (fs_key f) idx) (bag ++ [f]).
Proof.
  intros [Hnd H]. split; [apply NoDup_akeys_aset; exact Hnd|].
  intros t. destruct (H t) as [Hs Hp]. rewrite idx_get_add, keys_of_app. unfold is_type. rewrite (String.eqb_sym (f_type f) t).
  destruct (String.eqb t (f_type f)) eqn:E.
  - apply String.eqb_eq in E. subst t. split; [apply insert_sorted; exact Hs|].
    rewrite insert_perm, Hp. apply Permutation_cons_append.
  - rewrite app_nil_r. split; assumption.
Qed.

(* Cas.remove *)
Lemma key_eqb_eq a b : key_eqb a b = true <-> a = b.
Proof.
  unfold key_eqb. destruct a as [a1 a2 a3], b as [b1 b2 b3]. cbn [kb ke ko]. split; intros H.
  - f_equal; lia.
  - inversion H; subst. lia.
Qed.
Lemma key_ltb_irrefl k : key_ltb k k = false.
Proof. unfold key_ltb. lia. Qed.
Lemma key_le_antisym a b : key_le a b -> key_le b a -> a = b.
Proof. unfold key_le. destruct a as [a1 a2 a3], b as [b1 b2 b3]; cbn [kb ke ko]. intros H1 H2. f_equal; lia. Qed.

Lemma sorted_inv x r : sorted (x :: r) -> sorted r /\ Forall (key_le x) r.
Proof. unfold sorted. intros H. inversion H; subst. auto. Qed.

Lemma remove_key_some k l : sorted l -> forall l', remove_key k l = Some l' -> Permutation l (k :: l') /\ sorted l'.
Proof.
  induction l as [|x r IH]; intros Hs l' H; [discriminate|]. cbn [remove_key] in H.
  apply sorted_inv in Hs. destruct Hs as [Hsr Hall].
  destruct (key_ltb x k) eqn:E1.
  - destruct (remove_key k r) as [r'|] eqn:Er; [|discriminate]. cbn [option_map] in H. inversion H; subst l'.
    destruct (IH Hsr r' eq_refl) as [Hp Hs']. split.
    + rewrite Hp. apply perm_swap.
    + constructor; [exact Hs'|]. rewrite Forall_forall in *. intros y Hy. apply Hall.
      eapply Permutation_in; [symmetry; exact Hp|right; exact Hy].
  - destruct (key_eqb x k) eqn:E2; [|discriminate]. apply key_eqb_eq in E2. inversion H; subst. split; [reflexivity|exact Hsr].
Qed.
Lemma remove_key_none k l : sorted l -> remove_key k l = None -> ~ In k l.
Proof.
  induction l as [|x r IH]; intros Hs H; [intros []|]. cbn [remove_key] in H.
  apply sorted_inv in Hs. destruct Hs as [Hsr Hall]. intros [Hin|Hin].
  - subst x. rewrite key_ltb_irrefl in H. assert (E : key_eqb k k = true) by (apply key_eqb_eq; reflexivity).
    rewrite E in H. discriminate.
  - destruct (key_ltb x k) eqn:E1.
    + destruct (remove_key k r) eqn:Er; [discriminate|]. exact (IH Hsr eq_refl Hin).
    + rewrite Forall_forall in Hall. pose proof (Hall _ Hin) as Hle. apply key_ltb_false_le in E1.
      assert (x = k) by (apply key_le_antisym; assumption). subst x.
      assert (E : key_eqb k k = true) by (apply key_eqb_eq; reflexivity). rewrite E in H. discriminate.
Qed.

Lemma remove_first_perm p l : existsb p l = true -> exists g, p g = true /\ Permutation l (g :: remove_first p l).
Proof.
  induction l as [|x r IH]; cbn [existsb remove_first]; intros H; [discriminate|].
  destruct (p x) eqn:E; [exists x; split; [exact E|reflexivity]|]. cbn [orb] in H.
  destruct (IH H) as (g & Hg & Hp). exists g. split; [exact Hg|]. rewrite Hp at 1. apply perm_swap.
Qed.
Lemma remove_first_none p l : existsb p l = false -> remove_first p l = l.
Proof.
  induction l as [|x r IH]; cbn [existsb remove_first]; intros H; [reflexivity|].
  apply orb_false_iff in H. destruct H as [H1 H2]. rewrite H1, (IH H2). reflexivity.
Qed.
Lemma same_fs_spec f g : same_fs f g = true <-> f_type g = f_type f /\ fs_key g = fs_key f.
Proof.
  unfold same_fs. rewrite andb_true_iff, String.eqb_eq, key_eqb_eq. split; intros [H1 H2]; split; congruence.
Qed.
Lemma existsb_same_fs f bag : existsb (same_fs f) bag = true <-> In (fs_key f) (keys_of (f_type f) bag).
Proof.
  rewrite existsb_exists, keys_of_In. split; intros (g & Hg & H); exists g; (split; [exact Hg|]); apply same_fs_spec; exact H.
Qed.

Lemma remove_inv idx bag f : idx_inv idx bag ->
  snd (idx_remove f idx) = existsb (same_fs f) bag /\ idx_inv (fst (idx_remove f idx)) (remove_first (same_fs f) bag).
Proof.
  intros [Hnd H]. unfold idx_remove. destruct (H (f_type f)) as [Hs Hp].
  destruct (alookup (f_type f) idx) as [l|] eqn:El.
  - assert (Hl : idx_get (f_type f) idx = l) by (unfold idx_get; rewrite El; reflexivity). rewrite Hl in Hs, Hp.
    destruct (remove_key (fs_key f) l) as [l'|] eqn:Er; cbn [fst snd].
    + destruct (remove_key_some _ _ Hs _ Er) as [Hpl Hsl'].
      assert (Hex : existsb (same_fs f) bag = true).
      { apply existsb_same_fs. eapply Permutation_in; [exact Hp|]. eapply Permutation_in; [symmetry; exact Hpl|left; reflexivity]. }
      split; [symmetry; exact Hex|].
      destruct (remove_first_perm _ _ Hex) as (g & Hg & Hperm). apply same_fs_spec in Hg. destruct Hg as [Hgt Hgk].
      split; [apply NoDup_akeys_aset; exact Hnd|]. intros t. rewrite idx_get_aset.
      pose proof (keys_of_perm t _ _ Hperm) as Hk. rewrite keys_of_cons in Hk. unfold is_type in Hk. rewrite Hgt, Hgk in Hk.
      destruct (String.eqb t (f_type f)) eqn:E.
      * apply String.eqb_eq in E. subst t. rewrite String.eqb_refl in Hk. cbn [app] in Hk. split; [exact Hsl'|].
        apply (Permutation_cons_inv (a := fs_key f)). rewrite <- Hpl, Hp. exact Hk.
      * rewrite String.eqb_sym in E. rewrite E in Hk. cbn [app] in Hk. destruct (H t) as [Hs' Hp']. split; [exact Hs'|].
        rewrite Hp'. exact Hk.
    + assert (Hex : existsb (same_fs f) bag = false).
      { destruct (existsb (same_fs f) bag) eqn:Hex; [|reflexivity]. exfalso.
        apply existsb_same_fs in Hex. apply (remove_key_none _ _ Hs Er). eapply Permutation_in; [symmetry; exact Hp|exact Hex]. }
      split; [symmetry; exact Hex|]. rewrite (remove_first_none _ _ Hex). split; assumption.
  - cbn [fst snd]. assert (Hl : idx_get (f_type f) idx = []) by (unfold idx_get; rewrite El; reflexivity). rewrite Hl in Hp.
    assert (Hex : existsb (same_fs f) bag = false).
    { destruct (existsb (same_fs f) bag) eqn:Hex; [|reflexivity]. exfalso.
      apply existsb_same_fs in Hex. apply Permutation_nil in Hp. rewrite Hp in Hex. destruct Hex. }
    split; [symmetry; exact Hex|]. rewrite (remove_first_none _ _ Hex).
    split; [apply NoDup_akeys_aset; exact Hnd|]. intros t. rewrite idx_get_aset.
    destruct (String.eqb t (f_type f)) eqn:E; [|apply H].
    apply String.eqb_eq in E. subst t. rewrite <- Hl. apply H.
Qed.

(* Cas.select: the defaultdict reads *)
Lemma touch_get t t' idx : idx_get t' (touch t idx) = idx_get t' idx.
Proof.
  unfold touch. destruct (alookup t idx) eqn:E; [reflexivity|]. rewrite idx_get_aset.
  destruct (String.eqb t' t) eqn:E2; [|reflexivity]. apply String.eqb_eq in E2. subst. unfold idx_get. rewrite E. reflexivity.
Qed.
Lemma touch_inv t idx bag : idx_inv idx bag -> idx_inv (touch t idx) bag.
Proof.
  intros [Hnd H]. split.
  - unfold touch. destruct (alookup t idx); [exact Hnd|apply NoDup_akeys_aset; exact Hnd].
  - intros t'. rewrite touch_get. apply H.
Qed.
Lemma touch_all_inv o : forall idx bag, idx_inv idx bag -> idx_inv (fold_left (fun i t => touch t i) o idx) bag.
Proof. induction o as [|t r IH]; cbn [fold_left]; intros idx bag H; [exact H|]. apply IH. apply touch_inv. exact H. Qed.
Lemma touch_all_get o : forall idx t, idx_get t (fold_left (fun i t => touch t i) o idx) = idx_get t idx.
Proof. induction o as [|x r IH]; cbn [fold_left]; intros idx t; [reflexivity|]. rewrite IH. apply touch_get. Qed.

Lemma pair_keys_of t bag : map (pair t) (keys_of t bag) = map fs_ent (filter (is_type t) bag).
Proof.
  unfold keys_of. induction bag as [|a r IH]; cbn [filter map]; [reflexivity|].
  destruct (is_type t a) eqn:E; cbn [map]; [|exact IH]. rewrite IH. unfold is_type in E. apply String.eqb_eq in E.
  unfold fs_ent. rewrite E. reflexivity.
Qed.
Lemma flat_map_by_type {A} (ty : A -> string) (types : list tname) (l : list A) :
  NoDup types ->
  Permutation (flat_map (fun t => filter (fun a => String.eqb (ty a) t) l) types) (filter (fun a => memb (ty a) types) l).
Proof.
  induction 1 as [|t ts Hnin Hnd IH]; cbn [flat_map memb].
  - rewrite filter_none; [reflexivity|]. intros; reflexivity.
  - rewrite IH. symmetry.
    apply (filter_disjoint_or (fun a => String.eqb (ty a) t) (fun a => memb (ty a) ts)).
    intros a _ Ht. apply String.eqb_eq in Ht.
    destruct (memb (ty a) ts) eqn:E; [|reflexivity].
    apply memb_In in E. rewrite Ht in E. contradiction.
Qed.

Lemma select_in_spec types idx bag : NoDup types -> idx_inv idx bag ->
  Permutation (select_in types idx) (map fs_ent (filter (fun f => memb (f_type f) types) bag)).
Proof.
  intros Hnd [_ H]. unfold select_in.
  rewrite (flat_map_perm _ (fun t => map fs_ent (filter (is_type t) bag))).
  2:{ intros t _. rewrite <- pair_keys_of. apply Permutation_map. apply H. }
  rewrite <- map_flat_map. apply Permutation_map. apply (flat_map_by_type f_type). exact Hnd.
Qed.

Lemma iter_order_ok order D : NoDup D -> NoDup (iter_order order D) /\ forall x, In x (iter_order order D) <-> In x D.
Proof.
  intros Hnd. unfold iter_order. destruct (same_set order D) eqn:E; [apply same_set_sound; exact E|].
  split; [exact Hnd|tauto].
Qed.

Lemma select_inv tr T order idx bag : wf_tree tr -> idx_inv idx bag ->
  exists idx' l, idx_select tr T order idx = Some (idx', l) /\ idx_inv idx' bag /\
                 (forall t, idx_get t idx' = idx_get t idx) /\
                 Permutation l (map fs_ent (filter (fun f => subb tr (f_type f) T) bag)).
Proof.
  intros W Hi. unfold idx_select. destruct (descendants_spec tr T W) as (D & -> & Hnd & HD).
  destruct (iter_order_ok order D Hnd) as [Hno Hio]. eexists. eexists. split; [reflexivity|].
  split; [apply touch_all_inv; exact Hi|]. split; [intros t; apply touch_all_get|].
  rewrite (select_in_spec _ _ _ Hno Hi). apply Permutation_map.
  assert (E : forall f, memb (f_type f) (iter_order order D) = subb tr (f_type f) T).
  { intros f. apply bool_eq_iff. rewrite memb_In, Hio, HD, (subb_spec _ _ _ W). tauto. }
  rewrite (filter_ext _ _ E). reflexivity.
Qed.

(* Cas.select_all *)
Lemma flat_map_ext_In {A B} (f g : A -> list B) l : (forall x, In x l -> f x = g x) -> flat_map f l = flat_map g l.
Proof.
  induction l as [|a r IH]; cbn [flat_map]; intros H; [reflexivity|].
  rewrite (H a (or_introl eq_refl)), IH; [reflexivity|]. intros x Hx. apply H. right. exact Hx.
Qed.
Lemma flatten_select_in idx : NoDup (akeys idx) -> flatten idx = select_in (akeys idx) idx.
Proof.
  intros Hnd. unfold flatten, select_in, akeys. rewrite flat_map_map_in. apply flat_map_ext_In.
  intros [t l] Hin. cbn [fst snd]. unfold idx_get. rewrite (alookup_In_pair t idx l Hnd Hin). reflexivity.
Qed.
Lemma flatten_spec idx bag : idx_inv idx bag -> Permutation (flatten idx) (map fs_ent bag).
Proof.
  intros Hi. pose proof Hi as [Hnd H]. rewrite (flatten_select_in _ Hnd), (select_in_spec _ _ _ Hnd Hi).
  rewrite filter_all; [reflexivity|]. intros f Hf.
  destruct (memb (f_type f) (akeys idx)) eqn:E; [reflexivity|]. exfalso.
  assert (Hn : alookup (f_type f) idx = None).
  { apply alookup_None_names. intros Hin. apply memb_In in Hin. unfold akeys in E. congruence. }
  destruct (H (f_type f)) as [_ Hp]. unfold idx_get in Hp. rewrite Hn in Hp. apply Permutation_nil in Hp.
  assert (Hk : In (fs_key f) (keys_of (f_type f) bag)) by (apply keys_of_In; exists f; auto).
  rewrite Hp in Hk. destruct Hk.
Qed.

(* instances of one concrete type come in index order *)
Lemma filter_pair t x (l : list key) :
  filter (fun e : ent => String.eqb (fst e) t) (map (pair x) l) = if String.eqb x t then map (pair x) l else [].
Proof.
  induction l as [|a r IH]; cbn [map filter fst]; [destruct (String.eqb x t); reflexivity|].
  rewrite IH. destruct (String.eqb x t); reflexivity.
Qed.
Lemma filter_select_in t types idx : NoDup types ->
  filter (fun e : ent => String.eqb (fst e) t) (select_in types idx) = if memb t types then map (pair t) (idx_get t idx) else [].
Proof.
  unfold select_in. induction 1 as [|x r Hn Hnd IH]; cbn [flat_map memb]; [reflexivity|].
  rewrite filter_app, filter_pair.
  match goal with |- _ ++ ?F = _ => replace F with (if memb t r then map (pair t) (idx_get t idx) else []) by (symmetry; exact IH) end.
  rewrite (String.eqb_sym t x). destruct (String.eqb x t) eqn:E; cbn [orb app]; [|reflexivity].
  apply String.eqb_eq in E. subst x. destruct (memb t r) eqn:E2; [apply memb_In in E2; contradiction|]. apply app_nil_r.
Qed.
Lemma select_in_sorted types idx bag t : NoDup types -> idx_inv idx bag ->
  sorted (map snd (filter (fun e : ent => String.eqb (fst e) t) (select_in types idx))).
Proof.
  intros Hnd [_ H]. rewrite (filter_select_in _ _ _ Hnd). destruct (memb t types); [|constructor].
  rewrite map_map. cbn [snd]. rewrite map_id. apply H.
Qed.

(* ================================================================== histories: the mechanism refines the specification *)

Definition vrel (x : string * index) (y : string * list fs) : Prop := fst x = fst y /\ idx_inv (snd x) (snd y).
(* the simulation relation: same control state, well-formed tree, every view's index refines that view's bag *)
Definition R (c : state index) (a : state (list fs)) : Prop :=
  s_lenient c = s_lenient a /\ s_tree c = s_tree a /\ s_handles c = s_handles a /\ wf_tree (s_tree c) /\
  Forall2 vrel (s_views c) (s_views a).

Lemma views_lookup cv av v : Forall2 vrel cv av ->
  match alookup v cv, alookup v av with
  | Some i, Some b => idx_inv i b | None, None => True | _, _ => False end.
Proof.
  induction 1 as [|[n i] [m b] cv' av' [Hn Hi] HF IH]; cbn [alookup]; [exact I|].
  cbn [fst snd] in Hn, Hi. subst m. destruct (String.eqb v n); [exact Hi|exact IH].
Qed.
Lemma views_aset cv av v i b : Forall2 vrel cv av -> idx_inv i b -> Forall2 vrel (aset v i cv) (aset v b av).
Proof.
  intros HF Hi. induction HF as [|[n i0] [m b0] cv' av' [Hn Hi0] HF IH]; cbn [aset].
  - constructor; [split; [reflexivity|exact Hi]|constructor].
  - cbn [fst snd] in Hn, Hi0. subst m. destruct (String.eqb v n).
    + constructor; [split; [reflexivity|exact Hi]|exact HF].
    + constructor; [split; [reflexivity|exact Hi0]|exact IH].
Qed.
Lemma views_keys cv av : Forall2 vrel cv av -> akeys cv = akeys av.
Proof. unfold akeys. induction 1 as [|x y cv' av' [Hn _] HF IH]; cbn [map]; [reflexivity|]. rewrite Hn, IH. reflexivity. Qed.
Lemma views_snoc cv av n : Forall2 vrel cv av -> Forall2 vrel (cv ++ [(n, [])]) (av ++ [(n, [])]).
Proof. intros H. apply Forall2_app; [exact H|]. constructor; [split; [reflexivity|exact idx_inv_empty]|constructor]. Qed.

Lemma add_loop_sim ok l : forall i b, idx_inv i b ->
  idx_inv (fst (add_loop cpl ok l i)) (fst (add_loop apl ok l b)) /\ snd (add_loop cpl ok l i) = snd (add_loop apl ok l b).
Proof.
  induction l as [|f r IH]; cbn [add_loop]; intros i b H; [split; [exact H|reflexivity]|].
  destruct (ok f); [|split; [exact H|reflexivity]]. apply IH. cbn [p_add cpl apl]. apply add_inv. exact H.
Qed.

Lemma obs_equiv_refl x : obs_equiv x x.
Proof. destruct x; cbn [obs_equiv]; reflexivity. Qed.
Lemma obs_equiv_sym x y : obs_equiv x y -> obs_equiv y x.
Proof. destruct x, y; cbn [obs_equiv]; intros H; try (symmetry; exact H); try discriminate H. Qed.
Lemma obs_equiv_trans x y z : obs_equiv x y -> obs_equiv y z -> obs_equiv x z.
Proof.
  destruct x, y; cbn [obs_equiv]; intros H1; try discriminate H1; destruct z; cbn [obs_equiv]; intros H2; try discriminate H2;
    try (etransitivity; eassumption).
Qed.

Ltac solveR := repeat split; cbn [s_lenient s_tree s_views s_handles fst snd obs_equiv]; try reflexivity; try assumption.

Lemma step_sim c a o : R c a ->
  R (fst (step cpl c o)) (fst (step apl a o)) /\ obs_equiv (snd (step cpl c o)) (snd (step apl a o)).
Proof.
  destruct c as [cl ct cv ch], a as [al at' av ah]. unfold R. cbn [s_lenient s_tree s_views s_handles].
  intros (-> & -> & -> & W & V).
  destruct o as [h f|h l|h f|n|n|n sup|h q order|h]; cbn [step]; unfold cur_view; cbn [s_handles s_views s_tree s_lenient].
  - (* add *)
    destruct (nth_error ah h) as [v|]; [|solveR].
    pose proof (views_lookup _ _ v V) as HL. destruct (alookup v cv) as [i|], (alookup v av) as [b|]; try contradiction; [|solveR].
    unfold addable. cbn [s_lenient s_tree]. set (ok := fun f0 : fs => al || has_type at' (f_type f0)).
    destruct (add_loop_sim ok [f] i b HL) as [HI HO].
    destruct (add_loop cpl ok [f] i) as [i' ob], (add_loop apl ok [f] b) as [b' ob']. cbn [fst snd] in *. subst ob'.
    split; [unfold put_view; solveR; apply views_aset; assumption|apply obs_equiv_refl].
  - (* add_all *)
    destruct (nth_error ah h) as [v|]; [|solveR].
    pose proof (views_lookup _ _ v V) as HL. destruct (alookup v cv) as [i|], (alookup v av) as [b|]; try contradiction; [|solveR].
    unfold addable. cbn [s_lenient s_tree]. set (ok := fun f0 : fs => al || has_type at' (f_type f0)).
    destruct (add_loop_sim ok l i b HL) as [HI HO].
    destruct (add_loop cpl ok l i) as [i' ob], (add_loop apl ok l b) as [b' ob']. cbn [fst snd] in *. subst ob'.
    split; [unfold put_view; solveR; apply views_aset; assumption|apply obs_equiv_refl].
  - (* remove *)
    destruct (nth_error ah h) as [v|]; [|solveR].
    pose proof (views_lookup _ _ v V) as HL. destruct (alookup v cv) as [i|], (alookup v av) as [b|]; try contradiction; [|solveR].
    cbn [p_remove cpl apl]. destruct (remove_inv i b f HL) as [HO HI].
    destruct (idx_remove f i) as [i' ok]. cbn [fst snd] in *. subst ok.
    split; [unfold put_view; solveR; apply views_aset; assumption|apply obs_equiv_refl].
  - (* create_view *)
    rewrite (views_keys _ _ V). destruct (memb n (akeys av)); [solveR|].
    cbn [p_empty cpl apl]. solveR. apply views_snoc. exact V.
  - (* get_view *)
    rewrite (views_keys _ _ V). destruct (memb n (akeys av)); solveR.
  - (* create_type *)
    destruct (create_type at' n sup) as [tr'| |] eqn:E; solveR. eapply create_type_wf; eassumption.
  - (* select *)
    destruct (nth_error ah h) as [v|]; [|solveR].
    pose proof (views_lookup _ _ v V) as HL. destruct (alookup v cv) as [i|], (alookup v av) as [b|]; try contradiction; [|solveR].
    destruct (resolve_sel at' q) as [T|e|]; [|solveR|solveR].
    destruct (select_inv (sel_tree at' q) T order i b (sel_tree_wf _ q W) HL) as (i' & l & E & HI & _ & HP).
    cbn [p_select cpl apl]. rewrite E.
    split; [unfold put_view; solveR; apply views_aset; assumption|exact HP].
  - (* select_all *)
    destruct (nth_error ah h) as [v|]; [|solveR].
    pose proof (views_lookup _ _ v V) as HL. destruct (alookup v cv) as [i|], (alookup v av) as [b|]; try contradiction; [|solveR].
    cbn [p_select_all cpl apl]. solveR. apply flatten_spec. exact HL.
Qed.

Lemma run_sim ops : forall c a, R c a ->
  R (fst (run cpl c ops)) (fst (run apl a ops)) /\ Forall2 obs_equiv (snd (run cpl c ops)) (snd (run apl a ops)).
Proof.
  induction ops as [|o r IH]; cbn [run]; intros c a H; [split; [exact H|constructor]|].
  destruct (step_sim c a o H) as [H1 H2].
  destruct (step cpl c o) as [c1 ob], (step apl a o) as [a1 ob']. cbn [fst snd] in H1, H2.
  destruct (IH c1 a1 H1) as [H3 H4].
  destruct (run cpl c1 r) as [c2 obs], (run apl a1 r) as [a2 obs']. cbn [fst snd] in *.
  split; [exact H3|constructor; assumption].
Qed.

Lemma init_R lenient : R (init cpl lenient) (init apl lenient).
Proof.
  unfold R, init. cbn [s_lenient s_tree s_views s_handles p_empty cpl apl]. repeat split; try reflexivity.
  - intros [].
  - constructor; [split; [reflexivity|exact idx_inv_empty]|constructor].
Qed.

(* every history: the state reached by the mechanism is related to the state reached by the specification, and the
   two observation sequences agree *)
Theorem history_refines lenient ops :
  R (fst (crun lenient ops)) (fst (arun lenient ops)) /\ Forall2 obs_equiv (snd (crun lenient ops)) (snd (arun lenient ops)).
Proof. apply run_sim. apply init_R. Qed.

Lemma run_app {P} (pl : payload P) ops1 : forall st ops2,
  run pl st (ops1 ++ ops2) = let (st1, o1) := run pl st ops1 in let (st2, o2) := run pl st1 ops2 in (st2, o1 ++ o2).
Proof.
  induction ops1 as [|o r IH]; intros st ops2; cbn [run app].
  - destruct (run pl st ops2); reflexivity.
  - destruct (step pl st o) as [st1 ob]. rewrite IH. destruct (run pl st1 r) as [st2 o1]. destruct (run pl st2 ops2). reflexivity.
Qed.

(* ================================================================== the property theorems *)

Lemma cur_view_inv c a h v idx : R c a -> cur_view c h = Some (v, idx) ->
  alookup v (s_views c) = Some idx /\ cur_view a h = Some (v, bag_of a v) /\ alookup v (s_views a) = Some (bag_of a v) /\
  idx_inv idx (bag_of a v).
Proof.
  intros (_ & _ & Hh & _ & V) H. unfold cur_view in *. rewrite <- Hh.
  destruct (nth_error (s_handles c) h) as [v0|]; [|discriminate].
  pose proof (views_lookup _ _ v0 V) as HL. unfold bag_of.
  destruct (alookup v0 (s_views c)) as [i|] eqn:E1; [|discriminate]. inversion H; subst v0 i.
  destruct (alookup v (s_views a)) as [b|] eqn:E2; [|contradiction]. auto.
Qed.

Theorem reachable_tree_wf lenient ops : wf_tree (s_tree (fst (crun lenient ops))).
Proof. destruct (history_refines lenient ops) as [(_ & _ & _ & W & _) _]. exact W. Qed.

Theorem index_refines_bag lenient ops :
  let c := fst (crun lenient ops) in let a := fst (arun lenient ops) in
  akeys (s_views c) = akeys (s_views a) /\
  forall v idx, alookup v (s_views c) = Some idx ->
    Permutation (flatten idx) (map fs_ent (bag_of a v)) /\
    forall t, sorted (idx_get t idx) /\ Permutation (idx_get t idx) (keys_of t (bag_of a v)).
Proof.
  cbv zeta. destruct (history_refines lenient ops) as [(_ & _ & _ & _ & V) _].
  split; [apply views_keys; exact V|]. intros v idx H.
  pose proof (views_lookup _ _ v V) as HL. rewrite H in HL. unfold bag_of.
  destruct (alookup v (s_views (fst (arun lenient ops)))) as [b|]; [|contradiction].
  split; [apply flatten_spec; exact HL|apply HL].
Qed.

Theorem select_spec lenient ops h q order :
  let c := fst (crun lenient ops) in let a := fst (arun lenient ops) in
  forall v idx T, cur_view c h = Some (v, idx) -> resolve_sel (s_tree c) q = Ok T ->
  exists c' l, step cpl c (OSelect h q order) = (c', OList l) /\
    Permutation l (map fs_ent (filter (fun f => subb (sel_tree (s_tree c) q) (f_type f) T) (bag_of a v))) /\
    (forall D, descendants (sel_tree (s_tree c) q) T = Some D -> Permutation order D -> l = select_in order idx).
Proof.
  cbv zeta. intros v idx T Hc Hr. destruct (history_refines lenient ops) as [HR _].
  destruct (cur_view_inv _ _ _ _ _ HR Hc) as (_ & _ & _ & Hi). pose proof HR as (_ & _ & _ & W0 & _).
  pose proof (sel_tree_wf _ q W0) as W.
  destruct (select_inv (sel_tree (s_tree (fst (crun lenient ops))) q) T order idx _ W Hi) as (i' & l & E & _ & _ & HP).
  cbn [step]. rewrite Hc, Hr. cbn [p_select cpl]. rewrite E. eexists. exists l. split; [reflexivity|]. split; [exact HP|].
  intros D HD Hperm. unfold idx_select in E. rewrite HD in E. inversion E; subst.
  destruct (descendants_spec _ T W) as (D' & HD' & Hnd & _). rewrite HD in HD'. inversion HD'; subst D'.
  unfold iter_order. rewrite (same_set_complete _ _ Hperm Hnd). reflexivity.
Qed.

Theorem select_all_spec lenient ops h :
  let c := fst (crun lenient ops) in let a := fst (arun lenient ops) in
  forall v idx, cur_view c h = Some (v, idx) ->
  exists l, step cpl c (OSelectAll h) = (c, OList l) /\ Permutation l (map fs_ent (bag_of a v)).
Proof.
  cbv zeta. intros v idx Hc. destruct (history_refines lenient ops) as [HR _].
  destruct (cur_view_inv _ _ _ _ _ HR Hc) as (_ & _ & _ & Hi).
  cbn [step]. rewrite Hc. cbn [p_select_all cpl]. eexists. split; [reflexivity|]. apply flatten_spec. exact Hi.
Qed.

Theorem descendants_compute_closure lenient ops T :
  let tr := s_tree (fst (crun lenient ops)) in
  exists D, descendants tr T = Some D /\ NoDup D /\ forall a, In a D <-> sub tr a T.
Proof. apply descendants_spec. apply reachable_tree_wf. Qed.
Theorem subtype_is_closure lenient ops a T :
  let tr := s_tree (fst (crun lenient ops)) in subb tr a T = true <-> sub tr a T.
Proof. apply subb_spec. apply reachable_tree_wf. Qed.

Theorem select_name_forms_agree {P} (pl : payload P) (st : state P) h order T :
  has_type (s_tree st) T = true ->
  step pl st (OSelect h (ByName T) order) = step pl st (OSelect h (ByType T) order) /\
  forall s, has_type (s_tree st) s = false -> has_dot s = false ->
    filter (fun n => String.eqb (short_name n) s) (names (s_tree st)) = [T] ->
    step pl st (OSelect h (ByName s) order) = step pl st (OSelect h (ByType T) order).
Proof.
  intros HT. split; [|intros s H1 H2 H3]; cbn [step resolve_sel sel_tree]; rewrite HT.
  - rewrite (resolve_full _ _ HT). reflexivity.
  - rewrite (resolve_short _ _ _ H1 H2 H3). reflexivity.
Qed.

(* a Type object of another type system: the subtype relation the result follows is that of the object's own type
   system (closure of its supertype map, which its descendants walk computes), whatever the CAS's type system holds *)
Theorem select_foreign_spec lenient ops h cts T order :
  let c := fst (crun lenient ops) in let a := fst (arun lenient ops) in let ft := foreign_tree cts in
  forall v idx, cur_view c h = Some (v, idx) -> has_type ft T = true ->
  (exists D, descendants ft T = Some D /\ NoDup D /\ forall x, In x D <-> sub ft x T) /\
  exists c' l, step cpl c (OSelect h (ByForeign cts T) order) = (c', OList l) /\
    Permutation l (map fs_ent (filter (fun f => subb ft (f_type f) T) (bag_of a v))) /\
    (forall f, subb ft (f_type f) T = true <-> sub ft (f_type f) T).
Proof.
  cbv zeta. intros v idx Hc HT. split; [apply descendants_spec; apply foreign_tree_wf|].
  assert (Hr : resolve_sel (s_tree (fst (crun lenient ops))) (ByForeign cts T) = Ok T) by (cbn [resolve_sel]; rewrite HT; reflexivity).
  destruct (select_spec lenient ops h (ByForeign cts T) order v idx T Hc Hr) as (c' & l & E & HP & _).
  exists c', l. split; [exact E|]. split; [exact HP|]. intros f. apply subb_spec. apply foreign_tree_wf.
Qed.
(* ... and a Type object of a type system that holds the same tree is as good as the CAS's own *)
Theorem select_foreign_same_tree {P} (pl : payload P) (st : state P) h cts T order :
  foreign_tree cts = s_tree st -> has_type (s_tree st) T = true ->
  step pl st (OSelect h (ByForeign cts T) order) = step pl st (OSelect h (ByType T) order).
Proof. intros E HT. cbn [step resolve_sel sel_tree]. rewrite E, HT. reflexivity. Qed.
(* the CAS's own type system plays no part when a foreign Type object is passed *)
Theorem select_foreign_ignores_own_tree {P} (pl : payload P) l tr tr' vs hs h cts T order :
  snd (step pl (mkSt l tr vs hs) (OSelect h (ByForeign cts T) order)) =
  snd (step pl (mkSt l tr' vs hs) (OSelect h (ByForeign cts T) order)).
Proof.
  cbn [step resolve_sel sel_tree]. unfold cur_view. cbn [s_handles s_views s_tree].
  destruct (nth_error hs h) as [v|]; [|reflexivity]. destruct (alookup v vs) as [p|]; [|reflexivity].
  destruct (has_type (foreign_tree cts) T); [|reflexivity].
  destruct (p_select pl (foreign_tree cts) T order p) as [[p' r]|]; reflexivity.
Qed.

Theorem per_type_sorted lenient ops h q order c' l t :
  let c := fst (crun lenient ops) in
  step cpl c (OSelect h q order) = (c', OList l) ->
  sorted (map snd (filter (fun e : ent => String.eqb (fst e) t) l)).
Proof.
  cbv zeta. destruct (history_refines lenient ops) as [HR _]. pose proof HR as (_ & _ & _ & W & _). cbn [step].
  destruct (cur_view (fst (crun lenient ops)) h) as [[v idx]|] eqn:Hc; [|discriminate].
  destruct (cur_view_inv _ _ _ _ _ HR Hc) as (_ & _ & _ & Hi).
  destruct (resolve_sel _ q) as [T| |]; try discriminate. cbn [p_select cpl]. unfold idx_select.
  destruct (descendants_spec _ T (sel_tree_wf _ q W)) as (D & -> & Hnd & _). intros H. inversion H; subst.
  eapply select_in_sorted; [apply iter_order_ok; exact Hnd|exact Hi].
Qed.
Theorem per_type_sorted_all lenient ops h c' l t :
  let c := fst (crun lenient ops) in
  step cpl c (OSelectAll h) = (c', OList l) ->
  sorted (map snd (filter (fun e : ent => String.eqb (fst e) t) l)).
Proof.
  cbv zeta. destruct (history_refines lenient ops) as [HR _]. cbn [step].
  destruct (cur_view (fst (crun lenient ops)) h) as [[v idx]|] eqn:Hc; [|discriminate].
  destruct (cur_view_inv _ _ _ _ _ HR Hc) as (_ & _ & _ & Hi). cbn [p_select_all cpl]. intros H. inversion H; subst.
  pose proof Hi as [Hnd _]. rewrite (flatten_select_in _ Hnd). eapply select_in_sorted; eassumption.
Qed.

Lemma aset_same {V} k (v : V) l : alookup k l = Some v -> aset k v l = l.
Proof.
  induction l as [|[k' v'] r IH]; cbn [alookup aset]; intros H; [discriminate|].
  destruct (String.eqb k k'); [inversion H; reflexivity|]. rewrite (IH H). reflexivity.
Qed.
Lemma Forall2_obs_join x : forall y z, Forall2 obs_equiv x z -> Forall2 obs_equiv y z -> Forall2 obs_equiv x y.
Proof.
  induction x as [|a r IH]; intros y z H1 H2; inversion H1; subst; inversion H2; subst; constructor.
  - eapply obs_equiv_trans; [eassumption|apply obs_equiv_sym; assumption].
  - eapply IH; eassumption.
Qed.

Theorem remove_absent_unchanged lenient ops h f v idx ops2 :
  let c := fst (crun lenient ops) in let a := fst (arun lenient ops) in
  cur_view c h = Some (v, idx) -> existsb (same_fs f) (bag_of a v) = false ->
  snd (step cpl c (ORemove h f)) = OErr EValue /\
  Forall2 obs_equiv (snd (run cpl (fst (step cpl c (ORemove h f))) ops2)) (snd (run cpl c ops2)).
Proof.
  cbv zeta. intros Hc Hex. destruct (history_refines lenient ops) as [HR _].
  set (c := fst (crun lenient ops)) in *. set (a := fst (arun lenient ops)) in *.
  destruct (cur_view_inv _ _ _ _ _ HR Hc) as (_ & Ha & Hl & _).
  assert (Hstep : step apl a (ORemove h f) = (a, OErr EValue)).
  { cbn [step]. rewrite Ha. cbn [p_remove apl]. rewrite Hex, (remove_first_none _ _ Hex). unfold put_view.
    rewrite (aset_same _ _ _ Hl). destruct a; reflexivity. }
  destruct (step_sim c a (ORemove h f) HR) as [HR1 HO]. rewrite Hstep in HR1, HO. cbn [fst snd] in HR1, HO. split.
  - destruct (snd (step cpl c (ORemove h f))); cbn [obs_equiv] in HO; try discriminate HO; exact HO.
  - eapply Forall2_obs_join; [apply (run_sim ops2 _ _ HR1)|apply (run_sim ops2 _ _ HR)].
Qed.

(* an operation through one handle changes nothing in any other view *)
Theorem views_disjoint {P} (pl : payload P) (st : state P) o h v p v' :
  op_handle o = Some h -> cur_view st h = Some (v, p) -> v' <> v ->
  alookup v' (s_views (fst (step pl st o))) = alookup v' (s_views st).
Proof.
  intros Ho Hc Hv. assert (E : String.eqb v' v = false) by (apply String.eqb_neq; exact Hv).
  destruct o; cbn [op_handle] in Ho; inversion Ho; subst; cbn [step]; rewrite Hc.
  - destruct (add_loop pl (addable st) [f] p). cbn [fst put_view s_views]. rewrite alookup_aset, E. reflexivity.
  - destruct (add_loop pl (addable st) l p). cbn [fst put_view s_views]. rewrite alookup_aset, E. reflexivity.
  - destruct (p_remove pl f p). cbn [fst put_view s_views]. rewrite alookup_aset, E. reflexivity.
  - destruct (resolve_sel (s_tree st) q); try reflexivity.
    destruct (p_select pl (sel_tree (s_tree st) q) a order p) as [[p' l]|]; [|reflexivity]. cbn [fst put_view s_views]. rewrite alookup_aset, E. reflexivity.
  - reflexivity.
Qed.

(* creating a type mid-history touches no view and no handle, keeps the tree well-formed and leaves the subtype
   relation among the existing types as it was *)
Theorem create_type_preserves {P} (pl : payload P) (st : state P) n sup :
  let st' := fst (step pl st (OCreateType n sup)) in
  s_views st' = s_views st /\ s_handles st' = s_handles st /\
  (wf_tree (s_tree st) -> wf_tree (s_tree st') /\
     forall a T, has_type (s_tree st) a = true -> (sub (s_tree st') a T <-> sub (s_tree st) a T)).
Proof.
  cbv zeta. cbn [step]. destruct (create_type (s_tree st) n sup) as [tr'| |] eqn:E; cbn [fst s_views s_handles s_tree];
    (split; [reflexivity|]); (split; [reflexivity|]); intros W; try (split; [exact W|tauto]).
  pose proof (create_type_wf _ _ _ _ W E) as W'. split; [exact W'|]. intros a T Ha.
  unfold create_type in E. destruct (has_type (s_tree st) n); [discriminate|].
  destruct (resolve (s_tree st) sup) as [p| |]; cbn [bind] in E; try discriminate.
  destruct (memb p final_types); [discriminate|]. inversion E; subst tr'.
  apply sub_cons_old; [exact W'|]. apply memb_In. exact Ha.
Qed.
