(* XmiLoadCas.v — C01 [S]: the CAS that load_cas_from_xmi returns, as a `cas` of Heap.v (the input type of the writer model).
   XmiLoad.lcas keeps the objects the reader builds in its id-keyed dict, with references as dict keys and the arrays / lists
   the reader wraps around inline collections as slot values owned by the slot (LArr / LLst).  In memory these are objects of
   their own: an array FS with an `elements` list, a chain of NonEmpty...List nodes closed by an Empty...List node.  cas_of_lcas
   allocates them after the structures of the document: object identities are positions (the dict order of the reader, then
   allocation order), xmi:ids are kept on the structures of the document and absent on the wrapped collections (the writer
   never asks for them), a pointer to the cas:NULL object reads as None (XmiLoad.deref), the cas:NULL object itself is not
   part of the CAS.  Definitions only. *)
From Coq Require Import Ascii.
From Cassis Require Import Base Offsets.
From Cassis Require Import Heap Schema Canon Lex XmiDoc XmiLoad.
Open Scope Z_scope.

Fixpoint zindex {V} (k : Z) (l : list (Z * V)) (i : N) : option N :=
  match l with [] => None | (k', _) :: r => if Z.eqb k k' then Some i else zindex k r (N.succ i) end.
Definition real_objs (objs : list (xid * lobj)) : list (xid * lobj) :=
  filter (fun ko => negb (String.eqb (lo_type (snd ko)) T_NULL)) objs.
(* a value that is not a collection *)
Definition cas_scalar (objs : list (xid * lobj)) (v : lval) : res val :=
  match v with
  | LNone => Ok VNone | LInt z => Ok (VInt z) | LFlt x => Ok (VFlt x) | LBool b => Ok (VBool b) | LStr s => Ok (VStr s)
  | LRaw a => Ok (VStr a)
  | LRef k =>
    match zlookup k objs with
    | Some o => if String.eqb (lo_type o) T_NULL then Ok VNone
                else match zindex k (real_objs objs) 0%N with Some i => Ok (VRef i) | None => Err EKey end
    | None => Err EKey
    end
  | LVSofa n => Ok (VSofa n)
  | _ => Err EType
  end.
Definition list_node_types (kind : tname) : tname * tname :=
  (("uima.cas.NonEmpty" ++ drop 9 kind)%string, ("uima.cas.Empty" ++ drop 9 kind)%string).
(* the chain for the elements l, allocated from nx: returns the first node, the next free identity and the new objects *)
Fixpoint alloc_list (kind : tname) (l : list val) (nx : N) : oid * N * heap :=
  match l with
  | [] => (nx, N.succ nx, [(nx, mkFs (snd (list_node_types kind)) None [])])
  | x :: r =>
    let '(hd, nx', h) := alloc_list kind r (N.succ nx) in
    (nx, nx', (nx, mkFs (fst (list_node_types kind)) None [("head"%string, x); ("tail"%string, VRef hd)]) :: h)
  end.
Definition cas_kid (o : option string) : val := match o with Some t => VStr t | None => VNone end.
Definition cas_slot (objs : list (xid * lobj)) (st : N * heap) (v : lval) : res (val * (N * heap)) :=
  match v with
  | LKids l => Ok (VList (map cas_kid l), st)
  | LElems l => do l' <- mapM (cas_scalar objs) l ;; Ok (VList l', st)
  | LArr kind l =>
    do l' <- mapM (cas_scalar objs) l ;;
    Ok (VRef (fst st), (N.succ (fst st), (snd st ++ [(fst st, mkFs kind None [("elements"%string, VList l')])])%list))
  | LLst kind l =>
    do l' <- mapM (cas_scalar objs) l ;;
    let '(hd, nx', h) := alloc_list kind l' (fst st) in Ok (VRef hd, (nx', (snd st ++ h)%list))
  | _ => do v' <- cas_scalar objs v ;; Ok (v', st)
  end.
Fixpoint cas_slots (objs : list (xid * lobj)) (st : N * heap) (sl : list (fname * lval)) : res (list (fname * val) * (N * heap)) :=
  match sl with
  | [] => Ok ([], st)
  | (n, v) :: r =>
    do vs <- cas_slot objs st v ;;
    do rs <- cas_slots objs (snd vs) r ;;
    Ok ((n, fst vs) :: fst rs, snd rs)
  end.
Fixpoint cas_objs (objs : list (xid * lobj)) (st : N * heap) (i : N) (l : list (xid * lobj)) : res (heap * (N * heap)) :=
  match l with
  | [] => Ok ([], st)
  | (_, o) :: r =>
    do ss <- cas_slots objs st (lo_slots o) ;;
    do rs <- cas_objs objs (snd ss) (N.succ i) r ;;
    Ok ((i, mkFs (lo_type o) (Some (lo_id o)) (fst ss)) :: fst rs, snd rs)
  end.
Definition cas_member (objs : list (xid * lobj)) (k : xid) : res oid :=
  match zindex k (real_objs objs) 0%N with Some i => Ok i | None => Err EKey end.
Definition cas_view (objs : list (xid * lobj)) (v : lview) : res cview :=
  let so := lv_sofa v in
  do ms <- mapM (cas_member objs) (lv_members v) ;;
  do arr <- match ls_arr so with Some k => do i <- cas_member objs k ;; Ok (Some i) | None => Ok None end ;;
  Ok (mkView (mkSofa (ls_id so) (ls_num so) (ls_name so) (ls_text so) (ls_mime so) (ls_uri so) arr) ms).
Definition cas_of_lcas (c : lcas) : res cas :=
  let objs := lc_objs c in
  let main := real_objs objs in
  do hs <- cas_objs objs (N.of_nat (List.length main), []) 0%N main ;;
  do vs <- mapM (fun nv => cas_view objs (snd nv)) (lc_views c) ;;
  Ok (mkCas vs (fst hs ++ snd (snd hs))%list (lc_next_id c)).
