(* CorrC13.v — correspondence harness for C13 (merge_typesystems).
   A case is a tuple of input type systems (each a history of create_type / create_feature on a fresh TypeSystem()) and a
   list of runs: a run is a merge expression over the inputs (an argument order, or a grouping such as
   merge(merge(a, b), c)) together with what the implementation answered for it: the error kind, or the canonical dump
   of the result (user types incl. DocumentAnnotation with supertype, children, own and effective features; the user
   children of the predefined types; whether the predefined part is as in TypeSystem(); all pairwise subsumes over the
   user types + Annotation + TOP; whether every reachable Type object is the one registered in the result and none
   belongs to an input).  c_pure: the dumps and reference identities of all inputs were the same before and after.
   check_case evaluates BOTH forms of the model on every run and compares (sets where the API promises no order). *)
From Cassis Require Import Base TS Merge.

Inductive mexp := MIn (i : nat) | MM (l : list mexp).
Record ofeat := mkF { of_n : string; of_r : string; of_e : option string }.
Record orow := mkR { or_name : string; or_super : option string; or_children : list string;
                     or_own : list ofeat; or_eff : list ofeat }.
Inductive oresult :=
| OErr (e : err)
| OOk (rows : list orow) (pre : list (string * list string)) (names : list string) (sub : N) (builtin_ok ident : bool).
(* runs refer to the table of distinct observations of the case (the orders usually agree) *)
Record run := mkRun { run_exp : mexp; run_obs : nat }.
(* an input: TypeSystem() or TypeSystem(add_document_annotation_type=False), then a history of create_type / create_feature *)
Inductive inp := I (ops : list tsop) | Ind (ops : list tsop).
Record case := mkCase { c_inputs : list inp; c_obs : list oresult; c_runs : list run; c_pure : bool }.

(* compact constructors and names for the case files *)
Definition T (n s : string) : tsop := OCreateType n s None.
Definition Fe (dom n r : string) (e : option string) : tsop := OCreateFeature dom n r e None None.
Definition nA := "uima.tcas.Annotation". Definition nT := "uima.cas.TOP". Definition nD := "uima.tcas.DocumentAnnotation".
Definition nS := "uima.cas.String". Definition nI := "uima.cas.Integer". Definition nF := "uima.cas.FSArray".
Definition n0 := "my.pkg.Token". Definition n1 := "Token". Definition n2 := "a.B". Definition n3 := "a.C". Definition n4 := "q.D".
Definition n5 := "a.A". Definition n6 := "a.X". Definition n7 := "a.Y".
Definition annF : list ofeat := [mkF "begin" nI None; mkF "end" nI None; mkF "sofa" "uima.cas.Sofa" None].
Definition docR : orow := mkR nD (Some nA) [] [mkF "language" nS None] (annF ++ [mkF "language" nS None]).

Fixpoint sequence {A} (l : list (res A)) : res (list A) :=
  match l with [] => Ok [] | x :: r => do a <- x;; do b <- sequence r;; Ok (a :: b) end.
Fixpoint eval (F : form) (ins : list tsys) (e : mexp) : res tsys :=
  match e with
  | MIn i => match nth_error ins i with Some ts => Ok ts | None => Err EIndex end
  | MM l => do tss <- sequence (map (eval F ins) l);; do st <- merge_with F tss;;
            if Nat.eqb (foreign_refs st) 0 then Ok (m_ts st) else Err ERuntime
  end.

Fixpoint bits_from (i : N) (l : list bool) : N :=
  match l with [] => 0%N | b :: r => ((if b then N.shiftl 1 i else 0) + bits_from (N.succ i) r)%N end.
Definition bits (l : list bool) : N := bits_from 0%N l.
Definition pairs_of {A} (l : list A) : list (A * A) := flat_map (fun a => map (fun b => (a, b)) l) l.
Definition same_set (a b : list string) : bool :=
  Nat.eqb (List.length a) (List.length b) && forallb (fun x => memb x b) a && forallb (fun x => memb x a) b.
Definition ofeat_eqb (a b : ofeat) : bool :=
  String.eqb (of_n a) (of_n b) && String.eqb (of_r a) (of_r b) && ostr_eqb (of_e a) (of_e b).
Definition same_feats (a b : list ofeat) : bool :=
  Nat.eqb (List.length a) (List.length b) && forallb (fun x => existsb (ofeat_eqb x) b) a && forallb (fun x => existsb (ofeat_eqb x) a) b.
Definition ofeat_of (f : feat) : ofeat := mkF (f_name f) (f_range f) (f_elem f).
Definition is_true (r : res bool) : bool := match r with Ok true => true | _ => false end.
Definition is_okb (r : res bool) : bool := match r with Ok _ => true | _ => false end.

Definition row_ok (ts : tsys) (r : orow) : bool :=
  match find_ty ts (or_name r) with
  | None => false
  | Some t => ostr_eqb (t_super t) (or_super r) && same_set (t_children t) (or_children r)
              && same_feats (map ofeat_of (t_own t)) (or_own r) && same_feats (map ofeat_of (all_features t)) (or_eff r)
  end.
(* the predefined part of the result is what TypeSystem() builds, apart from children that are not predefined.  The merged
   type system starts as init_ts and is only mapped over and appended to, so positions are kept: compared positionally. *)
Definition feat_list_same := list_eqb feat_same.
Definition pre_same (t t0 : ty) : bool :=
  String.eqb (t_name t) (t_name t0) &&
  (negb (is_predef (t_name t0)) ||
   (ostr_eqb (t_super t) (t_super t0) && feat_list_same (t_own t) (t_own t0) && feat_list_same (t_inh t) (t_inh t0)
    && list_str_eqb (filter is_predef (t_children t)) (filter is_predef (t_children t0)))).
Definition builtin_unchanged (ts : tsys) : bool := list_eqb pre_same (firstn (List.length init_ts) ts) init_ts.
Definition user_children (t : ty) : list string := filter (fun c => negb (is_predef c)) (t_children t).
Definition pre_ok (ts : tsys) (pre : list (string * list string)) : bool :=
  forallb (fun t => negb (is_predef (t_name t)) ||
             match alookup (t_name t) pre with
             | Some kids => same_set (user_children t) kids
             | None => match user_children t with [] => true | _ => false end
             end) ts.

Definition result_ok (ts : tsys) (o : oresult) : bool :=
  match o with
  | OErr _ => false
  | OOk rows pre names sub bok ident =>
    same_set (map t_name (user_types ts)) (map or_name rows)
    && forallb (row_ok ts) rows
    && pre_ok ts pre
    && forallb (fun p => is_okb (ts_subsumes ts (fst p) (snd p))) (pairs_of names)
    && N.eqb (bits (map (fun p => is_true (ts_subsumes ts (fst p) (snd p))) (pairs_of names))) sub
    && Bool.eqb (builtin_unchanged ts) bok && bok && ident
    && wfb ts                                                       (* the model's result satisfies the full invariant *)
  end.
Definition obs_ok (r : res tsys) (o : oresult) : bool :=
  match r with
  | Ok ts => result_ok ts o
  | Err e => match o with OErr e' => err_eqb e e' | _ => false end
  | OutOfFuel => false
  end.
(* both forms agree structurally (ranks and constructor fields included) *)
Definition ty_same (a b : ty) : bool :=
  String.eqb (t_name a) (t_name b) && ostr_eqb (t_super a) (t_super b) && ostr_eqb (t_desc a) (t_desc b)
  && list_str_eqb (t_children a) (t_children b) && feat_list_same (t_own a) (t_own b) && feat_list_same (t_inh a) (t_inh b)
  && match t_ctor a, t_ctor b with None, None => true | Some x, Some y => list_str_eqb x y | _, _ => false end
  && list_str_eqb (t_ctor_fn a) (t_ctor_fn b) && Nat.eqb (t_rank a) (t_rank b).
Definition res_same (a b : res tsys) : bool :=
  match a, b with
  | Ok x, Ok y => list_eqb ty_same x y | Err x, Err y => err_eqb x y | _, _ => false end.

Definition ops_of (i : inp) : list tsop := match i with I ops => ops | Ind ops => ops end.
Definition start_of (i : inp) : tsys := match i with I _ => init_ts | Ind _ => init_ts_nodoc end.
Definition input_of (i : inp) : tsys := final_ts (ops_of i) (start_of i).
Definition inputs_of (c : case) : list tsys := map input_of (c_inputs c).
Definition check_run (ins : list tsys) (obs : list oresult) (r : run) : bool :=
  let a := eval fn_form ins (run_exp r) in
  let b := eval mech_form ins (run_exp r) in
  res_same a b && match nth_error obs (run_obs r) with Some o => obs_ok a o | None => false end.
Definition all_ok (i : inp) (out : list opres) : bool := list_eqb opres_eqb out (map (fun _ => ROk) (ops_of i)).
Definition check_case (c : case) : bool :=
  let rs := map (fun i => run_ts (ops_of i) (start_of i)) (c_inputs c) in
  let ins := map fst rs in
  c_pure c && forallb (fun p => all_ok (fst p) (snd (snd p))) (combine (c_inputs c) rs)
  && forallb (check_run ins (c_obs c)) (c_runs c).

(* premises of the theorems of Props/C13.v: every input satisfies the invariant (hierarchy and features) *)
Definition premises (c : case) : bool := forallb wfb (inputs_of c).
