(* Merge.v — executable model of cassis/typesystem.py merge_typesystems (definitions only; proofs in MergeProofs.v).

   What is modelled, as the code does it (file:line of /repo/cassis/typesystem.py at 13b42b8; merge repaired by 7d9931c and 13b42b8):
     type_list = concatenation of ts.get_types() (1545-1548)  type_list: user_types of every input in argument order; get_types()
                                                               filters _PREDEFINED_TYPES, so uima.tcas.DocumentAnnotation of
                                                               EVERY input is in the list (and is found existing in TypeSystem())
     readiness loop (1556-1618)                               pass / rounds: one pass over the current list, a declaration is
                                                               processed when its supertype is predefined or already in
                                                               merged_types (the set is updated inside the pass), processed
                                                               declarations are removed; nothing left -> done, else no progress ->
                                                               ValueError; rounds on explicit fuel (length + 1)
     create-or-merge (1564-1605)                              merge_decl: contains_type(name, exact) / create_type, else
                                                               supertype comparison: own-subtype rejection, re-parenting, no-op,
                                                               incomparable -> ValueError; then every own feature through
                                                               _add_feature(copy(feature), warn=False)
     re-parenting (1587-1592)                                 reparent: child link deleted at the old parent (KeyError if absent),
                                                               supertype assigned, child link added at the new parent, then
                                                               new_supertype.all_features inherited through
                                                               _add_feature(feature, inherited=True, warn=False);
                                                               the ghost rank of the moved subtree is shifted above the new parent
     fix-up loop (1620-1631)                                  fixup: every supertype / domain / range / element reference of the
                                                               user types resolved again with get_type (TypeNotFoundError if it
                                                               does not resolve) and replaced by the resolved type

   Two forms (DESIGN section 9): `fn_form` uses the functional forms (TS.add_feature, inherit_fn below), `mech_form` the
   recursion into _children as written (TS.add_rec).  Theorems are stated on fn_form; the correspondence evaluates both
   on every case and requires them to agree with each other and with the implementation.

   Object identity.  TS.v refers to types by name and has no notion of the owning TypeSystem.  What the fix-up loop is
   for is carried by a ghost log of tags: every own feature that the merge actually stores (a `copy(feature)` of an
   input's Feature) is logged with the number of the input whose Type objects its domainType / rangeType / elementType
   still are; the fix-up sets them to 0 (= the merged type system).  Supertype references are resolved through the merged
   type system when they are assigned (create_type, re-parenting), so they are owned by the result from the start; the
   pre-fix re-parenting (reparent_old) assigned the input's object.
   `list.remove(t)` removes the first declaration that is == t (Type.__eq__ across type systems: name, supertype
   recursively, effective features); the model removes the processed declaration itself.  The two agree up to exchanging
   declarations that are == (same name, same supertype, same effective features), which no observation distinguishes
   when descriptions and multipleReferencesAllowed flags do not differ (the property excludes those). *)
From Cassis Require Import Base TS.

Definition is_predef (n : tname) : bool := memb n predefined_types.
(* TypeSystem.get_types(): registration order without the predefined names *)
Definition user_types (ts : tsys) : list ty := filter (fun t => negb (is_predef (t_name t))) ts.

(* a declaration: a Type object of input number d_in (1-based; 0 is the merged type system) *)
Record decl := mkDecl { d_in : nat; d_ty : ty }.
Fixpoint type_list_from (i : nat) (inputs : list tsys) : list decl :=
  match inputs with
  | [] => []
  | ts :: r => map (mkDecl i) (user_types ts) ++ type_list_from (S i) r
  end.
Definition type_list (inputs : list tsys) : list decl := type_list_from 1 inputs.

(* ghost: who owns the Type objects an own feature of the result refers to *)
Record ftag := mkTag { g_type : tname; g_feat : fname; g_dom : nat; g_range : nat; g_elem : option nat }.
Record mst := mkSt { m_ts : tsys; m_done : list tname; m_tags : list ftag }.

Record form := mkForm {
  addf : tsys -> tname -> feat -> res tsys;      (* Type._add_feature(feature, inherited=False) on the type named *)
  inhf : tsys -> tname -> feat -> res tsys }.    (* Type._add_feature(feature, inherited=True) on the type named *)

(* ------------------------------------------------------------------------------------------------ feature merge *)
Definition add_feature_res (ts : tsys) (dom : tname) (f : feat) : res tsys :=
  match add_feature ts dom f with Added ts' => Ok ts' | Unchanged => Ok ts | Raises e => Err e | Fuel => OutOfFuel end.
(* the copy is stored iff the type neither owns nor inherits a feature of that name *)
Definition stores (ts : tsys) (x : tname) (f : feat) : bool :=
  match find_ty ts x with
  | Some t => match find_feat (f_name f) (t_own t), find_feat (f_name f) (t_inh t) with None, None => true | _, _ => false end
  | None => false
  end.
Definition tag_of (i : nat) (x : tname) (f : feat) : ftag :=
  mkTag x (f_name f) i i (match f_elem f with Some _ => Some i | None => None end).
(* `for feature in t.features: T._add_feature(copy(feature), warn=False)` *)
Fixpoint merge_features (F : form) (i : nat) (x : tname) (fs : list feat) (ts : tsys) (tags : list ftag)
  : res (tsys * list ftag) :=
  match fs with
  | [] => Ok (ts, tags)
  | f :: r => do ts' <- addf F ts x f;;
              merge_features F i x r ts' (if stores ts x f then tags ++ [tag_of i x f] else tags)
  end.

(* ------------------------------------------------------------------------------------------------ re-parenting *)
Definition set_super (s : tname) (t : ty) : ty :=
  mkTy (t_name t) (Some s) (t_desc t) (t_children t) (t_own t) (t_inh t) (t_ctor t) (t_ctor_fn t) (t_rank t).
Definition shift_rank (k : nat) (t : ty) : ty :=
  mkTy (t_name t) (t_super t) (t_desc t) (t_children t) (t_own t) (t_inh t) (t_ctor t) (t_ctor_fn t) (t_rank t + k).
(* del supertype._children[name] *)
Definition remove_child (p x : tname) (t : ty) : ty :=
  if String.eqb (t_name t) p then set_children (filter (fun c => negb (String.eqb c x)) (t_children t)) t else t.
(* the three assignments of the re-parenting branch; ghost: ranks of x and everything below x move up by k *)
Definition relink_ty (ts : tsys) (x oldp newp : tname) (k : nat) (t : ty) : ty :=
  let t1 := add_child newp x (remove_child oldp x t) in
  let t2 := if String.eqb (t_name t) x then set_super newp t1 else t1 in
  if is_below ts x (t_name t) then shift_rank k t2 else t2.
Definition relink (ts : tsys) (x oldp newp : tname) (k : nat) : tsys := map (relink_ty ts x oldp newp k) ts.

(* FUNCTIONAL FORM of _add_feature(feature, inherited=True) on x: the checks at x (inherited table, own table), then
   every type below x that does not inherit a feature of that name gains it; a type below x that owns or inherits a
   different definition under that name makes it raise *)
Definition spread_inh (ts : tsys) (x : tname) (f : feat) (d : ty) : ty :=
  if is_below ts x (t_name d) && (match find_feat (f_name f) (t_inh d) with None => true | Some _ => false end)
  then with_inh f d else d.
Definition inherit_fn (ts : tsys) (x : tname) (f : feat) : res tsys :=
  match find_ty ts x with
  | None => Err ETypeNotFound
  | Some t =>
    match find_feat (f_name f) (t_inh t) with
    | Some g => if feat_eqb g f then Ok ts else Err EValue
    | None =>
      if existsb (fun d => is_below ts x (t_name d) && (conflicts (t_own d) f || conflicts (t_inh d) f)) ts
      then Err EValue
      else Ok (map (spread_inh ts x f) ts)
    end
  end.
(* MECHANISM FORM: TS.add_rec with inherited = true *)
Definition inherit_mech (ts : tsys) (x : tname) (f : feat) : res tsys := add_rec (desc_fuel ts) ts x f true.

Definition fn_form : form := mkForm add_feature_res inherit_fn.
Definition mech_form : form := mkForm add_feature_mech inherit_mech.

Fixpoint inherit_list (F : form) (x : tname) (fs : list feat) (ts : tsys) : res tsys :=
  match fs with [] => Ok ts | f :: r => do ts' <- inhf F ts x f;; inherit_list F x r ts' end.

Definition reparent (F : form) (ts : tsys) (x oldp newp : tname) : res tsys :=
  do tn <- get_type ts newp;;                                       (* new_supertype = merged_ts.get_type(t.supertype.name) *)
  match find_ty ts oldp with
  | None => Err EAttribute
  | Some tp =>
    if negb (memb x (t_children tp)) then Err EKey                  (* del ..._children[name] *)
    else
      let ts1 := relink ts x oldp (t_name tn) (S (t_rank tn)) in
      match find_ty ts1 (t_name tn) with
      | None => Err ETypeNotFound
      | Some tn1 => inherit_list F x (all_features tn1) ts1
      end
  end.

(* ------------------------------------------------------------------------------------------------ create-or-merge *)
Definition merge_super (F : form) (ts : tsys) (name sup : tname) : res tsys :=
  do ex <- get_type ts name;;                                       (* existing_type *)
  match t_super ex with
  | None => Err EAttribute
  | Some exsup =>
    if String.eqb sup exsup then Ok ts
    else do b1 <- ts_subsumes ts (t_name ex) sup;;
         if b1 then Err EValue                                      (* supertype is one of its own subtypes *)
         else do b2 <- ts_subsumes ts exsup sup;;
              if b2 then reparent F ts (t_name ex) exsup sup        (* more specific: re-parent *)
              else do b3 <- ts_subsumes ts sup exsup;;
                   if b3 then Ok ts else Err EValue                 (* incompatible super types *)
  end.

Definition merge_decl (F : form) (st : mst) (d : decl) : res mst :=
  let t := d_ty d in
  match t_super t with
  | None => Err EAttribute
  | Some sup =>
    do ts1 <- (if registered (m_ts st) (t_name t) then merge_super F (m_ts st) (t_name t) sup
               else create_type (m_ts st) (t_name t) sup (t_desc t));;
    do r <- merge_features F (d_in d) (t_name t) (t_own t) ts1 (m_tags st);;
    Ok (mkSt (fst r) (t_name t :: m_done st) (snd r))
  end.

(* ------------------------------------------------------------------------------------------------ readiness loop *)
(* one `for t in type_list` pass: returns the new state and updated_type_list *)
Fixpoint pass (F : form) (l : list decl) (st : mst) : res (mst * list decl) :=
  match l with
  | [] => Ok (st, [])
  | d :: r =>
    match t_super (d_ty d) with
    | None => Err EAttribute
    | Some s =>
      if is_predef s || memb s (m_done st)
      then do st1 <- merge_decl F st d;; pass F r st1
      else do x <- pass F r st;; Ok (fst x, d :: snd x)
    end
  end.
(* `while True`: nothing left -> done (tested first since 13b42b8, so that inputs without any user type merge into
   TypeSystem()), no progress -> ValueError *)
Fixpoint rounds (F : form) (fuel : nat) (l : list decl) (st : mst) : res mst :=
  match fuel with
  | O => OutOfFuel
  | S k =>
    do x <- pass F l st;;
    match snd x with
    | [] => Ok (fst x)
    | _ => if Nat.eqb (List.length l) (List.length (snd x)) then Err EValue else rounds F k (snd x) (fst x)
    end
  end.

(* ------------------------------------------------------------------------------------------------ fix-up *)
Definition resolve (ts : tsys) (n : tname) : res tname := do t <- get_type ts n;; Ok (t_name t).
Definition fix_feat (ts : tsys) (f : feat) : res feat :=
  do d <- resolve ts (f_dom f);; do r <- resolve ts (f_range f);;
  do e <- opt_get_type ts (f_elem f);;
  Ok (mkFeat (f_name f) (f_reserved f) d r e (f_multi f) (f_desc f)).
Fixpoint fix_feats (ts : tsys) (l : list feat) : res (list feat) :=
  match l with [] => Ok [] | f :: r => do f' <- fix_feat ts f;; do r' <- fix_feats ts r;; Ok (f' :: r') end.
(* the loop body for one user type; inherited features are the very objects owned by an ancestor (or the built-in
   features of the merged type system), so rewriting the owners' features rewrites them as well *)
Definition fix_ty (ts : tsys) (t : ty) : res ty :=
  if is_predef (t_name t) then Ok t
  else do s <- (match t_super t with Some s => do s' <- resolve ts s;; Ok (Some s') | None => Ok None end);;
       do own <- fix_feats ts (t_own t);;
       Ok (mkTy (t_name t) s (t_desc t) (t_children t) own (t_inh t) (t_ctor t) (t_ctor_fn t) (t_rank t)).
Fixpoint fix_tys (ts : tsys) (l : list ty) : res (list ty) :=
  match l with [] => Ok [] | t :: r => do t' <- fix_ty ts t;; do r' <- fix_tys ts r;; Ok (t' :: r') end.
Definition fixup (ts : tsys) : res tsys := fix_tys ts ts.
Definition fixup_tag (ts : tsys) (g : ftag) : ftag :=
  if registered ts (g_type g) && negb (is_predef (g_type g))
  then mkTag (g_type g) (g_feat g) 0 0 (match g_elem g with Some _ => Some 0 | None => None end)
  else g.

(* ------------------------------------------------------------------------------------------------ merge_typesystems *)
Definition merge_with (F : form) (inputs : list tsys) : res mst :=
  let tl := type_list inputs in
  do st <- rounds F (S (List.length tl)) tl (mkSt init_ts [] []);;
  do ts' <- fixup (m_ts st);;
  Ok (mkSt ts' (m_done st) (map (fixup_tag ts') (m_tags st))).
Definition merge (inputs : list tsys) : res tsys := do st <- merge_with fn_form inputs;; Ok (m_ts st).
Definition merge_mech (inputs : list tsys) : res tsys := do st <- merge_with mech_form inputs;; Ok (m_ts st).
(* number of references of the result that are still objects of an input *)
Definition foreign_tag (g : ftag) : bool :=
  negb (Nat.eqb (g_dom g) 0) || negb (Nat.eqb (g_range g) 0) || match g_elem g with Some (S _) => true | _ => false end.
Definition foreign_refs (st : mst) : nat := List.length (filter foreign_tag (m_tags st)).

(* ================================================================================================ canonical content *)
(* the result as a set of (name, supertype, effective features): what order independence is about *)
Definition feat_key (f : feat) : string * (string * string) := (f_name f, (f_range f, elem_name f)).
Definition key_eqb (a b : string * (string * string)) : bool :=
  String.eqb (fst a) (fst b) && String.eqb (fst (snd a)) (fst (snd b)) && String.eqb (snd (snd a)) (snd (snd b)).
Definition eff_keys (t : ty) : list (string * (string * string)) := map feat_key (all_features t).
Definition incl_keys (a b : list (string * (string * string))) : bool := forallb (fun x => existsb (key_eqb x) b) a.
Definition ty_equiv (a b : ty) : bool :=
  String.eqb (t_name a) (t_name b) && ostr_eqb (t_super a) (t_super b)
  && incl_keys (eff_keys a) (eff_keys b) && incl_keys (eff_keys b) (eff_keys a).
Definition sub_tsys (a b : tsys) : bool :=
  forallb (fun t => match find_ty b (t_name t) with Some u => ty_equiv t u | None => false end) a.
(* same types, same supertypes, same effective features (as sets) *)
Definition ts_equiv (a b : tsys) : bool := sub_tsys a b && sub_tsys b a.

(* ================================================================================================ pre-fix mechanism *)
(* The pieces of merge_typesystems before 7d9931c that the refutation witnesses in RefutedC13.v need:
   re-parenting that only assigns the supertype (D08), no rejection of a supertype below the type itself (D09), every
   ready declaration processed again on every round and a progress test that never fires (D10: `len(l) == l2`). *)
Definition reparent_old (ts : tsys) (x newp : tname) : res tsys := Ok (upd_ty ts x (set_super newp)).
Definition merge_super_old (ts : tsys) (name sup : tname) : res tsys :=
  do ex <- get_type ts name;;
  match t_super ex with
  | None => Err EAttribute
  | Some exsup =>
    if String.eqb sup exsup then Ok ts
    else do b2 <- ts_subsumes ts exsup sup;;
         if b2 then reparent_old ts (t_name ex) sup
         else do b3 <- ts_subsumes ts sup exsup;;
              if b3 then Ok ts else Err EValue
  end.
Definition merge_decl_old (st : mst) (d : decl) : res mst :=
  let t := d_ty d in
  match t_super t with
  | None => Err EAttribute
  | Some sup =>
    do ts1 <- (if registered (m_ts st) (t_name t) then merge_super_old (m_ts st) (t_name t) sup
               else create_type (m_ts st) (t_name t) sup (t_desc t));;
    do r <- merge_features fn_form (d_in d) (t_name t) (t_own t) ts1 (m_tags st);;
    Ok (mkSt (fst r) (t_name t :: m_done st) (snd r))
  end.
(* returns the state and how many declarations were not ready *)
Fixpoint pass_old (l : list decl) (st : mst) : res (mst * nat) :=
  match l with
  | [] => Ok (st, 0)
  | d :: r =>
    match t_super (d_ty d) with
    | None => Err EAttribute
    | Some s =>
      if is_predef s || memb s (m_done st)
      then do st1 <- merge_decl_old st d;; pass_old r st1
      else do x <- pass_old r st;; Ok (fst x, S (snd x))
    end
  end.
(* type_list is never reassigned: every round walks the whole list again; the loop ends when a round found every
   declaration ready *)
Fixpoint rounds_old (fuel : nat) (l : list decl) (st : mst) : res mst :=
  match fuel with
  | O => OutOfFuel
  | S k => do x <- pass_old l st;; match snd x with O => Ok (fst x) | S _ => rounds_old k l (fst x) end
  end.
Definition merge_old (fuel : nat) (inputs : list tsys) : res tsys :=
  do st <- rounds_old fuel (type_list inputs) (mkSt init_ts [] []);; Ok (m_ts st).
