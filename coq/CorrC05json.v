(* CorrC05json.v — correspondence harness for the JSON half of C05 (sub-suite "json" of harness/props/C05.py).
   A case carries one JSON-CAS document (written by cassis from a generated CAS, or a repository fixture, lifted to
   abstract JSON by the stdlib parser), the canonical content of the CAS load_cas_from_json made of it, and a list of
   presentation variants of the document written by the harness's own dumb writer (FS as array or id-keyed object, FS order
   permuted incl. sofas last, type declarations / object members reordered, null references absent or explicit) with the
   canonical content each one loaded into.
   check_case05 evaluates inside Coq, for the document and for every variant:
     denote_json (the declarative reading of the format; plus the implicit _InitialView) == what the implementation loaded
     load_json   (the reader mechanism of Json.v)                                       == what the implementation loaded
     for variants: the loaded content == the content loaded from the unpermuted document, and the denotations agree
   doc_ok_json (the premise of C05_json_load_is_denotation) is required of cassis' own documents and of the hand-written
   ones and counted for fixtures (premises05).  A document or variant may leave out the %VIEWS entries of member-less
   views (the property's "omission of empty views"): doc_ok_json, which asks for an entry per sofa, is then required of
   JsonViewOmit.restore_views d -- the premise of C05_json_load_is_denotation_omitted (restore_views d is d when nothing
   was left out); denote_json / load_json are evaluated on the document as it was loaded. *)
From Cassis Require Import Base Heap Schema Canon Reach JsonDoc Json CorrC02 JsonViewOmit.
Open Scope Z_scope.

Record case05 := mkCase05 {
  j5_user : schema;                      (* user types (DocumentAnnotation included when declared), all_features order *)
  j5_strict : bool;                      (* written by cassis: doc_ok_json is required *)
  j5_embedded : bool;                    (* loaded without a type system argument: also read under the embedded %TYPES *)
  j5_doc : json;
  j5_canon : ccas;
  j5_vars : list (json * ccas);
  j5_once : bool }.                      (* observed by identity: every load made one object per id *)

Definition res_map {A B} (f : A -> B) (r : res A) : res B := match r with Ok a => Ok (f a) | Err e => Err e | OutOfFuel => OutOfFuel end.
Definition res_res_eqb (a b : res ccas) : bool :=
  match a, b with Ok x, Ok y => ccas_eqb x y | _, _ => false end.

Definition read_ok (s : schema) (embedded : bool) (d : json) (want : ccas) : bool :=
  res_ccas_eqb (res_map with_initial_view (denote_json std_lex s d)) want
  (* the reader mechanism is modelled for documents that file every entry under an id of its own (one fixture does not) *)
  && (if doc_ids_distinctb d then res_ccas_eqb (load_json std_lex s d) want else true)
  (* the reader makes one object per entry (Json.load_made), also for a byte array it fetches ahead for a sofa *)
  && (if doc_ids_distinctb d then made_once s d else true)
  && (if embedded then
        match parse_jtypes d with
        | Ok jts => res_ccas_eqb (res_map with_initial_view (denote_json std_lex (schema_of_jtypes builtin_schema jts) d)) want
        | _ => false end
      else true).

(* well-formed once the entries of the member-less views are written out *)
Definition doc_ok05 (s : schema) (d : json) : bool := doc_ok_json std_lex s (restore_views d).

Definition check_case05 (c : case05) : bool :=
  let s := full_schema (j5_user c) in
  (if j5_strict c then doc_ok05 s (j5_doc c) && forallb (fun vw => doc_ok05 s (fst vw)) (j5_vars c) else true)
  && j5_once c
  && read_ok s (j5_embedded c) (j5_doc c) (j5_canon c)
  && forallb (fun vw => read_ok s (j5_embedded c) (fst vw) (snd vw)
                        && ccas_eqb (snd vw) (j5_canon c)
                        && res_res_eqb (denote_json std_lex s (fst vw)) (denote_json std_lex s (j5_doc c))) (j5_vars c).

Definition explain05 (c : case05) : list (list bool) :=
  let s := full_schema (j5_user c) in
  [doc_ok05 s (j5_doc c);
   res_ccas_eqb (res_map with_initial_view (denote_json std_lex s (j5_doc c))) (j5_canon c);
   res_ccas_eqb (load_json std_lex s (j5_doc c)) (j5_canon c);
   read_ok s (j5_embedded c) (j5_doc c) (j5_canon c)]
  :: map (fun vw => [doc_ok05 s (fst vw);
                     res_ccas_eqb (res_map with_initial_view (denote_json std_lex s (fst vw))) (snd vw);
                     res_ccas_eqb (load_json std_lex s (fst vw)) (snd vw);
                     read_ok s (j5_embedded c) (fst vw) (snd vw);
                     ccas_eqb (snd vw) (j5_canon c);
                     res_res_eqb (denote_json std_lex s (fst vw)) (denote_json std_lex s (j5_doc c))]) (j5_vars c).

(* the premise of the C05_json_* theorems: the document and all its variants are well-formed *)
Definition premises05 (c : case05) : bool :=
  let s := full_schema (j5_user c) in
  doc_ok05 s (j5_doc c) && forallb (fun vw => doc_ok05 s (fst vw)) (j5_vars c).
