(* TSProofs2.v — C10, second part: TypeSystem.is_instance_of when the two types are given by ANY name get_type accepts
   (full name or unique dot-free short name), and when a name is one get_type refuses.  TSProofs.v states
   is_instance_of_spec on registered full names; the code resolves both arguments through get_type, so the property's
   quantifier ("all pairs of types", "all names / short names for lookup") also covers these spellings.
   What the code decides by comparing the two STRINGS before any lookup is stated as it is (the *_quirk theorems). *)
From Cassis Require Import Base TS TSProofs.
From Coq Require Import Arith Lia.

(* get_type never answers with an unregistered type, and a registered type is found under its own name *)
Lemma get_type_In ts n t : get_type ts n = Ok t -> In t ts.
Proof. intros H. apply (get_type_ok_inv _ _ _ H). Qed.

Lemma get_type_TOP_name ts a : WFh ts -> get_type ts TOP = Ok a -> t_name a = TOP.
Proof.
  intros W H. destruct (get_type_ok_inv _ _ _ H) as [_ [E|(Hn & _)]]; [exact E|].
  destruct (wf_top _ W) as (t & Ht & _). congruence.
Qed.

(* Two names resolving to two DIFFERENT types (the child not being the root reached through a short name):
   is_instance_of(child, parent) answers, answers like TypeSystem.subsumes(parent, child), and decides the declared
   relation between the resolved types. *)
Theorem is_instance_of_by_name ts sa sp a p : WFh ts ->
  get_type ts sa = Ok a -> get_type ts sp = Ok p -> sp <> EmptyString ->
  t_name a <> t_name p -> (t_name a = TOP -> sa = TOP) ->
  exists r, is_instance_of ts sa sp = Ok r /\ ts_subsumes ts sp sa = Ok r /\ (r = true <-> below ts (t_name p) (t_name a)).
Proof.
  intros W Ga Gp Hne Hdiff Htop.
  pose proof (get_type_In _ _ _ Ga) as Ha. pose proof (get_type_In _ _ _ Gp) as Hp.
  destruct (subsumes_ty_spec ts p a W Hp Ha) as (r2 & H2 & I2).
  assert (Hsub : ts_subsumes ts sp sa = Ok r2) by (unfold ts_subsumes; rewrite Gp, Ga; cbn [bind]; exact H2).
  assert (Hiio : exists r, is_instance_of ts sa sp = Ok r /\ (r = true <-> below ts (t_name p) (t_name a))).
  { unfold is_instance_of.
    destruct (String.eqb sp "") eqn:E0; [apply String.eqb_eq in E0; contradiction|].
    destruct (String.eqb sa sp) eqn:E.
    { apply String.eqb_eq in E. subst sp. rewrite Ga in Gp. inversion Gp; subst p. contradiction. }
    destruct (String.eqb sa TOP) eqn:Et.
    - apply String.eqb_eq in Et. subst sa. pose proof (get_type_TOP_name ts a W Ga) as Hat.
      exists false. split; [reflexivity|]. split; [discriminate|].
      intros Hb. rewrite Hat in Hb. apply (below_top_is_top ts _ W) in Hb. congruence.
    - apply String.eqb_neq in Et. rewrite Ga, Gp. cbn [bind].
      destruct (t_super a) as [s|] eqn:Es.
      + destruct (wf_super _ W a s Ha Es) as (q & Hq & Hlt). destruct (find_ty_In _ _ _ Hq) as [Hqin Hqn]. subst s.
        destruct (iio_walk_spec ts (t_name p) W (S (t_rank a)) q Hqin ltac:(lia)) as (r & Hr & Hiff).
        exists r. split; [exact Hr|]. rewrite Hiff. split.
        * intros Hb. eapply below_step; [apply (In_find_ty _ _ (wf_nodup _ W) Ha)|exact Es|exact Hb].
        * intros Hb. apply below_inv in Hb. destruct Hb as [Heq|(td & s & Hf & Hs & Hb)]; [congruence|].
          rewrite (In_find_ty _ _ (wf_nodup _ W) Ha) in Hf. inversion Hf; subst td. congruence.
      + exfalso. apply Et. apply Htop. apply (wf_root _ W a Ha Es). }
  destruct Hiio as (r1 & H1 & I1).
  assert (r2 = r1) by (eapply iff_bool_eq; eassumption). subst r2. eauto.
Qed.

(* the case the seeded change C10/n3 breaks: the child by its full name, the parent by its unique short name *)
Corollary is_instance_of_short_parent ts a p sp : WFh ts -> In a ts ->
  get_type ts sp = Ok p -> sp <> EmptyString -> t_name a <> t_name p ->
  exists r, is_instance_of ts (t_name a) sp = Ok r /\ ts_subsumes ts sp (t_name a) = Ok r /\
            (r = true <-> below ts (t_name p) (t_name a)).
Proof.
  intros W Ha Gp Hne Hdiff.
  apply (is_instance_of_by_name ts (t_name a) sp a p W); auto.
  apply get_type_full. apply (In_find_ty _ _ (wf_nodup _ W) Ha).
Qed.

(* a name get_type refuses (unknown or ambiguous) makes is_instance_of fail with the same error, whichever side it is on,
   unless the strings are equal or the child string is uima.cas.TOP (decided before any lookup) *)
Theorem is_instance_of_unresolved_child ts sa sp e :
  get_type ts sa = Err e -> sp <> EmptyString -> sa <> sp -> sa <> TOP -> is_instance_of ts sa sp = Err e.
Proof.
  intros G Hne Hd Ht. unfold is_instance_of.
  destruct (String.eqb sp "") eqn:E0; [apply String.eqb_eq in E0; contradiction|].
  destruct (String.eqb sa sp) eqn:E; [apply String.eqb_eq in E; contradiction|].
  destruct (String.eqb sa TOP) eqn:Et; [apply String.eqb_eq in Et; contradiction|].
  rewrite G. reflexivity.
Qed.
Theorem is_instance_of_unresolved_parent ts sa sp a e :
  get_type ts sa = Ok a -> get_type ts sp = Err e -> sp <> EmptyString -> sa <> TOP -> is_instance_of ts sa sp = Err e.
Proof.
  intros Ga Gp Hne Ht. unfold is_instance_of.
  destruct (String.eqb sp "") eqn:E0; [apply String.eqb_eq in E0; contradiction|].
  destruct (String.eqb sa sp) eqn:E.
  { apply String.eqb_eq in E. subst sp. congruence. }
  destruct (String.eqb sa TOP) eqn:Et; [apply String.eqb_eq in Et; contradiction|].
  rewrite Ga, Gp. reflexivity.
Qed.

(* ---- what the string comparisons made before any lookup decide (as the code does it; reported as quirks) ---- *)
Definition quirk_ts : tsys := final_ts [OCreateType "a.A" "Annotation" None; OCreateType "a.B" "a.A" None] init_ts.
(* two spellings of one type: subsumes says True, is_instance_of says False; the same unregistered string twice: True;
   child uima.cas.TOP: False for an unknown parent and for the parent spelled "TOP"; child spelled "TOP": None.name *)
Theorem is_instance_of_string_quirks :
  wfhb quirk_ts = true /\
  ts_subsumes quirk_ts "A" "a.A" = Ok true /\ is_instance_of quirk_ts "a.A" "A" = Ok false /\
  is_instance_of quirk_ts "A" "a.A" = Ok false /\
  is_instance_of quirk_ts "no.Such" "no.Such" = Ok true /\ ts_subsumes quirk_ts "no.Such" "no.Such" = Err ETypeNotFound /\
  is_instance_of quirk_ts TOP "no.Such" = Ok false /\
  ts_subsumes quirk_ts "TOP" TOP = Ok true /\ is_instance_of quirk_ts TOP "TOP" = Ok false /\
  is_instance_of quirk_ts "TOP" "a.A" = Err EAttribute.
Proof. vm_compute. repeat split. Qed.
(* and outside them the short spellings answer like the full ones *)
Example is_instance_of_by_name_computes :
  is_instance_of quirk_ts "a.B" "A" = Ok true /\ is_instance_of quirk_ts "B" "Annotation" = Ok true /\
  is_instance_of quirk_ts "a.A" "B" = Ok false /\ is_instance_of quirk_ts "a.B" "TOP" = Ok true /\
  is_instance_of quirk_ts "a.B" "Nope" = Err ETypeNotFound /\ is_instance_of quirk_ts "Nope" "a.B" = Err ETypeNotFound.
Proof. vm_compute. repeat split. Qed.
