(* RefutedC20.v — regression evidence for C20: the mechanisms of cassis/util.py before the repairs 218ccba, bb0740a and 23e9ca1,
   with machine-checked witnesses that they violate the property. *)
From Cassis Require Import Base Heap Schema Reach Comparable.
Open Scope Z_scope.

(* ---- _compare_fs before 218ccba: -1 in both directions when exactly one operand has integer offsets ---- *)
Definition cmp_old (hash : tname -> fsobj -> Z) (t : tname) (a b : item) : Z :=
  if N.eqb (fst a) (fst b) then 0 else
  match offs (snd a), offs (snd b) with
  | Some _, None => -1
  | None, Some _ => -1
  | Some (b1, e1), Some (b2, e2) =>
      if negb (b1 - b2 =? 0) then b1 - b2
      else if negb (e2 - e1 =? 0) then e2 - e1
      else sgn3 (hash t (snd a)) (hash t (snd b))
  | None, None => sgn3 (hash t (snd a)) (hash t (snd b))
  end.

Definition x_noffs : item := (1%N, mkFs "a.T" (Some 11) []).
Definition a_offs : item := (2%N, mkFs "a.T" (Some 12) [("begin", VInt 0); ("end", VInt 1)]).

(* one type, one structure without offsets and one with: the premise unique_offsets_per_type holds, yet the old comparison
   is not antisymmetric and the sorted order depends on the order in which the two structures were found *)
Theorem compare_mixed_refuted :
  unique_keysb [x_noffs; a_offs] = true /\
  (forall hash, cmp_old hash "a.T" x_noffs a_offs < 0 /\ cmp_old hash "a.T" a_offs x_noffs < 0) /\
  (forall hash, isort (cmp_old hash "a.T") [x_noffs; a_offs] <> isort (cmp_old hash "a.T") [a_offs; x_noffs]).
Proof.
  split; [vm_compute; reflexivity|]. split.
  - intros hash. split; vm_compute; reflexivity.
  - intros hash. vm_compute. discriminate.
Qed.

(* ---- _render_feature_value before bb0740a: arrays inside arrays are expanded without a visited set ---- *)
Fixpoint render_val_old (fuel : nat) (h : heap) (d : adict) (v : val) : res pv :=
  match fuel with
  | O => OutOfFuel
  | S k =>
    match v with
    | VNone => Ok (PStr NULL)
    | VInt z => Ok (PInt z)
    | VFlt x => Ok (PFlt x)
    | VBool b => Ok (PBool b)
    | VStr s => Ok (PStr s)
    | VList l => do r <- mapM (render_val_old k h d) l ;; Ok (PList r)
    | VRef o =>
      match hget h o with
      | None => Err EAttribute
      | Some f =>
        if is_array_name (o_type f) then
          match slot f "elements" with
          | VList l => do r <- mapM (render_val_old k h d) l ;; Ok (PList r)
          | VNone => Ok PNone
          | _ => Err EAttribute
          end
        else Ok (anchor_pv (dget (o_id f) d))
      end
    | VSofa _ => Err EAttribute
    end
  end.

(* an FSArray that contains itself: whatever the recursion limit, the old rendering exhausts it (RecursionError) *)
Definition self_array : heap := [(1%N, mkFs "uima.cas.FSArray" (Some 5) [("elements", VList [VRef 1%N])])].
Theorem cyclic_array_old_refuted : forall fuel d, render_val_old fuel self_array d (VRef 1%N) = OutOfFuel.
Proof.
  induction fuel as [|k IH]; intros d; [reflexivity|].
  cbn [render_val_old self_array hget N.eqb Pos.eqb o_type]. change (is_array_name "uima.cas.FSArray") with true. cbv iota.
  change (slot (mkFs "uima.cas.FSArray" (Some 5) [("elements", VList [VRef 1%N])]) "elements") with (VList [VRef 1%N]).
  cbn [mapM]. rewrite IH. reflexivity.
Qed.
(* the repaired rendering terminates on it and refers to the array by its anchor *)
Example cyclic_array_new :
  render_val 3 self_array [(Some 5, "FSArray")] [] (VRef 1%N) = Ok (PList [PStr "FSArray"]).
Proof. vm_compute. reflexivity. Qed.

(* ---- _render_feature_value between bb0740a and 23e9ca1: an array nested in an array is expanded in place unless it is
   being rendered further up; a chain of arrays each holding the next one twice is rendered 2^n times ---- *)
Fixpoint render_val_mid (fuel : nat) (h : heap) (d : adict) (active : list oid) (v : val) : res pv :=
  match fuel with
  | O => OutOfFuel
  | S k =>
    match v with
    | VNone => Ok (PStr NULL)
    | VInt z => Ok (PInt z)
    | VFlt x => Ok (PFlt x)
    | VBool b => Ok (PBool b)
    | VStr s => Ok (PStr s)
    | VList l => do r <- mapM (render_val_mid k h d active) l ;; Ok (PList r)
    | VRef o =>
      match hget h o with
      | None => Err EAttribute
      | Some f =>
        if is_array_name (o_type f) then
          if memN o active then Ok (anchor_pv (dget (o_id f) d))
          else match slot f "elements" with
               | VList l => do r <- mapM (render_val_mid k h d (o :: active)) l ;; Ok (PList r)
               | VNone => Ok PNone
               | _ => Err EAttribute
               end
        else Ok (anchor_pv (dget (o_id f) d))
      end
    | VSofa _ => Err EAttribute
    end
  end.
Fixpoint pv_leaves (p : pv) : N :=
  match p with PList l => fold_right (fun q acc => (pv_leaves q + acc)%N) 0%N l | _ => 1%N end.
Definition leaves (r : res pv) : option N := match r with Ok p => Some (pv_leaves p) | _ => None end.
(* arrays i, i+1, ..., i+n: each holds the next one twice, the last one holds one integer; all of them are listed *)
Fixpoint chain (n : nat) (i : N) : heap :=
  match n with
  | O => [(i, mkFs "uima.cas.FSArray" (Some (Z.of_N i)) [("elements", VList [VInt 0])])]
  | S m => (i, mkFs "uima.cas.FSArray" (Some (Z.of_N i)) [("elements", VList [VRef (i + 1)%N; VRef (i + 1)%N])])
           :: chain m (i + 1)%N
  end.
Definition chain_dict (h : heap) : adict := map (fun p => (o_id (snd p), "FSArray")) h.
Definition chain_cell_mid (n : nat) : option N :=
  leaves (render_val_mid (S (S (List.length (chain n 1)))) (chain n 1) (chain_dict (chain n 1)) [] (VRef 1%N)).
Definition chain_cell_new (n : nat) : option N :=
  leaves (render_val (S (S (List.length (chain n 1)))) (chain n 1) (chain_dict (chain n 1)) [] (VRef 1%N)).
(* the cell of a feature holding the first array: 2^n leaves before 23e9ca1, two anchors after it *)
Theorem nested_array_expansion_old_refuted :
  chain_cell_mid 4 = Some 16%N /\ chain_cell_mid 8 = Some 256%N /\ chain_cell_mid 12 = Some 4096%N /\
  chain_cell_new 4 = Some 2%N /\ chain_cell_new 8 = Some 2%N /\ chain_cell_new 12 = Some 2%N.
Proof. vm_compute. repeat split; reflexivity. Qed.

(* ---- open findings: the property as written, without the side premises of the sensitivity theorems, is false of the
   CURRENT mechanism (known_findings.json: null_sentinel_string, view_of_sofaless_fs) ---- *)
Definition rf_sch : schema :=
  [mkTi "a.T" ["a.T"; "uima.cas.TOP"] [mkFd "s" "s" "uima.cas.String" None false]].
Definition rf_views (m1 m2 : list oid) : list cview :=
  [mkView (mkSofa 1 1 "_InitialView" (Some [97; 98]%N) None None None) m1;
   mkView (mkSofa 2 2 "v2" (Some [99]%N) None None None) m2].
Definition rf_f : fsobj := mkFs "a.T" (Some 7) [].
Definition rf_rows (vs : list cview) (h : heap) : res (list row) :=
  rows_of (fun _ _ => 0) isort (fun x => x) (fun s => "'" +++ s +++ "'") (mkOpts true true []) rf_sch vs h [1%N].

(* a String feature holding the text "<NULL>" is rendered like an unset feature: a primitive value differs, the rows do not *)
Theorem null_sentinel_refuted :
  exists vs h x f n v',
    unique_offsets_per_type h [x] = true /\ hget h x = Some f /\ slot f n = VNone /\ v' = VStr NULL /\ v' <> slot f n /\
    rf_rows vs (hset h x (set_slot f n v')) = rf_rows vs h /\ exists R, rf_rows vs h = Ok R.
Proof.
  exists (rf_views [1%N] []), [(1%N, rf_f)], 1%N, rf_f, "s", (VStr NULL).
  repeat split; try reflexivity; try discriminate. eexists. vm_compute. reflexivity.
Qed.

(* in which view a structure without a sofa feature is indexed does not show: the view differs, the rows do not *)
Theorem view_of_sofaless_refuted :
  exists h x vs vs',
    unique_offsets_per_type h [x] = true /\
    memN x (v_members (nth 0 vs (mkView (mkSofa 0 0 "" None None None None) []))) = true /\
    memN x (v_members (nth 0 vs' (mkView (mkSofa 0 0 "" None None None None) []))) = false /\
    memN x (v_members (nth 1 vs' (mkView (mkSofa 0 0 "" None None None None) []))) = true /\
    rf_rows vs h = rf_rows vs' h /\ exists R, rf_rows vs h = Ok R.
Proof.
  exists [(1%N, rf_f)], 1%N, (rf_views [1%N] []), (rf_views [] [1%N]).
  repeat split; try reflexivity. eexists. vm_compute. reflexivity.
Qed.
