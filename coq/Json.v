(* Json.v — model of cassis/json.py as the code does it (current /repo, after the JSON repairs 6187a70 c3a6924 add40ad
   fe744aa d6ca9fa 1bfc9b2 95eeae1 c9a01e4 941f890 a7ade58 d1bc860 d94ad6a):
     save_json L s mode c     CasJsonSerializer.serialize: views loop (view entry, sofa byte array with id assignment,
                              sofa), Cas._find_all_fs(include_inlinable_arrays_and_lists=True) sorted by id,
                              _serialize_feature_structure per kind, %TYPES for FULL / MINIMAL / NONE
     tclosure                 TypeSystem.transitive_closure: worklist with a visited set
     ser_types                types to include, sorted by name, default DocumentAnnotation skipped, "X[]" ranges
     canon_json s c           canonical content of a CAS in the JSON view (collections are references)
     load_json L s d          CasJsonDeserializer.deserialize at the level of canonical content: sofa-first pass with
                              the byte-array pre-fetch, second pass, deferred reference fix-ups, initial view rule,
                              %VIEWS pass (add() re-points the sofa feature)
   The type system is seen through its schema (Schema.v); that a TypeSystem answers like its schema is C10/C11.
   Definitions only; proofs in JsonProofs.v. *)
From Coq Require Import Ascii.
From Cassis Require Import Base Heap Schema Canon Reach JsonDoc.
From Cassis Require Offsets.
Open Scope Z_scope.

Inductive tsmode := MFull | MMinimal | MNone.

(* ------------------------------------------------------------------------------------------ references and values *)

Definition find_sofa (c : cas) (n : string) : option sofa :=
  option_map v_sofa (find (fun v => String.eqb (s_name (v_sofa v)) n) (c_views c)).

(* _serialize_ref: `fs.xmiID` of the target (a FeatureStructure or a Sofa) *)
Definition ref_id (c : cas) (v : val) : res (option xid) :=
  match v with
  | VNone => Ok None
  | VRef o => match hget (c_heap c) o with Some f => Ok (o_id f) | None => Err EAttribute end
  | VSofa n => match find_sofa c n with Some sf => Ok (Some (s_xid sf)) | None => Err EAttribute end
  | _ => Err EAttribute
  end.
Definition ref_json (c : cas) (v : val) : res json :=
  do i <- ref_id c v ;; Ok (match i with Some i => JInt i | None => JNull end).

(* _serialize_float_value *)
Definition special_flt (x : flt) : option string :=
  if String.eqb x "nan" then Some "NaN" else if String.eqb x "inf" then Some "Infinity"
  else if String.eqb x "-inf" then Some "-Infinity" else None.
Definition float_json (v : val) : res json :=
  match v with
  | VFlt x => Ok (match special_flt x with Some sp => JStr sp | None => JFlt x end)
  | VInt z => Ok (JInt z)              (* isnan(int) is fine; the int is written *)
  | _ => Err EType
  end.
(* a value handed to json.dump as it is (allow_nan=False) *)
Definition plain_json (v : val) : res json :=
  match v with
  | VNone => Ok JNull
  | VInt z => Ok (JInt z) | VBool b => Ok (JBool b) | VStr s => Ok (JStr s)
  | VFlt x => match special_flt x with Some _ => Err EValue | None => Ok (JFlt x) end
  | VList _ | VRef _ | VSofa _ => Err EType
  end.

(* sofa._offset_converter.python_to_external: identity while the sofa has no text (no table) *)
Definition p2e_text (t : option text) (i : Z) : Z :=
  match t with Some t => Offsets.py2ext (Offsets.mk_conv t) i | None => i end.

(* ------------------------------------------------------------------------------------------ _serialize_feature_structure *)

(* one feature of a non-array structure; `feature.domainType.name == uima.tcas.Annotation` for begin/end is
   "the structure is an annotation" because a chain holds one definition per name (C11) *)
Definition is_vnone (v : val) : bool := match v with VNone => true | _ => false end.
(* the value in document units: begin/end of an annotation go through its sofa's converter (non-ints pass through) *)
Definition doc_val (c : cas) (s : schema) (t : tname) (f : fsobj) (fd : fdecl) (v : val) : res val :=
  if isa s t T_ANNOTATION && is_offset_name (fd_xname fd) then
    match slot f "sofa" with
    | VSofa n => match find_sofa c n with
                 | Some sf => Ok (match v with VInt i => VInt (p2e_text (s_text sf) i) | _ => v end)
                 | None => Err EAttribute end
    | _ => Err EAttribute
    end
  else Ok v.
Definition enc_value (c : cas) (s : schema) (fd : fdecl) (v1 : val) : res (list (string * json)) :=
  let x := fd_xname fd in
  if String.eqb (fd_range fd) T_FLOAT || String.eqb (fd_range fd) T_DOUBLE then
    match v1 with
    | VFlt xx => Ok (match special_flt xx with Some sp => [(numkey x, JStr sp)] | None => [(x, JFlt xx)] end)
    | VInt z => Ok [(x, JInt z)]
    | _ => Err EType
    end
  else if is_primitive s (fd_range fd) then do j <- plain_json v1 ;; Ok [(x, j)]
  else do j <- ref_json c v1 ;; Ok [(refkey x, j)].
Definition enc_feature (c : cas) (s : schema) (t : tname) (f : fsobj) (fd : fdecl) : res (list (string * json)) :=
  let v := slot f (fd_name fd) in
  if is_vnone v then Ok []                       (* `if value is None: continue` *)
  else do v1 <- doc_val c s t f fd v ;; enc_value c s fd v1.

Definition id_json (f : fsobj) : json := match o_id f with Some i => JInt i | None => JNull end.
(* `if fs.elements:` *)
Definition nonempty_list (v : val) : option (list val) := match v with VList (x :: r) => Some (x :: r) | _ => None end.
Definition byte_of (v : val) : res Z :=
  match v with VInt z => if byte_okb z then Ok z else Err EValue | _ => Err EType end.

Definition enc_elements (L : lex) (c : cas) (t : tname) (l : list val) : res json :=
  if String.eqb t T_BYTE_ARRAY then do bs <- mapM byte_of l ;; Ok (JStr (b64_enc L bs))
  else if String.eqb t T_DOUBLE_ARRAY || String.eqb t T_FLOAT_ARRAY then do js <- mapM float_json l ;; Ok (JArr js)
  else if String.eqb t T_FS_ARRAY then do js <- mapM (ref_json c) l ;; Ok (JArr js)
  else do js <- mapM plain_json l ;; Ok (JArr js).

Definition enc_fs (L : lex) (s : schema) (c : cas) (f : fsobj) : res (list (string * json)) :=
  let t := o_type f in
  let base := [(K_ID, id_json f); (K_TYPE, JStr t)] in
  if is_array_name t then
    match nonempty_list (slot f "elements") with
    | None => Ok base
    | Some l => do j <- enc_elements L c t l ;; Ok (base ++ [(K_ELEMENTS, j)])
    end
  else
    match sch_find s t with
    | None => Err ETypeNotFound
    | Some ti => do ms <- mapM (enc_feature c s t f) (ti_feats ti) ;; Ok (base ++ List.concat ms)
    end.

(* the Sofa goes through the same method: all_features of uima.cas.Sofa in declaration order *)
Definition opt_member {A} (k : string) (f : A -> json) (o : option A) : list (string * json) :=
  match o with Some a => [(k, f a)] | None => [] end.
Definition enc_sofa (L : lex) (c : cas) (sf : sofa) : res (list (string * json)) :=
  do arr <- match s_arr sf with
            | None => Ok []
            | Some o => do j <- ref_json c (VRef o) ;; Ok [(refkey "sofaArray", j)]
            end ;;
  Ok ([(K_ID, JInt (s_xid sf)); (K_TYPE, JStr T_SOFA); ("sofaNum", JInt (s_num sf)); ("sofaID", JStr (s_name sf))]
      ++ opt_member "mimeType" JStr (s_mime sf) ++ arr
      ++ opt_member "sofaString" (fun t => JStr (txt_enc L t)) (s_text sf) ++ opt_member "sofaURI" JStr (s_uri sf)).

(* _serialize_view: sorted(x.xmiID for x in view.get_all_annotations()) *)
Definition member_ids (h : heap) (ms : list oid) : res (list Z) :=
  mapM (fun o => match hget h o with
                 | Some f => match o_id f with Some i => Ok i | None => Err EType end
                 | None => Err EAttribute end) ms.
Definition enc_view (h : heap) (v : cview) : res (string * json) :=
  do ids <- member_ids h (v_members v) ;;
  Ok (s_name (v_sofa v), JObj [(K_SOFA, JInt (s_xid (v_sofa v))); (K_MEMBERS, JArr (map JInt (zsort ids)))]).

(* `for view in cas.views`: the view entry, then the sofa's byte array (given an id if it has none) unless an earlier
   sofa has written it already (d1bc860: `written_sofa_arrays`, the id()s of the arrays written so far), then the sofa *)
Definition omem (o : oid) (l : list oid) : bool := existsb (N.eqb o) l.
Definition step_view (L : lex) (s : schema) (acc : res (cas * list json * list (string * json) * list oid)) (v : cview)
  : res (cas * list json * list (string * json) * list oid) :=
  do st <- acc ;;
  let '(c, fss, views, wr) := st in
  do jv <- enc_view (c_heap c) v ;;
  do ca <- match s_arr (v_sofa v) with
           | None => Ok (c, [], wr)
           | Some o =>
             if omem o wr then Ok (c, [], wr) else
             match hget (c_heap c) o with
             | None => Err EAttribute
             | Some f =>
               let c1 := match o_id f with
                         | Some _ => c
                         | None => mkCas (c_views c) (hset (c_heap c) o (set_id f (c_next_id c))) (c_next_id c + 1)
                         end in
               let f1 := match o_id f with Some _ => f | None => set_id f (c_next_id c) end in
               do m <- enc_fs L s c1 f1 ;; Ok (c1, [JObj m], wr ++ [o])
             end
           end ;;
  let '(c1, arrs, wr1) := ca in
  do ms <- enc_sofa L c1 (v_sofa v) ;;
  Ok (c1, fss ++ arrs ++ [JObj ms], views ++ [jv], wr1).

(* ------------------------------------------------------------------------------------------ embedded type system *)

Definition parent (ti : tinfo) : option tname := match ti_anc ti with _ :: p :: _ => Some p | _ => None end.
(* Type.features (own features): the effective features the supertype does not have *)
Definition own_feats (s : schema) (ti : tinfo) : list fdecl :=
  match parent ti with
  | Some p => filter (fun fd => negb (existsb (fun g => String.eqb (fd_name g) (fd_name fd)) (sch_feats s p))) (ti_feats ti)
  | None => ti_feats ti
  end.
(* _to_external_type_name (user type names do not start with the pseudo-package: ASSUMPTIONS) *)
Definition ext_name (n : tname) : tname := match drop_prefix "uima.noNamespace." n with Some r => r | None => n end.

Definition range_name (fd : fdecl) : string :=
  let r := fd_range fd in
  if is_array_name r then
    String.append (if is_prim_array_name r then element_type_name_for r
                   else match fd_elem fd with Some e => ext_name e | None => T_TOP end) "[]"
  else ext_name r.
(* _serialize_feature; %MULTIPLE_REFERENCES_ALLOWED is written whenever the flag is not None: the schema only knows
   its truth value, so `false` members are compared modulo presence (jdecl_of reads absent and false alike) *)
Definition ser_feature (fd : fdecl) : string * json :=
  (fd_xname fd,
   JObj ([("%NAME", JStr (fd_xname fd)); ("%RANGE", JStr (range_name fd))]
         ++ (if fd_multi fd then [("%MULTIPLE_REFERENCES_ALLOWED", JBool true)] else [])
         ++ (if is_array_name (fd_range fd) then []
             else match fd_elem fd with Some e => [("%ELEMENT_TYPE", JStr (ext_name e))] | None => [] end))).
Definition ser_type (s : schema) (ti : tinfo) : string * json :=
  let n := ext_name (ti_name ti) in
  (n, JObj ([("%NAME", JStr n); ("%SUPER_TYPE", JStr (match parent ti with Some p => ext_name p | None => "" end))]
            ++ map ser_feature (own_feats s ti))).

(* TypeSystem.transitive_closure(seed_types): pop front; skip visited; skip predefined; visit; push the supertype, the
   range and the element type of every effective feature unless visited *)
Definition unvisited (visited : list tname) (n : tname) : list tname := if memb n visited then [] else [n].
Fixpoint tclosure (fuel : nat) (s : schema) (visited open : list tname) : res (list tname) :=
  match open with
  | [] => Ok visited
  | t :: rest =>
    match fuel with
    | O => OutOfFuel
    | S k =>
      if memb t visited then tclosure k s visited rest
      else if is_predefined t then tclosure k s visited rest
      else match sch_find s t with
           | None => Err ETypeNotFound
           | Some ti =>
             let vis := visited ++ [t] in
             let sup := match parent ti with Some p => unvisited vis p | None => [] end in
             let fs := flat_map (fun fd => unvisited vis (fd_range fd)
                                           ++ match fd_elem fd with Some e => unvisited vis e | None => [] end)
                                (ti_feats ti) in
             tclosure k s vis (rest ++ sup ++ fs)
           end
    end
  end.
(* every visit pushes at most 1 + 2*|features| names; every pop consumes one *)
Definition closure_fuel (s : schema) (seeds : list tname) : nat :=
  S (List.length seeds + fold_right (fun ti a => (1 + 2 * List.length (ti_feats ti) + a)%nat) 0%nat s).

Fixpoint sinsert (x : string) (l : list string) : list string :=
  match l with [] => [x] | y :: r => if String.leb x y then x :: y :: r else y :: sinsert x r end.
Definition sort_names (l : list string) : list string := fold_right sinsert [] l.

(* the implicitly added DocumentAnnotation is not written unless it was extended (c9a01e4) or declared differently (b4a91fc:
   is_default_document_annotation compares the whole declaration -- supertype Annotation, the one feature `language` with range
   String, no element type, no multipleReferencesAllowed; descriptions are not part of the schema) *)
Definition docann_default (s : schema) (ti : tinfo) : bool :=
  String.eqb (ti_name ti) T_DOCANN
  && match parent ti with Some p => String.eqb p T_ANNOTATION | None => false end
  && match own_feats s ti with
     | [fd] => String.eqb (fd_name fd) "language" && String.eqb (fd_range fd) T_STRING
               && match fd_elem fd with None => true | Some _ => false end && negb (fd_multi fd)
     | _ => false end.

Definition types_to_include (s : schema) (mode : tsmode) (used : list tname) : res (list tname) :=
  match mode with
  | MFull => Ok (filter (fun n => negb (is_predefined n)) (map ti_name s))      (* TypeSystem.get_types() *)
  | MMinimal => tclosure (closure_fuel s used) s [] used
  | MNone => Ok []
  end.
Definition ser_types (s : schema) (mode : tsmode) (used : list tname) : res (list (string * json)) :=
  match mode with
  | MNone => Ok []
  | _ =>
    do names <- types_to_include s mode used ;;
    do tis <- mapM (fun n => match sch_find s n with Some ti => Ok ti | None => Err ETypeNotFound end) (sort_names names) ;;
    Ok [(K_TYPES, JObj (map (ser_type s) (filter (fun ti => negb (docann_default s ti)) tis)))]
  end.

(* ------------------------------------------------------------------------------------------ serialize *)

Definition fs_at (c : cas) (io : xid * oid) : res fsobj :=
  match hget (c_heap c) (snd io) with Some f => Ok f | None => Err EAttribute end.

(* the views loop, then the traversal: the CAS before the traversal, what the loop wrote, the byte arrays it wrote
   (written_sofa_arrays), the traversal's result *)
Definition save_found_wr (L : lex) (s : schema) (c : cas) : res (cas * list json * list (string * json) * list oid * wstate) :=
  do st <- fold_left (step_view L s) (c_views c) (Ok (c, [], [], [])) ;;
  let '(c1, sofa_fs, views, wr) := st in
  do w <- find_all_fs true s c1 ;;
  Ok (c1, sofa_fs, views, wr, w).
(* the same without the set of written arrays *)
Definition save_found (L : lex) (s : schema) (c : cas) : res (cas * list json * list (string * json) * wstate) :=
  do r <- save_found_wr L s c ;;
  let '(c1, sofa_fs, views, _, w) := r in Ok (c1, sofa_fs, views, w).

(* `if id(fs) in written_sofa_arrays: continue`: what the views loop wrote is not written again *)
Definition unwritten (wr : list oid) (l : list (xid * oid)) : list (xid * oid) :=
  filter (fun io => negb (omem (snd io) wr)) l.

Definition save_json (L : lex) (s : schema) (mode : tsmode) (c : cas) : res (json * cas) :=
  do r <- save_found_wr L s c ;;
  let '(c1, sofa_fs, views, wr, w) := r in
  let c2 := cas_after c1 w in
  let found := sort_ids (w_all w) in
  do fss <- mapM (fun io => do f <- fs_at c2 io ;; do m <- enc_fs L s c2 f ;; Ok (JObj m)) (unwritten wr found) ;;
  do used <- mapM (fun io => do f <- fs_at c2 io ;; Ok (o_type f)) found ;;     (* the type of a skipped array still counts *)
  do types <- ser_types s mode used ;;
  Ok (JObj (types ++ [(K_FS, JArr (sofa_fs ++ fss)); (K_VIEWS, JObj views)]), c2).

(* ------------------------------------------------------------------------------------------ canonical content *)

Definition cv_atom (c : cas) (v : val) : res cval :=
  match v with
  | VNone => Ok CNull | VInt z => Ok (CInt z) | VFlt x => Ok (CFlt x) | VBool b => Ok (CBool b) | VStr s => Ok (CStr s)
  | VRef _ | VSofa _ => do i <- ref_id c v ;; Ok (match i with Some i => CRef i | None => CNull end)
  | VList _ => Err EType
  end.
Definition cv_json (c : cas) (v : val) : res cval :=
  match v with
  | VList l => do els <- mapM (cv_atom c) l ;; Ok (CColl "" els)
  | _ => cv_atom c v
  end.
Definition canon_fs (s : schema) (c : cas) (f : fsobj) : res cfs :=
  let t := o_type f in
  match sch_find s t with
  | None => Err ETypeNotFound
  | Some ti =>
    if is_array_name t then      (* Type.all_features of an array type: the one feature `elements` *)
      do v <- cv_json c (slot f "elements") ;; Ok (mkCfs t [("elements", v)])
    else
      do fv <- mapM (fun fd => do v <- cv_json c (slot f (fd_name fd)) ;; Ok (fd_xname fd, v)) (ti_feats ti) ;;
      Ok (mkCfs t (sort_feats fv))
  end.
Definition canon_sofa (c : cas) (v : cview) : res csofa :=
  let sf := v_sofa v in
  do arr <- match s_arr sf with None => Ok None | Some o => ref_id c (VRef o) end ;;
  do ms <- member_ids (c_heap c) (v_members v) ;;
  Ok (mkCsofa (s_xid sf) (s_num sf) (s_name sf) (s_text sf) (s_mime sf) (s_uri sf) arr (zsort ms)).
Definition sofa_arrays (c : cas) : list oid :=
  flat_map (fun v => match s_arr (v_sofa v) with Some o => [o] | None => [] end) (c_views c).
(* canonical content given the structures to list; every one of them must carry an id *)
Definition canon_of (s : schema) (c : cas) (found : list oid) : res ccas :=
  do fss <- mapM (fun o => match hget (c_heap c) o with
                           | Some f => match o_id f with
                                       | Some i => do cf <- canon_fs s c f ;; Ok (i, cf)
                                       | None => Err EValue end
                           | None => Err EAttribute end) found ;;
  do sofas <- mapM (canon_sofa c) (c_views c) ;;
  Ok (mkCcas (sort_by cs_id sofas) (sort_by fst fss)).
(* the byte arrays of the sofas, each one once, in the order of their first use *)
Fixpoint odedup (seen l : list oid) : list oid :=
  match l with
  | [] => []
  | o :: r => if omem o seen then odedup seen r else o :: odedup (seen ++ [o]) r
  end.
Definition sofa_arrays_once (c : cas) : list oid := odedup [] (sofa_arrays c).
(* the structures of the CAS in the JSON view, every one once: the byte arrays of the sofas, then what the traversal finds
   and is not such an array (an array may hold the data of several sofas and be indexed or referenced as well) *)
Definition listed (c : cas) (w : wstate) : list oid :=
  sofa_arrays_once c ++ map snd (unwritten (sofa_arrays c) (sort_ids (w_all w))).
(* "the same CAS" in the JSON view: the sofa byte arrays and every structure reachable from the indexed ones
   (collections included), by id, references as ids.  Defined for a CAS whose reachable structures all carry ids (any CAS
   after a save or a load); the listing order before sorting is the writer's. *)
Definition canon_json (s : schema) (c : cas) : res ccas :=
  do w <- find_all_fs true s c ;;
  canon_of s c (listed c w).

(* ------------------------------------------------------------------------------------------ deserialize *)

Record lstate := mkL {
  l_sofas : list csofa;              (* cas.sofas; members are filled by the %VIEWS pass *)
  l_stab : list (xid * option text); (* the Sofa objects filed in the feature_structures dict: id -> sofaString *)
  l_tab : list xid;                  (* keys of the feature_structures dict *)
  l_fs : list (xid * cfs);           (* structures built so far; references still as the ids the document names *)
  l_max_id : Z; l_max_num : Z;
  l_init : bool;                     (* _initial_view_in_document *)
  l_ahead : list xid;                (* fetched_ahead: ids of the byte arrays parsed ahead of their turn for a sofa (d94ad6a) *)
  l_made : list xid }.               (* one item per object _parse_feature_structure has created: the id it was created under
                                        (the dict keeps the LAST object made under an id; whoever took the object out of the
                                        dict earlier -- a sofa -- keeps the one made before) *)

Fixpoint zaset {V} (k : Z) (v : V) (l : list (Z * V)) : list (Z * V) :=
  match l with [] => [(k, v)] | (k', v') :: r => if Z.eqb k k' then (k', v) :: r else (k', v') :: zaset k v r end.
(* `fs.sofa._offset_converter`: fs.sofa was resolved through feature_structures, i.e. it is a Sofa parsed from the document
   (the sofa of the implicit _InitialView is not in that dict until the document mentions it) *)
Definition sofa_text_tab (st : lstate) : list (xid * option text) := l_stab st.
(* python names of the attributes handed to the constructor / setattr must be features of the type *)
Definition attrs_known (ti : tinfo) (m : list (string * json)) : res unit :=
  fold_left (fun acc kv => do _ <- acc ;;
               match classify (fst kv) with
               | KRes => Ok tt
               | KRef n => match xfind (ti_feats ti) n with Some _ => Ok tt | None => Err EAttribute end
               | KNum n | KPlain n => match xfind (ti_feats ti) n with Some _ => Ok tt | None => Err EType end
               end) m (Ok tt).

(* _parse_feature_structure: uses the sofas known so far for the offset conversion *)
Definition load_fs (L : lex) (s : schema) (st : lstate) (e : entry) : res lstate :=
  let m := snd e in
  match e_type e with
  | None => Err EAttribute
  | Some t0 =>
    let t := norm_tname t0 in
    match sch_find s t with
    | None => Err ETypeNotFound
    | Some ti =>
      do cf <- (if is_array_name t then
                  do els <- den_elements L t (alookup K_ELEMENTS m) ;; Ok (mkCfs t [("elements", CColl "" els)])
                else
                  do _ <- attrs_known ti m ;;
                  do fv <- mapM (den_feature m) (ti_feats ti) ;;
                  do fv' <- (if isa s t T_ANNOTATION then
                               match alookup "sofa" fv with
                               | Some (CRef sid) =>
                                   match zlookup sid (sofa_text_tab st) with
                                   | Some txt => Ok (map (fun p => if is_offset_name (fst p) then (fst p, conv_off txt (snd p)) else p) fv)
                                   | None => Err EAttribute
                                   end
                               | _ => Err EAttribute
                               end
                             else Ok fv) ;;
                  Ok (mkCfs t (sort_feats fv'))) ;;
      Ok (mkL (l_sofas st) (l_stab st) (if zmem (fst e) (l_tab st) then l_tab st else l_tab st ++ [fst e]) (zaset (fst e) cf (l_fs st))
              (Z.max (fst e) (l_max_id st)) (l_max_num st) (l_init st) (l_ahead st) (l_made st ++ [fst e]))
    end
  end.

(* _get_or_create_view(name, fs_id, sofa_num) + the sofa setters *)
Definition upsert_sofa (cs : csofa) (l : list csofa) : list csofa :=
  if existsb (fun x => String.eqb (cs_name x) (cs_name cs)) l
  then map (fun x => if String.eqb (cs_name x) (cs_name cs) then cs else x) l
  else l ++ [cs].
(* the byte array the sofa refers to is parsed first when it is not there yet; its id is remembered (fetched_ahead) *)
Definition note_ahead (r : xid) (st : lstate) : lstate :=
  mkL (l_sofas st) (l_stab st) (l_tab st) (l_fs st) (l_max_id st) (l_max_num st) (l_init st) (l_ahead st ++ [r]) (l_made st).
Definition prefetch_array (L : lex) (s : schema) (dict_form : bool) (es : list entry) (st : lstate) (m : list (string * json)) : res lstate :=
  match alookup (refkey "sofaArray") m with
  | Some (JInt r) =>
      if Z.eqb r 0 || zmem r (l_tab st) then Ok st
      else if dict_form && negb (zmem r (map fst es)) then Err EAttribute   (* .get(str(ref)) is None (a7ade58) *)
      else do st' <- fold_left (fun acc e2 => do a <- acc ;; if Z.eqb (fst e2) r then load_fs L s a e2 else Ok a) es (Ok st) ;;
           Ok (if zmem r (map fst es) then note_ahead r st' else st')
  | _ => Ok st
  end.
Definition load_sofa (L : lex) (s : schema) (dict_form : bool) (es : list entry) (st : lstate) (e : entry) : res lstate :=
  let m := snd e in
  do st1 <- prefetch_array L s dict_form es st m ;;
  match alookup "sofaID" m, alookup "sofaNum" m with
  | Some (JStr name), Some (JInt num) =>
    do ot <- opt_jstr (alookup "sofaString" m) ;;
    do txt <- match ot with
              | None => Ok None
              | Some x => match txt_dec L x with Some t => Ok (Some t) | None => Err EValue end
              end ;;
    do mime <- opt_jstr (alookup "mimeType" m) ;;
    do uri <- opt_jstr (alookup "sofaURI" m) ;;
    let arr := match alookup (refkey "sofaArray") m with
               | Some (JInt r) => if zmem r (l_tab st1) then Some r else None
               | _ => None end in
    let cs := mkCsofa (fst e) num name txt mime uri arr [] in
    Ok (mkL (upsert_sofa cs (l_sofas st1)) (zaset (fst e) txt (l_stab st1))
            (if zmem (fst e) (l_tab st1) then l_tab st1 else l_tab st1 ++ [fst e]) (l_fs st1)
            (Z.max (fst e) (l_max_id st1)) (Z.max num (l_max_num st1))
            (l_init st1 || String.eqb name "_InitialView") (l_ahead st1) (l_made st1))
  | _, _ => Err EValue
  end.

(* deferred fix-ups: feature_structures.get(id) against the final table; a miss leaves None *)
Definition resolve (tab : list xid) (v : cval) : cval :=
  match v with
  | CRef i => if zmem i tab then CRef i else CNull
  | CColl k l => CColl k (map (fun x => match x with CRef i => if zmem i tab then CRef i else CNull | _ => x end) l)
  | _ => v
  end.
Definition resolve_fs (tab : list xid) (cf : cfs) : cfs :=
  mkCfs (cf_type cf) (map (fun p => (fst p, resolve tab (snd p))) (cf_feats cf)).

Definition set_members (cs : csofa) (ms : list xid) : csofa :=
  mkCsofa (cs_id cs) (cs_num cs) (cs_name cs) (cs_text cs) (cs_mime cs) (cs_uri cs) (cs_arr cs) ms.
(* _parse_view: view.add(fs, keep_id=True) indexes the structure and, if it has a `sofa` feature, re-points it *)
Definition load_view (st : res lstate) (kv : string * json) : res lstate :=
  do st <- st ;;
  do sofas <- (if existsb (fun x => String.eqb (cs_name x) (fst kv)) (l_sofas st) then Ok (l_sofas st, st)
               else let cs := mkCsofa (l_max_id st + 1) (l_max_num st + 1) (fst kv) None None None None [] in
                    Ok (l_sofas st ++ [cs],
                        mkL (l_sofas st) (l_stab st) (l_tab st) (l_fs st) (l_max_id st + 1) (l_max_num st + 1) (l_init st)
                            (l_ahead st) (l_made st))) ;;
  let '(sofas, st) := sofas in
  do ms <- match jget K_MEMBERS (snd kv) with Some (JArr l) => mapM jint l | _ => Err EKey end ;;
  do _ <- fold_left (fun acc i => do _ <- acc ;; if zmem i (l_tab st) && negb (existsb (fun x => Z.eqb (cs_id x) i) sofas)
                                                 then Ok tt else Err EKey) ms (Ok tt) ;;
  let sid := match find (fun x => String.eqb (cs_name x) (fst kv)) sofas with Some x => cs_id x | None => 0 end in
  let fs' := map (fun p => if zmem (fst p) ms && (match alookup "sofa" (cf_feats (snd p)) with Some _ => true | None => false end)
                           then (fst p, mkCfs (cf_type (snd p)) (map (fun q => if String.eqb (fst q) "sofa" then (fst q, CRef sid) else q)
                                                                           (cf_feats (snd p))))
                           else p) (l_fs st) in
  let sofas' := map (fun x => if String.eqb (cs_name x) (fst kv) then set_members x (cs_members x ++ ms) else x) sofas in
  Ok (mkL sofas' (l_stab st) (l_tab st) fs' (l_max_id st) (l_max_num st) (l_init st) (l_ahead st) (l_made st)).

Definition is_dict_form (d : json) : bool := match jget K_FS d with Some (JObj _) => true | _ => false end.
Definition initial_sofa : csofa := mkCsofa 1 1 "_InitialView" None None None None [].

(* the second pass: every entry that is not a sofa and was not fetched ahead for a sofa (d94ad6a) *)
Definition second_pass (L : lex) (s : schema) (es : list entry) (st1 : lstate) : res lstate :=
  fold_left (fun acc e => do a <- acc ;; if is_sofa_entry e || zmem (fst e) (l_ahead a) then Ok a else load_fs L s a e) es (Ok st1).

Definition load_json_via (pass2 : lex -> schema -> list entry -> lstate -> res lstate) (L : lex) (s : schema) (d : json) : res lstate :=
  do es <- fs_entries d ;;
  let st0 := mkL [initial_sofa] [] [] [] 0 0 false [] [] in
  (* sofa-first pass *)
  do st1 <- fold_left (fun acc e => do a <- acc ;; if is_sofa_entry e then load_sofa L s (is_dict_form d) es a e else Ok a) es (Ok st0) ;;
  (* second pass *)
  do st2 <- pass2 L s es st1 ;;
  (* post-processors *)
  let tab := l_tab st2 in
  let st3 := mkL (l_sofas st2) (l_stab st2) tab (map (fun p => (fst p, resolve_fs tab (snd p))) (l_fs st2)) (l_max_id st2) (l_max_num st2) (l_init st2)
                 (l_ahead st2) (l_made st2) in
  (* a document that does not mention the initial view (941f890) *)
  let st4 := if l_init st3 then st3
             else mkL (map (fun x => if String.eqb (cs_name x) "_InitialView"
                                     then mkCsofa (l_max_id st3 + 1) (l_max_num st3 + 1) (cs_name x) (cs_text x) (cs_mime x) (cs_uri x) (cs_arr x) (cs_members x)
                                     else x) (l_sofas st3))
                      (l_stab st3) (l_tab st3) (l_fs st3) (l_max_id st3 + 1) (l_max_num st3 + 1) true (l_ahead st3) (l_made st3) in
  do views <- doc_views d ;;
  fold_left load_view views (Ok st4).
Definition load_json_st := load_json_via second_pass.
Definition content_of (st5 : lstate) : ccas :=
  mkCcas (sort_by cs_id (map (fun x => set_members x (zsort (cs_members x))) (l_sofas st5))) (sort_by fst (l_fs st5)).
Definition load_json (L : lex) (s : schema) (d : json) : res ccas :=
  do st5 <- load_json_st L s d ;; Ok (content_of st5).
(* the objects the reader created, by the id they were created under.  Every holder of a reference (a feature, an FSArray
   element, a view member, a sofa's sofaArray) got its object out of the id-keyed dict: when no id occurs twice in this list,
   all holders of one id hold one object -- what was shared in the document is shared in the CAS *)
Definition load_made (L : lex) (s : schema) (d : json) : res (list xid) :=
  do st5 <- load_json_st L s d ;; Ok (l_made st5).
(* the id generators after loading: IdGenerator(max + 1) *)

(* ------------------------------------------------------------------------------------------ premises (boolean) *)

Definition name_okb (x : string) : bool :=
  match x with String "%"%char _ | String "@"%char _ | String "#"%char _ | EmptyString => false | _ => true end.
Definition tname_okb (t : tname) : bool :=
  negb (String.eqb t T_SOFA) && match strip_brackets t with Some _ => false | None => true end.
(* a structure the writer meets: typed by the schema, arrays hold a list, annotations carry the sofa of a view of this CAS
   and offsets inside its text, feature names are plain and distinct *)
Definition obj_okb (s : schema) (c : cas) (f : fsobj) : bool :=
  let t := o_type f in
  tname_okb t &&
  match sch_find s t with
  | None => false
  | Some ti =>
    if is_array_name t then
      match slot f "elements" with
      | VList l => if String.eqb t T_FLOAT_ARRAY || String.eqb t T_DOUBLE_ARRAY
                   then forallb (fun v => match v with VFlt _ => true | _ => false end) l else true
      | _ => false end
    else
      forallb (fun fd => name_okb (fd_xname fd)) (ti_feats ti) && snodup (map fd_xname (ti_feats ti))
      && (if isa s t T_ANNOTATION then
            match slot f "sofa" with
            | VSofa n =>
              match find_sofa c n with
              | Some sf =>
                let len := match s_text sf with Some t => Z.of_nat (List.length t) | None => 0 end in
                let okoff := fun v => match v with VNone => true | VInt i => (0 <=? i) && (i <=? len) | _ => false end in
                okoff (slot f "begin") && okoff (slot f "end")
                && match xfind (ti_feats ti) "begin", xfind (ti_feats ti) "end", xfind (ti_feats ti) "sofa" with
                   | Some b, Some e, Some so => String.eqb (fd_name b) "begin" && String.eqb (fd_name e) "end" && String.eqb (fd_name so) "sofa"
                                                && negb (is_primitive s (fd_range so))
                   | _, _, _ => false end
              | None => false end
            | _ => false end
          else true)
  end.
(* the CAS after the save (ids assigned): views and ids are distinct, texts are encodable, every structure found and
   every sofa byte array is well-formed and carries the id it is filed under *)
Definition wf_jsonb (s : schema) (c : cas) : bool :=
  match find_all_fs true s c with
  | Ok w =>
    let sofas := map v_sofa (c_views c) in
    snodup (map s_name sofas)
    && znodup (map s_xid sofas)
    && forallb (fun sf => match s_text sf with Some t => text_okb t | None => true end) sofas
    && forallb (fun io => match hget (c_heap c) (snd io) with
                          | Some f => obj_okb s c f && opt_eqb Z.eqb (o_id f) (Some (fst io))
                          | None => false end) (w_all w)
    && forallb (fun o => match hget (c_heap c) o with
                         | Some f => String.eqb (o_type f) T_BYTE_ARRAY && obj_okb s c f
                                     && match o_id f with Some _ => true | None => false end
                         | None => false end) (sofa_arrays c)
  | _ => false
  end.
(* all ids of the document are pairwise distinct: the sofas, what the traversal finds apart from the sofa byte arrays, and
   those arrays, each once (one array may serve several sofas and may be indexed or referenced as well) *)
Definition arr_id (c : cas) (o : oid) : list Z :=
  match hget (c_heap c) o with
  | Some f => match o_id f with Some i => [i] | None => [] end
  | None => [] end.
Definition ids_distinctb (s : schema) (c : cas) : bool :=
  match find_all_fs true s c with
  | Ok w => znodup (map s_xid (map v_sofa (c_views c)) ++ map fst (unwritten (sofa_arrays c) (w_all w))
                    ++ flat_map (arr_id c) (sofa_arrays_once c))
  | _ => false
  end.
(* repeating the traversal on the CAS the save leaves behind finds the same structures under the same ids
   (ReachProofs: find_all_exact + ids_assigned; evaluated as a premise here) *)
Definition pair_eqb (a b : xid * oid) : bool := Z.eqb (fst a) (fst b) && N.eqb (snd a) (snd b).
Definition stableb (L : lex) (s : schema) (c : cas) : bool :=
  match save_found L s c with
  | Ok (c1, _, _, w) =>
    match find_all_fs true s (cas_after c1 w) with
    | Ok w' => list_eqb pair_eqb (sort_ids (w_all w')) (sort_ids (w_all w))
    | _ => false end
  | _ => false
  end.

(* further premises of "every reference of the document resolves" (C04): no structure carries the id 0 (cas:NULL is an
   XMI notion; _find_all_fs skips such structures while references to them would still be written); the schema calls
   exactly the subtypes of ArrayBase arrays (the writer tests the name, the traversal the supertype); the feature `sofa`
   of a structure found holds a Sofa, never another feature structure (the traversal does not follow it) *)
Definition refs_wfb (s : schema) (c : cas) : bool :=
  forallb (fun p => negb (is_null_id (snd p))) (c_heap c)
  && forallb (fun ti => Bool.eqb (is_array_name (ti_name ti)) (match is_array_type ti with Ok b => b | _ => false end)) s
  && match find_all_fs true s c with
     | Ok w => forallb (fun io => match hget (c_heap c) (snd io) with
                                  | Some f => match slot f "sofa" with VRef _ => false | _ => true end
                                  | None => false end) (w_all w)
     | _ => false
     end.

(* ---- the pre-c9a01e4 rule, kept for the refutation: DocumentAnnotation was never written to %TYPES ---- *)
Definition ser_types_old (s : schema) (mode : tsmode) (used : list tname) : res (list (string * json)) :=
  match mode with
  | MNone => Ok []
  | _ =>
    do names <- types_to_include s mode used ;;
    do tis <- mapM (fun n => match sch_find s n with Some ti => Ok ti | None => Err ETypeNotFound end) (sort_names names) ;;
    Ok [(K_TYPES, JObj (map (ser_type s) (filter (fun ti => negb (String.eqb (ti_name ti) T_DOCANN)) tis)))]
  end.

(* ---- the writer before d1bc860, kept for the refutation: the byte array was written in front of every sofa referring to it
   and once more when the traversal reached it ---- *)
Definition step_view_old (L : lex) (s : schema) (acc : res (cas * list json * list (string * json))) (v : cview)
  : res (cas * list json * list (string * json)) :=
  do st <- acc ;;
  let '(c, fss, views) := st in
  do jv <- enc_view (c_heap c) v ;;
  do ca <- match s_arr (v_sofa v) with
           | None => Ok (c, [])
           | Some o =>
             match hget (c_heap c) o with
             | None => Err EAttribute
             | Some f =>
               let c1 := match o_id f with
                         | Some _ => c
                         | None => mkCas (c_views c) (hset (c_heap c) o (set_id f (c_next_id c))) (c_next_id c + 1)
                         end in
               let f1 := match o_id f with Some _ => f | None => set_id f (c_next_id c) end in
               do m <- enc_fs L s c1 f1 ;; Ok (c1, [JObj m])
             end
           end ;;
  let '(c1, arrs) := ca in
  do ms <- enc_sofa L c1 (v_sofa v) ;;
  Ok (c1, fss ++ arrs ++ [JObj ms], views ++ [jv]).
Definition save_json_old (L : lex) (s : schema) (mode : tsmode) (c : cas) : res (json * cas) :=
  do st <- fold_left (step_view_old L s) (c_views c) (Ok (c, [], [])) ;;
  let '(c1, sofa_fs, views) := st in
  do w <- find_all_fs true s c1 ;;
  let c2 := cas_after c1 w in
  let found := sort_ids (w_all w) in
  do fss <- mapM (fun io => do f <- fs_at c2 io ;; do m <- enc_fs L s c2 f ;; Ok (JObj m)) found ;;
  do used <- mapM (fun io => do f <- fs_at c2 io ;; Ok (o_type f)) found ;;
  do types <- ser_types s mode used ;;
  Ok (JObj (types ++ [(K_FS, JArr (sofa_fs ++ fss)); (K_VIEWS, JObj views)]), c2).

(* ---- the reader before d94ad6a, kept for the refutation: the second pass parsed every non-sofa entry, also the byte array
   fetched ahead for a sofa, into a second object ---- *)
Definition second_pass_old (L : lex) (s : schema) (es : list entry) (st1 : lstate) : res lstate :=
  fold_left (fun acc e => do a <- acc ;; if is_sofa_entry e then Ok a else load_fs L s a e) es (Ok st1).
Definition load_made_old (L : lex) (s : schema) (d : json) : res (list xid) :=
  do st5 <- load_json_via second_pass_old L s d ;; Ok (l_made st5).
Definition load_json_old (L : lex) (s : schema) (d : json) : res ccas :=
  do st5 <- load_json_via second_pass_old L s d ;; Ok (content_of st5).
