(* PropsJson.v — the JSON halves of C04 and C05 (theorems proved in JsonProofs.v), re-exported under the names the
   coordinator splices into Props/C04.v and Props/C05.v. *)
From Cassis Require Import Base Heap Schema Canon Reach JsonDoc Json JsonProofs.
Open Scope Z_scope.

Theorem C04_json_denote_save : forall L s mode c d c',
  lex_ok L -> save_json L s mode c = Ok (d, c') -> wf_jsonb s c' = true -> stableb L s c = true ->
  denote_json L s d = canon_json s c'.
Proof. exact denote_save_json. Qed.
Print Assumptions C04_json_denote_save.
