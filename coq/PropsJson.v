(* PropsJson.v — the JSON halves of C04 and C05: theorems proved in JsonProofs.v / JsonProofs2.v / JsonLex.v, re-exported
   under the names to be spliced into Props/C04.v and Props/C05.v.  Only `exact` proofs, Print Assumptions and
   non-vacuity examples.

   Reading guide: `denote_json L s d` (JsonDoc.v) is the declarative reading of a JSON-CAS document — the independent
   implementation of the format; `save_json` / `load_json` (Json.v) model cassis/json.py; `canon_json s c` is the content
   of a CAS (sofa data, view membership, every structure under its id with every value, references as ids).  L is the
   lexical layer (UTF-8, base64); `std_lex_ok` instantiates it.  Boolean premises (evaluated on every generated case):
   wf_jsonb (distinct view names / sofa ids, encodable texts, structures typed, plain distinct feature names, arrays hold
   lists, annotations carry a sofa of this CAS and offsets inside its text), ids_distinctb (sofa ids, the ids of the byte arrays -- each once -- and
   the ids of the other structures apart), refs_wfb (no id 0, the schema calls exactly the ArrayBase subtypes arrays, `sofa` features hold
   sofas), doc_ok_json (well-formed document). *)
From Cassis Require Import Base Heap Schema Canon Reach JsonDoc Json JsonProofs JsonProofs2 JsonLoadProofs JsonLex CorrC02.
From Cassis Require Import JsonWf JsonDocOk.
From Cassis Require Props.C02.
Open Scope Z_scope.

(* ================================================================================================ C04, JSON half *)

(* faithful: read with the independent reader, the written document describes exactly the CAS the save leaves behind
   (types, every feature value, element order of collections, offsets in code points, sofa data, view membership;
   shared structures stay shared because references are ids).  The former premise `stableb` is discharged
   (ReachSpec.find_all_fs_stable); 0 < c_next_id says the id generator hands out positive ids. *)
Theorem C04_json_denote_save : forall L s mode c d c',
  lex_ok L -> save_json L s mode c = Ok (d, c') -> wf_jsonb s c' = true -> 0 < c_next_id c ->
  denote_json L s d = canon_json s c'.
Proof. exact denote_save_json. Qed.
Print Assumptions C04_json_denote_save.

(* all ids of the document are distinct *)
Theorem C04_json_ids_distinct : forall L s mode c d c',
  lex_ok L -> save_json L s mode c = Ok (d, c') -> wf_jsonb s c' = true -> 0 < c_next_id c ->
  ids_distinctb s c' = true -> doc_ids_distinctb d = true.
Proof. exact json_ids_distinct. Qed.
Print Assumptions C04_json_ids_distinct.

(* every reference ('@' members incl. TOP-ranged features, list head / tail, shared collections, @sofa, @sofaArray),
   every FSArray element, every view member and every %SOFA resolves inside the document: closed under reachability
   (ReachProofs.find_all_closed / find_all_contains_seeds / ids_assigned, ReachSpec.succs_declarative) *)
Theorem C04_json_refs_resolve : forall L s mode c d c',
  lex_ok L -> save_json L s mode c = Ok (d, c') -> wf_jsonb s c' = true -> 0 < c_next_id c ->
  refs_wfb s c' = true -> doc_refs_resolveb d = true.
Proof. exact json_refs_resolve. Qed.
Print Assumptions C04_json_refs_resolve.

(* each structure is present exactly once, under the id it carries: the entries of the document are the sofas, each byte array
   in front of the FIRST sofa that refers to it (tviews: the views paired with the arrays written before them; d1bc860), followed
   by one entry per structure the traversal returns that is not such an array (found_list) (ReachProofs.find_all_exact: exactly
   the structures reachable from the indexed ones; find_all_each_once: each once) *)
Theorem C04_json_entries : forall L s mode c d c',
  lex_ok L -> save_json L s mode c = Ok (d, c') -> wf_jsonb s c' = true -> 0 < c_next_id c ->
  exists w (Ev Ef : list entry),
    find_all_fs true s c' = Ok w /\ fs_entries d = Ok (Ev ++ Ef) /\
    map fst Ev = flat_map (fun p => arr_ids c' p ++ [s_xid (v_sofa (snd p))]) (tviews c) /\
    map fst Ef = map fst (found_list c' w).
Proof.
  intros L s mode c d c' HL Hs Hw Hp.
  destruct (save_json_entries L s mode c d c' HL Hs Hw Hp) as (w & outs & fss & Ev & Ef & sofas & E1 & _ & Ew & _ & _ & _ & _ & HV & HF & _).
  exists w, Ev, Ef. split; [exact Ew|]. split; [exact E1|]. split; [exact (proj1 HV)|exact (proj1 HF)].
Qed.
Print Assumptions C04_json_entries.

(* json_doc_ok, full statement (Round 3, JsonDocOk.v): the written document is a well-formed JSON-CAS document — beyond the closed
   part above: ids positive, view / sofa names and sofaNums distinct, sofa entries carry only sofa keys, each sofa byte array is
   a ByteArray entry, each view lists a member once and a member's `sofa` names that view's sofa, every entry's keys are %ID,
   %TYPE, %ELEMENTS or feature names of its type with the right sigil (plain / '@' / '#'), no key or feature twice, values of
   the kind of the range, '@' values resolve to feature structures (Sofa-ranged: to sofas), %ELEMENTS of the kind of the array.
   typed_jsonb (JsonWf.v) is the boolean typing premise on the CAS the save leaves behind. *)
Theorem C04_json_doc_ok : forall L s mode c d c',
  lex_ok L -> save_json L s mode c = Ok (d, c') -> wf_jsonb s c' = true -> 0 < c_next_id c ->
  ids_distinctb s c' = true -> refs_wfb s c' = true -> typed_jsonb s c' = true -> doc_ok_json L s d = true.
Proof. exact doc_ok_save_json. Qed.
Print Assumptions C04_json_doc_ok.

(* the lexical layer: UTF-8 and base64 as implemented in JsonDoc.v satisfy the contract *)
Theorem C04_json_std_lex_ok : lex_ok std_lex.
Proof. exact std_lex_ok. Qed.
Print Assumptions C04_json_std_lex_ok.

(* ================================================================================================ C05, JSON half *)

(* the reader mechanism of cassis/json.py (sofa-first pass with the byte-array pre-fetch in both forms, second pass,
   deferred fix-ups against the final table, initial-view rule, %VIEWS pass with add() re-pointing `sofa`) builds, from
   every well-formed document, the CAS the document describes under the declarative reading (plus the view
   _InitialView every CAS has, when the document does not mention it) *)
Theorem C05_json_load_is_denotation : forall L s d cc,
  doc_ok_json L s d = true -> denote_json L s d = Ok cc -> load_json L s d = Ok (with_initial_view cc).
Proof. exact load_json_is_denotation. Qed.
Print Assumptions C05_json_load_is_denotation.

(* hence loading does not depend on the presentation *)
Theorem C05_json_load_presentation_invariant : forall L s d d' cc,
  schema_keys_okb s = true -> same_content d d' -> doc_ok_json L s d = true -> doc_ok_json L s d' = true ->
  denote_json L s d = Ok cc -> load_json L s d' = load_json L s d.
Proof. exact load_json_presentation_invariant. Qed.
Print Assumptions C05_json_load_presentation_invariant.

(* documents that present the same content — feature structures in any order (forward references, sofas anywhere), as an
   array or as an id-keyed object, members in any order, views in any order, members of the document in any order,
   whatever %TYPES says — describe the same CAS *)
Theorem C05_json_presentation_invariant : forall L s d d' c,
  schema_keys_okb s = true -> same_content d d' -> denote_json L s d = Ok c -> denote_json L s d' = Ok c.
Proof. exact denote_json_presentation_invariant. Qed.
Print Assumptions C05_json_presentation_invariant.

Theorem C05_json_presentations_compose : forall d1 d2 d3, same_content d1 d2 -> same_content d2 d3 -> same_content d1 d3.
Proof. exact same_content_trans. Qed.
Print Assumptions C05_json_presentations_compose.

Theorem C05_json_fs_order : forall d js js' es vs,
  jget K_FS d = Some (JArr js) -> Permutation.Permutation js js' -> fs_entries d = Ok es -> doc_views d = Ok vs ->
  NoDup (map fst es) -> NoDup (map fst vs) -> same_content d (set_member K_FS (JArr js') d).
Proof. exact pres_fs_order. Qed.
Print Assumptions C05_json_fs_order.

Theorem C05_json_dict_form : forall d es vs,
  jget K_FS d <> None -> fs_entries d = Ok es -> doc_views d = Ok vs -> NoDup (map fst es) -> NoDup (map fst vs) ->
  same_content d (set_member K_FS (dict_form es) d).
Proof. exact pres_dict_form. Qed.
Print Assumptions C05_json_dict_form.

Theorem C05_json_member_order : forall d d' es es' vs,
  fs_entries d = Ok es -> fs_entries d' = Ok es' -> doc_views d = Ok vs -> doc_views d' = Ok vs ->
  NoDup (map fst es) -> NoDup (map fst vs) ->
  Forall2 (fun e e' => fst e = fst e' /\ NoDup (map fst (snd e)) /\ Permutation.Permutation (snd e) (snd e')) es es' ->
  same_content d d'.
Proof. exact pres_member_order. Qed.
Print Assumptions C05_json_member_order.

Theorem C05_json_document_member_order : forall l l' es vs,
  NoDup (map fst l) -> Permutation.Permutation l l' -> fs_entries (JObj l) = Ok es -> doc_views (JObj l) = Ok vs ->
  NoDup (map fst es) -> NoDup (map fst vs) -> same_content (JObj l) (JObj l').
Proof. exact pres_document_member_order. Qed.
Print Assumptions C05_json_document_member_order.

Theorem C05_json_view_order : forall d vs vs' es,
  fs_entries d = Ok es -> doc_views d = Ok vs -> Permutation.Permutation vs vs' -> NoDup (map fst es) -> NoDup (map fst vs) ->
  same_content d (set_member K_VIEWS (JObj vs') d).
Proof. exact pres_view_order. Qed.
Print Assumptions C05_json_view_order.

(* ================================================================================================ non-vacuity *)

(* the C02 example CAS (three views with BMP / astral text, a sofa byte array without id, an extended DocumentAnnotation,
   annotations behind astral characters, arrays, reserved feature names, a shared reference): all premises hold, the
   document is closed, and the id-keyed, reversed presentation of it denotes the same content *)
Example PropsJson_premises_hold :
  let s := full_schema (c_user Props.C02.ex_case) in
  match save_json std_lex s MMinimal (c_cas Props.C02.ex_case) with
  | Ok (d, c') =>
      wf_jsonb s c' = true /\ ids_distinctb s c' = true /\ refs_wfb s c' = true /\ typed_jsonb s c' = true /\
      0 < c_next_id (c_cas Props.C02.ex_case) /\
      schema_keys_okb s = true /\
      doc_ids_distinctb d = true /\ doc_refs_resolveb d = true /\ doc_ok_json std_lex s d = true /\
      initial_view_in c' = true /\ load_json std_lex s d = canon_json s c' /\
      match fs_entries d with
      | Ok es => denote_json std_lex s (set_member K_FS (dict_form (rev es)) d) = denote_json std_lex s d /\
                 doc_ok_json std_lex s (set_member K_FS (dict_form (rev es)) d) = true /\
                 load_json std_lex s (set_member K_FS (dict_form (rev es)) d) = canon_json s c'
      | _ => False end
  | _ => False
  end.
Proof. vm_compute. repeat split; reflexivity. Qed.
